/-
  C14 — "a function that receives a value list it does not own never writes into it".

  The pool discipline of Props/C14.lean is about OBJECTS (a value released too early).  This file is about LISTS: a Go
  slice is a view of a backing array, and `q := p[:0]; q = append(q, v)`, `p[i] = …`, `copy(p, …)`, `sort.Sort(p)`
  rewrite what every other holder of that array reads.  The grouped record of a view holds, per column, one list with
  the group's values; every aggregate of the statement reads it.  An in-place "optimisation" of a helper
  (`Distinguish` packing the distinct values at the head of its argument) is harmless as long as every caller passes
  a list it made itself — and corrupts a table cell the day one caller passes the record's own list (seeded change
  C14-m21: `SELECT SUM(x), COUNT(DISTINCT x), SUM(x)` over 1,1,2,3,3 gives 10, 3, 12).

  Proved here (machine-checked, all call sequences):
    * `owned_writes_preserve_shared`, `published_list_keeps_value` — over an abstract heap of lists with ownership: if
      in-place writers only ever run on lists that are not shared (fresh in the caller), every list reachable from a
      table cell / variable / syntax tree keeps its value and stays shared, for every sequence of calls (induction over
      the sequence); a list published in the middle of a sequence keeps the value it was published with;
    * `fresh_call_sites_preserve_shared` — the same for call sites as the generated facts describe them: when every
      site's argument is `fresh` (built by the caller just before the call), no run of any sequence of such sites
      changes a shared list, whatever the writers do;
    * `shared_write_counterexample` — without the discipline the property fails, with the numbers of C14-m21;
    * `list_write_facts_ok` (kernel evaluation over facts regenerated from /repo on every run): every write through
      a value-list parameter of lib/query / lib/value is in the reviewed table below, every call of an in-place
      writer passes a fresh list or the caller's own parameter (or is in the reviewed table), no function writes
      through a local that holds somebody else's list; `reviewed_list_exceptions_live` — no stale exception;
      `aggregate_functions_read_only` — the functions behind every aggregate / list function and `Distinguish` are
      present in the facts and never write through their list parameter.

  Trusted: the extractor (extract/discardfacts/listwrite.go: syntactic, flow-insensitive; ownership of the outermost
  slice only — stores into elements of an existing cell are `cells_never_overwritten`), `sync.Pool` hands a record to
  one taker.  Cross-checked dynamically: harness/cmd/c14/within.go (law same_expression_same_value_within_statement).
-/
import Csvq.Model.ListOwn
import Csvq.Lemmas.ListOwn
import Csvq.Gen.ListWriteFacts

namespace Csvq.C14Lists
open Csvq.ListOwn

/-! ## 1. The discipline -/

/-- **owned_writes_preserve_shared.**  For ALL heaps and ALL call sequences (build a list, run an in-place writer,
    read, publish) in which an in-place writer only ever runs on a list that is not shared at that moment: every list
    that is shared at the start (reachable from a table cell, a variable, a cursor row, a syntax tree) has the same
    contents at the end, and is still shared.  Whatever the writers do to the lists they are given. -/
theorem owned_writes_preserve_shared (h : Heap) (calls : List Call) (hw : WF h) (hd : Disciplined h calls) (a : Addr)
    (ha : h.shared a = true) :
    (run h calls).lists a = h.lists a ∧ (run h calls).shared a = true :=
  let r := (run_keeps calls h hw hd).2 a ha
  ⟨r.2, r.1⟩

/-- **published_list_keeps_value.**  A list that is shared after some prefix of a disciplined call sequence (e.g. a list
    the function built and then stored into a result cell) reads the same at the end of the sequence as at that
    point. -/
theorem published_list_keeps_value (h : Heap) (pre post : List Call) (hw : WF h) (hd : Disciplined h (pre ++ post))
    (a : Addr) (ha : (run h pre).shared a = true) :
    (run h (pre ++ post)).lists a = (run h pre).lists a := by
  obtain ⟨hpre, hpost⟩ := disciplined_append pre post h hd
  have hw1 := (run_keeps pre h hw hpre).1
  rw [run_append]
  exact ((run_keeps post (run h pre) hw1 hpost).2 a ha).2

/-- **fresh_call_sites_preserve_shared.**  Call sites as the regenerated facts describe them: a site whose argument is
    `fresh` builds its list and hands it to the in-place writer.  If EVERY site is fresh, then for every sequence of
    sites, every writer behaviour `f` and every start heap, each shared list keeps its contents. -/
theorem fresh_call_sites_preserve_shared (h : Heap) (sites : List Site) (hw : WF h)
    (hall : ∀ s, s ∈ sites → s.fresh = true) (a : Addr) (ha : h.shared a = true) :
    (runSites h sites).lists a = h.lists a :=
  ((runSites_keeps sites h hw hall).2 a ha).2

/-- the table cell of the seeded change: the values 1,1,2,3,3 of one group, shared -/
def cellHeap : Heap := ⟨fun a => if a = 0 then [1, 1, 2, 3, 3] else [], fun a => decide (a = 0), 1⟩

theorem cellHeap_wf : WF cellHeap := by
  intro a ha
  simp [cellHeap] at ha
  simp [cellHeap, ha]

/-- **shared_write_counterexample.**  `COUNT(DISTINCT x)` compacting the grouped record's own list: the count is 3, the
    cell now reads 1,2,3,3,3 and the second `SUM(x)` gives 12 where the first gave 10 (the output `10,3,12` of the
    seeded change C14-m21); the call sequence is not disciplined.  With the argument built by the caller (the code of
    /repo: a per-group list) the cell is untouched and the count is the same. -/
theorem shared_write_counterexample :
    let bad : Site := ⟨false, [], 0, compactedInPlace⟩
    let good : Site := ⟨true, cellHeap.lists 0, 0, compactedInPlace⟩
    sum (cellHeap.lists 0) = 10 ∧ (distinct (cellHeap.lists 0)).length = 3 ∧
    (runSites cellHeap [bad]).lists 0 = [1, 2, 3, 3, 3] ∧ sum ((runSites cellHeap [bad]).lists 0) = 12 ∧
    ¬ Disciplined cellHeap [.writeInPlace 0 compactedInPlace] ∧
    (runSites cellHeap [good]).lists 0 = [1, 1, 2, 3, 3] ∧
    ((runSites cellHeap [good]).lists 1).take 3 = distinct (cellHeap.lists 0) := by
  refine ⟨by decide, by decide, by decide, by decide, ?_, by decide, by decide⟩
  intro hd
  have h1 : cellHeap.shared 0 = false := hd.1
  exact absurd h1 (by decide)

/-- non-vacuity of `owned_writes_preserve_shared`: a disciplined sequence that does write in place (into its own list)
    and publishes the result -/
example :
    let calls := [Call.makeFresh [1, 1, 2], .writeInPlace 1 compactedInPlace, .read 0, .publish 1, .makeFresh [7], .writeInPlace 2 (fun _ => [])]
    Disciplined cellHeap calls ∧ (run cellHeap calls).lists 0 = [1, 1, 2, 3, 3] ∧ (run cellHeap calls).lists 1 = [1, 2, 2] := by
  intro calls
  have hd : Disciplined cellHeap calls := by simp [calls, Disciplined, Allowed, step, cellHeap]
  exact ⟨hd, (owned_writes_preserve_shared cellHeap calls cellHeap_wf hd 0 (by decide)).1, by decide⟩

/-- non-vacuity of `published_list_keeps_value` -/
example : (run cellHeap ([Call.makeFresh [5, 5], .publish 1] ++ [.makeFresh [9], .writeInPlace 2 (fun _ => [0])])).lists 1 = [5, 5] := by
  have hd : Disciplined cellHeap ([Call.makeFresh [5, 5], .publish 1] ++ [.makeFresh [9], .writeInPlace 2 (fun _ => [0])]) := by
    simp [Disciplined, Allowed, step, cellHeap]
  exact published_list_keeps_value cellHeap _ _ cellHeap_wf hd 1 (by decide)

/-- non-vacuity of `fresh_call_sites_preserve_shared` -/
example : (runSites cellHeap [⟨true, [3, 3, 1], 0, compactedInPlace⟩, ⟨true, [2], 0, fun _ => []⟩]).lists 0 = [1, 1, 2, 3, 3] :=
  fresh_call_sites_preserve_shared cellHeap _ cellHeap_wf (by simp) 0 (by decide)

/-! ## 2. The generated facts -/

/-- The reviewed in-place writes: (function, parameter, kind, text, why the written list is owned).  A NEW write
    through a value-list parameter is not in this table and breaks `list_write_facts_ok`. -/
def reviewedWriters : List (String × String × String × String × String) := [
  ("query.MergeRecordSetList", "list", "index", "records[idx]",
   "flow-insensitive alias: `records = list[0]` is the early-return branch (two lists, the second empty); `records[idx] = r` is in the other branch, where `records` is the list made by `make(RecordSet, recordLen)` two lines above — the parameter's lists are only read")
]

/-- The reviewed calls of in-place writers whose argument is not fresh in the caller: (caller, callee, parameter,
    argument, why the list is owned).  Empty: every call passes a list made in the caller or the caller's parameter. -/
def reviewedCalls : List (String × String × String × String × String) := []

def writeReviewed (s : ListWriteSite) : Bool :=
  reviewedWriters.any (fun r => r.1 == s.fn && r.2.1 == s.param && r.2.2.1 == s.kind && r.2.2.2.1 == s.text)

def callReviewed (c : ListCallFact) : Bool :=
  reviewedCalls.any (fun r => r.1 == c.caller && r.2.1 == c.callee && r.2.2.1 == c.param && r.2.2.2.1 == c.arg)

set_option maxRecDepth 1000000 in
/-- **list_write_facts_ok.**  Over the facts regenerated from /repo on every run: (1) every write THROUGH a value-list
    parameter or receiver (`p[i] = …`, `copy(p, …)`, `append` onto a re-slice of `p`, `append(p, …)`, `sort.*`, handing `p`
    to a callee that writes through its parameter, or to a function outside the analysed packages) is one of the
    reviewed ones; (2) every call of an in-place writer passes a list that is fresh in the caller, or the caller's own
    parameter (the caller is then an in-place writer itself, by (1)), or is reviewed; (3) no function writes through a
    local that holds a list it neither made nor received (a view's cell, a field, a callee's non-fresh result).
    Reported by vt/p_c14.py as `listwrite:<file>:<function>:<parameter>:<kind>`, `listcall:<file>:<caller>:<callee>:<origin>`,
    `listforeign:<file>:<function>:<kind>:<origin>`. -/
theorem list_write_facts_ok :
    Gen.listWriteSites.all writeReviewed = true ∧
    Gen.listWriterCalls.all (fun c => c.owned || callReviewed c) = true ∧
    Gen.listForeignWrites = [] := by
  decide

set_option maxRecDepth 1000000 in
/-- **list_param_classes_agree.**  A parameter is classified `writesInPlace` exactly when a write site is listed for
    it (the two generated lists tell one story). -/
theorem list_param_classes_agree :
    Gen.listParamFacts.all (fun p => (p.cls == "writesInPlace") == Gen.listWriteSites.any (fun s => s.fn == p.fn && s.param == p.param)) = true := by
  decide

set_option maxRecDepth 1000000 in
/-- **reviewed_list_exceptions_live.**  Every reviewed exception still matches a regenerated fact: an exception whose
    write disappeared from the code must be removed from the table (it would otherwise excuse a later write of the
    same text). -/
theorem reviewed_list_exceptions_live :
    reviewedWriters.all (fun r => Gen.listWriteSites.any (fun s => r.1 == s.fn && r.2.1 == s.param && r.2.2.1 == s.kind && r.2.2.2.1 == s.text)) = true ∧
    reviewedCalls.all (fun r => Gen.listWriterCalls.any (fun c => r.1 == c.caller && r.2.1 == c.callee && r.2.2.1 == c.param && r.2.2.2.1 == c.arg)) = true := by
  decide

set_option maxRecDepth 1000000 in
/-- **aggregate_functions_read_only.**  The functions that receive the values of a group — everything behind the
    `AggregateFunctions` map, `ListAgg`, `JsonAgg`, the user-defined aggregate entry, `Distinguish`, the key
    serialisation — are present in the facts and classified `reads` or `freshCopyFirst` (never `writesInPlace`). -/
theorem aggregate_functions_read_only :
    [("query.Count", "list"), ("query.Max", "list"), ("query.Min", "list"), ("query.Sum", "list"), ("query.Avg", "list"),
     ("query.StdEV", "list"), ("query.StdEVP", "list"), ("query.Var", "list"), ("query.VarP", "list"), ("query.Median", "list"),
     ("query.ListAgg", "list"), ("query.JsonAgg", "list"), ("query.floatList", "list"), ("query.Distinguish", "list"),
     ("query.UserDefinedFunction.ExecuteAggregate", "values"), ("query.SerializeComparisonKeys", "values"),
     ("query.NewGroupCell", "values"), ("query.NewRecord", "values"), ("query.Record.Copy", "r"), ("query.RecordSet.Copy", "r")].all
      (fun k => Gen.listParamFacts.any (fun p => p.fn == k.1 && p.param == k.2 && (p.cls == "reads" || p.cls == "freshCopyFirst"))) = true ∧
    Gen.listParamFacts.any (fun p => p.fn == "query.Distinguish" && p.cls == "freshCopyFirst") = true := by
  decide

set_option maxRecDepth 1000000 in
/-- the extractor did find the parameters (guards against vacuous fact theorems): 150 or more value-list parameters, in
    both packages, and the return summaries know the one function that hands back its argument -/
theorem list_facts_nonempty :
    150 ≤ Gen.listParamFacts.length ∧
    Gen.listParamFacts.any (fun p => p.fn == "value.CompareRowValues") = true ∧
    Gen.listReturnFacts.any (fun r => r.1 == "query.NewGroupCell" && r.2.1 == "alias:values") = true := by
  decide

/-- the fact predicates do reject the seeded shape: the write site and the call site C14-m21 adds -/
example :
    writeReviewed ⟨"utils.go", 88, "query.Distinguish", "list", "appendInPlace", "append(distinguished, v)"⟩ = false ∧
    (let c : ListCallFact := ⟨"eval.go", 656, "query.evalAggregateFunction", "query.Distinguish", "list", "list", "cell", "list <- values"⟩
     (c.owned || callReviewed c) = false) ∧
    (let c : ListCallFact := ⟨"view.go", 1219, "query.View.ListValuesForAggregateFunctions", "query.Distinguish", "list", "list", "fresh", ""⟩
     (c.owned || callReviewed c) = true) := by
  decide

end Csvq.C14Lists
