/-
  C08 — a statement that fails leaves every table exactly as it was before it ran.
  Property theorems only.  Model: the statement wrapper `stmtImpl` of Csvq.Model.Dml — the DML body works
  on COPIES obtained from the view map (ViewMap.Get → View.Copy, lib/query/view_map.go:54-59) and the results
  are published (CachedViews.Set / ReplaceTemporaryTable) and marked uncommitted only after the whole body
  succeeded (lib/query/query.go:391-395, 516-529, 685-695; processor.go:250-411).

  Value semantics: a copy is a value of the model.  That the Go code really writes only into copies is the
  subject of the correspondence stream c08 (before/after `SELECT *` of every table around every injected failure).
-/
import Csvq.Lemmas.Dml
import Csvq.Model.Skeleton
import Csvq.Gen.DmlFacts
import Csvq.Ref.DmlFacts
import Csvq.Model.CopyDepth
import Csvq.Gen.CopyFacts
import Csvq.Model.CopySites
import Csvq.Ref.CopyFacts
namespace Csvq.C08
open Csvq Csvq.Dml

/-! ## a failed statement is the identity on the state -/

/-- whatever the statement and wherever its evaluation failed: tables, uncommitted marks and committed
    state are those of before -/
theorem failed_stmt_id (s : State) (st : Stmt) (e : Err) (h : (stmtImpl s st).2 = .error e) :
    (stmtImpl s st).1 = s := by
  unfold stmtImpl at h ⊢
  cases hb : body s.tables st with
  | error e' => rfl
  | ok outs => simp [hb] at h

theorem failed_stmt_tables_marks (s : State) (st : Stmt) (e : Err) (h : (stmtImpl s st).2 = .error e) :
    (stmtImpl s st).1.tables = s.tables ∧ (stmtImpl s st).1.marks = s.marks := by
  rw [failed_stmt_id s st e h]; exact ⟨rfl, rfl⟩

/-- the statement reports an error exactly when its body fails -/
theorem stmt_error_iff (s : State) (st : Stmt) (e : Err) :
    (stmtImpl s st).2 = .error e ↔ body s.tables st = .error e := by
  unfold stmtImpl
  cases hb : body s.tables st with
  | error e' => simp
  | ok outs => simp

/-! ## every failure position: the k-th row / record may fail after the earlier ones were processed -/

/-- INSERT … VALUES: the k-th row fails to evaluate (rows before it evaluated, with the right length) -/
theorem insert_fails_at_row (s : State) (tbl : String) (fields : Option (List String))
    (src : Tables → List (Except Err Row)) (t : Table) (k : Nat) (e : Err)
    (ht : lookupT s.tables tbl = some t)
    (hk : (src s.tables)[k]? = some (.error e))
    (hbefore : ∀ i, i < k → ∃ v, (src s.tables)[i]? = some (.ok v) ∧ v.length = (fields.getD t.header).length) :
    (stmtImpl s (.insert tbl fields src)).2 = .error e ∧ (stmtImpl s (.insert tbl fields src)).1 = s := by
  have hb : body s.tables (.insert tbl fields src) = .error e := by
    simp only [body, getCopy, ht, insertImpl]
    rw [convertList_fails_at _ e _ k hk hbefore]
  have hr := (stmt_error_iff s _ e).mpr hb
  exact ⟨hr, failed_stmt_id s _ e hr⟩

/-- INSERT … VALUES: the k-th row has the wrong number of values -/
theorem insert_wrong_length_at_row (s : State) (tbl : String) (fields : Option (List String))
    (src : Tables → List (Except Err Row)) (t : Table) (k : Nat) (w : Row)
    (ht : lookupT s.tables tbl = some t)
    (hk : (src s.tables)[k]? = some (.ok w)) (hw : w.length ≠ (fields.getD t.header).length)
    (hbefore : ∀ i, i < k → ∃ v, (src s.tables)[i]? = some (.ok v) ∧ v.length = (fields.getD t.header).length) :
    (stmtImpl s (.insert tbl fields src)).2 = .error .rowLen ∧ (stmtImpl s (.insert tbl fields src)).1 = s := by
  have hb : body s.tables (.insert tbl fields src) = .error .rowLen := by
    simp only [body, getCopy, ht, insertImpl]
    rw [convertList_wrong_length_at _ _ k w hk hw hbefore]
  have hr := (stmt_error_iff s _ _).mpr hb
  exact ⟨hr, failed_stmt_id s _ _ hr⟩

theorem applySets_fails {ρ : Type} (h : List String) (id : Option Nat) (ctx : ρ) (e : Err) :
    ∀ (sets : List (SetItem ρ)) (st : UpdSt) (s : SetItem ρ), s ∈ sets → s.expr ctx = .error e →
    ∃ e', applySets h id ctx sets st = .error e' := by
  intro sets
  induction sets with
  | nil => intro st s hs; cases hs
  | cons s0 ss ih =>
    intro st s hs he
    unfold applySets
    cases hv : s0.expr ctx with
    | error e1 => exact ⟨e1, rfl⟩
    | ok v =>
      have hs' : s ∈ ss := by
        cases hs with
        | head => rw [hv] at he; cases he
        | tail _ hm => exact hm
      cases hj : colIndex h s0.field with
      | error e1 => exact ⟨e1, rfl⟩
      | ok j =>
        cases id with
        | none => exact ⟨.ambiguous, rfl⟩
        | some i =>
          simp only
          split
          · exact ⟨.ambiguous, rfl⟩
          · exact ih _ s hs' he

theorem updateLoop_fails {ρ : Type} (h : List String) (sets : List (SetItem ρ)) (e : Err) :
    ∀ (view : List (Option Nat × ρ)) (st : UpdSt) (x : Option Nat × ρ) (s : SetItem ρ),
    x ∈ view → s ∈ sets → s.expr x.2 = .error e → ∃ e', updateLoop h sets view st = .error e' := by
  intro view
  induction view with
  | nil => intro st x s hx; cases hx
  | cons y ys ih =>
    intro st x s hx hs he
    unfold updateLoop
    cases ha : applySets h y.1 y.2 sets st with
    | error e1 => exact ⟨e1, rfl⟩
    | ok st1 =>
      simp only
      rcases List.mem_cons.mp hx with hxy | hm
      · subst hxy
        obtain ⟨e', h'⟩ := applySets_fails h x.1 x.2 e sets st s hs he
        rw [h'] at ha; cases ha
      · exact ih st1 x s hm hs he

/-- UPDATE: a SET expression fails on ANY matching record (the records before it were already rewritten in
    the working copy): the statement fails … -/
theorem update_fails_at_record (cond : Row → Except Err Tern) (sets : List (SetItem Row)) (t : Table)
    (k : Nat) (r : Row) (s : SetItem Row) (e : Err)
    (hr : t.rows[k]? = some r) (hc : cond r = .ok .T) (hs : s ∈ sets) (he : s.expr r = .error e) :
    ∃ e', updateImpl cond sets t = .error e' := by
  unfold updateImpl
  cases hf : filterView cond (withIdsFrom t.rows 0) with
  | error e1 => exact ⟨e1, rfl⟩
  | ok view =>
    simp only
    obtain ⟨_, f2⟩ := filterView_ok cond _ _ hf
    have hmem : (some (0 + k), r) ∈ view := by
      rw [f2, List.mem_filter]
      refine ⟨?_, by simp [condT, hc, isT]⟩
      rw [List.mem_iff_getElem?]
      exact ⟨k, by rw [withIdsFrom_getElem?, hr]; rfl⟩
    unfold updateCore
    obtain ⟨e', h'⟩ := updateLoop_fails t.header sets e view { rows := t.rows, touched := [], ids := [] } _ s hmem hs he
    rw [h']
    exact ⟨e', rfl⟩

/-- … and leaves the state as it was -/
theorem update_failure_changes_nothing (st8 : State) (tbl : String) (cond : Row → Except Err Tern) (sets : List (SetItem Row))
    (t : Table) (k : Nat) (r : Row) (s : SetItem Row) (e : Err) (ht : lookupT st8.tables tbl = some t)
    (hr : t.rows[k]? = some r) (hc : cond r = .ok .T) (hs : s ∈ sets) (he : s.expr r = .error e) :
    ∃ e', (stmtImpl st8 (.update tbl cond sets)).2 = .error e' ∧ (stmtImpl st8 (.update tbl cond sets)).1 = st8 := by
  obtain ⟨e', h'⟩ := update_fails_at_record cond sets t k r s e hr hc hs he
  have hb : body st8.tables (.update tbl cond sets) = .error e' := by
    simp only [body, getCopy, ht, h']
  have hres := (stmt_error_iff st8 _ e').mpr hb
  exact ⟨e', hres, failed_stmt_id st8 _ e' hres⟩

/-- UPDATE / DELETE: the WHERE condition fails to evaluate on the k-th record -/
theorem where_fails_at_record (cond : Row → Except Err Tern) (sets : List (SetItem Row)) (t : Table)
    (k : Nat) (r : Row) (e : Err) (hr : t.rows[k]? = some r) (he : cond r = .error e) :
    (∃ e', updateImpl cond sets t = .error e') ∧ (∃ e', deleteImpl cond t = .error e') := by
  have hx : (withIdsFrom t.rows 0)[k]? = some (some (0 + k), r) := by rw [withIdsFrom_getElem?, hr]; rfl
  obtain ⟨e', h'⟩ := filterView_fails_at cond e (withIdsFrom t.rows 0) k _ hx he
  constructor
  · exact ⟨e', by unfold updateImpl; rw [h']⟩
  · exact ⟨e', by unfold deleteImpl; rw [h']⟩

/-- ALTER TABLE ADD: the DEFAULT expression fails at the k-th record -/
theorem default_fails_at_record (pos : ColPos) (cols : List (String × Option (Row → Except Err Cell))) (t : Table)
    (k : Nat) (r : Row) (e : Err) (hr : t.rows[k]? = some r) (he : evalDefaults r (cols.map Prod.snd) = .error e) :
    ∃ e', addColumnsImpl pos cols t = .error e' := by
  unfold addColumnsImpl
  cases hp : insertPos t.header pos with
  | error e1 => exact ⟨e1, rfl⟩
  | ok p =>
    simp only
    cases hc : checkNewNames t.header (cols.map Prod.fst) with
    | error e1 => exact ⟨e1, rfl⟩
    | ok u =>
      simp only
      obtain ⟨e', h'⟩ := addToRows_fails_at p (cols.map Prod.snd) e t.rows k r hr he
      rw [h']
      exact ⟨e', rfl⟩

/-- whatever failed inside a single-table statement, the wrapper leaves the state untouched -/
theorem body_failure_changes_nothing (s : State) (st : Stmt) (e : Err) (hb : body s.tables st = .error e) :
    (stmtImpl s st).2 = .error e ∧ (stmtImpl s st).1 = s := by
  have hr := (stmt_error_iff s st e).mpr hb
  exact ⟨hr, failed_stmt_id s st e hr⟩

/-! ## COMMIT after a failure -/

/-- a COMMIT that follows a failed statement writes exactly what a COMMIT before it would have written -/
theorem commit_after_failure_writes_nothing_partial (s : State) (st : Stmt) (e : Err)
    (h : (stmtImpl s st).2 = .error e) : commit (stmtImpl s st).1 = commit s := by
  rw [failed_stmt_id s st e h]

/-- in any history a failed statement can be dropped: the final state (hence every later COMMIT) is the same -/
theorem run_skips_failed (pre post : List Stmt) (st : Stmt) (e : Err) : ∀ (s : State),
    (stmtImpl (run s pre) st).2 = .error e → run s (pre ++ st :: post) = run s (pre ++ post) := by
  induction pre with
  | nil =>
    intro s h
    simp only [List.nil_append, run] at h ⊢
    rw [failed_stmt_id s st e h]
  | cons p ps ih =>
    intro s h
    simp only [List.cons_append, run] at h ⊢
    exact ih _ h

theorem commit_after_history_with_failure (pre post : List Stmt) (st : Stmt) (e : Err) (s : State)
    (h : (stmtImpl (run s pre) st).2 = .error e) :
    commit (run s (pre ++ st :: post)) = commit (run s (pre ++ post)) := by
  rw [run_skips_failed pre post st e s h]

/-- COMMIT writes marked tables only: the committed state of an unmarked table is untouched -/
theorem commit_unmarked_untouched (tables : Tables) (n : String) : ∀ (marks : List String) (committed : Tables),
    n ∉ marks → lookupT (commitTables tables committed marks) n = lookupT committed n := by
  intro marks
  induction marks with
  | nil => intro committed _; rfl
  | cons m ms ih =>
    intro committed hn
    unfold commitTables
    have hm : n ∉ ms := fun h => hn (List.mem_cons_of_mem _ h)
    have hne : m ≠ n := fun e => hn (by rw [e]; exact List.mem_cons_self)
    cases hl : lookupT tables m with
    | none => exact ih committed hm
    | some t =>
      simp only
      rw [ih _ hm]
      exact lookupT_setOrAdd_ne committed m n t hne

/-! ## cancellation -/

/-- a statement cancelled at ANY context check of ANY statement is the identity on tables, uncommitted marks
    and committed state, and reports an error (every check precedes the publication of the results) -/
theorem failed_stmt_id_cancel (s : State) (st : Stmt) (c : CancelPoint) :
    (stmtCancel s st c).1 = s ∧ (stmtCancel s st c).2.isError = true := by
  cases c with
  | inBody => exact ⟨rfl, rfl⟩
  | beforePublish =>
    simp only [stmtCancel]
    cases body s.tables st with
    | error e => exact ⟨rfl, rfl⟩
    | ok outs => exact ⟨rfl, rfl⟩

theorem failed_stmt_id_cancel_tables_marks (s : State) (st : Stmt) (c : CancelPoint) :
    (stmtCancel s st c).1.tables = s.tables ∧ (stmtCancel s st c).1.marks = s.marks := by
  rw [(failed_stmt_id_cancel s st c).1]; exact ⟨rfl, rfl⟩

/-- … and a COMMIT after the cancelled statement writes what a COMMIT before it would have written -/
theorem commit_after_cancel (s : State) (st : Stmt) (c : CancelPoint) :
    commit (stmtCancel s st c).1 = commit s := by
  rw [(failed_stmt_id_cancel s st c).1]

/-
  Why Delete must not look at the context inside its publication loop — facts about the loop as it was before
  the repair 2dda37b (`stmtCancelOldLoop`): a cancellation that arrived after the first table of a multi-table
  DELETE was stored returned an error with that table's records already removed and no uncommitted mark.
-/
def w1 : Table := { header := ["id"], rows := [[nullCell]] }
def wState : State := { tables := [("t1", w1), ("t2", w1)], marks := [], committed := [("t1", w1), ("t2", w1)] }
def wStmt : Stmt := .deleteMulti ["t1", "t2"] ["t1", "t2"] .cross (fun _ => .ok .T)

/-- witness for the old loop: `DELETE t1, t2 FROM t1, t2` cancelled after the first table was stored -/
theorem old_publication_loop_cancel_counterexample :
    (stmtCancelOldLoop wState wStmt 1).2.isError = true ∧
    ((stmtCancelOldLoop wState wStmt 1).1.tables.map fun e => (e.1, e.2.rows.length)) = [("t1", 0), ("t2", 1)] ∧
    (wState.tables.map fun e => (e.1, e.2.rows.length)) = [("t1", 1), ("t2", 1)] ∧
    (stmtCancelOldLoop wState wStmt 1).1.marks = [] := by
  refine ⟨?_, ?_, ?_, ?_⟩ <;> decide

/-- the same statement under the repaired code: nothing changes -/
theorem repaired_loop_on_witness :
    ((stmtCancel wState wStmt .beforePublish).1.tables.map fun e => (e.1, e.2.rows.length)) = [("t1", 1), ("t2", 1)] ∧
    (stmtCancel wState wStmt .beforePublish).2.isError = true := by
  refine ⟨?_, ?_⟩ <;> decide

theorem deleteTargets_length (ts : Tables) (froms : List String) (view : List JRow) :
    ∀ (targets : List String) (outs : List Out), deleteTargets ts froms view targets = .ok outs → outs.length = targets.length := by
  intro targets
  induction targets with
  | nil => intro outs h; simp [deleteTargets] at h; subst h; rfl
  | cons tn rest ih =>
    intro outs h
    unfold deleteTargets at h
    cases hg : getCopy ts tn with
    | error e => simp [hg] at h
    | ok t =>
      simp only [hg] at h
      cases hp : firstIdx tn froms with
      | none => simp [hp] at h
      | some p =>
        simp only [hp] at h
        cases hrest : deleteTargets ts froms view rest with
        | error e => simp [hrest] at h
        | ok outs' =>
          simp only [hrest] at h
          cases h
          simp [ih outs' hrest]

/-- the old loop was harmless exactly for statements other than a DELETE with two or more targets, and for
    those when the cancellation arrived before the first table was stored -/
theorem old_publication_loop_cancel_partial (s : State) (st : Stmt) (k : Nat) (e : Err)
    (hsafe : ∀ targets froms join cond, st = .deleteMulti targets froms join cond → k = 0 ∨ targets.length ≤ 1)
    (h : (stmtCancelOldLoop s st k).2 = .error e) : (stmtCancelOldLoop s st k).1 = s := by
  cases st with
  | deleteMulti targets froms join cond =>
    have hk := hsafe targets froms join cond rfl
    simp only [stmtCancelOldLoop] at h ⊢
    cases hb : body s.tables (.deleteMulti targets froms join cond) with
    | error e' => rfl
    | ok outs =>
      simp only [hb] at h ⊢
      have hlen : outs.length = targets.length := by
        simp only [body] at hb
        cases hj : joinedView s.tables froms join cond with
        | error e' => simp [hj] at hb
        | ok view =>
          simp only [hj] at hb
          exact deleteTargets_length _ _ _ targets outs hb
      split
      · rename_i hlt
        have hk0 : k = 0 := by
          rcases hk with h0 | h1
          · exact h0
          · omega
        subst hk0
        simp [publish]
      · rename_i hge
        simp only [hge, if_false] at h
        exact failed_stmt_id s _ e h
  | insert _ _ _ => exact failed_stmt_id s _ e h
  | replace _ _ _ _ _ => exact failed_stmt_id s _ e h
  | update _ _ _ => exact failed_stmt_id s _ e h
  | delete _ _ => exact failed_stmt_id s _ e h
  | updateMulti _ _ _ _ _ => exact failed_stmt_id s _ e h
  | addCols _ _ _ => exact failed_stmt_id s _ e h
  | dropCols _ _ => exact failed_stmt_id s _ e h
  | rename _ _ _ => exact failed_stmt_id s _ e h
  | create _ _ _ => exact failed_stmt_id s _ e h

/-! ## the statement skeletons of lib/query/query.go and processor.go, REGENERATED on every run (extract/dmlfacts)

  `stmtImpl` = body on copies → publish → mark is the shape the model ASSUMES of the Go functions.  The theorems below
  are about `Csvq.Gen.fx…`, the effect lists translated from the current source, so an edit of Insert / Update / Delete /
  Replace / CreateTable / AddColumns / DropColumns / RenameColumn / SetTableAttribute or of their cases in
  Processor.ExecuteStatement changes the definitions these theorems are about. -/

open Csvq.Skeleton in
/-- the regenerated skeletons are the reviewed ones (Ref/DmlFacts.lean) -/
theorem gen_skeletons_eq_ref :
    Csvq.Gen.fxInsert = Csvq.Ref.fxInsert ∧ Csvq.Gen.fxUpdate = Csvq.Ref.fxUpdate ∧
    Csvq.Gen.fxReplace = Csvq.Ref.fxReplace ∧ Csvq.Gen.fxDelete = Csvq.Ref.fxDelete ∧
    Csvq.Gen.fxCreateTable = Csvq.Ref.fxCreateTable ∧ Csvq.Gen.fxAddColumns = Csvq.Ref.fxAddColumns ∧
    Csvq.Gen.fxDropColumns = Csvq.Ref.fxDropColumns ∧ Csvq.Gen.fxRenameColumn = Csvq.Ref.fxRenameColumn ∧
    Csvq.Gen.fxSetTableAttribute = Csvq.Ref.fxSetTableAttribute := by decide

theorem gen_processor_cases_eq_ref :
    Csvq.Gen.fxProcInsertQuery = Csvq.Ref.fxProcInsertQuery ∧ Csvq.Gen.fxProcUpdateQuery = Csvq.Ref.fxProcUpdateQuery ∧
    Csvq.Gen.fxProcReplaceQuery = Csvq.Ref.fxProcReplaceQuery ∧ Csvq.Gen.fxProcDeleteQuery = Csvq.Ref.fxProcDeleteQuery ∧
    Csvq.Gen.fxProcCreateTable = Csvq.Ref.fxProcCreateTable ∧ Csvq.Gen.fxProcAddColumns = Csvq.Ref.fxProcAddColumns ∧
    Csvq.Gen.fxProcDropColumns = Csvq.Ref.fxProcDropColumns ∧ Csvq.Gen.fxProcRenameColumn = Csvq.Ref.fxProcRenameColumn ∧
    Csvq.Gen.fxProcSetTableAttribute = Csvq.Ref.fxProcSetTableAttribute := by decide

set_option maxRecDepth 200000 in
/-- no translated function contains a call that was not reviewed -/
theorem gen_no_unreviewed_call :
    (Csvq.Gen.fxInsert ++ Csvq.Gen.fxUpdate ++ Csvq.Gen.fxReplace ++ Csvq.Gen.fxDelete ++ Csvq.Gen.fxCreateTable ++
      Csvq.Gen.fxAddColumns ++ Csvq.Gen.fxDropColumns ++ Csvq.Gen.fxRenameColumn ++ Csvq.Gen.fxSetTableAttribute ++
      Csvq.Gen.fxProcInsertQuery ++ Csvq.Gen.fxProcUpdateQuery ++ Csvq.Gen.fxProcReplaceQuery ++ Csvq.Gen.fxProcDeleteQuery ++
      Csvq.Gen.fxProcCreateTable ++ Csvq.Gen.fxProcAddColumns ++ Csvq.Gen.fxProcDropColumns ++ Csvq.Gen.fxProcRenameColumn ++
      Csvq.Gen.fxProcSetTableAttribute ++ Csvq.Gen.fxHeaderUpdate).all (fun t => !Csvq.Skeleton.hasPrefix "call(" t) = true := by decide

/-- RestoreHeaderReferences cannot fail: it is Header.Update(name, nil), and every early return of Header.Update sits
    inside the branch guarded by `fields != nil && 0 < len(fields)` -/
theorem gen_restore_header_infallible :
    Csvq.Gen.restoreHeaderBody = "{ return view.Header.Update(FormatTableName(view.FileInfo.Path), nil) }" ∧
    Csvq.Gen.headerUpdateGuard = "fields!=nil&&0<len(fields)" ∧
    Csvq.Gen.fxHeaderUpdate = ["if{", "if{", "return", "}", "loop(fields){", "if{", "return", "}", "}", "}", "loop(h){", "if{", "}", "}", "return"] := by decide

/-- PUBLISH AFTER SUCCESS, for all nine functions: from the first replacement of a cached / temporary table on (and from
    the start of the loop that contains it) nothing can return but the final `return` — no fallible step, no look at the
    context, not even in a later iteration of a publication loop (the defects F42 and C08-m2 were exactly that) -/
theorem gen_publish_after_success :
    Csvq.Skeleton.publishAfterSuccess Csvq.Gen.fxInsert = true ∧ Csvq.Skeleton.publishAfterSuccess Csvq.Gen.fxUpdate = true ∧
    Csvq.Skeleton.publishAfterSuccess Csvq.Gen.fxReplace = true ∧ Csvq.Skeleton.publishAfterSuccess Csvq.Gen.fxDelete = true ∧
    Csvq.Skeleton.publishAfterSuccess Csvq.Gen.fxCreateTable = true ∧ Csvq.Skeleton.publishAfterSuccess Csvq.Gen.fxAddColumns = true ∧
    Csvq.Skeleton.publishAfterSuccess Csvq.Gen.fxDropColumns = true ∧ Csvq.Skeleton.publishAfterSuccess Csvq.Gen.fxRenameColumn = true ∧
    Csvq.Skeleton.publishAfterSuccess Csvq.Gen.fxSetTableAttribute = true := by decide

/-- a write INTO the FileInfo (which the working copy shares with the cached table) is followed by no step that can
    fail: after the first `write_fileinfo_field(…)` of a function nothing is evaluated, no error or context is looked at -/
def attributeWritesLast (l : List String) : Bool :=
  (l.dropWhile fun t => !Csvq.Skeleton.hasPrefix "write_fileinfo_field(" t).all fun t =>
    t != "if(err){" && t != "if(ctx){" && t != "evaluate" && !Csvq.Skeleton.hasPrefix "evaluate_each_record" t &&
      !Csvq.Skeleton.hasPrefix "call(" t

/-- ATTRIBUTES AFTER SUCCESS, for all nine functions (C08-m16 reset the delimiter positions of a fixed-length table
    BEFORE the DEFAULT expressions of ALTER TABLE … ADD were evaluated: a failing statement had then already changed
    the cached table's layout) -/
theorem gen_attribute_writes_after_success :
    attributeWritesLast Csvq.Gen.fxInsert = true ∧ attributeWritesLast Csvq.Gen.fxUpdate = true ∧
    attributeWritesLast Csvq.Gen.fxReplace = true ∧ attributeWritesLast Csvq.Gen.fxDelete = true ∧
    attributeWritesLast Csvq.Gen.fxCreateTable = true ∧ attributeWritesLast Csvq.Gen.fxAddColumns = true ∧
    attributeWritesLast Csvq.Gen.fxDropColumns = true ∧ attributeWritesLast Csvq.Gen.fxRenameColumn = true ∧
    attributeWritesLast Csvq.Gen.fxSetTableAttribute = true := by decide

/-- not vacuous: AddColumns does write an attribute, and the shape of C08-m16 is rejected -/
theorem attribute_writes_nonvacuous :
    Csvq.Gen.fxAddColumns.any (fun t => Csvq.Skeleton.hasPrefix "write_fileinfo_field(" t) = true ∧
    attributeWritesLast ["load(forUpdate=true,ids=false)", "if{", "write_fileinfo_field(DelimiterPositions)", "}",
      "evaluate_each_record{", "evaluate", "if(err){", "return", "}", "}", "set_records(view)", "publish_file(view)", "return"] = false := by decide

/-- the check is not vacuous: the publication loop of Delete before 2dda37b (context looked at inside the loop) fails it -/
theorem publish_after_success_rejects_old_delete_loop :
    Csvq.Skeleton.publishAfterSuccess
      ["load(forUpdate=true,ids=true)", "if(err){", "return", "}", "loop(viewsToDelete){", "if(ctx){", "return", "}",
       "set_records(v)", "if(inMemory){", "publish_temp(v)", "}", "else{", "if(isFile){", "publish_file(v)", "}", "}", "}", "return"] = false := by decide

set_option maxRecDepth 200000 in
/-- nothing is marked inside the query.go functions, and in processor.go every mark sits in the branch taken when the
    function returned no error, after the call -/
theorem gen_mark_only_after_success :
    (Csvq.Gen.fxInsert ++ Csvq.Gen.fxUpdate ++ Csvq.Gen.fxReplace ++ Csvq.Gen.fxDelete ++ Csvq.Gen.fxCreateTable ++
      Csvq.Gen.fxAddColumns ++ Csvq.Gen.fxDropColumns ++ Csvq.Gen.fxRenameColumn ++ Csvq.Gen.fxSetTableAttribute).all
        (fun t => !Csvq.Skeleton.isMark t) = true ∧
    ["run(Insert)", "if(ok){", "if(count>0){", "mark_updated(fileInfo)", "}"] <:+: Csvq.Gen.fxProcInsertQuery ∧
    ["run(Replace)", "if(ok){", "if(count>0){", "mark_updated(fileInfo)", "}"] <:+: Csvq.Gen.fxProcReplaceQuery ∧
    ["run(Update)", "if(ok){", "loop(infos){", "if(count>0){", "mark_updated(info)", "}"] <:+: Csvq.Gen.fxProcUpdateQuery ∧
    ["run(Delete)", "if(ok){", "loop(infos){", "if(count>0){", "mark_updated(info)", "}"] <:+: Csvq.Gen.fxProcDeleteQuery ∧
    ["run(CreateTable)", "if(ok){", "mark_created(info)"] <:+: Csvq.Gen.fxProcCreateTable ∧
    ["run(AddColumns)", "if(ok){", "mark_updated(info)"] <:+: Csvq.Gen.fxProcAddColumns ∧
    ["run(DropColumns)", "if(ok){", "mark_updated(info)"] <:+: Csvq.Gen.fxProcDropColumns ∧
    ["run(RenameColumn)", "if(ok){", "mark_updated(info)"] <:+: Csvq.Gen.fxProcRenameColumn ∧
    ["run(SetTableAttribute)", "if(ok){", "mark_updated(info)"] <:+: Csvq.Gen.fxProcSetTableAttribute := by decide

/-- the mark happens iff the table's count is positive — once per statement for INSERT / REPLACE, for EACH table inside the
    loop of the multi-table UPDATE / DELETE; exactly one mark token per case -/
theorem gen_mark_iff_count_positive :
    Csvq.Skeleton.marksGuardedBy "if(count>0){" Csvq.Gen.fxProcInsertQuery = true ∧
    Csvq.Skeleton.marksGuardedBy "if(count>0){" Csvq.Gen.fxProcReplaceQuery = true ∧
    Csvq.Skeleton.marksGuardedBy "if(count>0){" Csvq.Gen.fxProcUpdateQuery = true ∧
    Csvq.Skeleton.marksGuardedBy "if(count>0){" Csvq.Gen.fxProcDeleteQuery = true ∧
    Csvq.Skeleton.marksGuardedBy "if(ok){" Csvq.Gen.fxProcAddColumns = true ∧
    Csvq.Skeleton.marksGuardedBy "if(ok){" Csvq.Gen.fxProcDropColumns = true ∧
    Csvq.Skeleton.marksGuardedBy "if(ok){" Csvq.Gen.fxProcRenameColumn = true ∧
    Csvq.Skeleton.marksGuardedBy "if(ok){" Csvq.Gen.fxProcSetTableAttribute = true ∧
    Csvq.Skeleton.marksGuardedBy "if(ok){" Csvq.Gen.fxProcCreateTable = true ∧
    ((Csvq.Gen.fxProcUpdateQuery.filter Csvq.Skeleton.isMark).length = 1 ∧ (Csvq.Gen.fxProcDeleteQuery.filter Csvq.Skeleton.isMark).length = 1) := by decide

/-- the model marks by the same rule: `body` hands over `mark = (0 < count)` for INSERT / REPLACE / UPDATE / DELETE, per
    target table in the multi-table forms, and `mark = true` for the ALTER statements and CREATE -/
theorem model_single_table_mark_rule (ts : Tables) (outs : List Out) :
    (∀ tbl fields src, body ts (.insert tbl fields src) = .ok outs → ∀ o ∈ outs, o.mark = decide (0 < o.count)) ∧
    (∀ tbl cond sets, body ts (.update tbl cond sets) = .ok outs → ∀ o ∈ outs, o.mark = decide (0 < o.count)) ∧
    (∀ tbl cond, body ts (.delete tbl cond) = .ok outs → ∀ o ∈ outs, o.mark = decide (0 < o.count)) ∧
    (∀ tbl pos cols, body ts (.addCols tbl pos cols) = .ok outs → ∀ o ∈ outs, o.mark = true) ∧
    (∀ tbl cols, body ts (.dropCols tbl cols) = .ok outs → ∀ o ∈ outs, o.mark = true) ∧
    (∀ tbl old new, body ts (.rename tbl old new) = .ok outs → ∀ o ∈ outs, o.mark = true) := by
  refine ⟨?_, ?_, ?_, ?_, ?_, ?_⟩
  · intro tbl fields src hk o ho
    simp only [body] at hk
    cases hg : getCopy ts tbl with
    | error e => simp [hg] at hk
    | ok t =>
      simp only [hg] at hk
      split at hk
      · cases hk
      · cases hk; simp at ho; subst ho; rfl
  · intro tbl cond sets hk o ho
    simp only [body] at hk
    cases hg : getCopy ts tbl with
    | error e => simp [hg] at hk
    | ok t =>
      simp only [hg] at hk
      split at hk
      · cases hk
      · cases hk; simp at ho; subst ho; rfl
  · intro tbl cond hk o ho
    simp only [body] at hk
    cases hg : getCopy ts tbl with
    | error e => simp [hg] at hk
    | ok t =>
      simp only [hg] at hk
      split at hk
      · cases hk
      · cases hk; simp at ho; subst ho; rfl
  · intro tbl pos cols hk o ho
    simp only [body] at hk
    cases hg : getCopy ts tbl with
    | error e => simp [hg] at hk
    | ok t =>
      simp only [hg] at hk
      split at hk
      · cases hk
      · cases hk; simp at ho; subst ho; rfl
  · intro tbl cols hk o ho
    simp only [body] at hk
    cases hg : getCopy ts tbl with
    | error e => simp [hg] at hk
    | ok t =>
      simp only [hg] at hk
      split at hk
      · cases hk
      · cases hk; simp at ho; subst ho; rfl
  · intro tbl old new hk o ho
    simp only [body] at hk
    cases hg : getCopy ts tbl with
    | error e => simp [hg] at hk
    | ok t =>
      simp only [hg] at hk
      split at hk
      · cases hk
      · cases hk; simp at ho; subst ho; rfl

theorem model_multi_table_mark_rule (ts : Tables) (froms : List String) (view : List JRow) :
    (∀ (targets : List String) (outs : List Out), deleteTargets ts froms view targets = .ok outs →
      ∀ o ∈ outs, o.mark = decide (0 < o.count)) ∧
    (∀ (sets : List (String × SetItem (List Row))) (targets : List String) (outs : List Out),
      updateTargets ts froms view sets targets = .ok outs → ∀ o ∈ outs, o.mark = decide (0 < o.count)) := by
  constructor
  · intro targets
    induction targets with
    | nil => intro outs h o ho; simp [deleteTargets] at h; subst h; cases ho
    | cons tn rest ih =>
      intro outs h o ho
      unfold deleteTargets at h
      cases hg : getCopy ts tn with
      | error e => simp [hg] at h
      | ok t =>
        simp only [hg] at h
        cases hp : firstIdx tn froms with
        | none => simp [hp] at h
        | some p =>
          simp only [hp] at h
          cases hrest : deleteTargets ts froms view rest with
          | error e => simp [hrest] at h
          | ok outs' =>
            simp only [hrest] at h
            cases h
            cases ho with
            | head => rfl
            | tail _ hm => exact ih outs' hrest o hm
  · intro sets targets
    induction targets with
    | nil => intro outs h o ho; simp [updateTargets] at h; subst h; cases ho
    | cons tn rest ih =>
      intro outs h o ho
      unfold updateTargets at h
      cases hg : getCopy ts tn with
      | error e => simp [hg] at h
      | ok t =>
        simp only [hg] at h
        cases hp : firstIdx tn froms with
        | none => simp [hp] at h
        | some p =>
          simp only [hp] at h
          split at h
          · cases h
          · cases hrest : updateTargets ts froms view sets rest with
            | error e => simp [hrest] at h
            | ok outs' =>
              simp only [hrest] at h
              cases h
              cases ho with
              | head => rfl
              | tail _ hm => exact ih outs' hrest o hm

/-- the operation lock is taken before the load and given back by `defer` in all eight locking functions -/
theorem gen_lock_released :
    (["lock", "if(err){", "return", "}", "defer:unlock", "load(forUpdate=true,ids=false)"] <:+: Csvq.Gen.fxInsert) ∧
    (["lock", "if(err){", "return", "}", "defer:unlock", "load(forUpdate=true,ids=true)"] <:+: Csvq.Gen.fxUpdate) ∧
    (["lock", "if(err){", "return", "}", "defer:unlock", "load(forUpdate=true,ids=false)"] <:+: Csvq.Gen.fxReplace) ∧
    (["lock", "if(err){", "return", "}", "defer:unlock", "load(forUpdate=true,ids=true)"] <:+: Csvq.Gen.fxDelete) ∧
    (["lock", "if(err){", "return", "}", "defer:unlock", "load(forUpdate=true,ids=false)"] <:+: Csvq.Gen.fxAddColumns) ∧
    (["lock", "if(err){", "return", "}", "defer:unlock", "load(forUpdate=true,ids=false)"] <:+: Csvq.Gen.fxDropColumns) ∧
    (["lock", "if(err){", "return", "}", "defer:unlock", "load(forUpdate=true,ids=false)"] <:+: Csvq.Gen.fxRenameColumn) ∧
    (["lock", "if(err){", "return", "}", "defer:unlock", "load(forUpdate=true,ids=false)"] <:+: Csvq.Gen.fxSetTableAttribute) := by decide

/-- CREATE TABLE: once the handler of the new file exists, every error return is directly preceded by closing
    (= removing) it; the handler is acquired once, and nothing acquires anything between it and the publication except
    through those guarded returns (a new early return without the release — seed C08-m9 — breaks this) -/
theorem gen_create_releases_handler :
    Csvq.Skeleton.releasedOnEveryError "create_handler" "close_handler" Csvq.Gen.fxCreateTable = true ∧
    (Csvq.Gen.fxCreateTable.filter (· == "create_handler")).length = 1 ∧
    (Csvq.Gen.fxCreateTable.filter (· == "lock")).length = 0 := by decide

/-- not vacuous: a return after the handler was created that does not close it is rejected -/
theorem release_check_rejects_missing_close :
    Csvq.Skeleton.releasedOnEveryError "create_handler" "close_handler"
      ["new_fileinfo", "if(err){", "return", "}", "create_handler", "if(err){", "return", "}", "lock", "if(err){", "return", "}",
       "set_fileinfo(view)", "publish_file(view)", "return"] = false := by decide

/-- the functions evaluate on what the load returned or on further copies, never on the cached view itself: the only
    writes are cell / record-set / header replacements of `view` (the load's copy) or of the `get_copy` views, and no
    write goes INTO a cell (cells are shared between a copy and the cached table); the one write into the FileInfo, which
    IS shared (AddColumns resetting the delimiter positions of a fixed-length table, F99), comes after every step that can
    fail: `gen_attribute_writes_after_success` -/
theorem gen_writes_go_to_copies :
    Csvq.Skeleton.writes Csvq.Gen.fxUpdate = ["write_cell(viewsToUpdate[viewref])"] ∧
    Csvq.Skeleton.writes Csvq.Gen.fxDelete = ["set_records(v)"] ∧
    Csvq.Skeleton.writes Csvq.Gen.fxAddColumns = ["set_header(view)", "set_records(view)", "write_fileinfo_field(DelimiterPositions)"] ∧
    Csvq.Skeleton.writes Csvq.Gen.fxRenameColumn = ["write_header(view)"] ∧
    Csvq.Skeleton.writes Csvq.Gen.fxInsert = [] ∧ Csvq.Skeleton.writes Csvq.Gen.fxReplace = [] ∧
    Csvq.Skeleton.writes Csvq.Gen.fxDropColumns = [] ∧ Csvq.Skeleton.writes Csvq.Gen.fxSetTableAttribute = [] ∧
    (["get_copy", "}", "else{", "get_copy", "if(err){", "return", "}", "}", "header_update(viewsToUpdate[viewKey])"] <:+: Csvq.Gen.fxUpdate) ∧
    (["get_copy", "}", "else{", "get_copy", "if(err){", "return", "}", "}", "header_update(viewsToDelete[viewKey])"] <:+: Csvq.Gen.fxDelete) := by decide

/-! ## HOW DEEP the copies are (extract/copyfacts → Gen/CopyFacts, REGENERATED on every run; Model/CopyDepth)

  `gen_writes_go_to_copies` says that the functions write into views obtained from `ViewMap.Get` (`get_copy`) or from the
  load.  That only helps if such a view shares with the cached table nothing that is written.  The copy facts state, for
  every copy function, how every level of its result is obtained; `CopyDepth.problems` follows them from the accessor
  down to a level and lists the facts that make the level shared.  Seeds of this class: C08-m15 (RecordSet.Copy took the
  tail of a large table over with the builtin copy()), C05-m1 / C08-m1 (a write INTO a cell), C20-m17 (ViewMap.Get handed
  out the cached view itself for tables without records); genuine defect F106 (Header.Copy shared the alias lists). -/

section CopyDepth
open Csvq.CopyDepth Csvq.CopySites
set_option maxRecDepth 100000

/-- EVERY LEVEL WRITTEN IS FRESH IN THE COPY: every level that an effect of the regenerated DML skeletons writes
    (write_cell → the record's array of cells, write_header → the header's array, set_records / set_header /
    set_select_fields / set_fileinfo → the View struct), and every level written by an assignment found by type in those
    functions and in the View / Header / RecordSet / Record methods they call (View.insert, View.replace, View.Fix,
    View.filter, Header.Update, …), is the copy's own in the regenerated copy facts of `ViewMap.Get` — except the FileInfo,
    which is shared by design -/
theorem copies_independent_at_written_levels :
    (∀ l ∈ writtenLevels allDmlEffects, l = Level.fileInfo ∨ levelFresh Csvq.Gen.copyFacts accessor l = true) ∧
    (∀ o ∈ typedWrittenLevels Csvq.Gen.dmlWrites, ∃ l, o = some l ∧ (l = Level.fileInfo ∨ levelFresh Csvq.Gen.copyFacts accessor l = true)) ∧
    sharedWrittenSites Csvq.Gen.copyFacts allDmlEffects Csvq.Gen.dmlWrites = [] := by
  refine ⟨by decide, ?_, by decide⟩
  intro o ho
  have h : (typedWrittenLevels Csvq.Gen.dmlWrites).all (fun o => match o with
      | some l => decide (l = Level.fileInfo) || levelFresh Csvq.Gen.copyFacts accessor l
      | none => false) = true := by decide
  have := List.all_eq_true.mp h o ho
  cases o with
  | none => simp at this
  | some l =>
    refine ⟨l, rfl, ?_⟩
    simp only [Bool.or_eq_true, decide_eq_true_eq] at this
    exact this

/-- THE REVIEWED DEPTH of the working copy a statement gets from `ViewMap.Get`: its own down to the arrays of cells —
    the View struct, the header's array, the alias lists, the array of records, every record's array of cells —; SHARED BY
    DESIGN with the cached table: the arrays behind the cells (a Cell is a slice header that Record.Copy takes over:
    a cell is replaced, never written into), the value objects (immutable: lib/value hands out new objects, C14), and the
    FileInfo (attributes, handler, restore point: one per table and transaction) -/
theorem gen_copy_depth_reviewed :
    depthProblems Csvq.Gen.copyFacts = [] ∧
    allLevels.map (fun l => (l, levelFresh Csvq.Gen.copyFacts accessor l)) =
      [(.viewStruct, true), (.headerArray, true), (.aliasArray, true), (.recordSetArray, true), (.recordArray, true),
       (.cellArray, false), (.valueObject, false), (.fileInfo, false)] ∧
    -- the three shared levels are shared at exactly one place each
    levelProblems Csvq.Ref.copyFacts accessor .cellArray =
      ["Record.Copy at record.go: level [*] is the SAME value as r[i] of the original [loop 0..len(r)]"] ∧
    levelProblems Csvq.Ref.copyFacts accessor .fileInfo =
      ["View.Copy at view.go: level .FileInfo is the SAME value as view.FileInfo of the original"] := by decide

/-- the other accessors hand out copies of the same depth where it matters: the temporary-table accessors go through
    ViewMap.Get / GetWithInternalId, and GetWithInternalId (UPDATE / DELETE load their joined view with it) returns a
    View.Copy whose records were replaced by new arrays (id cell + the old cells).  (Its alias lists are not ESTABLISHED
    as its own: Header.Merge takes the elements of the copy's header over — one step more than the facts follow; no
    data-changing function writes them.) -/
theorem gen_accessors_hand_out_copies :
    [Level.viewStruct, .headerArray, .recordSetArray, .recordArray].all (fun l =>
      levelFresh Csvq.Gen.copyFacts "ViewMap.GetWithInternalId" l &&
      levelFresh Csvq.Gen.copyFacts "ReferenceScope.GetTemporaryTable" l &&
      levelFresh Csvq.Gen.copyFacts "ReferenceScope.GetTemporaryTableWithInternalId" l) = true ∧
    levelFresh Csvq.Gen.copyFacts "ReferenceScope.GetTemporaryTable" .aliasArray = true := by decide

/-- the regenerated copy facts are the reviewed ones (line numbers aside): any edit of a Copy / Clone / copy… function, of
    ViewMap.Get / GetWithInternalId, NewCell, NewReferenceRecord, of a FileInfo struct copy, or a NEW function of that kind,
    and any new write into a part of a view by the data-changing functions, is an undischarged obligation until reviewed -/
theorem gen_copy_facts_eq_ref :
    Csvq.Gen.copyFacts.map (fun f => { f with site := f.file }) = Csvq.Ref.copyFacts ∧
    Csvq.Gen.copyFunctions = Csvq.Ref.copyFunctions ∧
    Csvq.Gen.dmlWrites.map (fun w => { w with site := w.file }) = Csvq.Ref.dmlWrites ∧
    Csvq.Gen.fileInfoCopies.map (fun w => { w with site := w.file }) = Csvq.Ref.fileInfoCopies ∧
    Csvq.Gen.fileInfoInstalls.map (fun w => { w with site := w.file }) = Csvq.Ref.fileInfoInstalls := by decide

/-! ### not vacuous: the shapes of the known defects of this class are rejected, with the site named -/

/-- C08-m15: RecordSet.Copy copies full blocks in goroutines and takes the records behind the last full block over with the
    builtin copy() — those records are the cached table's own arrays of cells -/
def m15RecordSetCopy : List Fact :=
  [⟨"RecordSet.Copy", "record.go", "record.go:22",1, "blocks<2", [], .fresh "make(RecordSet,len(r))", "", false, "", ""⟩,
   ⟨"RecordSet.Copy", "record.go", "record.go:27",1, "blocks<2", ["[*]"], .call "Record.Copy", "loop", true, "0..len(r)", ""⟩,
   ⟨"RecordSet.Copy", "record.go", "record.go:22",2, "", [], .fresh "make(RecordSet,len(r))", "", false, "", ""⟩,
   ⟨"RecordSet.Copy", "record.go", "record.go:38",2, "", ["[*]"], .call "Record.Copy", "goroutine_loop", false, "start..end", ""⟩,
   ⟨"RecordSet.Copy", "record.go", "record.go:44",2, "", ["[*]"], .same "r[*]", "builtin_copy", false,
     "records[blocks*MinimumRequiredPerCPUCore:]<-r[blocks*MinimumRequiredPerCPUCore:]", ""⟩]

theorem rejects_tail_taken_over_by_builtin_copy :
    levelFresh (withFn Csvq.Ref.copyFacts "RecordSet.Copy" m15RecordSetCopy) accessor .recordArray = false ∧
    levelProblems (withFn Csvq.Ref.copyFacts "RecordSet.Copy" m15RecordSetCopy) accessor .recordArray =
      ["RecordSet.Copy: no statement fills level [*] over the whole length (record.go:38 goroutine_loop start..end; record.go:44 builtin_copy records[blocks*MinimumRequiredPerCPUCore:]<-r[blocks*MinimumRequiredPerCPUCore:])",
       "RecordSet.Copy at record.go:44: level [*] is the SAME value as r[*] of the original [builtin_copy records[blocks*MinimumRequiredPerCPUCore:]<-r[blocks*MinimumRequiredPerCPUCore:]]"] ∧
    (sharedWrittenSites (withFn Csvq.Ref.copyFacts "RecordSet.Copy" m15RecordSetCopy) ["write_cell(viewsToUpdate[viewref])"] []).isEmpty = false ∧
    (sharedWrittenSites (withFn Csvq.Ref.copyFacts "RecordSet.Copy" m15RecordSetCopy) [] Csvq.Ref.dmlWrites).isEmpty = false ∧
    -- a loop that stops early is rejected as well, although nothing is shared: the copy is not complete
    levelFresh (withFn Csvq.Ref.copyFacts "RecordSet.Copy"
      [⟨"RecordSet.Copy", "x", "x",1, "", [], .fresh "make", "", false, "", ""⟩,
       ⟨"RecordSet.Copy", "x", "x",1, "", ["[*]"], .call "Record.Copy", "loop", false, "0..len(r)-1", ""⟩]) accessor .recordArray = false := by decide

/-- F106 (fixed in 8074f73): Header.Copy copied the HeaderField structs and with them the slice headers of their alias lists -/
theorem rejects_shared_alias_lists :
    levelProblems (withFn Csvq.Ref.copyFacts "Header.Copy"
      [⟨"Header.Copy", "header.go", "header.go:303",1, "", [], .fresh "make(Header,h.Len())", "", false, "", ""⟩,
       ⟨"Header.Copy", "header.go", "header.go:305",1, "", ["[*]"], .same "h[i]", "loop", true, "0..len(h)", ""⟩]) accessor .aliasArray =
      ["Header.Copy at header.go:305: level [*] is the SAME value as h[i] of the original [loop 0..len(h)]"] ∧
    (depthProblems (withFn Csvq.Ref.copyFacts "Header.Copy"
      [⟨"Header.Copy", "header.go", "header.go:303", 1, "", [], .fresh "make(Header,h.Len())", "", false, "", ""⟩,
       ⟨"Header.Copy", "header.go", "header.go:305", 1, "", ["[*]"], .same "h[i]", "loop", true, "0..len(h)", ""⟩])).isEmpty = false ∧
    levelFresh (withFn Csvq.Ref.copyFacts "Header.Copy"
      [⟨"Header.Copy", "header.go", "header.go:303",1, "", [], .fresh "make(Header,h.Len())", "", false, "", ""⟩,
       ⟨"Header.Copy", "header.go", "header.go:305",1, "", ["[*]"], .same "h[i]", "loop", true, "0..len(h)", ""⟩]) accessor .headerArray = true := by decide

/-- C20-m17: ViewMap.Get returns the cached view itself when the table has no records: every level is the cached table's -/
theorem rejects_accessor_returning_the_cached_view :
    allLevels.map (fun l => levelFresh (withFn Csvq.Ref.copyFacts "ViewMap.Get"
      [⟨"ViewMap.Get", "view_map.go", "view_map.go:54",1, "ok&&view.RecordLen()<1", [], .same "m.Load(identifier)", "", false, "", ""⟩,
       ⟨"ViewMap.Get", "view_map.go", "view_map.go:59",2, "ok", [], .call "View.Copy", "", false, "", ""⟩,
       ⟨"ViewMap.Get", "view_map.go", "view_map.go:61",3, "", [], .nil, "", false, "", ""⟩]) accessor l) =
      [false, false, false, false, false, false, false, false] := by decide

/-- C05-m1 / C08-m1: a write INTO a cell needs the cell's own array of values, which no copy has -/
theorem rejects_write_into_cell :
    (sharedWrittenSites Csvq.Ref.copyFacts ["write_into_shared_cell(viewsToUpdate[viewref])"] []).isEmpty = false ∧
    (sharedWrittenSites Csvq.Ref.copyFacts [] [⟨"Update", "query.go", "query.go:521", "v.RecordSet[i][j][0]", "cellArray"⟩]).isEmpty = false ∧
    -- and the reviewed facts themselves pass: the witnesses differ from them in the named function only
    sharedWrittenSites Csvq.Ref.copyFacts ["write_cell(v)", "set_records(v)", "write_header(v)"] Csvq.Ref.dmlWrites = [] := by decide

end CopyDepth

/-- LOADING after a cache hit: `loadObjectFromFile` hands out copies and registers the alias; it never disposes a cached
    view, closes a handler or defers anything — so a statement that fails during loading (duplicate table name in FROM,
    a missing second table, cancellation while internal ids are attached) cannot throw away the uncommitted changes an
    earlier statement left in the cache (seed C08-m13 added exactly such a deferred dispose) -/
theorem gen_load_never_disposes :
    Csvq.Gen.fxLoadObjectFromFile = Csvq.Ref.fxLoadObjectFromFile ∧
    Csvq.Gen.fxLoadObjectFromFile.all (fun t => !(Csvq.Skeleton.hasPrefix "dispose" t || Csvq.Skeleton.hasPrefix "defer:" t ||
      Csvq.Skeleton.hasPrefix "close_handler" t || Csvq.Skeleton.hasPrefix "publish_" t || Csvq.Skeleton.hasPrefix "call(" t)) = true ∧
    Csvq.Gen.fxLoadObjectFromFile.head? = some "cache_load" := by decide

/-- the model's counterpart: a statement whose body fails while it fetches its copies (`getCopy` / `getCopies` /
    `joinedView`: unknown table) returns the state it was given, uncommitted changes of earlier statements included -/
theorem load_failure_keeps_uncommitted_changes (s : State) (pre : Stmt) (st : Stmt) (e : Err)
    (h : (stmtImpl (stmtImpl s pre).1 st).2 = .error e) :
    (stmtImpl (stmtImpl s pre).1 st).1 = (stmtImpl s pre).1 :=
  failed_stmt_id _ st e h

/-- e.g. a multi-table statement whose FROM names a table that does not exist fails in `getCopies`, whatever came before -/
theorem multi_table_missing_from_fails (ts : Tables) (targets froms : List String) (join : Join) (cond : List Row → Except Err Tern)
    (sets : List (String × SetItem (List Row))) (n : String) (hn : n ∈ froms) (hmiss : lookupT ts n = none) :
    body ts (.updateMulti targets froms join cond sets) = .error .noTable ∧
    body ts (.deleteMulti targets froms join cond) = .error .noTable := by
  have hc : getCopies ts froms = .error .noTable := by
    induction froms with
    | nil => cases hn
    | cons f fs ih =>
      unfold getCopies
      by_cases hf : f = n
      · subst hf; simp [getCopy, hmiss]
      · have hn' : n ∈ fs := by
          cases hn with
          | head => exact absurd rfl hf
          | tail _ h => exact h
        cases hl : lookupT ts f with
        | none => simp [getCopy, hl]
        | some t => simp [getCopy, hl, ih hn']
  constructor <;> simp [body, joinedView, hc]

/-! ## non-vacuity -/

def c (i : Int) : Cell :=
  { raw := .int i, int? := some i, flt? := none, dt? := none, bool? := none, strU? := none, tern := .U }
def tA : Table := { header := ["id", "a"], rows := [[c 0, c 5], [c 1, c 6], [c 2, c 7]] }
def sA : State := { tables := [("t", tA)], marks := [], committed := [("t", tA)] }
/-- `1 / (id - k)` -/
def divAt (k : Int) : Row → Except Err Cell := fun r =>
  match r[0]? with
  | some x => (match x.int? with | some i => if i = k then .error .divZero else .ok (c (1 / (i - k))) | none => .ok nullCell)
  | none => .error .fieldNotExist
def allRows : Row → Except Err Tern := fun _ => .ok .T
def shape (s : State) : List (String × List (List (Option Int))) × List String :=
  (s.tables.map fun e => (e.1, e.2.rows.map fun r => r.map fun x => x.int?), s.marks)

-- UPDATE t SET a = 1 / (id - k): fails at the first, a middle and the last record; nothing changes
example : (stmtImpl sA (.update "t" allRows [⟨"a", divAt 0⟩])).2.isError = true := by decide
example : (stmtImpl sA (.update "t" allRows [⟨"a", divAt 1⟩])).2.isError = true := by decide
example : (stmtImpl sA (.update "t" allRows [⟨"a", divAt 2⟩])).2.isError = true := by decide
example : shape (stmtImpl sA (.update "t" allRows [⟨"a", divAt 2⟩])).1 = shape sA := by decide
-- … while the same statement with no failing record does change the table and marks it
example : shape (stmtImpl sA (.update "t" allRows [⟨"a", divAt 5⟩])).1 =
    ([("t", [[some 0, some 0], [some 1, some 0], [some 2, some 0]])], ["t"]) := by decide
-- a COMMIT after the failure leaves the committed state; after the success it writes the new table
example : ((commit (stmtImpl sA (.update "t" allRows [⟨"a", divAt 1⟩])).1).committed.map fun e =>
    (e.1, e.2.rows.map fun r => r.map fun x => x.int?)) = [("t", [[some 0, some 5], [some 1, some 6], [some 2, some 7]])] := by decide
example : ((commit (stmtImpl sA (.update "t" allRows [⟨"a", divAt 5⟩])).1).committed.map fun e =>
    (e.1, e.2.rows.map fun r => r.map fun x => x.int?)) = [("t", [[some 0, some 0], [some 1, some 0], [some 2, some 0]])] := by decide

end Csvq.C08
