/-
  C16 — a cursor walks a snapshot of its query taken at OPEN, with exact positioning.
  Property theorems only (vocabulary and helper lemmas: Csvq/Lemmas/Cursor.lean).
  Every theorem quantifies over ALL row lists, pointers, offsets and operation histories.
-/
import Csvq.Lemmas.Cursor
namespace Csvq.C16
open Csvq Csvq.Cursor

/-! ## T-gen: the hand model IS the code of lib/query/cursor.go (regenerated on every run) -/

/-- `(*Cursor).Fetch`, translated from the Go source, computes exactly the model's `fetch` -/
theorem gen_fetch_eq_model {α} (rows : List α) (index : Int) (fetched : Bool) (p : Pos) :
    interpFetch rows (Gen.CursorFetch.fetch false p.tok p.number index (recordLen rows) fetched)
      = (CState.opened rows index fetched).fetch p := by
  have hg : Gen.CursorFetch.fetch false p.tok p.number index (recordLen rows) fetched
      = if moveIndex p index (recordLen rows) < 0 then .noRow (-1) true
        else if recordLen rows ≤ moveIndex p index (recordLen rows) then .noRow (recordLen rows) true
        else .row (moveIndex p index (recordLen rows)) true := by
    cases p <;> cases fetched <;> simp [Gen.CursorFetch.fetch, moveIndex, Pos.tok, Pos.number] <;> rfl
  rw [hg]
  show _ = if moveIndex p index (recordLen rows) < 0 then _ else _
  split
  · rfl
  · split <;> rfl

theorem gen_fetch_closed {α} (rows : List α) (t : Gen.CursorFetch.PosTok) (n i l : Int) (f : Bool) (p : Pos) :
    interpFetch rows (Gen.CursorFetch.fetch true t n i l f) = (CState.closed : CState α).fetch p := by
  simp [Gen.CursorFetch.fetch, CState.fetch, interpFetch]

theorem gen_isInRange_eq_model {α} (rows : List α) (index : Int) (fetched : Bool) :
    interpRange (Gen.CursorFetch.isInRange false index (recordLen rows) fetched)
      = (CState.opened rows index fetched).isInRange
    ∧ interpRange (Gen.CursorFetch.isInRange true index (recordLen rows) fetched)
      = (CState.closed : CState α).isInRange := by
  cases fetched <;> simp [Gen.CursorFetch.isInRange, CState.isInRange, interpRange, Bool.decide_and]

theorem gen_count_eq_model {α} (rows : List α) (index : Int) (fetched : Bool) :
    interpCount (Gen.CursorFetch.count false (recordLen rows)) = (CState.opened rows index fetched).count
    ∧ interpCount (Gen.CursorFetch.count true (recordLen rows)) = (CState.closed : CState α).count := by
  simp [Gen.CursorFetch.count, CState.count, interpCount]

/-- Open refuses an open cursor and resets the pointer to −1 / not fetched; Close drops the view -/
theorem gen_open_close_facts :
    Gen.CursorFetch.openGuards = ["c.isPseudo => NewPseudoCursorError", "c.view != nil => NewCursorOpenError", "err != nil => err"]
    ∧ Gen.CursorFetch.openAssigns = ["view = view", "index = -1", "fetched = false"]
    ∧ Gen.CursorFetch.closeGuards = ["c.isPseudo => NewPseudoCursorError"]
    ∧ Gen.CursorFetch.closeAssigns = ["view = nil", "index = 0", "fetched = false"] := by
  decide

/-! ## one FETCH: pointer invariant and positioning -/

/-- whatever the pointer was, after a FETCH it lies in [−1, len] (this is what the clamping ifs do) -/
theorem fetch_reestablishes_inv {α} (rows : List α) (index : Int) (f : Bool) (p : Pos)
    (c' : CState α) (r : Option α) (h : (CState.opened rows index f).fetch p = .ok (c', r)) : PtrInv c' := by
  rcases fetch_cases rows index f p _ rfl with ⟨_, h'⟩ | ⟨_, _, h'⟩ | ⟨h0, h1, h'⟩ <;>
    rw [h'] at h <;> injection h with h <;> injection h with h _ <;> subst h <;>
    simp only [PtrInv, recordLen] at * <;> omega

/-
  FULL STATEMENT (the manual's FETCH; FALSE for the current code — see `fetch_spec_counterexample`):

  theorem fetch_spec (rows : List α) (index : Int) (f : Bool) (p : Pos)
      (hinv : -1 ≤ index ∧ index ≤ rows.length) (hlen : LenOK rows) (hn : inI64 p.number) :
      (CState.opened rows index f).fetch p = .ok (specFetch rows index p)

  i.e. the row returned is rows[target] iff 0 ≤ target < len, where target is the mathematical
  (unbounded) position addressed; otherwise nothing is returned and the pointer rests at −1 / len.
  `c.index + number` in (*Cursor).Fetch is a Go `int` addition: for RELATIVE it wraps around.
-/

/-- FETCH RELATIVE with an offset for which `index + number` leaves int64: the pointer lands on the
    wrong side.  Two rows, pointer on the second row, `FETCH RELATIVE 9223372036854775807`: the
    manual's semantics rests after the last row (index 2); the code rests before the first (−1), so
    the next FETCH NEXT returns the first row again.  Reproduced on the real code (finding F9). -/
theorem fetch_spec_counterexample :
    ∃ (rows : List Nat) (index : Int) (p : Pos),
      (-1 ≤ index ∧ index ≤ rows.length) ∧ LenOK rows ∧ inI64 p.number ∧
      (CState.opened rows index true).fetch p ≠ .ok (specFetch rows index p) ∧
      (CState.opened rows index true).fetch p = .ok (.opened rows (-1) true, none) ∧
      specFetch rows index p = (.opened rows 2 true, none) :=
  ⟨[10, 20], 1, .relative 9223372036854775807, by decide, by decide, by decide, by decide, by decide, by decide⟩

/-- the same on the other side: from before-the-first, `FETCH RELATIVE −9223372036854775808` rests
    AFTER the last row (the next FETCH PRIOR returns the last row) -/
theorem fetch_spec_counterexample_neg :
    ∃ (rows : List Nat) (p : Pos),
      LenOK rows ∧ inI64 p.number ∧
      (CState.opened rows (-1) false).fetch p = .ok (.opened rows 2 true, none) ∧
      specFetch rows (-1) p = (.opened rows (-1) true, none) :=
  ⟨[10, 20], .relative (-9223372036854775808), by decide, by decide, by decide, by decide⟩

/-- FETCH does what the manual says whenever the Go addition does not overflow
    (always for NEXT / PRIOR / FIRST / LAST / ABSOLUTE n, any n) -/
theorem fetch_spec_partial {α} (rows : List α) (index : Int) (f : Bool) (p : Pos)
    (hinv : -1 ≤ index ∧ index ≤ rows.length) (hlen : LenOK rows) (hno : NoOverflow p index) :
    (CState.opened rows index f).fetch p = .ok (specFetch rows index p) := by
  have hm := moveIndex_eq_target rows index p hinv hlen hno
  unfold specFetch
  rcases fetch_cases rows index f p _ hm with ⟨h0, h'⟩ | ⟨h0, h1, h'⟩ | ⟨h0, h1, h'⟩ <;> rw [h'] <;>
    simp only [recordLen] at * <;> unfold clamp
  · have : ¬ (0 ≤ target p index rows.length) := by omega
    simp [h0, this]
  · have h2 : ¬ (target p index rows.length < (rows.length : Int)) := by omega
    have h3 : ¬ (target p index rows.length < -1) := by omega
    by_cases h4 : (rows.length : Int) < target p index rows.length
    · simp [h2, h3, h4]
    · have : target p index rows.length = rows.length := by omega
      simp [h2, h3, h4, this]
  · have h3 : ¬ (target p index rows.length < -1) := by omega
    have h4 : ¬ ((rows.length : Int) < target p index rows.length) := by omega
    simp [h0, h1, h3, h4]

/-- the overflow is the ONLY way the code departs from the manual: for an int64 offset, FETCH RELATIVE
    agrees with the specification if and only if `index + n` fits int64 -/
theorem fetch_relative_spec_iff_no_overflow {α} (rows : List α) (index n : Int) (f : Bool)
    (hinv : -1 ≤ index ∧ index ≤ rows.length) (hlen : LenOK rows) (hn : inI64 n) :
    (CState.opened rows index f).fetch (.relative n) = .ok (specFetch rows index (.relative n))
      ↔ inI64 (index + n) := by
  constructor
  · intro h
    by_cases hin : inI64 (index + n)
    · exact hin
    · exfalso
      unfold LenOK maxI64 at hlen
      unfold inI64 minI64 maxI64 at hn hin
      have hcases : maxI64 < index + n ∨ index + n < minI64 := by unfold minI64 maxI64; omega
      unfold specFetch target clamp at h
      rcases hcases with hov | hun
      · have hw := wrap64_add_over hov (by unfold minI64; omega)
        rcases fetch_cases rows index f (.relative n) _ rfl with ⟨h0, h'⟩ | ⟨h0, h1, h'⟩ | ⟨h0, h1, h'⟩ <;>
          rw [h'] at h <;> simp only [moveIndex, recordLen] at * <;> unfold maxI64 at hov
        · injection h with h; injection h with h _; injection h with _ h _
          split at h <;> (try split at h) <;> omega
        · omega
        · omega
      · have hw := wrap64_add_under hun (by unfold minI64; omega)
        rcases fetch_cases rows index f (.relative n) _ rfl with ⟨h0, h'⟩ | ⟨h0, h1, h'⟩ | ⟨h0, h1, h'⟩ <;>
          rw [h'] at h <;> simp only [moveIndex, recordLen] at * <;> unfold minI64 at hun
        · omega
        · injection h with h; injection h with h _; injection h with _ h _
          split at h <;> (try split at h) <;> omega
        · omega
  · intro h
    exact fetch_spec_partial rows index f (.relative n) hinv hlen h

/-- a row that is returned is the row of the OPEN-time list at the new pointer -/
theorem fetch_returns_row_at_pointer {α} (rows : List α) (index : Int) (f : Bool) (p : Pos)
    (c' : CState α) (x : α) (h : (CState.opened rows index f).fetch p = .ok (c', some x)) :
    ∃ i : Nat, c' = .opened rows i true ∧ rows[i]? = some x := by
  rcases fetch_cases rows index f p _ rfl with ⟨_, h'⟩ | ⟨_, _, h'⟩ | ⟨h0, h1, h'⟩ <;> rw [h'] at h <;>
    injection h with h <;> injection h with h hx
  · cases hx
  · cases hx
  · refine ⟨(moveIndex p index (recordLen rows)).toNat, ?_, hx⟩
    rw [← h]
    congr
    omega

end Csvq.C16
