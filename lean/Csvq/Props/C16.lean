/-
  C16 — a cursor walks a snapshot of its query taken at OPEN, with exact positioning.
  Property theorems only (vocabulary and helper lemmas: Csvq/Lemmas/Cursor.lean).
  Every theorem quantifies over ALL row lists, pointers, offsets and operation histories.
-/
import Csvq.Lemmas.Cursor
import Csvq.Lemmas.CursorLocks
import Csvq.Lemmas.CursorBlocks
import Csvq.Gen.CursorLoop
import Csvq.Ref.CursorOps
namespace Csvq.C16
open Csvq Csvq.Cursor

/-! ## T-gen: the hand model IS the code of lib/query/cursor.go (regenerated on every run) -/

/-- `(*Cursor).Fetch`, translated from the Go source, computes exactly the model's `fetch` -/
theorem gen_fetch_eq_model {α} (rows : List α) (index : Int) (fetched : Bool) (p : Pos) :
    interpFetch rows (Gen.CursorFetch.fetch false p.tok p.number index (recordLen rows) fetched)
      = (CState.opened rows index fetched).fetch p := by
  have hg : Gen.CursorFetch.fetch false p.tok p.number index (recordLen rows) fetched
      = if moveIndex p index (recordLen rows) < 0 then .noRow (-1) true
        else if recordLen rows ≤ moveIndex p index (recordLen rows) then .noRow (recordLen rows) true
        else .row (moveIndex p index (recordLen rows)) true := by
    cases p <;> cases fetched <;> simp [Gen.CursorFetch.fetch, moveIndex, Pos.tok, Pos.number] <;> rfl
  rw [hg]
  show _ = if moveIndex p index (recordLen rows) < 0 then _ else _
  split
  · rfl
  · split <;> rfl

theorem gen_fetch_closed {α} (rows : List α) (t : Gen.CursorFetch.PosTok) (n i l : Int) (f : Bool) (p : Pos) :
    interpFetch rows (Gen.CursorFetch.fetch true t n i l f) = (CState.closed : CState α).fetch p := by
  simp [Gen.CursorFetch.fetch, CState.fetch, interpFetch]

theorem gen_isInRange_eq_model {α} (rows : List α) (index : Int) (fetched : Bool) :
    interpRange (Gen.CursorFetch.isInRange false index (recordLen rows) fetched)
      = (CState.opened rows index fetched).isInRange
    ∧ interpRange (Gen.CursorFetch.isInRange true index (recordLen rows) fetched)
      = (CState.closed : CState α).isInRange := by
  cases fetched <;> simp [Gen.CursorFetch.isInRange, CState.isInRange, interpRange, Bool.decide_and]

theorem gen_count_eq_model {α} (rows : List α) (index : Int) (fetched : Bool) :
    interpCount (Gen.CursorFetch.count false (recordLen rows)) = (CState.opened rows index fetched).count
    ∧ interpCount (Gen.CursorFetch.count true (recordLen rows)) = (CState.closed : CState α).count := by
  simp [Gen.CursorFetch.count, CState.count, interpCount]

/-- Open refuses an open cursor and resets the pointer to −1 / not fetched; Close drops the view -/
theorem gen_open_close_facts :
    Gen.CursorFetch.openGuards = ["c.isPseudo => NewPseudoCursorError", "c.view != nil => NewCursorOpenError", "err != nil => err"]
    ∧ Gen.CursorFetch.openAssigns = ["view = view", "index = -1", "fetched = false"]
    ∧ Gen.CursorFetch.closeGuards = ["c.isPseudo => NewPseudoCursorError"]
    ∧ Gen.CursorFetch.closeAssigns = ["view = nil", "index = 0", "fetched = false"] := by
  decide

/-! ## T-gen, the rest of cursor.go / processor.go / eval.go / reference_scope.go the model mirrors
     (Gen/CursorOps.lean, regenerated on every run; skeleton expectations in Ref/CursorOps.lean) -/

/-- `(*Cursor).Open`, translated from the Go source: refuses an open cursor, otherwise (the query having been
    evaluated to `rows`) view := rows, index := −1, fetched := false — the model's `open`, for every state -/
theorem gen_open_eq_model {α} (c : CState α) (rows : List α) :
    interpState rows (Gen.CursorOps.cursorOpen false c.viewNil c.indexField c.fetchedField false) = some (c.open rows) := by
  cases c <;> rfl

/-- `(*Cursor).Close`: view := nil (index := 0, fetched := false) whatever the state — the model's `close` -/
theorem gen_close_eq_model {α} (c : CState α) (rows : List α) :
    interpState rows (Gen.CursorOps.cursorClose false c.viewNil c.indexField c.fetchedField false) = some (.ok c.close) := by
  cases c <;> rfl

/-- the guards in front: a pseudo cursor can be neither opened nor closed; a failing query leaves an
    error and NO assignment (the cursor stays closed) -/
theorem gen_open_close_guards (vn f : Bool) (i : Int) (e : Bool) :
    Gen.CursorOps.cursorOpen true vn i f e = .err "NewPseudoCursorError" ∧
    Gen.CursorOps.cursorClose true vn i f e = .err "NewPseudoCursorError" ∧
    Gen.CursorOps.cursorOpen false true i f true = .err "err" ∧
    Gen.CursorOps.cursorOpen false false i f e = .err "NewCursorOpenError" := by
  refine ⟨rfl, rfl, rfl, rfl⟩

/-- OPEN when the query cannot be evaluated: guards first.  An open cursor answers "already open" exactly as
    the generated code does with `evalFails = true` (the evaluation is not reached); a closed one reports the
    evaluation's error; an unknown name "undeclared" -/
theorem open_failing_guards_first {α} (s : Scope α) (n : String) :
    (∀ rows i f, lookup s (key n) = some (.opened rows i f) →
        stepOpenFailing s n = some .alreadyOpen ∧
        Gen.CursorOps.cursorOpen false false i f true = .err "NewCursorOpenError") ∧
    (lookup s (key n) = some .closed →
        stepOpenFailing s n = none ∧ Gen.CursorOps.cursorOpen false true 0 false true = .err "err") ∧
    (lookup s (key n) = none → stepOpenFailing s n = some .undeclared) := by
  refine ⟨?_, ?_, ?_⟩
  · intro rows i f h
    exact ⟨by simp [stepOpenFailing, step, h, CState.open], rfl⟩
  · intro h
    exact ⟨by simp [stepOpenFailing, step, h, CState.open], rfl⟩
  · intro h
    simp [stepOpenFailing, step, h]

/-- `IsOpen` is `view != nil`; `Pointer` (read by the harness for `index_inv`) is the index field -/
theorem gen_isOpen_pointer_eq_model {α} (c : CState α) :
    Gen.CursorOps.cursorIsOpen c.viewNil = c.isOpen ∧ Gen.CursorOps.cursorPointer c.indexField = c.indexField := by
  cases c <;> exact ⟨rfl, rfl⟩

/-- `CursorMap.Declare`: a name that exists (under strings.ToUpper) is the "redeclared" error, otherwise a
    NEW cursor (closed, see `Ref.fxNewCursor`) is stored — the model's `declare` -/
theorem gen_declare_eq_model {α} (s : Scope α) (n : String) :
    (Gen.CursorOps.mapDeclare (lookup s (key n)).isSome = ([], "NewCursorRedeclaredError")
        ∧ step s (.declare n) = (s, .err .redeclared)) ∨
    (Gen.CursorOps.mapDeclare (lookup s (key n)).isSome = (["m.Store(expr.Cursor.Literal, NewCursor(expr))"], "nil")
        ∧ step s (.declare n) = ((key n, .closed) :: s, .ok)) := by
  cases h : lookup s (key n) with
  | some c => left; exact ⟨rfl, by simp [step, h]⟩
  | none => right; exact ⟨rfl, by simp [step, h]⟩

/-- `CursorMap.Dispose`: found and not pseudo → deleted; not found → errUndeclaredCursor (the scope walk
    turns it into the "undeclared" error when no block knows the name) — the model's `dispose` -/
theorem gen_dispose_eq_model {α} (s : Scope α) (n : String) :
    (Gen.CursorOps.mapDispose (lookup s (key n)).isSome false = (["m.Delete(name.Literal)"], "nil")
        ∧ step s (.dispose n) = (erase s (key n), .ok)) ∨
    (Gen.CursorOps.mapDispose (lookup s (key n)).isSome false = ([], "errUndeclaredCursor")
        ∧ step s (.dispose n) = (s, .err .undeclared)) := by
  cases h : lookup s (key n) with
  | some c => left; exact ⟨rfl, by simp [step, h]⟩
  | none => right; exact ⟨rfl, by simp [step, h]⟩

/-- pseudo cursors: AddPseudoCursor refuses an existing name like Declare; Dispose refuses a pseudo cursor -/
theorem gen_pseudo_cursor_map (p : Bool) :
    Gen.CursorOps.mapAddPseudoCursor p
      = (if p then ([], "NewCursorRedeclaredError") else (["m.Store(name.Literal, NewPseudoCursor(name.Literal, values))"], "nil"))
    ∧ Gen.CursorOps.mapDispose true true = ([], "errPseudoCursor") := by
  cases p <;> exact ⟨rfl, rfl⟩

/-- `evalCursorStatus`: IS [NOT] OPEN / IS [NOT] IN RANGE pass the scope's error through and negate with the
    three-valued NOT — the model's `cursorStatus` -/
theorem gen_status_eq_model (neg : Bool) (r other : Except Err Tern) (z : Tern) :
    Gen.CursorOps.evalCursorStatus .OPEN neg (exceptToOption r) (exceptToOption other) z = exceptToOption (cursorStatus neg r) ∧
    Gen.CursorOps.evalCursorStatus .RANGE neg (exceptToOption other) (exceptToOption r) z = exceptToOption (cursorStatus neg r) := by
  cases r <;> cases neg <;> exact ⟨rfl, rfl⟩

/-- NOT UNKNOWN is UNKNOWN: before the first FETCH, IS NOT IN RANGE is as undetermined as IS IN RANGE -/
theorem not_in_range_unknown_before_first_fetch {α} (rows : List α) (i : Int) :
    cursorStatus true (CState.opened rows i false).isInRange = .ok .U := rfl

/-- the WHILE IN skeleton is the one `loopS` / `whileIn` assume (see Ref/CursorOps.lean) -/
theorem gen_while_in_skeleton_eq_ref : Gen.CursorOps.fxWhileInCursor = Ref.fxWhileInCursor := by decide

/-- FetchCursor (query.go): the order "evaluate the number → move the cursor → compare the number of variables"
    is the one `fetchBad`, `stepFetchInto` and `whileInto` assume -/
theorem gen_fetch_cursor_skeleton_eq_ref : Gen.CursorOps.fxFetchCursor = Ref.fxFetchCursor := by decide

theorem gen_constructors_eq_ref :
    Gen.CursorOps.fxNewCursor = Ref.fxNewCursor ∧ Gen.CursorOps.fxNewPseudoCursor = Ref.fxNewPseudoCursor := by decide

theorem gen_cursor_map_eq_ref :
    Gen.CursorOps.fxMapStore = Ref.fxMapStore ∧ Gen.CursorOps.fxMapLoad = Ref.fxMapLoad ∧
    Gen.CursorOps.fxMapDelete = Ref.fxMapDelete ∧ Gen.CursorOps.fxMapExists = Ref.fxMapExists ∧
    Gen.CursorOps.fxMapOpen = Ref.fxMapOpen ∧ Gen.CursorOps.fxMapClose = Ref.fxMapClose ∧
    Gen.CursorOps.fxMapFetch = Ref.fxMapFetch ∧ Gen.CursorOps.fxMapIsOpen = Ref.fxMapIsOpen ∧
    Gen.CursorOps.fxMapIsInRange = Ref.fxMapIsInRange ∧ Gen.CursorOps.fxMapCount = Ref.fxMapCount := by decide

theorem gen_scope_walk_eq_ref :
    Gen.CursorOps.fxScopeDeclareCursor = Ref.fxScopeDeclareCursor ∧ Gen.CursorOps.fxScopeDisposeCursor = Ref.fxScopeDisposeCursor ∧
    Gen.CursorOps.fxScopeOpenCursor = Ref.fxScopeOpenCursor ∧ Gen.CursorOps.fxScopeCloseCursor = Ref.fxScopeCloseCursor ∧
    Gen.CursorOps.fxScopeFetchCursor = Ref.fxScopeFetchCursor ∧ Gen.CursorOps.fxScopeCursorIsOpen = Ref.fxScopeCursorIsOpen ∧
    Gen.CursorOps.fxScopeCursorIsInRange = Ref.fxScopeCursorIsInRange ∧ Gen.CursorOps.fxScopeCursorCount = Ref.fxScopeCursorCount := by decide

/-! ## T-gen: lock discipline of cursor.go (Gen/CursorLocks.lean: every control-flow path of every function) -/

/-- `(*Cursor).Close` releases the mutex on every path before it returns (seed C16-m14: an early return
    after Lock() left the cursor locked, the next OPEN / CLOSE of it never returned) -/
theorem gen_cursor_locks_balanced_close : (lockPathsOf "Cursor.Close").map locksBalanced = some true := by decide

theorem gen_cursor_locks_balanced_open : (lockPathsOf "Cursor.Open").map locksBalanced = some true := by decide

theorem gen_cursor_locks_balanced_fetch : (lockPathsOf "Cursor.Fetch").map locksBalanced = some true := by decide

/-- every function of cursor.go: on every path each Lock is followed by an Unlock (explicit, or deferred)
    before every return; no double Lock, no Unlock of a free mutex -/
theorem gen_cursor_locks_balanced : Gen.CursorLocks.paths.all (fun m => locksBalanced m.2) = true := by decide

/-- exactly Open, Close and Fetch take the cursor's mutex (the status readers IsOpen / IsInRange / Count /
    Pointer do not: finding F79 of C13) — which is why only those three can hang on a leaked lock -/
theorem gen_cursor_locking_methods :
    (Gen.CursorLocks.paths.filter (fun m => m.2.any (fun p => p.contains "lock"))).map Prod.fst
      = ["Cursor.Open", "Cursor.Close", "Cursor.Fetch"] := by decide

/-! ## index invariant -/

/-- whatever the pointer was, after a FETCH it lies in [−1, len] (this is what the clamping ifs do) -/
theorem fetch_reestablishes_inv {α} (rows : List α) (index : Int) (f : Bool) (p : Pos)
    (c' : CState α) (r : Option α) (h : (CState.opened rows index f).fetch p = .ok (c', r)) : PtrInv c' :=
  fetch_opened_inv rows index f p c' r h

/-- `open ⇒ −1 ≤ index ≤ len` after ANY history of DECLARE / OPEN / FETCH (any position, any offset) /
    WHILE IN / CLOSE / DISPOSE / status expressions / DML, on any number of cursors -/
theorem index_inv {α} (ops : List (Op α)) (name : String) (rows : List α) (i : Int) (f : Bool)
    (h : lookup (run ([] : Scope α) ops).1 name = some (.opened rows i f)) : -1 ≤ i ∧ i ≤ rows.length := by
  have := run_inv ops ([] : Scope α) (by intro p hp; cases hp) _ (lookup_mem _ _ _ h)
  exact this

/-! ## FETCH positions exactly -/

/-- FULL STATEMENT of the manual's FETCH (holds since /repo 63b833c made FETCH RELATIVE saturate; before,
    `c.index + number` wrapped around — finding F9 — and only a no-overflow version was provable):
    the row returned is rows[target] iff 0 ≤ target < len, where target is the mathematical (unbounded)
    position addressed by NEXT / PRIOR / FIRST / LAST / ABSOLUTE n (any n) / RELATIVE n (any int64 n);
    otherwise nothing is returned and the pointer rests at −1 / len. -/
theorem fetch_spec {α} (rows : List α) (index : Int) (f : Bool) (p : Pos)
    (hinv : -1 ≤ index ∧ index ≤ rows.length) (hlen : LenOK rows) (hn : NumberOK p) :
    (CState.opened rows index f).fetch p = .ok (specFetch rows index p) := by
  obtain ⟨hneg, hge, heq⟩ := moveIndex_vs_target rows index p hinv hlen hn
  have hl : (0 : Int) ≤ rows.length := by omega
  simp only [specFetch]
  rcases fetch_cases rows index f p _ rfl with ⟨h0, h'⟩ | ⟨h0, h1, h'⟩ | ⟨h0, h1, h'⟩ <;> rw [h']
  · have ht := hneg.mp h0
    rw [clamp_below ht hl]
    have : ¬ (0 ≤ target p index rows.length) := by omega
    simp [this]
  · have ht := hge.mp h1
    rw [clamp_above ht hl]
    have h2 : ¬ (target p index rows.length < (rows.length : Int)) := by omega
    simp [h2, recordLen]
  · have ht := heq h0 h1
    simp only [recordLen] at h0 h1 ht ⊢
    rw [ht] at h0 h1 ⊢
    rw [clamp_in h0 h1]
    simp [h0, h1]

/-- in particular the huge offsets of the former finding F9: from inside the result RELATIVE maxint rests
    AFTER the last row, from before the first RELATIVE minint rests BEFORE the first -/
theorem fetch_relative_extremes {α} (rows : List α) (index : Int) (f : Bool)
    (hinv : -1 ≤ index ∧ index ≤ rows.length) (hlen : LenOK rows) :
    (CState.opened rows index f).fetch (.relative maxI64) =
        .ok (.opened rows rows.length true, none) ∧
    (CState.opened rows index f).fetch (.relative minI64) = .ok (.opened rows (-1) true, none) := by
  have hl : (0 : Int) ≤ rows.length := by omega
  have e1 := fetch_spec rows index f (.relative maxI64) hinv hlen (by simp [NumberOK, inI64, minI64, maxI64])
  have e2 := fetch_spec rows index f (.relative minI64) hinv hlen (by simp [NumberOK, inI64, minI64, maxI64])
  unfold LenOK at hlen
  simp only [maxI64, minI64] at *
  constructor
  · rw [e1]
    simp only [specFetch]
    simp only [target]
    rw [clamp_above (by omega) hl]
    have : ¬ (index + 9223372036854775807 < (rows.length : Int)) := by omega
    simp [this]
  · rw [e2]
    simp only [specFetch]
    simp only [target]
    rw [clamp_below (by omega) hl]
    have : ¬ (0 ≤ index + -9223372036854775808) := by omega
    simp [this]

/-- a row that is returned is the row of the OPEN-time list at the new pointer -/
theorem fetch_returns_row_at_pointer {α} (rows : List α) (index : Int) (f : Bool) (p : Pos)
    (c' : CState α) (x : α) (h : (CState.opened rows index f).fetch p = .ok (c', some x)) :
    ∃ i : Nat, c' = .opened rows i true ∧ rows[i]? = some x := by
  rcases fetch_cases rows index f p _ rfl with ⟨_, h'⟩ | ⟨_, _, h'⟩ | ⟨h0, h1, h'⟩ <;> rw [h'] at h <;>
    simp only [Except.ok.injEq, Prod.mk.injEq] at h
  · exact absurd h.2 (by simp)
  · exact absurd h.2 (by simp)
  · refine ⟨(moveIndex p index (recordLen rows)).toNat, ?_, h.2⟩
    rw [← h.1]
    congr
    omega

/-! ## WHILE IN -/

/-- WHILE IN on a freshly opened cursor visits every row exactly once, in order, and terminates with
    the pointer after the last row -/
theorem while_in_visits_all_once {α} (rows : List α) (hl : LenOK rows) :
    whileIn (whileFuel (CState.opened rows (-1) false)) none (CState.opened rows (-1) false) []
      = .ok (.opened rows rows.length true, rows) := by
  have := whileIn_none_general rows hl (rows.length + 2) (-1) false [] (by omega) (by omega) (by omega)
  simpa [whileFuel] using this

/-- from any pointer position: exactly the rows after the pointer, in order -/
theorem while_in_from_pointer {α} (rows : List α) (hl : LenOK rows) (i : Int) (f : Bool)
    (hinv : -1 ≤ i ∧ i ≤ rows.length) :
    whileIn (whileFuel (CState.opened rows i f)) none (CState.opened rows i f) []
      = .ok (.opened rows rows.length true, rows.drop (i + 1).toNat) := by
  have := whileIn_none_general rows hl (rows.length + 2) i f [] hinv.1 hinv.2 (by omega)
  simpa [whileFuel] using this

/-- with BREAK in the k-th iteration: the first k of those rows; the pointer stays on the k-th -/
theorem while_in_break {α} (rows : List α) (hl : LenOK rows) (i : Int) (f : Bool) (k : Nat) (hk : 1 ≤ k)
    (hinv : -1 ≤ i ∧ i ≤ rows.length) :
    whileIn (whileFuel (CState.opened rows i f)) (some k) (CState.opened rows i f) []
      = .ok (.opened rows (if i + k < rows.length then i + k else rows.length) true,
             (rows.drop (i + 1).toNat).take k) := by
  have := whileIn_break_general rows hl (rows.length + 2) k i f [] hk hinv.1 hinv.2 (by omega)
  simpa [whileFuel] using this

/-- the loop bound of the model is never what ends the loop: more iterations change nothing -/
theorem while_in_terminates {α} (rows : List α) (hl : LenOK rows) (i : Int) (f : Bool)
    (hinv : -1 ≤ i ∧ i ≤ rows.length) (fuel : Nat) (hf : rows.length + 2 ≤ fuel) :
    whileIn fuel none (CState.opened rows i f) []
      = whileIn (whileFuel (CState.opened rows i f)) none (CState.opened rows i f) [] := by
  rw [whileIn_none_general rows hl fuel i f [] hinv.1 hinv.2 (by omega)]
  have := whileIn_none_general rows hl (rows.length + 2) i f [] hinv.1 hinv.2 (by omega)
  simpa [whileFuel] using this.symm

/-! ## COUNT / IS OPEN / IS IN RANGE agree with the state -/

theorem count_agrees {α} (rows : List α) (i : Int) (f : Bool) :
    (CState.opened rows i f).count = .ok (rows.length : Int) := rfl

theorem is_open_iff {α} (c : CState α) : c.isOpen = true ↔ ∃ rows i f, c = .opened rows i f := by
  cases c <;> simp [CState.isOpen]

theorem in_range_iff_pointer {α} (rows : List α) (i : Int) :
    (CState.opened rows i true).isInRange = .ok (Tern.ofBool (decide (0 ≤ i ∧ i < rows.length))) := by
  have h : (-1 < i ∧ i < recordLen rows) ↔ (0 ≤ i ∧ i < rows.length) := by
    simp only [recordLen]; omega
  simp only [CState.isInRange, h]

theorem in_range_unknown_before_first_fetch {α} (c c' : CState α) (rows : List α) (h : c.open rows = .ok c') :
    c' = .opened rows (-1) false ∧ c'.isInRange = .ok .U ∧ c'.count = .ok (rows.length : Int) ∧ c'.isOpen = true := by
  cases c with
  | closed =>
    simp only [CState.open, Except.ok.injEq] at h
    subst h
    exact ⟨rfl, rfl, rfl, rfl⟩
  | opened r i f => simp [CState.open] at h

/-- IS IN RANGE after a FETCH is TRUE exactly when that FETCH returned a row -/
theorem in_range_iff_last_fetch_returned {α} (c c' : CState α) (p : Pos) (r : Option α)
    (h : c.fetch p = .ok (c', r)) : c'.isInRange = .ok (Tern.ofBool r.isSome) := by
  cases c with
  | closed => simp [CState.fetch] at h
  | opened rows i f =>
    rcases fetch_cases rows i f p _ rfl with ⟨h0, h'⟩ | ⟨h0, h1, h'⟩ | ⟨h0, h1, h'⟩
    all_goals
      rw [h'] at h
      simp only [Except.ok.injEq, Prod.mk.injEq] at h
      obtain ⟨rfl, rfl⟩ := h
      rw [in_range_iff_pointer]
      simp only [recordLen] at *
    · simp
    · have : ¬ ((rows.length : Int) < rows.length) := by omega
      simp
    · have hlt : (moveIndex p i rows.length).toNat < rows.length := by omega
      simp [h0, h1, hlt]


/-- status expressions do not move the cursor -/
theorem status_ops_pure {α} (s : Scope α) (n : String) :
    (step s (.count n)).1 = s ∧ (step s (.isOpen n)).1 = s ∧ (step s (.isInRange n)).1 = s := by
  refine ⟨?_, ?_, ?_⟩ <;> simp only [step] <;> split <;> (try rfl) <;> split <;> rfl

/-! ## errors, never stale data -/

theorem closed_errors {α} (p : Pos) (fuel : Nat) (brk : Option Nat) (acc : List α) :
    (CState.closed : CState α).fetch p = .error .closed ∧
    (CState.closed : CState α).isInRange = .error .closed ∧
    (CState.closed : CState α).count = .error .closed ∧
    (CState.closed : CState α).isOpen = false ∧
    whileIn (fuel + 1) brk (CState.closed : CState α) acc = .error .closed := by
  simp [CState.fetch, CState.isInRange, CState.count, CState.isOpen, whileIn]

theorem reopen_error {α} (rows rows' : List α) (i : Int) (f : Bool) :
    (CState.opened rows i f).open rows' = .error .alreadyOpen := rfl

theorem undeclared_error {α} (s : Scope α) (n : String) (op : Op α) (hop : op.names n)
    (h : lookup s (key n) = none) : step s op = (s, .err .undeclared) := by
  cases op <;> simp only [Op.names] at hop <;> subst hop <;> simp [step, h]

theorem redeclare_error {α} (s : Scope α) (n : String) (c : CState α) (h : lookup s (key n) = some c) :
    step s (.declare n) = (s, .err .redeclared) := by
  simp [step, h]

/-- after CLOSE, every use of the cursor except OPEN / CLOSE / DISPOSE is the "closed" error — never a stale row -/
theorem closed_after_close {α} (s : Scope α) (n : String) (c : CState α) (h : lookup s (key n) = some c)
    (p : Pos) (brk : Option Nat) :
    let s' := (step s (.close n)).1
    step s' (.fetch n p) = (s', .err .closed) ∧
    step s' (.count n) = (s', .err .closed) ∧
    step s' (.isInRange n) = (s', .err .closed) ∧
    step s' (.whileIn n brk) = (s', .err .closed) ∧
    step s' (.isOpen n) = (s', .tern .F) := by
  have hl : lookup (update s (key n) (CState.closed : CState α)) (key n) = some .closed :=
    lookup_update_same _ _ _ (by simp [h])
  simp [step, h, CState.close, hl, CState.fetch, CState.count, CState.isInRange, CState.isOpen, whileIn, whileFuel, Tern.ofBool]

/-- after DISPOSE (in any reachable scope) the name is undeclared: every use is the "undeclared" error -/
theorem disposed_is_undeclared {α} (ops : List (Op α)) (n : String) :
    let s := (run ([] : Scope α) ops).1
    lookup (step s (.dispose n)).1 (key n) = none := by
  intro s
  have hu : Uniq s := run_uniq ops [] (by simp [Uniq])
  simp only [step]
  split
  · exact erase_removes _ _ hu
  · rename_i h; exact h

/-! ## snapshot -/

/-- between OPEN and CLOSE/DISPOSE — whatever else happens: DML (`Op.dml`), statements on other cursors,
    failing OPEN / DECLARE of the same name — the cursor keeps the OPEN-time rows, and every row a
    FETCH or a WHILE IN hands out is one of them -/
theorem snapshot {α} (ops : List (Op α)) : ∀ (s : Scope α) (k : String) (rows : List α) (i : Int) (f : Bool),
    lookup s k = some (.opened rows i f) → (∀ op ∈ ops, ¬ op.discards k) →
    (∃ i' f', lookup (run s ops).1 k = some (.opened rows i' f')) ∧
    (∀ (j : Nat) (n : String), key n = k →
       (∀ p x, ops[j]? = some (.fetch n p) → (run s ops).2[j]? = some (.row x) → x ∈ rows) ∧
       (∀ brk seen, ops[j]? = some (.whileIn n brk) → (run s ops).2[j]? = some (.rows seen) →
          ∀ x ∈ seen, x ∈ rows)) := by
  induction ops with
  | nil =>
    intro s k rows i f h _
    exact ⟨⟨i, f, h⟩, by intro j n _; simp⟩
  | cons op rest ih =>
    intro s k rows i f h hd
    obtain ⟨i1, f1, h1⟩ := step_keeps_view s op k rows i f h (hd op (by simp))
    obtain ⟨ihA, ihB⟩ := ih (step s op).1 k rows i1 f1 h1 (fun o ho => hd o (by simp [ho]))
    refine ⟨by simpa only [run] using ihA, ?_⟩
    intro j n hk
    cases j with
    | zero =>
      have hv := step_result_from_view s op rows i f n (by rw [hk]; exact h)
      simp only [run, List.getElem?_cons_zero, Option.some.injEq]
      constructor
      · intro p x hop hr; exact hv.1 p x hop hr
      · intro brk seen hop hr; exact hv.2 brk seen hop hr
    | succ j =>
      simp only [run, List.getElem?_cons_succ]
      exact ihB j n hk

/-- OPEN stores the result of the query as evaluated at that moment, pointer before the first row -/
theorem open_takes_snapshot {α} (s : Scope α) (n : String) (rows : List α)
    (h : (step s (.open n rows)).2 = .ok) :
    lookup (step s (.open n rows)).1 (key n) = some (.opened rows (-1) false) := by
  simp only [step] at h ⊢
  split at h
  · cases h
  · rename_i c hl
    cases c with
    | opened r i f => simp [CState.open] at h
    | closed =>
      simp only [CState.open]
      exact lookup_update_same _ _ _ (by simp [hl])


/-! ## blocks; life-cycle statements inside a WHILE IN body -/

/-- T-gen: WhileInCursor obtains NO cursor in front of its loop; inside the loop it clears the loop's
    block and then fetches BY NAME through the child scope; FetchCursor → ReferenceScope.FetchCursor walks
    the blocks innermost-first.  (This is what `loopS` / `stepS` assume.) -/
theorem gen_while_in_looks_up_by_name :
    Gen.CursorLoop.whileInPre = ["fetchPosition := parser.FetchPosition{Position: parser.Token{Token: parser.NEXT}}",
      "childProc := proc.NewChildProcessor()", "defer childProc.Close()"]
    ∧ Gen.CursorLoop.whileInLoop = ["childProc.ReferenceScope.ClearCurrentBlock()",
      "make([]parser.VariableAssignment, len(stmt.Variables))", "len(stmt.Variables)",
      "childProc.ReferenceScope.DeclareVariable(ctx, decl)",
      "FetchCursor(ctx, childProc.ReferenceScope, stmt.Cursor, fetchPosition, stmt.Variables)",
      "childProc.execute(ctx, stmt.Statements)"]
    ∧ Gen.CursorLoop.whileInPost = ["return Terminate, nil"]
    ∧ Gen.CursorLoop.fetchCursor = ["scope.FetchCursor(name, position, number)", "NewCursorFetchLengthError(name, len(primaries))"]
    ∧ Gen.CursorLoop.scopeFetch = ["for i := range rs.Blocks", "rs.Blocks[i].Cursors.Fetch(name, position, number)",
      "NewUndeclaredCursorError(name)"] := by
  decide

/-- with a single block the stack semantics is the flat one (all theorems above carry over) -/
theorem stepS_single {α} (s : Scope α) (op : Op α) :
    stepS [s] op = ([(step s op).1], (step s op).2) := by
  simp only [stepS]
  split
  · rfl
  · rename_i k hk
    split
    · rfl
    · rename_i hl
      have h1 := step_unknown s op k hk hl
      have h2 := step_unknown ([] : Scope α) op k hk rfl
      simp [h1, h2]


/-- a statement acts on the innermost block that knows the name and leaves every other block alone -/
theorem statement_acts_on_innermost_binding {α} (st : Stack α) (op : Op α) (k : String) (hk : op.chainKey = some k)
    (c : CState α) (h : lookupS st k = some c) :
    ∃ (pre : List (Scope α)) (b : Scope α) (post : List (Scope α)),
      st = pre ++ b :: post ∧ (∀ b' ∈ pre, lookup b' k = none) ∧ lookup b k = some c ∧
      stepS st op = (pre ++ (step b op).1 :: post, (step b op).2) :=
  stepS_acts_on_innermost st op k hk c h

/-- a name no block knows: every cursor statement is the "undeclared" error, nothing changes -/
theorem undeclared_in_every_block {α} (st : Stack α) (op : Op α) (k : String) (hk : op.chainKey = some k)
    (h : lookupS st k = none) : stepS st op = (st, .err .undeclared) :=
  stepS_undeclared st op k hk h

/-- a row handed out for a name is a row of the OPEN-time result of the cursor the name denotes NOW -/
theorem fetch_row_from_current_binding {α} (st st' : Stack α) (n : String) (p : Pos) (r : α)
    (h : stepS st (.fetch n p) = (st', .row r)) :
    ∃ rows i f, lookupS st (key n) = some (.opened rows i f) ∧ r ∈ rows := by
  cases hl : lookupS st (key n) with
  | none =>
    rw [stepS_undeclared st _ (key n) rfl hl] at h
    simp at h
  | some c =>
    obtain ⟨pre, b, post, _, _, hb, hs⟩ := stepS_acts_on_innermost st (.fetch n p) (key n) rfl c hl
    rw [hs] at h
    cases c with
    | closed =>
      simp [step, hb, CState.fetch] at h
    | opened rows i f =>
      refine ⟨rows, i, f, rfl, ?_⟩
      have := (step_result_from_view b (.fetch n p) rows i f n hb).1 p r rfl
      apply this
      simp only [Prod.mk.injEq] at h
      exact h.2

/-- DISPOSE removes the innermost cursor of that name; the name then denotes the next outer one -/
theorem dispose_uncovers_outer {α} (b : Scope α) (rest : Stack α) (n : String) (c : CState α)
    (hu : Uniq b) (h : lookup b (key n) = some c) :
    stepS (b :: rest) (.dispose n) = (erase b (key n) :: rest, .ok) ∧
    lookupS (erase b (key n) :: rest) (key n) = lookupS rest (key n) := by
  constructor
  · simp [stepS, Op.chainKey, h, step]
  · simp [lookupS, erase_removes b (key n) hu]

/-- one iteration of WHILE IN: clear the loop's block, FETCH NEXT **by name** on the stack the previous
    iteration's body left behind; a row runs the body (an error there ends the program), anything else
    (nothing fetched / error) ends the loop -/
theorem loop_iteration {α} (fuel n : Nat) (name : String) (body : List (Item α)) (st : Stack α) :
    loopS (fuel + 1) n name body st =
      match stepS ([] :: st) (.fetch name .next) with
      | (st1, .row r) =>
        match runBody n st1 body with
        | (st2, rs, true) => (st2.tail, .row r :: rs, true)
        | (st2, rs, false) =>
          ((loopS fuel (n + 1) name body st2.tail).1, .row r :: rs ++ (loopS fuel (n + 1) name body st2.tail).2.1,
           (loopS fuel (n + 1) name body st2.tail).2.2)
      | (st1, r) => (st1.tail, [r], true) := by
  rw [loopS]
  rfl

/-- the body (or anything before) DISPOSEd the cursor and no outer block knows the name: the next
    iteration is the "undeclared" error — never a row of the disposed cursor's old result -/
theorem while_in_disposed_is_error {α} (fuel n : Nat) (name : String) (body : List (Item α)) (st : Stack α)
    (h : lookupS st (key name) = none) :
    loopS (fuel + 1) n name body st = (st, [.err .undeclared], true) := by
  have := stepS_undeclared ([] :: st) (.fetch name .next) (key name) rfl (by rw [lookupS_push]; exact h)
  simp [loopS, this]

/-- the body CLOSEd the cursor (or a closed cursor of that name now shadows it): "closed" error -/
theorem while_in_closed_is_error {α} (fuel n : Nat) (name : String) (body : List (Item α)) (st : Stack α)
    (h : lookupS st (key name) = some .closed) :
    loopS (fuel + 1) n name body st = (st, [.err .closed], true) := by
  obtain ⟨pre, b, post, h1, _, h3, h4⟩ :=
    stepS_acts_on_innermost ([] :: st) (.fetch name .next) (key name) rfl .closed (by rw [lookupS_push]; exact h)
  have hb : step b (.fetch name .next) = (b, .err .closed) := by simp [step, h3, CState.fetch]
  rw [hb, ← h1] at h4
  simp [loopS, h4]

/-- every row an iteration hands to the body comes from the OPEN-time result of the cursor the name
    denotes AT THAT MOMENT (after DISPOSE of a shadowing cursor: the outer one) -/
theorem while_in_row_from_current_binding {α} (fuel n : Nat) (name : String) (body : List (Item α)) (st : Stack α)
    (r : α) (rest : List (Res α)) (h : (loopS (fuel + 1) n name body st).2.1 = .row r :: rest) :
    ∃ rows i f, lookupS st (key name) = some (.opened rows i f) ∧ r ∈ rows := by
  rw [loop_iteration] at h
  split at h
  · rename_i st1 r' hs
    have := fetch_row_from_current_binding _ _ _ _ _ hs
    rw [lookupS_push] at this
    have hr : r' = r := by
      split at h <;> simp at h <;> exact h.1
    rw [← hr]; exact this
  · rename_i st1 r' hne hs
    simp only [List.cons.injEq] at h
    exact absurd h.1 (hne r)

/-- WHILE IN with a body that does not touch the cursor: every row after the pointer exactly once, in order -/
theorem while_in_body_visits_all_once {α} (rows : List α) (hl : LenOK rows) (name : String) :
    ∀ (fuel n : Nat) (s : Scope α) (i : Int) (f : Bool), lookup s (key name) = some (.opened rows i f) →
      -1 ≤ i → i ≤ rows.length → rows.length + 2 ≤ fuel + (i + 1).toNat →
      loopS fuel n name [] [s] =
        ([update s (key name) (.opened rows rows.length true)],
         (rows.drop (i + 1).toNat).map Res.row ++ [Res.none], true) := by
  intro fuel
  induction fuel with
  | zero => intro n s i f h h0 h1 hf; omega
  | succ fuel ih =>
    intro n s i f h h0 h1 hf
    have hstep : stepS ([] :: [s]) (.fetch name .next) =
        ([] :: (stepS [s] (.fetch name .next)).1, (stepS [s] (.fetch name .next)).2) := by
      simp [stepS, Op.chainKey, lookup]
    rw [loop_iteration, hstep, stepS_single]
    by_cases hlast : (rows.length : Int) ≤ i + 1
    · have hd : rows.drop (i + 1).toNat = [] := by apply List.drop_eq_nil_of_le; omega
      simp [step, h, fetch_next_none rows i f hl h0 h1 hlast, hd]
    · have hlt : i + 1 < rows.length := by omega
      have hget : rows[(i + 1).toNat]? = some (rows[(i + 1).toNat]'(by omega)) := by simp
      have hdrop : rows.drop (i + 1).toNat = rows[(i + 1).toNat]'(by omega) :: rows.drop ((i + 1).toNat + 1) := by simp
      have he : (i + 1 + 1).toNat = (i + 1).toNat + 1 := by omega
      have hlk : lookup (update s (key name) (CState.opened rows (i + 1) true)) (key name)
          = some (.opened rows (i + 1) true) := lookup_update_same _ _ _ (by simp [h])
      have := ih (n + 1) _ (i + 1) true hlk (by omega) (by omega) (by omega)
      simp only [step, h, fetch_next_some rows i f hl h0 hlt, hget, runBody, List.tail_cons]
      rw [this, update_update, he]
      conv => rhs; rw [hdrop]
      simp only [List.map_cons, List.cons_append, List.nil_append]

/-! ## the number of INTO / WHILE variables; pseudo cursors of user-defined aggregates -/

/-- FETCH … INTO with k variables: the pointer moves exactly as for any FETCH; the "fetch length" error is
    raised only when a row came back and has another number of columns — addressing no row is never an error -/
theorem fetch_into_spec {α} (w : α → Nat) (s : Scope α) (n : String) (p : Pos) (k : Nat) :
    (stepFetchInto w s n p k).1 = (step s (.fetch n p)).1 ∧
    (∀ r, (step s (.fetch n p)).2 = .row r →
        (stepFetchInto w s n p k).2 = if w r = k then .row r else .err .fetchLength) ∧
    ((∀ r, (step s (.fetch n p)).2 ≠ .row r) → (stepFetchInto w s n p k).2 = (step s (.fetch n p)).2) := by
  unfold stepFetchInto
  generalize step s (.fetch n p) = x
  obtain ⟨s', res⟩ := x
  cases res <;> simp
  case row r => split <;> simp

/-- WHILE v₁,…,vₖ IN over rows that all have k columns is the plain loop -/
theorem while_into_matching_eq_while_in {α} (w : α → Nat) (k : Nat) (rows : List α) (hw : ∀ r ∈ rows, w r = k) :
    ∀ (fuel : Nat) (i : Int) (f : Bool) (acc : List α) (c' : CState α) (seen : List α),
      whileIn fuel none (CState.opened rows i f) acc = .ok (c', seen) →
      whileInto w k fuel (CState.opened rows i f) acc = (c', seen, none) := by
  intro fuel
  induction fuel with
  | zero =>
    intro i f acc c' seen h
    simp only [whileIn, Except.ok.injEq, Prod.mk.injEq] at h
    simp [whileInto, h.1, h.2]
  | succ fuel ih =>
    intro i f acc c' seen h
    unfold whileIn at h
    unfold whileInto
    split at h
    · cases h
    · rename_i c1 hf
      simp only [Except.ok.injEq, Prod.mk.injEq] at h
      simp [h.1, h.2]
    · rename_i c1 r hf
      obtain ⟨⟨i', rfl⟩, hr⟩ := fetch_keeps_rows rows i f .next _ _ hf
      have hwr : w r = k := hw r (hr r rfl)
      simp only [hwr, if_true]
      exact ih _ _ _ _ _ h

/-- … and with the wrong number of variables it stops at the first row: nothing is handed to the body,
    the error is "fetch length", the pointer rests on that first row -/
theorem while_into_mismatch_first_row {α} (w : α → Nat) (k : Nat) (r : α) (rest : List α) (f : Bool) (fuel : Nat)
    (hl : LenOK (r :: rest)) (hw : w r ≠ k) :
    whileInto w k (fuel + 1) (CState.opened (r :: rest) (-1) f) [] = (.opened (r :: rest) 0 true, [], some .fetchLength) := by
  have h := fetch_next_some (r :: rest) (-1) f hl (by omega) (by simp)
  simp only [whileInto, h]
  simp [hw]

/-- OPEN / CLOSE / DISPOSE of the aggregate's pseudo cursor: the "pseudo cursor" error, nothing changes -/
theorem pseudo_cursor_refuses_life_cycle {α} (pk : String) (st : Stack α) (n : String) (rows : List α) (h : key n = pk) :
    aggStep pk st (.open n rows) = (st, .err .pseudo) ∧ aggStep pk st (.close n) = (st, .err .pseudo) ∧
    aggStep pk st (.dispose n) = (st, .err .pseudo) := by
  simp [aggStep, h]

/-- whatever the body does, the pseudo cursor stays in the function's block, over the same list of values -/
theorem pseudo_cursor_survives_step {α} (pk : String) (b : Scope α) (rest : Stack α) (op : Op α)
    (values : List α) (i : Int) (f : Bool) (h : lookup b pk = some (.opened values i f)) :
    ∃ b' rest' i' f', (aggStep pk (b :: rest) op).1 = b' :: rest' ∧ lookup b' pk = some (.opened values i' f') := by
  have keep : ∀ o : Op α, ¬ o.discards pk → ∃ i' f', lookup (step b o).1 pk = some (.opened values i' f') :=
    fun o ho => step_keeps_view b o pk values i f h ho
  have viaS : ∀ o : Op α, ¬ o.discards pk →
      ∃ b' rest' i' f', (stepS (b :: rest) o).1 = b' :: rest' ∧ lookup b' pk = some (.opened values i' f') := by
    intro o ho
    simp only [stepS]
    split
    · obtain ⟨i', f', h'⟩ := keep o ho
      exact ⟨_, _, i', f', rfl, h'⟩
    · split
      · obtain ⟨i', f', h'⟩ := keep o ho
        exact ⟨_, _, i', f', rfl, h'⟩
      · exact ⟨b, _, i, f, rfl, h⟩
  cases op <;> simp only [aggStep]
  case «open» n rows =>
    split
    · exact ⟨b, rest, i, f, rfl, h⟩
    · exact viaS _ (by simp [Op.discards])
  case close n =>
    split
    · exact ⟨b, rest, i, f, rfl, h⟩
    · rename_i hk; exact viaS _ (by simpa [Op.discards] using hk)
  case dispose n =>
    split
    · exact ⟨b, rest, i, f, rfl, h⟩
    · rename_i hk; exact viaS _ (by simpa [Op.discards] using hk)
  all_goals exact viaS _ (by simp [Op.discards])

theorem pseudo_cursor_survives {α} (pk : String) (values : List α) (ops : List (Op α)) :
    ∀ (b : Scope α) (rest : Stack α) (i : Int) (f : Bool), lookup b pk = some (.opened values i f) →
      ∃ b' rest' i' f', (aggOps pk (b :: rest) ops).1 = b' :: rest' ∧ lookup b' pk = some (.opened values i' f') := by
  induction ops with
  | nil => intro b rest i f h; exact ⟨b, rest, i, f, rfl, h⟩
  | cons op ops ih =>
    intro b rest i f h
    obtain ⟨b1, rest1, i1, f1, h1, h2⟩ := pseudo_cursor_survives_step pk b rest op values i f h
    simp only [aggOps]
    split
    · rename_i st' e he
      rw [he] at h1
      exact ⟨b1, rest1, i1, f1, h1, h2⟩
    · rename_i st' r hne he
      rw [he] at h1
      simp only at h1
      subst h1
      exact ih b1 rest1 i1 f1 h2

/-! ## non-vacuity: the hypotheses are satisfiable, the model does something -/

/-- hypotheses of `fetch_spec` hold together, also for the offsets that used to wrap around -/
example : ∃ (rows : List Nat) (i : Int) (p : Pos),
    (-1 ≤ i ∧ i ≤ rows.length) ∧ LenOK rows ∧ NumberOK p ∧
    (CState.opened rows i true).fetch p = .ok (.opened rows 3 true, none) :=
  ⟨[1, 2, 3], 1, .relative 9223372036854775807, by decide, by decide, by show inI64 _; decide, rfl⟩

example : (CState.opened [1, 2, 3] (-1) false).fetch (.relative (-9223372036854775808))
    = .ok (.opened [1, 2, 3] (-1) true, none) := rfl

/-- … and with a row returned -/
example : (CState.opened [10, 20, 30] 2 true).fetch (.relative (-2)) = .ok (.opened [10, 20, 30] 0 true, some 10) := rfl

/-- after running off the end the pointer is clamped: PRIOR returns the last row -/
example : ((CState.opened [10, 20, 30] 0 true).fetch (.absolute 9223372036854775807)).bind (fun r => r.1.fetch .prior)
    = .ok (.opened [10, 20, 30] 2 true, some 30) := rfl

/-- a whole history: names are case-insensitive, DML does not matter, CLOSE makes FETCH an error -/
example : (run ([] : Scope Nat)
    [.declare "cur", .open "CUR" [1, 2, 3], .fetch "Cur" .next, .dml, .fetch "cur" (.absolute 2), .fetch "cur" .next,
     .isInRange "cur", .open "cur" [7], .close "cur", .fetch "cur" .next, .dispose "cur", .count "cur"]).2
    = [.ok, .ok, .row 1, .ok, .row 3, .none, .tern .F, .err .alreadyOpen, .ok, .err .closed, .ok, .err .undeclared] := by
  rfl

/-- WHILE IN sees the rows in order -/
example : whileIn 5 none (CState.opened [1, 2, 3] (-1) false) [] = .ok (.opened [1, 2, 3] 3 true, [1, 2, 3]) := rfl

/-- the premises of `snapshot` are satisfiable by a history that does contain DML and fetches -/
example : ∃ (s : Scope Nat) (ops : List (Op Nat)), lookup s "C" = some (.opened [1, 2] (-1) false) ∧
    (∀ op ∈ ops, ¬ op.discards "C") ∧ ops.length = 3 :=
  ⟨[("C", .opened [1, 2] (-1) false)], [.dml, .fetch "c" .next, .dml], rfl, by
    intro op h
    simp only [List.mem_cons, List.not_mem_nil, or_false] at h
    rcases h with rfl | rfl | rfl <;> simp [Op.discards], rfl⟩

/-- seeded change C16-m4, scenario 1: the body disposes the iterated cursor in iteration 1 → the row of
    iteration 1, `ok` for the DISPOSE, then "undeclared" -/
example : (loopS 10 1 "cur" [.sub (some 1) [.dispose "cur"]] [[("CUR", .opened [1, 2, 3] (-1) false)]])
    = ([[]], [.row 1, .ok, .err .undeclared], true) := rfl

/-- scenario 2: the disposed cursor shadowed an outer open cursor of the same name → the loop goes on
    over the OUTER cursor's rows -/
example : (loopS 10 1 "cur" [.sub (some 1) [.dispose "cur"]]
      [[("CUR", .opened [1, 2, 3] (-1) false)], [("CUR", .opened [10, 20] (-1) false)]]).2
    = ([.row 1, .ok, .row 10, .row 20, .none], true) := rfl

/-- CLOSE + re-OPEN inside the body restarts on the new result; a shadowing DECLARE in the body's block
    hides the cursor from FETCH statements of the body only (the loop's block is cleared every iteration) -/
example : (loopS 10 1 "c" [.sub (some 2) [.close "c", .open "c" [7, 8]], .act (.declare "c"), .act (.isOpen "c")]
      [[("C", .opened [1, 2, 3] (-1) false)]]).2
    = ([.row 1, .ok, .tern .F, .row 2, .ok, .ok, .ok, .tern .F, .row 7, .ok, .tern .F, .row 8, .ok, .tern .F, .none], true) := rfl

/-- scenario 2 as the program is written: the loop stands in a block that declares the shadowing cursor -/
example : (nestS 10 [.declare "cur", .open "cur" [1, 2, 3]] "cur" [.sub (some 1) [.dispose "cur"]] [.isOpen "cur"]
      [[("CUR", .opened [10, 20] (-1) false)]]).2
    = ([.ok, .ok, .row 1, .ok, .row 10, .row 20, .none, .tern .T], true) := rfl

/-- the checker refuses the shape of seed C16-m14 (return while the mutex is held) and the other misuses -/
example : lockPathOK ["lock", "return"] = false ∧ lockPathOK ["lock", "unlock", "return"] = true ∧
    lockPathOK ["lock", "defer-unlock", "return"] = true ∧ lockPathOK ["lock", "lock"] = false ∧
    lockPathOK ["unlock"] = false ∧ lockPathOK ["lock", "defer-unlock", "unlock", "return"] = false ∧
    lockPathOK ["lock"] = false := by decide

/-- an aggregate body over the values [5, 6, 7]: FETCH, COUNT, a refused CLOSE (which ends the call) -/
example : (aggRun "pc" [5, 6, 7] [.fetch "pc" .next, .count "PC", .isOpen "pc", .fetch "pc" .last, .close "pc", .fetch "pc" .first]
      ([] : Scope Nat)).2 = ([.row 5, .int 3, .tern .T, .row 7, .err .pseudo], true) := rfl

/-- one variable for a two-column row: the error, but the pointer has moved (the next FETCH returns row 2) -/
example : (stepFetchInto (fun (r : List Nat) => r.length) [("C", .opened [[1, 2], [3, 4]] (-1) false)] "c" .next 1)
    = ([("C", .opened [[1, 2], [3, 4]] 0 true)], .err .fetchLength) := rfl


/-! # cursors under re-entrance and under concurrent fetchers

  1. T-gen over the ACCESS TRACES of cursor.go (Gen.CursorLocks.trace, regenerated on every run): which method
     evaluates a query while it holds the cursor's mutex, that every method such an evaluation can re-enter tests
     the closed state before it takes the mutex (the mutex is not re-entrant: waiting for it there is waiting for
     ever), which fields are read outside the mutex, that nothing is written outside it, that FETCH moves the
     pointer and reads the row in one critical section.
  2. The model of a re-entrant OPEN (`openRe`): while OPEN evaluates the cursor's query the cursor is still closed.
  3. Any schedule of atomic FETCH NEXT steps by any number of clients hands out every row exactly once.
  (vocabulary and helper lemmas: Csvq/Lemmas/CursorLocks.lean) -/

/-! ## T-gen: who evaluates under the mutex, who may be re-entered -/

/-- `(*Cursor).Open` evaluates the cursor's query (Select) while it holds the cursor's mutex … -/
theorem gen_open_evaluates_under_lock : evaluatesUnderLock "Cursor.Open" = true := by decide

/-- … and it is the only method of cursor.go that does -/
theorem gen_only_open_evaluates_under_lock :
    (Gen.CursorLocks.trace.filter (fun m => m.2.any (evalUnderLockGo false))).map Prod.fst = ["Cursor.Open"] := by decide

/-- no method of *Cursor calls another one: the per-method paths below are the whole story (a helper that takes
    the mutex itself, called from a method that released it, would split a critical section unseen) -/
theorem gen_cursor_methods_do_not_call_each_other :
    Gen.CursorLocks.ownCalls.all (fun m => m.2.isEmpty) = true
    ∧ Gen.CursorLocks.ownCalls.map Prod.fst = Gen.CursorLocks.trace.map Prod.fst := by decide

/-- the tokens the checkers below interpret really are tests of THE closed state: `view` is a field of Cursor -/
theorem gen_view_is_a_cursor_field : Gen.CursorLocks.fields.contains "view" = true := by decide

/-
  FULL STATEMENT (the lock discipline that re-entrance needs): since Open evaluates a query under the mutex, and
  a query can call a user-defined function that executes ANY cursor statement on the cursor being opened,

      every method of *Cursor tests the closed state before it takes the mutex:
        Gen.CursorLocks.trace.all (fun m => m.2.all checksClosedBeforeLock) = true

  It is FALSE for the code as it is: Open itself and Close take the mutex unconditionally, so
  `OPEN cur` / `CLOSE cur` executed by a function that the query of `cur` calls never return (the session
  hangs; known finding F100, reproducer in known_findings.jsonl).  Proved instead: the violators are exactly those
  two (`…_partial`), a concrete blocked path (`…_counterexample`), and that every OTHER method returns.
-/

/-- exactly Open and Close reach the mutex without having tested the closed state; Fetch (the closed check
    comes first — seed C16-m15 moved it behind the Lock) and the status readers do not -/
theorem gen_reentrant_lock_discipline_partial :
    (Gen.CursorLocks.trace.filter (fun m => !m.2.all checksClosedBeforeLock)).map Prod.fst
      = ["Cursor.Open", "Cursor.Close"] := by decide

/-- CLOSE of a cursor from inside the evaluation of its own OPEN waits for the mutex OPEN holds -/
theorem gen_reentrant_lock_discipline_counterexample :
    (traceOf "Cursor.Close").any (fun p => reenterGo true true p = .blocks) = true
    ∧ (traceOf "Cursor.Open").any (fun p => reenterGo true true p = .blocks) = true := by decide

/-- a path that tests the closed state before it locks never waits for the mutex of a closed cursor, whoever
    holds it (all paths, by induction) -/
theorem guarded_path_never_blocks (p : List String) (held : Bool) (h : checksClosedBeforeLock p = true) :
    reenterGo true held p ≠ .blocks :=
  checksClosed_never_blocks p held h

/-- an unguarded `lock` is where a re-entrant caller stops (all paths) -/
theorem unguarded_path_blocks (pre rest : List String)
    (hpre : ∀ t ∈ pre, t ≠ "view==nil" ∧ t ≠ "view!=nil" ∧ t ≠ "lock" ∧ t ≠ "return") :
    reenterGo true true (pre ++ "lock" :: rest) = .blocks :=
  unguarded_lock_blocks pre rest hpre

/-- `open_evaluates_under_lock → every re-entrant method checks the closed state before locking`, for the
    methods FETCH / IS OPEN / IS IN RANGE / COUNT (and the harness' Pointer) reach: entered while the cursor's
    own OPEN holds the mutex (the cursor is closed then: Open has tested `view != nil` under the mutex and
    assigns the view only after the evaluation), none of their paths waits -/
theorem gen_fetch_and_status_return_during_own_open :
    evaluatesUnderLock "Cursor.Open" = true →
    ∀ m ∈ ["Cursor.Fetch", "Cursor.IsOpen", "Cursor.IsInRange", "Cursor.Count", "Cursor.Pointer"],
      ∀ p ∈ traceOf m, ∀ held, reenterGo true held p ≠ .blocks := by
  intro _ m hm p hp held
  apply checksClosed_never_blocks
  have hall : ["Cursor.Fetch", "Cursor.IsOpen", "Cursor.IsInRange", "Cursor.Count", "Cursor.Pointer"].all
      (fun m => (traceOf m).all checksClosedBeforeLock) = true := by decide
  exact List.all_eq_true.mp (List.all_eq_true.mp hall m hm) p hp

/-- the traces of those five methods are not empty (the statement above is about something) -/
theorem gen_reentrant_methods_found :
    ["Cursor.Open", "Cursor.Close", "Cursor.Fetch", "Cursor.IsOpen", "Cursor.IsInRange", "Cursor.Count", "Cursor.Pointer"].all
      (fun m => !(traceOf m).isEmpty) = true := by decide

/-! ## T-gen: what is read and written outside the mutex; FETCH is one critical section -/

/-- every assignment of a cursor field happens under the mutex; outside it there are only READS (second part: every
    unlocked token is one of the three reads — no `wr:`, no call, no token this file does not know): the closed
    check in front of Fetch's Lock and the status readers (known finding F79 of C13: they can see a pointer another
    fetcher is just moving) -/
theorem gen_cursor_unlocked_accesses :
    unlockedAccesses = [("Cursor.Fetch", ["rd:view"]), ("Cursor.IsOpen", ["rd:view"]),
      ("Cursor.IsInRange", ["rd:view", "rd:fetched", "rd:index"]), ("Cursor.Count", ["rd:view"]),
      ("Cursor.Pointer", ["rd:index"])]
    ∧ unlockedAccesses.all (fun m => m.2.all (fun t => ["rd:view", "rd:index", "rd:fetched"].contains t)) = true := by decide

/-- `(*Cursor).Fetch` takes the mutex once and keeps it until it returns: moving the pointer (`wr:index`) and
    reading the row at the pointer (`rd:index`, `rd:view` behind it) are ONE critical section — every FETCH is an
    atomic `fetch` step of the model, which is what `schedule_hands_out_each_row_once` needs (seed C16-m16 moved
    the row read into a helper running after the Unlock) -/
theorem gen_fetch_is_one_critical_section :
    (traceOf "Cursor.Fetch").all oneCriticalSection = true
    ∧ (traceOf "Cursor.Fetch").all (fun p => (unlockedGo false p).all (fun t => t = "rd:view")) = true
    ∧ (traceOf "Cursor.Fetch").any (fun p => p.contains "wr:index" && p.contains "lock") = true := by decide

/-! ## the model of a re-entrant OPEN: the cursor is closed while its OPEN runs -/

section reentrant
variable {α : Type}

/-- FETCH of the cursor from inside its own OPEN: the "closed" error — it ends the evaluation, OPEN fails with
    it, and the cursor is closed afterwards (all scopes, names, results, positions, repetition counts) -/
theorem fetch_during_own_open_is_closed_error (s : Scope α) (n : String) (rows : List α) (reps : Nat) (p : Pos)
    (h : lookup s (key n) = some .closed) :
    openRe [s] n rows (reps + 1) [.fetch n p] = ([s], [.err .closed], true) := by
  simp [openRe, depthOf, lookupS, runReps, runOps, stepS, Op.chainKey, lookup, step, h, CState.fetch]

theorem in_range_during_own_open_is_closed_error (s : Scope α) (n : String) (rows : List α) (reps : Nat)
    (h : lookup s (key n) = some .closed) :
    openRe [s] n rows (reps + 1) [.isInRange n] = ([s], [.err .closed], true) := by
  simp [openRe, depthOf, lookupS, runReps, runOps, stepS, Op.chainKey, lookup, step, h, CState.isInRange]

theorem count_during_own_open_is_closed_error (s : Scope α) (n : String) (rows : List α) (reps : Nat)
    (h : lookup s (key n) = some .closed) :
    openRe [s] n rows (reps + 1) [.count n] = ([s], [.err .closed], true) := by
  simp [openRe, depthOf, lookupS, runReps, runOps, stepS, Op.chainKey, lookup, step, h, CState.count]

/-- IS OPEN from inside its own OPEN is FALSE (no error): the OPEN completes and opens the cursor -/
theorem is_open_during_own_open_is_false (s : Scope α) (n : String) (rows : List α)
    (h : lookup s (key n) = some .closed) :
    openRe [s] n rows 1 [.isOpen n] = ([update s (key n) (.opened rows (-1) false)], [.tern .F, .ok], false) := by
  simp [openRe, depthOf, lookupS, runReps, runOps, stepS, Op.chainKey, lookup, step, h, CState.isOpen, Tern.ofBool, updateAt]

/-- CLOSE from inside its own OPEN is the no-op it is on every closed cursor; the OPEN completes (the code as it
    is never returns here: finding F100) -/
theorem close_during_own_open_is_noop (s : Scope α) (n : String) (rows : List α)
    (h : lookup s (key n) = some .closed) :
    (openRe [s] n rows 1 [.close n]).2 = ([.ok, .ok], false)
    ∧ lookupS (openRe [s] n rows 1 [.close n]).1 (key n) = some (.opened rows (-1) false) := by
  have hs : (lookup s (key n)).isSome := by simp [h]
  have hu : lookup (update s (key n) CState.closed) (key n) = some .closed := lookup_update_same s (key n) .closed hs
  have hs2 : (lookup (update s (key n) CState.closed) (key n)).isSome := by simp [hu]
  constructor
  · simp [openRe, depthOf, lookupS, runReps, runOps, stepS, Op.chainKey, lookup, step, h, CState.close]
  · simp [openRe, depthOf, lookupS, runReps, runOps, stepS, Op.chainKey, lookup, step, h, CState.close, updateAt,
      lookup_update_same _ _ _ hs2]

/-- an open cursor: OPEN is refused before anything is evaluated — the function is not called at all -/
theorem open_of_open_cursor_calls_nothing (s : Scope α) (n : String) (rows rows0 : List α) (i : Int) (f : Bool)
    (reps : Nat) (body : List (Op α)) (h : lookup s (key n) = some (.opened rows0 i f)) :
    openRe [s] n rows reps body = ([s], [.err .alreadyOpen], true) := by
  simp [openRe, depthOf, lookupS, h]

theorem open_of_undeclared_cursor_calls_nothing (s : Scope α) (n : String) (rows : List α) (reps : Nat)
    (body : List (Op α)) (h : lookup s (key n) = none) :
    openRe [s] n rows reps body = ([s], [.err .undeclared], true) := by
  simp [openRe, depthOf, lookupS, h]

/-- a function that does nothing with cursors (or is not called: no row): the re-entrant OPEN is the plain OPEN -/
theorem open_with_empty_body_is_open (s : Scope α) (n : String) (rows : List α) (reps : Nat)
    (h : lookup s (key n) = some .closed) :
    openRe [s] n rows reps [] = ([(step s (.open n rows)).1], [.ok], false) := by
  have hr : ∀ r, runReps [s] ([] : List (Op α)) r = ([s], [], false) := by
    intro r
    induction r with
    | zero => rfl
    | succ r ih => simp [runReps, runOps, ih]
  simp [openRe, depthOf, lookupS, h, hr, updateAt, step, CState.open]

end reentrant

/-! ## concurrent fetchers: any interleaving of atomic FETCH NEXT steps -/

section concurrent
variable {α κ : Type}

/-- whatever the schedule (which client's FETCH NEXT takes the mutex next — any number of clients, any order):
    the rows handed out, in the order of the schedule, are the rows behind the pointer, in order; the event
    list has one entry per step, owned by the scheduled client -/
theorem schedule_hands_out_in_order (rows : List α) (hl : LenOK rows) (sched : List κ) (i : Int) (f : Bool)
    (h0 : -1 ≤ i) (h1 : i ≤ rows.length) :
    handedOut (runSched (CState.opened rows i f) sched).2 = (rows.drop (i + 1).toNat).take sched.length
    ∧ (runSched (CState.opened rows i f) sched).2.map Prod.fst = sched :=
  ⟨(runSched_opened rows hl sched i f h0 h1).1, (runSched_opened rows hl sched i f h0 h1).2.1⟩

/-- a freshly opened cursor fetched to its end by k clients (at least one FETCH per row in total): the rows
    handed out are exactly the cursor's rows — each row once, none twice, none skipped — and the cursor rests
    behind the last row -/
theorem schedule_hands_out_each_row_once (rows : List α) (hl : LenOK rows) (sched : List κ)
    (hlen : rows.length ≤ sched.length) :
    handedOut (runSched (CState.opened rows (-1) false) sched).2 = rows := by
  have h := runSched_opened rows hl sched (-1) false (by omega) (by omega)
  rw [h.1]
  simp [List.take_of_length_le hlen]

/-- … and once some client has seen "no row" (one FETCH more than there are rows) the cursor rests behind the
    last row, where every further FETCH NEXT of every client finds nothing -/
theorem schedule_ends_behind_last_row (rows : List α) (hl : LenOK rows) (sched : List κ)
    (hlen : rows.length < sched.length) :
    (runSched (CState.opened rows (-1) false) sched).1 = .opened rows rows.length true := by
  have hne : sched ≠ [] := by intro h; simp [h] at hlen
  have h := runSched_opened rows hl sched (-1) false (by omega) (by omega)
  rw [h.2.2 hne]
  have : ¬ (-1 + (sched.length : Int) < rows.length) := by omega
  rw [if_neg this]

/-- what one client received and what all the others received are, together, the rows handed out: nothing is
    handed to two clients, nothing is lost between them -/
theorem clients_partition_the_rows [DecidableEq κ] (ev : List (κ × Option α)) (k : κ) :
    (receivedBy k ev ++ handedOut (ev.filter (fun e => !decide (e.1 = k)))).Perm (handedOut ev) := by
  unfold receivedBy handedOut
  rw [← List.filterMap_append]
  exact (List.filter_append_perm (fun e => decide (e.1 = k)) ev).filterMap _

/-- so for a cursor fetched to its end: client k's rows plus everybody else's rows are a permutation of the
    cursor's rows, under every schedule -/
theorem concurrent_fetchers_share_the_rows [DecidableEq κ] (rows : List α) (hl : LenOK rows) (sched : List κ)
    (hlen : rows.length ≤ sched.length) (k : κ) :
    (receivedBy k (runSched (CState.opened rows (-1) false) sched).2
      ++ handedOut ((runSched (CState.opened rows (-1) false) sched).2.filter (fun e => !decide (e.1 = k)))).Perm rows := by
  have h := clients_partition_the_rows (runSched (CState.opened rows (-1) false) sched).2 k
  rw [schedule_hands_out_each_row_once rows hl sched hlen] at h
  exact h

/-- the single-client schedule is WHILE IN: `while_in_visits_all_once` is the special case -/
theorem single_client_schedule_is_while_in (rows : List α) (hl : LenOK rows) :
    handedOut (runSched (CState.opened rows (-1) false) (List.replicate (rows.length + 1) ())).2 = rows := by
  exact schedule_hands_out_each_row_once rows hl (List.replicate (rows.length + 1) ()) (by simp)

end concurrent

/-! ## non-vacuity -/

example : checksClosedBeforeLock ["rd:view", "view!=nil", "lock", "defer-unlock", "return"] = true
    ∧ checksClosedBeforeLock ["lock", "defer-unlock", "rd:view", "view==nil", "return"] = false
    ∧ reenterGo true true ["lock", "defer-unlock", "rd:view", "view==nil", "return"] = .blocks
    ∧ reenterGo true true ["rd:view", "view==nil", "return"] = .returns
    ∧ reenterGo true true ["rd:view", "view!=nil", "lock", "return"] = .infeasible := by decide

example : oneCriticalSection ["lock", "wr:index", "unlock", "rd:index", "return"] = false
    ∧ oneCriticalSection ["lock", "defer-unlock", "wr:index", "rd:index", "return"] = true
    ∧ unlockedGo false ["lock", "wr:index", "unlock", "rd:index", "return"] = ["rd:index"] := by decide

example : openRe [[("CUR", CState.closed), ("C2", .opened [7, 8] (-1) false)]] "cur" [1, 2, 3] 2 [.fetch "c2" .next, .isOpen "cur"]
    = ([[("CUR", .opened [1, 2, 3] (-1) false), ("C2", .opened [7, 8] 1 true)]],
       [.row 7, .tern .F, .row 8, .tern .F, .ok], false) := rfl

example : (openRe [[("CUR", (CState.closed : CState Nat))]] "cur" [1, 2, 3] 1 [.dispose "cur"])
    = ([[]], [.ok, .ok], false) := rfl

example : (runSched (CState.opened [10, 20, 30] (-1) false) ["a", "b", "b", "a", "b"]).2
    = [("a", some 10), ("b", some 20), ("b", some 30), ("a", none), ("b", none)] := by decide


/-! # the DECLARE position: a cursor declared in a block ends with the block

  Every construct that opens a block runs its statements on `[] :: st` and drops the block afterwards (`runItem`,
  `runNested`, `loopS`, `openRe`'s function body): the theorems are about `runOps ([] :: st) ops` for ALL statement
  lists, so they hold for every construct alike — which constructs those are is read from the regenerated block
  handling of processor.go (Gen.Scope.blockHandling, extract/scopefacts). -/

/-- T-gen: every branch of IF / ELSEIF / ELSE and of CASE … WHEN / ELSE runs through `executeChild` (two call sites
    each: the matching branch inside the loop, the ELSE branch after it) and none through a bare `proc.execute`
    (seed C16-m17: the ELSE branch of CASE); `executeChild` makes a child processor, runs the statements in it and
    closes its block on every path; WHILE and WHILE … IN create one child processor, clear its block at the top of
    every iteration, run the body in it and close it by `defer`; a function body runs in `scope.CreateChild()`,
    closed by `defer` -/
theorem gen_every_block_construct_opens_a_child_block :
    countTok "proc.executeChild" (blockCalls "Processor.IfStmt") = 2 ∧ countTok "proc.execute" (blockCalls "Processor.IfStmt") = 0
    ∧ countTok "proc.executeChild" (blockCalls "Processor.Case") = 2 ∧ countTok "proc.execute" (blockCalls "Processor.Case") = 0
    ∧ blockCalls "Processor.executeChild" = ["proc.NewChildProcessor", "child.execute", "if{", "}", "child.Close", "return flow,err"]
    ∧ (blockCalls "Processor.While").take 4 = ["proc.NewChildProcessor", "defer childProc.Close", "for{", "childProc.ReferenceScope.ClearCurrentBlock"]
    ∧ countTok "childProc.execute" (blockCalls "Processor.While") = 1 ∧ countTok "proc.execute" (blockCalls "Processor.While") = 0
    ∧ (blockCalls "Processor.WhileInCursor").take 4 = ["proc.NewChildProcessor", "defer childProc.Close", "for{", "childProc.ReferenceScope.ClearCurrentBlock"]
    ∧ countTok "childProc.execute" (blockCalls "Processor.WhileInCursor") = 1 ∧ countTok "proc.execute" (blockCalls "Processor.WhileInCursor") = 0
    ∧ (blockCalls "UserDefinedFunction.Execute").take 3 = ["scope.CreateChild", "defer childScope.CloseCurrentBlock", "fn.execute"]
    ∧ (blockCalls "UserDefinedFunction.ExecuteAggregate").take 2 = ["scope.CreateChild", "defer childScope.CloseCurrentBlock"] := by
  decide

/-- the statements that open a block are dispatched to exactly those methods -/
theorem gen_block_statements_dispatch :
    Gen.Scope.dispatch.lookup "parser.If" = some "proc.IfStmt" ∧ Gen.Scope.dispatch.lookup "parser.Case" = some "proc.Case"
    ∧ Gen.Scope.dispatch.lookup "parser.While" = some "proc.While"
    ∧ Gen.Scope.dispatch.lookup "parser.WhileInCursor" = some "proc.WhileInCursor" := by decide

section blocks
variable {α : Type}

/-- whatever a block does (all statement lists, all stacks): a name that no enclosing block knows is unknown again
    when the block is gone — its DECLAREs went into the block, nothing adds a name to the blocks below -/
theorem block_declarations_end_with_block (st : Stack α) (ops : List (Op α)) (k : String) (h : lookupS st k = none) :
    lookupS (runOps ([] :: st) ops).1.tail k = none := by
  obtain ⟨b', rest', h1, h2⟩ := runOps_cons ops [] st k h
  rw [h1]
  exact h2

/-- so every cursor statement on that name after the block is the "undeclared" error … -/
theorem cursor_declared_in_block_is_undeclared_after (st : Stack α) (ops : List (Op α)) (n : String) (op : Op α)
    (hop : op.chainKey = some (key n)) (h : lookupS st (key n) = none) :
    stepS (runItem 0 st (.sub none (.declare n :: ops))).1 op
      = ((runItem 0 st (.sub none (.declare n :: ops))).1, .err .undeclared) := by
  apply stepS_undeclared _ op (key n) hop
  simp only [runItem]
  exact block_declarations_end_with_block st (.declare n :: ops) (key n) h

/-- … and the name can be declared anew at top level -/
theorem cursor_declared_in_block_can_be_redeclared_after (s : Scope α) (ops : List (Op α)) (n : String)
    (h : lookup s (key n) = none) :
    ∃ s', (runItem 0 [s] (.sub none (.declare n :: ops))).1 = [s'] ∧ (step s' (.declare n)).2 = .ok := by
  have hS : lookupS [s] (key n) = none := by simp [lookupS, h]
  obtain ⟨b', rest', h1, h2⟩ := runOps_cons (.declare n :: ops) [] [s] (key n) hS
  -- the stack keeps its height: one block below the dropped one
  have hl := runOps_length (.declare n :: ops) ([] :: [s])
  rw [h1] at hl
  match rest', hl, h2 with
  | [s'], _, h2 =>
    refine ⟨s', by simp [runItem, h1], ?_⟩
    have : lookup s' (key n) = none := by
      simpa [lookupS] using (lookupS_none_cons s' [] (key n)).mp h2
    simp [step, this]

/-- a block that declares nothing between two blocks is invisible: the same statements give the same results and
    leave the same blocks (the harness renders one block in five with a second construct around it) -/
theorem empty_block_is_transparent (b : Scope α) (rest : Stack α) (ops : List (Op α)) :
    runOps (b :: [] :: rest) ops = (insertEmpty (runOps (b :: rest) ops).1, (runOps (b :: rest) ops).2) :=
  runOps_insertEmpty ops b rest

/-- an inner block alone in an outer block is one block -/
theorem nested_block_alone_is_one_block (st : Stack α) (inner : List (Op α)) :
    runNested st [] inner [] = ((runOps ([] :: st) inner).1.tail, (runOps ([] :: st) inner).2) := by
  have h := runOps_insertEmpty inner [] st
  obtain ⟨b', rest', hs⟩ := runOps_shape inner [] st
  simp only [insertEmpty] at h
  simp only [runNested, runOps]
  rw [h, hs]
  generalize (runOps ([] :: st) inner).2 = r
  obtain ⟨rs, e⟩ := r
  cases e <;> simp [insertEmpty, runOps]

end blocks

example : (runNested [[("CUR", CState.opened [1, 2, 3] 0 true)]] [.declare "cur", .open "cur" [7, 8], .fetch "cur" .next]
      [.declare "cur", .open "cur" [9], .fetch "cur" .next] [.fetch "cur" .next, .count "CUR"])
    = ([[("CUR", .opened [1, 2, 3] 0 true)]], [.ok, .ok, .row 7, .ok, .ok, .row 9, .row 8, .int 2], false) := rfl

example : (stepS (runItem 0 [[("CUR", CState.opened [1, 2, 3] 0 true)]] (.sub none [.declare "cur", .open "cur" [7, 8], .fetch "cur" .next])).1
      (.fetch "cur" .next)).2 = .row 2 := rfl

end Csvq.C16
