/-
  C17, fifth part — the IDENTITY OF RESULT COLUMNS (Model/ColumnIdent.lean): header.go `equalFieldIdentifiers`, the text
  comparison behind Header.ContainsObject that decides whether an analytic function of a query ALREADY HAS a result
  column (View.evalAnalyticFunction returns at once when it says yes).

    * impl = spec for ALL printed expressions: for every text built from pieces — text outside quotes, string literals
      holding ARBITRARY runes (backslashes, quotes, control characters: escaped as option.QuoteString escapes them),
      quoted identifiers (option.QuoteIdentifier) — and EVERY other text `b`, the comparison answers TRUE iff `b` equals
      the expression rune by rune, exactly inside string literals and up to letter case outside;
    * consequences over pieces: the same pieces up to letter case outside literals share a column; a literal of another
      content (another letter case, one more blank) never does, whatever stands in front of it — in particular after a
      literal that ends in a backslash, holds escaped quotes, or is empty;
    * the seeded shape (the backslash case in front of the escaped case) fails exactly there (counterexample);
    * the order of the scanner's cases is REGENERATED from header.go on every run (extract/analyticfacts
      identifierScanner, fails closed on any other loop body) and pinned.
-/
import Csvq.Model.ColumnIdent
import Csvq.Lemmas.ColumnIdent
import Csvq.Gen.AnalyticFacts
namespace Csvq.C17
open Csvq Csvq.ColIdent Csvq.Esc

/-! ## 1. the tie to the source -/

set_option maxRecDepth 16384 in
/-- REGENERATED from lib/query/header.go: equalFieldIdentifiers is the three early returns, the state (quote, escaped),
    one loop over the runes of `a` whose body is ONE switch with exactly these cases IN THIS ORDER — the order the
    model's `step` tests them in (`scannerCases`) —, and `return true`; Header.ContainsObject sends every candidate
    field through it -/
theorem gen_identifier_scanner_eq_model :
    Gen.An.identifierScannerCases.map Prod.fst = scannerCases ∧
    Gen.An.identifierScannerCases
      = [("quote == 0", "if ra[i] == '\\'' || ra[i] == '`' {quote = ra[i]}"), ("quote == '\\'' && ra[i] != rb[i]", "return false"),
         ("escaped", "escaped = false"), ("ra[i] == '\\\\'", "escaped = true"), ("ra[i] == quote", "quote = 0")] ∧
    Gen.An.identifierPrologue
      = ["if a == b {return true}", "if !strings.EqualFold(a, b) {return false}", "ra, rb := []rune(a), []rune(b)",
         "if len(ra) != len(rb) {return true}", "var quote rune = 0", "escaped := false"] ∧
    Gen.An.identifierLoop = "for i := range ra" ∧
    Gen.An.identifierEpilogue = ["return true"] ∧
    Gen.An.containsObjectCalls = [("FormatFieldIdentifier", ["obj"]), ("equalFieldIdentifiers", ["f.Identifier", "column"])] := by
  decide

/-- the model's `step` tests the cases in that order: each case is reached only when every earlier one failed -/
theorem step_case_order (st : St) (x y : Char) :
    (st.quote = none → step st x y = some (if x = '\'' ∨ x = '`' then ⟨some x, st.escaped⟩ else st)) ∧
    (∀ q, st.quote = some q → q = '\'' ∧ x ≠ y → step st x y = none) ∧
    (∀ q, st.quote = some q → ¬(q = '\'' ∧ x ≠ y) → st.escaped = true → step st x y = some ⟨some q, false⟩) ∧
    (∀ q, st.quote = some q → ¬(q = '\'' ∧ x ≠ y) → st.escaped = false → x = '\\' → step st x y = some ⟨some q, true⟩) ∧
    (∀ q, st.quote = some q → ¬(q = '\'' ∧ x ≠ y) → st.escaped = false → x ≠ '\\' → x = q → step st x y = some ⟨none, false⟩) := by
  refine ⟨?_, ?_, ?_, ?_, ?_⟩
  · intro h; simp only [step, h]; split <;> rfl
  · intro q h hx; simp [step, h, hx.1, hx.2]
  · intro q h hx he; simp only [step, h]; rw [if_neg hx]; simp [he]
  · intro q h hx he hb; simp only [step, h]; rw [if_neg hx]; simp [he, hb]
  · intro q h hx he hb hq; subst hq; simp only [step, h]; rw [if_neg hx]; simp [he, hb]

/-! ## 2. impl = spec -/

/-- RESULT COLUMN IDENTITY.  For every printed expression (pieces `A`: text outside quotes without ' and `, string
    literals and quoted identifiers with ARBITRARY content, escaped as the printer escapes them), every other text `b`
    and every reflexive rune folding: equalFieldIdentifiers answers TRUE iff `b` has as many runes as the expression
    and agrees with it rune by rune — exactly inside the string literals (content and closing quote), up to case
    folding everywhere else -/
theorem column_identity_spec (feq : Char → Char → Bool) (hrefl : ∀ c, feq c c = true)
    (A : List Seg) (hA : ∀ g ∈ A, g.OK) (b : List Char) :
    equalFieldIdentifiers feq (render A) b = sameColumn feq A b := by
  unfold sameColumn
  rw [sameUpTo_eq feq hrefl (render A) (marks A) b (marks_length A)]
  unfold equalFieldIdentifiers
  by_cases hab : render A = b
  · rw [if_pos hab, ← hab, foldEq_self feq hrefl, checks_self]; rfl
  · rw [if_neg hab]
    cases hf : foldEq feq (render A) b with
    | false => simp
    | true =>
      have hl := foldEq_length feq _ _ hf
      simp only [Bool.not_true, Bool.false_eq_true, if_false, hl, ne_eq, not_true_eq_false, Bool.true_and]
      exact scan_render A hA b hl

/-- a function text is its own column -/
theorem column_identity_refl (feq : Char → Char → Bool) (a : List Char) : equalFieldIdentifiers feq a a = true := by
  simp [equalFieldIdentifiers]

/-! ## 3. over pieces -/

/-- two pieces print texts that denote the same thing: text outside quotes and quoted identifiers up to letter case,
    string literals only with the SAME content -/
def Seg.same (feq : Char → Char → Bool) : Seg → Seg → Bool
  | .plain s, .plain t => foldEq feq s t
  | .str s, .str t => decide (s = t)
  | .ident s, .ident t => foldEq feq (quoteIdentifier s) (quoteIdentifier t)
  | _, _ => false

def sameSegs (feq : Char → Char → Bool) : List Seg → List Seg → Bool
  | [], [] => true
  | g :: A, h :: B => Seg.same feq g h && sameSegs feq A B
  | _, _ => false

theorem sameUpTo_append (feq : Char → Char → Bool) : ∀ (a1 : List Char) (m1 : List Bool) (b1 a2 : List Char) (m2 : List Bool) (b2 : List Char),
    sameUpTo feq a1 m1 b1 = true → sameUpTo feq a2 m2 b2 = true → sameUpTo feq (a1 ++ a2) (m1 ++ m2) (b1 ++ b2) = true
  | [], [], [], _, _, _, _, h2 => by simpa using h2
  | [], [], _ :: _, _, _, _, h1, _ => by simp [sameUpTo] at h1
  | [], _ :: _, _, _, _, _, h1, _ => by simp [sameUpTo] at h1
  | _ :: _, [], _, _, _, _, h1, _ => by simp [sameUpTo] at h1
  | _ :: _, _ :: _, [], _, _, _, h1, _ => by simp [sameUpTo] at h1
  | x :: a1, e :: m1, y :: b1, a2, m2, b2, h1, h2 => by
    simp only [sameUpTo, Bool.and_eq_true] at h1
    simp only [List.cons_append, sameUpTo, Bool.and_eq_true]
    exact ⟨h1.1, sameUpTo_append feq a1 m1 b1 a2 m2 b2 h1.2 h2⟩

theorem sameUpTo_of_foldEq (feq : Char → Char → Bool) : ∀ (a b : List Char), foldEq feq a b = true →
    sameUpTo feq a (a.map fun _ => false) b = true
  | [], [], _ => rfl
  | [], _ :: _, h => by simp [foldEq] at h
  | _ :: _, [], h => by simp [foldEq] at h
  | x :: a, y :: b, h => by
    simp only [foldEq, Bool.and_eq_true] at h
    simp [sameUpTo, h.1, sameUpTo_of_foldEq feq a b h.2]

theorem sameUpTo_self_marked (feq : Char → Char → Bool) (hrefl : ∀ c, feq c c = true) : ∀ (a : List Char) (m : List Bool),
    m.length = a.length → sameUpTo feq a m a = true
  | [], [], _ => rfl
  | [], _ :: _, h => by simp at h
  | _ :: _, [], h => by simp at h
  | x :: a, e :: m, h => by
    cases e <;> simp [sameUpTo, hrefl, sameUpTo_self_marked feq hrefl a m (by simpa using h)]

theorem seg_same_sameUpTo (feq : Char → Char → Bool) (hrefl : ∀ c, feq c c = true) (g h : Seg) (e : Seg.same feq g h = true) :
    sameUpTo feq g.render g.mark h.render = true := by
  cases g <;> cases h <;> simp only [Seg.same, Bool.false_eq_true, decide_eq_true_eq] at e
  · exact sameUpTo_of_foldEq feq _ _ e
  · subst e; exact sameUpTo_self_marked feq hrefl _ _ (mark_length _)
  · exact sameUpTo_of_foldEq feq _ _ e

/-- SAME PIECES, SAME COLUMN: two printed expressions whose pieces agree — text outside quotes and quoted identifiers up
    to letter case, string literals in content — denote the same result column (the second function is not evaluated
    again and reads the first one's values) -/
theorem same_pieces_share_column (feq : Char → Char → Bool) (hrefl : ∀ c, feq c c = true) :
    ∀ (A B : List Seg), (∀ g ∈ A, g.OK) → sameSegs feq A B = true →
      equalFieldIdentifiers feq (render A) (render B) = true := by
  intro A B hA hs
  rw [column_identity_spec feq hrefl A hA]
  unfold sameColumn
  induction A generalizing B with
  | nil => cases B with
    | nil => rfl
    | cons _ _ => simp [sameSegs] at hs
  | cons g A ih =>
    cases B with
    | nil => simp [sameSegs] at hs
    | cons h B =>
      simp only [sameSegs, Bool.and_eq_true] at hs
      rw [render_cons, render_cons, marks_cons]
      exact sameUpTo_append feq _ _ _ _ _ _ (seg_same_sameUpTo feq hrefl g h hs.1)
        (ih B (fun g' hg' => hA g' (List.mem_cons_of_mem _ hg')) hs.2)

/-! ## 4. the seeded shape -/

def q1 : List Seg := [.plain "LAG(d || ".toList, .str ['\\'], .plain ", 1, ".toList, .str "none".toList, .plain ") OVER (ORDER BY k)".toList]
def q2 : List Seg := [.plain "LAG(d || ".toList, .str ['\\'], .plain ", 1, ".toList, .str "NONE".toList, .plain ") OVER (ORDER BY k)".toList]

/-- the two LAG calls of the seed's demonstration print as expected -/
theorem seed_texts :
    String.ofList (render q1) = "LAG(d || '\\\\', 1, 'none') OVER (ORDER BY k)" ∧
    String.ofList (render q2) = "LAG(d || '\\\\', 1, 'NONE') OVER (ORDER BY k)" := by decide

/-- COUNTEREXAMPLE of the seeded shape: with the backslash case in front of the escaped case the escaped backslash
    before the closing quote is read as an escaped quote, the in-literal state is inverted for the rest of the text and
    'none' / 'NONE' are compared case-insensitively: the two functions share a column — while the code as it stands
    (and the specification) keep them apart -/
theorem swapped_cases_counterexample :
    equalFieldIdentifiersSwapped asciiFold (render q1) (render q2) = true ∧
    equalFieldIdentifiers asciiFold (render q1) (render q2) = false ∧
    sameColumn asciiFold q1 (render q2) = false := by decide

/-- … and so do the other shapes of an earlier literal: empty, holding an escaped quote, holding a backquote, a quoted
    identifier holding a quote — the later literal is still compared exactly; letter case outside literals and inside
    quoted identifiers is ignored -/
theorem later_literal_stays_exact :
    (∀ first ∈ [Seg.str [], .str ['\''], .str ['a', '\'', '\\'], .str ['`'], .ident ['\''], .ident ['`', '\\'], .str ['\\', '\\'], .str ['\n']],
      equalFieldIdentifiers asciiFold (render [.plain ['f', '('], first, .plain [','], .str ['x'], .plain [')']])
          (render [.plain ['F', '('], first, .plain [','], .str ['X'], .plain [')']]) = false ∧
      equalFieldIdentifiers asciiFold (render [.plain ['f', '('], first, .plain [','], .str ['x'], .plain [')']])
          (render [.plain ['F', '('], first, .plain [','], .str ['x'], .plain [')']]) = true) ∧
    equalFieldIdentifiers asciiFold (render [.ident ['a', 'b']]) (render [.ident ['A', 'B']]) = true := by
  decide

/-! ## non-vacuity -/

example : ∀ g ∈ q1, g.OK := by
  intro g hg
  simp only [q1, List.mem_cons, List.mem_nil_iff, or_false] at hg
  rcases hg with h | h | h | h | h <;> subst h <;> first | trivial | (intro c hc; revert c; decide)
example : sameSegs asciiFold [.plain "lag(".toList, .str "a".toList, .plain ")".toList] [.plain "LAG(".toList, .str "a".toList, .plain ")".toList] = true := by decide
example : sameSegs asciiFold [.plain "lag(".toList, .str "a".toList] [.plain "LAG(".toList, .str "A".toList] = false := by decide
example : step ⟨some '\'', true⟩ '\\' '\\' = some ⟨some '\'', false⟩ := by decide
example : stepSwapped ⟨some '\'', true⟩ '\\' '\\' = some ⟨some '\'', true⟩ := by decide
example : ∀ c, asciiFold c c = true := by intro c; simp [asciiFold]
example : escapeString ['\\'] = ['\\', '\\'] := by decide

end Csvq.C17
