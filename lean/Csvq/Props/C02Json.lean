/-
  Property C02 (and the loader clause of C19) — JSON and JSON Lines: THE STRUCTURE MAPPING.

  Csvq.Props.C02 section J proves the token / character level (scanner, grammar, escapes) and section P the
  writer's nesting of path-named columns.  Here the step between a decoded JSON value and a table is inside
  the model, in the shape of the Go code (Csvq.Model.JsonStruct):
      `loadTable`      = lib/json `LoadTable` (empty query) + `ConvertToTableValue`,
      `loadJsonLines`  = the collector of lib/query `loadViewFromJsonLinesFile`,
      `loadTableQ`     = `LoadTable` with the query `{}` (`Extract` on a TableExpr without fields),
      `tableStructure` = lib/json `ConvertTableValueToJsonStructure`.
  The op lines c02.jsload / c02.jslines / c02.jswrite / c02.jsrt of the c02 stream compare them with the real
  functions on generated JSON values (objects with differing key sets and orders, repeated keys, non-object
  elements, nested values, the empty array, scalars at top level) and generated tables.

  Proved for ALL JSON values (`JS`: null, booleans, strings, numbers, arrays, objects — members are a LIST, so
  repeated keys are values like any other):
    `json_load_rectangular`, `jsonl_load_rectangular`, `json_query_load_rectangular`
                              the loader returns an error or a table every record of which has exactly
                              header-many fields;
    `json_load_ok_iff`, `jsonl_load_ok_iff`   exactly which values load: an array all of whose elements are
                              objects / lines each blank or an object — a single object, a scalar, the empty
                              text, an array with one non-object element are errors;
    `json_load_shape`         one record per element, in order; the header has no repetition and holds exactly
                              the keys that occur in some element; the field of record i in column k is the cell
                              of the FIRST member `k` of element i, NULL when the element has no such member
                              (nested arrays / objects are the String of their compact text: `cellOfJS`);
    `json_load_is_spec`, `jsonl_load_is_spec`   the code-shaped loaders are `tableOf` of Csvq.Model.Json (header =
                              keys in order of first appearance over ALL elements, not only the first);
    `jsonl_load_as_json`      JSON Lines = JSON of the array of the non-blank lines;
    `json_loader_factors`, `jsonl_loader_factors`   the text loaders of section J are: grammar, then these;
    `json_writer_factors`     the writers of section P are: `tableStructure`, then the encoder;
    `json_written_loads`      whatever the writer accepts, the loaders load: no error, as many records;
    `json_query_object`       with the query `{}` a single object is the one-record table of it.
  The round trip on structures,
      ∀ tb, StructSpellable canon tb →
        ∃ js, tableStructure tb = some js ∧ loadTable canon (some (.arr js)) = .ok (canonTable tb) ∧
              loadJsonLines canon (js.map some) = .ok (canonTable tb)                    (WANTED — does not hold)
  (`StructSpellable`: the existing decision `pathsSpellable` for the header, rectangular, stable number
  texts) is false of the code in three ways, `json_structure_roundtrip_counterexample`:
    * a column named by a path (`a.b`) is written as a nested object and read back as the column `a` holding the
      text `{"b":1}` — the loader does not flatten (csvq's documented JSON export convention; known finding F115,
      observed on the real code on every run: laws roundtrip:json:path_named_column / roundtrip:jsonl:path_named_column);
    * `a\.b` (an escaped dot) is written as the key `a.b` and read back under that name;
    * a table without records is written `[]` and loses its header (F27).
  `json_structure_roundtrip_partial` is what holds: every name one path segment that spells itself
  (`PlainName`: `parsePath s = some [s]` — in particular every name without '.' and backslash,
  `plain_of_flat`) and at least one record.
-/
import Csvq.Lemmas.JsonStruct
import Csvq.Props.C02
namespace Csvq.C02
open Csvq.Csv

namespace S
open Csvq.Json

/-! ## rectangular, for all JSON values -/

/-- **Rectangular, JSON, for ALL decoded values**: `loadTable` returns an error or a table every record of
    which has exactly as many fields as the header. -/
theorem json_load_rectangular (canon : List Char → Option (List Char)) (v : Option JS) :
    loadTable canon v = .error .parse ∨
    ∃ t, loadTable canon v = .ok t ∧ ∀ row ∈ t.rows, row.length = t.header.length := by
  cases h : loadTable canon v with
  | error e => cases e; exact Or.inl rfl
  | ok t =>
    refine Or.inr ⟨t, rfl, ?_⟩
    cases v with
    | none => simp [loadTable] at h
    | some j =>
      cases j with
      | arr items =>
        simp only [loadTable, convertToTableValue] at h
        split at h
        · cases h
        · injection h with h
          subst h
          intro row hrow
          obtain ⟨x, _, rfl⟩ := List.mem_map.mp hrow
          exact recordOf_length canon _ x
      | null => simp [loadTable] at h
      | bool b => simp [loadTable] at h
      | str s => simp [loadTable] at h
      | num a => simp [loadTable] at h
      | obj ms => simp [loadTable] at h

/-- **Rectangular, JSON Lines, for ALL sequences of decoded lines** (`none` = a blank line). -/
theorem jsonl_load_rectangular (canon : List Char → Option (List Char)) (lines : List (Option JS)) :
    loadJsonLines canon lines = .error .parse ∨
    ∃ t, loadJsonLines canon lines = .ok t ∧ ∀ row ∈ t.rows, row.length = t.header.length := by
  cases h : loadJsonLines canon lines with
  | error e => cases e; exact Or.inl rfl
  | ok t =>
    refine Or.inr ⟨t, rfl, ?_⟩
    simp only [loadJsonLines] at h
    split at h
    · injection h with h
      subst h
      intro row hrow
      obtain ⟨ms, _, rfl⟩ := List.mem_map.mp hrow
      simp
    · cases h

/-- **Rectangular, JSON with the query `{}`** (C19 quantifies over json-query). -/
theorem json_query_load_rectangular (canon : List Char → Option (List Char)) (v : Option JS) :
    loadTableQ canon v = .error .parse ∨
    ∃ t, loadTableQ canon v = .ok t ∧ ∀ row ∈ t.rows, row.length = t.header.length := by
  cases v with
  | none => exact Or.inl rfl
  | some j =>
    simp only [loadTableQ]
    cases extractTable j with
    | none => exact Or.inl rfl
    | some w => exact json_load_rectangular canon (some w)

/-! ## which values load, and as what -/

theorem json_load_ok_iff (canon : List Char → Option (List Char)) (v : Option JS) :
    (∃ t, loadTable canon v = .ok t) ↔ ∃ items, v = some (.arr items) ∧ ∀ x ∈ items, ∃ ms, x = .obj ms := by
  cases v with
  | none => simp [loadTable]
  | some j =>
    cases j with
    | arr items =>
      have hi := collectHeader_isSome_iff [] items
      simp only [loadTable, convertToTableValue]
      cases hc : collectHeader [] items with
      | none =>
        rw [hc] at hi
        simp only [Option.isSome_none, Bool.false_eq_true, false_iff] at hi
        constructor
        · rintro ⟨t, ht⟩; cases ht
        · rintro ⟨items', he, hall⟩
          injection he with he; injection he with he; subst he
          exact absurd hall hi
      | some hd =>
        rw [hc] at hi
        exact ⟨fun _ => ⟨items, rfl, hi.mp rfl⟩, fun _ => ⟨_, rfl⟩⟩
    | null => simp [loadTable]
    | bool b => simp [loadTable]
    | str s => simp [loadTable]
    | num a => simp [loadTable]
    | obj ms => simp [loadTable]

theorem jsonl_load_ok_iff (canon : List Char → Option (List Char)) (lines : List (Option JS)) :
    (∃ t, loadJsonLines canon lines = .ok t) ↔ ∀ l ∈ lines, l = none ∨ ∃ ms, l = some (.obj ms) := by
  rw [loadJsonLines_eq, ← objsOfVals_isSome_iff]
  cases objsOfVals lines with
  | none => simp
  | some objs => simp

/-- **What is loaded**: records, header, fields. -/
theorem json_load_shape (canon : List Char → Option (List Char)) (items : List JS) (t : DTable)
    (h : loadTable canon (some (.arr items)) = .ok t) :
    t.rows.length = items.length ∧ t.header.Nodup ∧ (∀ k, k ∈ t.header ↔ k ∈ keysOfItems items) ∧
    ∀ (i : Nat) (ms : List (List Char × JS)), items[i]? = some (.obj ms) →
      t.rows[i]? = some (t.header.map fun k => cellOpt canon (lookupKey k ms)) := by
  simp only [loadTable, convertToTableValue] at h
  split at h
  · cases h
  · next hd hc =>
    injection h with h
    subst h
    refine ⟨by simp, collectHeader_nodup [] items hd (by simp) hc, ?_, ?_⟩
    · intro k
      rw [mem_collectHeader [] items hd hc k]
      simp
    · intro i ms hi
      simp only [List.getElem?_map, hi, Option.map_some, recordOf]
      congr 1
      apply List.map_congr_left
      intro k _
      exact fieldOf_eq canon ms k

/-- the code-shaped JSON loader is the specification of Csvq.Model.Json -/
theorem json_load_is_spec (canon : List Char → Option (List Char)) (objs : List (List (List Char × JS))) :
    loadTable canon (some (.arr (objs.map JS.obj))) = .ok (tableOf canon objs) := by
  simp only [loadTable, convertToTableValue_eq, mapMOpt_membersOf_map_obj]

/-- the code-shaped JSON Lines loader is the same specification -/
theorem jsonl_load_is_spec (canon : List Char → Option (List Char)) (objs : List (List (List Char × JS))) :
    loadJsonLines canon (objs.map fun ms => some (JS.obj ms)) = .ok (tableOf canon objs) := by
  simp only [loadJsonLines_eq, objsOfVals_objs]

/-- **JSON Lines = JSON of the array of the non-blank lines.** -/
theorem jsonl_load_as_json (canon : List Char → Option (List Char)) (lines : List (Option JS))
    (objs : List (List (List Char × JS))) (h : objsOfVals lines = some objs) :
    loadJsonLines canon lines = loadTable canon (some (.arr (objs.map JS.obj))) := by
  rw [json_load_is_spec, loadJsonLines_eq, h]

/-- the text loader of section J: the grammar, then the structure loader -/
theorem json_loader_factors (canon : List Char → Option (List Char)) (ts : List Tok) :
    decodeJsonToks canon ts = match parseToks ts with
      | .ok v => loadTable canon v
      | .error e => .error e :=
  decodeJsonToks_factors canon ts

theorem jsonl_loader_factors (canon : List Char → Option (List Char)) (lines : List (List Tok)) :
    decodeJsonlToks canon lines = match parseLines lines with
      | .ok vs => loadJsonLines canon vs
      | .error e => .error e :=
  decodeJsonlToks_factors canon lines

/-- the writers of section P: the structure, then the encoder -/
theorem json_writer_factors (t : Esc) (canon : List Char → Option (List Char)) (pretty : Option LB) (lb : LB)
    (tb : Json.Table) :
    encodeJsonP t canon pretty tb
      = (tableStructure tb).map (fun objs => match pretty with
          | none => encode t canon (.arr objs)
          | some l => encodePretty t canon l (.arr objs)) ∧
    encodeJsonlP t canon lb tb
      = (tableStructure tb).map (fun objs => (objs.map fun j => encode t canon j ++ lb.chars).flatten) := by
  simp only [encodeJsonP, encodeJsonlP, tableStructure]
  cases mapMOpt parsePath tb.header with
  | none => exact ⟨rfl, rfl⟩
  | some ps =>
    dsimp only
    cases mapMOpt (rowObjP ps) tb.rows with
    | none => exact ⟨rfl, rfl⟩
    | some objs => cases pretty <;> exact ⟨rfl, rfl⟩

theorem mapMOpt_length {α β : Type} (f : α → Option β) (xs : List α) (ys : List β) (h : mapMOpt f xs = some ys) :
    ys.length = xs.length := by
  induction xs generalizing ys with
  | nil => simp only [mapMOpt] at h; injection h with h; subst h; rfl
  | cons x xs ih =>
    simp only [mapMOpt] at h
    cases hx : f x with
    | none => simp [hx] at h
    | some y =>
      cases hr : mapMOpt f xs with
      | none => simp [hx, hr] at h
      | some ys0 => simp [hx, hr] at h; subst h; simp [ih ys0 hr]

/-- **Whatever the writer accepts, the loaders load**: no error, one record per record, rectangular. -/
theorem json_written_loads (canon : List Char → Option (List Char)) (tb : Json.Table) (js : List JS)
    (h : tableStructure tb = some js) :
    ∃ d, loadTable canon (some (.arr js)) = .ok d ∧ loadJsonLines canon (js.map some) = .ok d ∧
      d.rows.length = tb.rows.length ∧ ∀ row ∈ d.rows, row.length = d.header.length := by
  simp only [tableStructure] at h
  split at h
  · cases h
  · next ps _ =>
    have hobj : ∀ x ∈ js, ∃ ms, x = .obj ms := by
      intro x hx
      obtain ⟨r, _, hr⟩ := P.mapMOpt_mem (rowObjP ps) tb.rows js h x hx
      simp only [rowObjP] at hr
      cases hb : buildRow ps (r.map toStructure) [] with
      | none => simp [hb] at hr
      | some ms => simp [hb] at hr; exact ⟨ms, hr.symm⟩
    have hjs : ∃ objs : List (List (List Char × JS)), js = objs.map JS.obj := by
      clear h
      induction js with
      | nil => exact ⟨[], rfl⟩
      | cons x xs ih =>
        obtain ⟨ms, rfl⟩ := hobj x (by simp)
        obtain ⟨os, rfl⟩ := ih (fun y hy => hobj y (by simp [hy]))
        exact ⟨ms :: os, rfl⟩
    obtain ⟨objs, rfl⟩ := hjs
    refine ⟨tableOf canon objs, json_load_is_spec canon objs, ?_, ?_, tableOf_rectangular canon objs⟩
    · rw [List.map_map]; exact jsonl_load_is_spec canon objs
    · have := mapMOpt_length _ _ _ h
      simpa [tableOf] using this

/-- with the query `{}` a single object is the one-record table of it (with the empty query it is an error) -/
theorem json_query_object (canon : List Char → Option (List Char)) (ms : List (List Char × JS)) :
    loadTableQ canon (some (.obj ms)) = .ok (tableOf canon [ms]) ∧
    loadTable canon (some (.obj ms)) = .error .parse := by
  refine ⟨?_, rfl⟩
  simp only [loadTableQ, extractTable]
  exact json_load_is_spec canon [ms]

/-! ## the round trip on structures -/

/-- what the format must carry: the header is a list of column names the path-aware writers can spell (the decision
    `pathsSpellable` of section P), the table is rectangular, number texts are stable -/
def StructSpellable (canon : List Char → Option (List Char)) (tb : Json.Table) : Prop :=
  pathsSpellable tb.header = true ∧ (∀ r ∈ tb.rows, r.length = tb.header.length) ∧
  ∀ r ∈ tb.rows, ∀ v ∈ r, AtomOK canon v

/-
  WANTED (does not hold for the code, see the counterexample below):

  theorem json_structure_roundtrip (canon : List Char → Option (List Char)) (tb : Json.Table)
      (hs : StructSpellable canon tb) :
      ∃ js, tableStructure tb = some js ∧ loadTable canon (some (.arr js)) = .ok (canonTable tb) ∧
        loadJsonLines canon (js.map some) = .ok (canonTable tb)
-/

/-- the full statement fails: a path-named column comes back as its first segment holding JSON text; an escaped
    dot comes back unescaped; a table without records comes back without header (F27). -/
theorem json_structure_roundtrip_counterexample :
    let canon : List Char → Option (List Char) := fun a => some a
    let nested : Json.Table := ⟨[['a', '.', 'b']], [[.int ['1']]]⟩
    let escaped : Json.Table := ⟨[['a', '\\', '.', 'b']], [[.int ['1']]]⟩
    let empty : Json.Table := ⟨[['a']], []⟩
    (StructSpellable canon nested ∧
      tableStructure nested = some [.obj [(['a'], .obj [(['b'], .num ['1'])])]] ∧
      loadTable canon (some (.arr [.obj [(['a'], .obj [(['b'], .num ['1'])])]]))
        = .ok ⟨[['a']], [[some ['{', '"', 'b', '"', ':', '1', '}']]]⟩ ∧
      canonTable nested = ⟨[['a', '.', 'b']], [[some ['1']]]⟩) ∧
    (StructSpellable canon escaped ∧
      tableStructure escaped = some [.obj [(['a', '.', 'b'], .num ['1'])]] ∧
      loadTable canon (some (.arr [.obj [(['a', '.', 'b'], .num ['1'])]])) = .ok ⟨[['a', '.', 'b']], [[some ['1']]]⟩) ∧
    (StructSpellable canon empty ∧ tableStructure empty = some [] ∧
      loadTable canon (some (.arr [])) = .ok ⟨[], []⟩ ∧ loadJsonLines canon [] = .ok ⟨[], []⟩) := by
  have hsp : ∀ tb : Json.Table, pathsSpellable tb.header = true → (∀ r ∈ tb.rows, r.length = tb.header.length) →
      (∀ r ∈ tb.rows, ∀ v ∈ r, AtomOK (fun a => some a) v) → StructSpellable (fun a => some a) tb :=
    fun _ a b c => ⟨a, b, c⟩
  have hat : ∀ v : JVal, AtomOK (fun a => some a) v := by intro v; cases v <;> simp [AtomOK]
  refine ⟨⟨hsp _ (by decide) (by decide) (fun _ _ v _ => hat v), rfl, rfl, rfl⟩,
    ⟨hsp _ (by decide) (by decide) (fun _ _ v _ => hat v), rfl, rfl⟩,
    ⟨hsp _ (by decide) (by decide) (fun _ _ v _ => hat v), rfl, rfl, rfl⟩⟩

/-- a name without '.' and backslash is plain -/
theorem plain_of_flat (s : List Char) (h : FlatName s) : PlainName s := parsePath_flat s h

/-- **Round trip on structures** (what holds): plain names, at least one record.  The structure the writer builds
    is loaded — by the JSON loader as the array, by the JSON Lines loader as one value per line — as the canonical
    table: same header, same records, every cell `canonVal` of its value. -/
theorem json_structure_roundtrip_partial (canon : List Char → Option (List Char)) (tb : Json.Table)
    (hs : StructSpellable canon tb) (hp : ∀ s ∈ tb.header, PlainName s) (hne : tb.rows ≠ []) :
    ∃ js, tableStructure tb = some js ∧ loadTable canon (some (.arr js)) = .ok (canonTable tb) ∧
      loadJsonLines canon (js.map some) = .ok (canonTable tb) := by
  obtain ⟨hsp, hl, ha⟩ := hs
  have hnd : tb.header.Nodup := by
    obtain ⟨ps, hps, hun⟩ := (P.paths_spellable_iff tb.header).mp hsp
    rw [mapMOpt_parsePath_plain tb.header hp] at hps
    injection hps with hps
    subst hps
    exact pairwise_unrelated_singletons tb.header hun
  refine ⟨tb.rows.map (rowObj tb.header), tableStructure_plain tb hp hl, ?_, ?_⟩
  · have : tb.rows.map (rowObj tb.header)
        = (tb.rows.map fun r => tb.header.zip (r.map toStructure)).map JS.obj := by
      simp [List.map_map, Function.comp, rowObj]
    rw [this, json_load_is_spec, tableOf_rows canon tb hnd hl hne ha]
  · have : (tb.rows.map (rowObj tb.header)).map some
        = (tb.rows.map fun r => tb.header.zip (r.map toStructure)).map fun ms => some (JS.obj ms) := by
      simp [List.map_map, Function.comp, rowObj]
    rw [this, jsonl_load_is_spec, tableOf_rows canon tb hnd hl hne ha]

/-! ### non-vacuity -/

-- differing key sets and orders, a repeated key, nested values, a missing member
example :
    loadTable (fun a => some a) (some (.arr [
      .obj [(['b'], .num ['1']), (['a'], .arr [.num ['1'], .str ['x']])],
      .obj [(['a'], .null), (['c'], .obj [(['k'], .bool true)]), (['a'], .num ['7'])],
      .obj []]))
    = .ok ⟨[['b'], ['a'], ['c']],
        [[some ['1'], some ['[', '1', ',', '"', 'x', '"', ']'], none],
         [none, none, some ['{', '"', 'k', '"', ':', 't', 'r', 'u', 'e', '}']],
         [none, none, none]]⟩ := rfl

-- a non-object element, a single object, a scalar, the empty text: errors; the empty array: the empty table
example : loadTable (fun a => some a) (some (.arr [.obj [(['a'], .null)], .num ['1']])) = .error .parse := rfl
example : loadTable (fun a => some a) (some (.obj [(['a'], .null)])) = .error .parse := rfl
example : loadTable (fun a => some a) (some (.str ['x'])) = .error .parse := rfl
example : loadTable (fun a => some a) none = .error .parse := rfl
example : loadTable (fun a => some a) (some (.arr [])) = .ok ⟨[], []⟩ := rfl

-- JSON Lines: a blank line is skipped, the header grows with later lines, a scalar line is an error
example :
    loadJsonLines (fun a => some a) [some (.obj [(['a'], .num ['1'])]), none, some (.obj [(['b'], .str ['x']), (['a'], .null)])]
    = .ok ⟨[['a'], ['b']], [[some ['1'], none], [none, some ['x']]]⟩ := rfl
example : loadJsonLines (fun a => some a) [some (.obj []), some (.arr [])] = .error .parse := rfl

-- the query `{}`: an array of objects is rebuilt with explicit nulls and loads as with the empty query
example :
    loadTableQ (fun a => some a) (some (.arr [.obj [(['a'], .num ['1'])], .obj [(['b'], .num ['2'])]]))
    = loadTable (fun a => some a) (some (.arr [.obj [(['a'], .num ['1'])], .obj [(['b'], .num ['2'])]])) := rfl

-- the partial round trip applies: two plain names (one with a character the flat predicate refuses is still plain:
-- a backslash in the middle of a name followed by an ordinary character), three records
example :
    let tb : Json.Table := ⟨[['k', '"', '1'], ['n']], [[.str ['x'], .int ['4', '2']], [.null, .bool true], [.dt ['d'], .tern none]]⟩
    StructSpellable (fun a => some a) tb ∧ (∀ s ∈ tb.header, PlainName s) ∧ tb.rows ≠ [] := by
  refine ⟨⟨by decide, by decide, ?_⟩, by decide, by decide⟩
  intro r _ v _
  cases v <;> simp [AtomOK]

example : PlainName ['a', '\\', 'b'] := by decide

end S
end Csvq.C02
