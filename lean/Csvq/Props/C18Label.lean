/-
  C18, the SECOND producer of derived text: column labels (lib/parser/ast.go `Field.Name()`; lib/query/view.go stores the
  result in `view.selectLabels`, `View.Fix` moves it into `Header[i].Column`, where the header line of the output, ORDER BY
  and outer queries read it).  Model: Csvq/Model/Label.lean.

  Specification: the label of a select item WITHOUT alias is the printed text of its expression, hence parses back to that
  expression — with the documented special cases of `Field.Name()`: an alias is the label; a column reference is labelled
  by its column name; a bare literal by its raw literal.  For an unquoted identifier and a number the raw literal IS the
  token's spelling (`plain`); for a bare string literal / back-quoted identifier it is not (`'a'` is labelled `a`, the
  label of column a — `bare_string_literal_label_collides`), and those are exactly the items the round trip exempts
  (`label_undefined_iff_bare_quoted_atom`).

  Full statement for the whole `value` grammar (not proved: CASE, sub-queries, aggregate / analytic functions are outside
  `OpExpr`; law label_reparse_differs / label_evaluates_differently of stream c18 checks the real parser on them):
      theorem label_of_any_item_parses_to_item (f : Field) (h : f.Alias = nil ∧ ¬ bareQuoted f.Object) :
        parseValue (scan (f.Name())) = some f.Object
  `label_of_item_parses_to_item` is its form for the operator-expression fragment, at the level of tokens; that the TEXT
  `Label.text` scans to the tokens `OpExpr.print` is tied by stream op c18.lbl (real header line = model text, the real
  parser on the real label = the item's tree), not proved.
-/
import Csvq.Model.Label
import Csvq.Lemmas.OpExpr
import Csvq.Props.C18
namespace Csvq.C18
open Csvq.OpExpr Csvq.Label Csvq.Esc

variable {α : Type} [DecidableEq α]

omit [DecidableEq α] in
/-- whatever `Field.Name()` returns for an item without alias, when it is a token list at all it is the printed item -/
theorem label_toks_eq_print (plain : Nat → Bool) (tbl : Table α) (e : Expr α) (ts : List (Tok α))
    (h : labelToks plain tbl (fieldName e none) = some ts) : ts = print tbl e := by
  cases e with
  | atom n =>
    simp only [fieldName] at h
    split at h <;> simp only [labelToks] at h <;> split at h <;> simp_all [print]
  | _ => simp_all [fieldName, labelToks]

/-- THE ROUND TRIP OF LABELS: the label of a select item without alias parses back to the item — for every table, every
    tree the parser can build (any depth), outside the documented special cases (where `labelToks` is `none`) -/
theorem label_of_item_parses_to_item (plain : Nat → Bool) (tbl : Table α) (e : Expr α) (hw : WellFormed tbl e)
    (ts : List (Tok α)) (h : labelToks plain tbl (fieldName e none) = some ts) : parse tbl ts = some e := by
  rw [label_toks_eq_print plain tbl e ts h]
  exact op_print_parse tbl e hw

omit [DecidableEq α] in
/-- the exemption is exact: the label is not the printed item only for a bare quoted one-token value -/
theorem label_undefined_iff_bare_quoted_atom (plain : Nat → Bool) (tbl : Table α) (e : Expr α) :
    labelToks plain tbl (fieldName e none) = none ↔ ∃ n, e = .atom n ∧ plain n = false := by
  cases e with
  | atom n =>
    simp only [fieldName]
    split <;> simp only [labelToks] <;> split <;> simp_all
  | _ => simp [fieldName, labelToks]

omit [DecidableEq α] in
/-- so every composite item — in particular a literal in parentheses — is labelled by its whole printed text
    (seed C18-m14 looked through the parentheses) -/
theorem label_of_parenthesised_item_is_printed (e : Expr α) : fieldName (.paren e) none = .printed (.paren e) := rfl

/-- two different items never share a label (where the label is the printed text): labels identify result columns -/
theorem labels_of_distinct_items_distinct (plain : Nat → Bool) (tbl : Table α) (e₁ e₂ : Expr α)
    (h₁ : WellFormed tbl e₁) (h₂ : WellFormed tbl e₂) (ts : List (Tok α))
    (l₁ : labelToks plain tbl (fieldName e₁ none) = some ts) (l₂ : labelToks plain tbl (fieldName e₂ none) = some ts) :
    e₁ = e₂ := by
  have p₁ := label_of_item_parses_to_item plain tbl e₁ h₁ ts l₁
  have p₂ := label_of_item_parses_to_item plain tbl e₂ h₂ ts l₂
  rw [p₁] at p₂
  exact Option.some.inj p₂

omit [DecidableEq α] in
/-- an alias is the label, whatever the expression -/
theorem label_of_aliased_item (e : Expr α) (a : Nat) : fieldName e (some a) = .ident a := rfl

/-- the variant of `Field.Name()` that looks through enclosing parentheses before its special cases (the shape of seed
    C18-m14): the label of `(x)` is `x`, which parses — to another tree -/
theorem unwrapping_label_does_not_reparse (plain : Nat → Bool) (tbl : Table α) (n : Nat) (ts : List (Tok α))
    (h : labelToks plain tbl (fieldNameUnwrapping (.paren (.atom n)) none) = some ts) :
    parse tbl ts = some (.atom n) ∧ parse tbl ts ≠ some (.paren (.atom n)) := by
  have hts : ts = print tbl (.atom n) := by
    simp only [fieldNameUnwrapping, unwrap] at h
    split at h <;> simp only [labelToks] at h <;> split at h <;> simp_all [print]
  have hp : parse tbl ts = some (.atom n) := by
    rw [hts]
    exact op_print_parse tbl (.atom n) ⟨by simp [WF], by simp [Fits, lops]⟩
  exact ⟨hp, by rw [hp]; simp⟩

omit [DecidableEq α] in
/-- … and as text: the unwrapping variant labels `('…')` with the raw literal, the code with the printed text -/
theorem unwrapping_label_text_differs (sp : Spell α) (tbl : Table α) (n : Nat) (h : isNum n = true) :
    labelText sp tbl (fieldNameUnwrapping (.paren (.atom n)) none) = sp.atoms.raw n ∧
    labelText sp tbl (fieldName (.paren (.atom n)) none) = '(' :: (sp.atoms.shown n ++ [')']) := by
  simp [fieldNameUnwrapping, unwrap, h, labelText, fieldName, text]

/-! ## string literals keep every character (tie to Escape.lean's round trip) -/

/-- the printer of a string literal is injective: two literals with the same printed text have the same content, rune
    by rune — no blank, tab, no-break space or ideographic space inside a literal may be merged or dropped -/
theorem quoted_literal_keeps_every_rune (s₁ s₂ : List Char) (h : quoteString s₁ = quoteString s₂) : s₁ = s₂ := by
  simp only [quoteString, List.cons.injEq, true_and] at h
  have h' := List.append_cancel_right h
  rw [← string_roundtrip s₁, ← string_roundtrip s₂, h']

/-- the same for back-quoted identifiers -/
theorem quoted_identifier_keeps_every_rune (s₁ s₂ : List Char) (h : quoteIdentifier s₁ = quoteIdentifier s₂) : s₁ = s₂ := by
  simp only [quoteIdentifier, List.cons.injEq, true_and] at h
  have h' := List.append_cancel_right h
  rw [← ident_roundtrip s₁, ← ident_roundtrip s₂, h']

/-- a two-atom world for the concrete statements below: 3 = the string `a  b` (two blanks), 7 = the string `a b`,
    11 = the string `a` + U+3000 + `b`, 15 = the string `a`; 0 = the column a -/
def demoAtoms : Atoms where
  raw n := if n = 3 then ['a', ' ', ' ', 'b'] else if n = 7 then ['a', ' ', 'b'] else if n = 11 then ['a', '\u3000', 'b']
    else if n = 15 then ['a'] else ['a']
  shown n := if n = 3 then quoteString ['a', ' ', ' ', 'b'] else if n = 7 then quoteString ['a', ' ', 'b']
    else if n = 11 then quoteString ['a', '\u3000', 'b'] else if n = 15 then quoteString ['a'] else ['a']
  plain n := n % 4 ≠ 3

def demoSpell : Spell Nat where
  atoms := demoAtoms
  sym _ _ := ['=']
  preSep _ _ := false

def demoTable : Table Nat where
  bin t := if t = 1 then some (5, .nonassoc) else none
  pre _ := none
  post _ := none
  neg := 2
  star := 3
  lvl _ := none
  btw := 4
  and_ := 5
  inn := 6
  is_ := 7
  negable _ := false

/-- the shape of seed C18-m23 as a counterexample: a join that collapses runs of white space (strings.Fields over the
    joined text) maps `a = 'a  b'`, `a = 'a b'` and `a = 'a<U+3000>b'` — three different items with three different token
    lists — to ONE text: labels stop identifying columns.  `Label.text` (single blanks BETWEEN the parts, the parts
    untouched) keeps them apart. -/
theorem collapsing_join_merges_distinct_literals :
    let e₁ : Expr Nat := .bin (.atom 0) 1 0 (.atom 3)
    let e₂ : Expr Nat := .bin (.atom 0) 1 0 (.atom 7)
    let e₃ : Expr Nat := .bin (.atom 0) 1 0 (.atom 11)
    print demoTable e₁ ≠ print demoTable e₂ ∧ print demoTable e₂ ≠ print demoTable e₃ ∧
    text demoSpell demoTable e₁ ≠ text demoSpell demoTable e₂ ∧ text demoSpell demoTable e₂ ≠ text demoSpell demoTable e₃ ∧
    collapse (text demoSpell demoTable e₁) = collapse (text demoSpell demoTable e₂) ∧
    collapse (text demoSpell demoTable e₃) = collapse (text demoSpell demoTable e₂) ∧
    collapse (text demoSpell demoTable e₂) = text demoSpell demoTable e₂ := by decide

/-- the documented special case, visible: the bare string literal `'a'` and the column a carry the same label `a`
    (`Field.Name()` returns the raw literal), although they are different items with different printed text -/
theorem bare_string_literal_label_collides :
    labelText demoSpell demoTable (fieldName (.atom 15) none) = labelText demoSpell demoTable (fieldName (.atom 0) none) ∧
    text demoSpell demoTable (.atom 15) ≠ text demoSpell demoTable (.atom 0) ∧
    labelToks demoAtoms.plain demoTable (fieldName (.atom 15) none) = none ∧
    labelText demoSpell demoTable (fieldName (.paren (.atom 15)) none) = ['(', '\'', 'a', '\'', ')'] := by decide

/-! ## the code of Field.Name() and of the printers' helpers, REGENERATED from lib/parser/ast.go on every run -/

open Csvq.Gen.AstPrint in
/-- `Field.Name()` is: alias → its literal; a primitive literal AS THE WHOLE OBJECT → its raw literal; a column reference
    AS THE WHOLE OBJECT → the literal of its column identifier; otherwise the object's String() — in this order, every
    type test on `e.Object` itself (nothing unwrapped, nothing assigned in between); the label is used in lib/query at
    exactly these places (stored in selectLabels, moved into Header.Column by Fix); and `Label.fieldName` is that
    function, equation by equation. -/
theorem gen_field_name_cases_eq_model :
    fieldNameCases = [
      ("e.Alias != nil", "return", "e.Alias.(Identifier).Literal"),
      ("e.Object.(PrimitiveType) as t", "return", "t.Literal"),
      ("e.Object.(FieldReference) as fr && fr.Column.(Identifier) as col", "return", "col.Literal"),
      ("", "return", "e.Object.String()")] ∧
    fieldNameUses = ["view.go: selectLabels []string", "view.go: view.selectLabels = make([]string, len(fields))",
      "view.go: view.selectLabels[i] = field.Name()", "view.go: if 0 < len(view.selectLabels) {",
      "view.go: hfields[i].Column = view.selectLabels[i]", "view.go: view.selectLabels = nil"] ∧
    (∀ (e : Expr Csvq.Gen.Precedence.Term) a, fieldName e (some a) = .ident a) ∧
    (∀ n, isNum n = true → fieldName (α := Csvq.Gen.Precedence.Term) (.atom n) none = .literal n) ∧
    (∀ n, isNum n = false → fieldName (α := Csvq.Gen.Precedence.Term) (.atom n) none = .ident n) ∧
    (∀ e : Expr Csvq.Gen.Precedence.Term, (∀ n, e ≠ .atom n) → fieldName e none = .printed e) := by
  refine ⟨by decide, by decide, fun _ _ => rfl, ?_, ?_, ?_⟩
  · intro n h; simp [fieldName, h]
  · intro n h; simp [fieldName, h]
  · intro e h
    cases e with
    | atom n => exact absurd rfl (h n)
    | _ => rfl

open Csvq.Gen.AstPrint in
/-- the helpers every String() method ends in are the ones `Label.text` / `OpExpr.print` model: joinWithSpace puts ONE
    blank between the parts and leaves the parts as they are, putParentheses adds the two parentheses,
    listQueryExpressions joins with `, ` — and the model's equations. -/
theorem gen_print_helpers_eq_model :
    helpers = [
      ("putParentheses", "func(s string) string", "return \"(\" + s + \")\""),
      ("joinWithSpace", "func(s []string) string", "return strings.Join(s, \" \")"),
      ("listQueryExpressions", "func(exprs []QueryExpression) string",
        "s := make([]string, len(exprs)); for i, v := range exprs { s[i] = v.String() }; return strings.Join(s, \", \")"),
      ("keyword", "func(token int) string", "s, _ := KeywordLiteral(token); return s")] ∧
    (∀ (sp : Spell Csvq.Gen.Precedence.Term) tbl l t v r,
      text sp tbl (.bin l t v r) = text sp tbl l ++ ' ' :: (sp.sym t v ++ ' ' :: text sp tbl r)) ∧
    (∀ (sp : Spell Csvq.Gen.Precedence.Term) tbl e, text sp tbl (.paren e) = '(' :: (text sp tbl e ++ [')'])) ∧
    (∀ (sp : Spell Csvq.Gen.Precedence.Term) tbl e e2 r,
      textArgs sp tbl (.cons e (.cons e2 r)) = text sp tbl e ++ ',' :: ' ' :: textArgs sp tbl (.cons e2 r)) := by
  refine ⟨by decide, ?_, ?_, ?_⟩
  · intros; simp [text]
  · intros; simp [text]
  · intros; simp [textArgs]

/-! ## non-vacuity -/

open Csvq.Gen.Precedence in
example : WellFormed genTable (.paren (.atom 3)) ∧
    labelToks genAtoms.plain genTable (fieldName (.paren (.atom 3)) none) = some [.lpar, .atom 3, .rpar] ∧
    parse genTable [.lpar, .atom 3, .rpar] = some (.paren (.atom 3)) := by
  refine ⟨⟨by simp [WF, Fits, lops], by simp [Fits, lops]⟩, by simp [fieldName, labelToks, print], by decide⟩

open Csvq.Gen.Precedence in
example : labelToks (fun n => n % 4 ≠ 3) genTable (fieldName (.bin (.atom 0) .c_plus 0 (.atom 5)) none) =
    some [.atom 0, .sym .c_plus 0, .atom 5] ∧
    labelToks (fun n => n % 4 ≠ 3) genTable (fieldName (.atom 3) none) = none ∧
    labelToks (fun n => n % 4 ≠ 3) genTable (fieldName (.atom 4) none) = some [.atom 4] ∧
    fieldName (α := Term) (.atom 4) (some 8) = .ident 8 := by decide

example : labelToks (fun _ => true) demoTable (fieldNameUnwrapping (.paren (.atom 5)) none) = some [.atom 5] := by decide

example : quoteString ['a', ' ', ' ', 'b'] ≠ quoteString ['a', ' ', 'b'] ∧
    collapse (quoteString ['a', ' ', ' ', 'b']) = quoteString ['a', ' ', 'b'] ∧
    collapse (quoteString ['a', ' ', '\u0085', 'b']) = quoteString ['a', ' ', 'b'] := by decide

example : text demoSpell demoTable (.bin (.atom 0) 1 0 (.paren (.atom 3))) = "a = ('a  b')".toList := by decide

end Csvq.C18
