/-
  Csvq.Props.C12Pipe — property C12 for a WHOLE query: the clause pipeline of a SELECT, every stage cut into
  worker chunks in an arbitrary way, equals the pipeline without workers — so its rows and their order do not
  depend on --cpu, on RecordRange or on the scheduler, stage by stage and end to end.  The stage order and the
  primitive under each View method are regenerated from lib/query/query.go / view.go (extract/pipefacts).
  Property theorems only.
-/
import Csvq.Model.Pipeline
import Csvq.Gen.PipeFacts
import Csvq.Ref.PipeFacts
import Csvq.Props.C12
import Csvq.Lemmas.Shift
namespace Csvq.C12
open Csvq Csvq.Pipeline

/-! ## the regenerated pipeline is the reviewed one, and it is the order Model/Pipeline assumes -/

theorem gen_select_pipeline_eq_ref : Gen.selectPipeline = Ref.selectPipeline := rfl
theorem gen_view_primitives_eq_ref : Gen.viewMethodPrimitives = Ref.viewMethodPrimitives := rfl

/-- the shape a View method of the pipeline is built on, read off the primitives it calls: anything that ends in
    `EvaluateSequentially` through `view.filter` is a filter stage, `view.group` a group stage, slot-wise
    `GoroutineTaskManager` use an eval stage, no primitive at all sequential code -/
def shapeOf (prims : List String) : String :=
  if prims.contains "view.group" && !prims.contains "view.evalColumn" && !prims.contains "view.filter" then "group"
  else if prims.contains "view.group" && prims.contains "view.filter" then "group+filter"
  else if prims.contains "view.filter" then "filter"
  else if prims.contains "sort.Sort" then "eval+seq"
  else if prims.contains "view.evalColumn" then "eval(+group when the list aggregates)"
  else if prims.contains "NewGoroutineTaskManager" then "eval"
  else "seq"

/-- WHERE is a filter, GROUP BY a grouping, HAVING a filter (after an implicit grouping when there is none), the
    select list a slot-wise evaluation, ORDER BY slot-wise keys then sequential sort.Sort, OFFSET / LIMIT sequential,
    Fix slot-wise — regenerated on every run -/
theorem gen_stage_shapes :
    (["Where", "GroupBy", "Having", "Select", "OrderBy", "Offset", "Limit", "Fix"].map fun m =>
      (m, (Gen.viewMethodPrimitives.lookup m).map shapeOf))
    = [("Where", some "filter"), ("GroupBy", some "group"), ("Having", some "group+filter"),
       ("Select", some "eval(+group when the list aggregates)"), ("OrderBy", some "eval+seq"),
       ("Offset", some "seq"), ("Limit", some "seq"), ("Fix", some "eval")] := by decide

/-- the clauses are applied in the documented order: FROM, WHERE, GROUP BY, HAVING, select list; then ORDER BY,
    OFFSET, LIMIT, Fix -/
theorem gen_clause_order :
    (Gen.selectPipeline.lookup "selectEntity").map (·.drop 1) =
      some ["LoadView", "entity.WhereClause => view.Where", "entity.GroupByClause => view.GroupBy",
            "entity.HavingClause => view.Having", "view.Select"]
    ∧ Gen.selectPipeline.lookup "Select" = some ["selectQuery"]
    ∧ Gen.selectPipeline.lookup "selectQuery" =
      some ["selectEntity", "query.OrderByClause => view.OrderBy", "limitClause.OffsetClause => view.Offset",
            "limitClause.Type => view.Limit", "view.Fix"] := by decide

/-! ## every stage, under every cut, is its specification -/

variable {R κ : Type} [DecidableEq κ]

theorem stage_eq_spec (c : Cut) (st : Stage R κ) (rows : List R) : stageImpl c st rows = stageSpec st rows := by
  cases st with
  | eval f => simp only [stageImpl, stageSpec, run_slots_indep, c.flatten_cut]
  | filter p => simp only [stageImpl, stageSpec, filter_chunks_indep, c.flatten_cut]
  | group key agg => simp only [stageImpl, stageSpec, C04.group_spec, c.flatten_cut]
  | seq f => rfl

/-- THE WHOLE QUERY: whatever cut each stage got on this run, the result is the worker-free pipeline -/
theorem pipeline_eq_spec (cuts : Nat → Cut) (i : Nat) (stages : List (Stage R κ)) (rows : List R) :
    runImpl cuts i stages rows = runSpec stages rows := by
  induction stages generalizing i rows with
  | nil => rfl
  | cons st rest ih => simp only [runImpl, runSpec, stage_eq_spec, ih]

/-- two runs of the same query over the same rows — different --cpu, different scheduling, so different cuts at
    every stage — return the same rows in the same order -/
theorem pipeline_indep_of_cuts (cuts₁ cuts₂ : Nat → Cut) (stages : List (Stage R κ)) (rows : List R) :
    runImpl cuts₁ 0 stages rows = runImpl cuts₂ 0 stages rows := by
  rw [pipeline_eq_spec, pipeline_eq_spec]

/-- a single-source query without GROUP BY / ORDER BY keeps the source's row order: its result is a sublist of
    the evaluated rows, in order (C03's clause, end to end) -/
theorem filter_eval_keeps_order (cuts : Nat → Cut) (p : R → Bool) (f : R → R) (rows : List R) :
    runImpl (κ := κ) cuts 0 [.filter p, .eval f] rows = (rows.filter p).map f := by
  rw [pipeline_eq_spec]; rfl

/-! ## OFFSET / LIMIT -/

/-- WHERE p … LIMIT k OFFSET n, whatever the cuts: the rows that pass, without the first `n`, at most `k` of them —
    `rows[n : n + k]` of the filtered table, which is what the harness computes from the generated table -/
theorem pipeline_offset_limit_spec (cuts : Nat → Cut) (p : R → Bool) (n k : Nat) (rows : List R) :
    runImpl (κ := κ) cuts 0 [.filter p, offsetStage n, limitStage k] rows = ((rows.filter p).drop n).take k := by
  rw [pipeline_eq_spec]; rfl

/-- OFFSET alone on a single-source query keeps the source order: row `i` of the result is row `i + n` of the table -/
theorem offset_keeps_order (cuts : Nat → Cut) (n i : Nat) (rows : List R) :
    (runImpl (κ := κ) cuts 0 [offsetStage n] rows)[i]? = rows[i + n]? := by
  rw [pipeline_eq_spec]; simp [runSpec, stageSpec, offsetStage, Nat.add_comm]

/-- the code under the OFFSET stage is the in-place loop of Model/Shift — three statements, the last one a plain
    ascending `for … range` with one assignment; REGENERATED from View.Offset on every run -/
theorem gen_offset_shift_is_ascending_loop :
    Gen.offsetShift = ["newSet := view.RecordSet[view.offset:]", "view.RecordSet = view.RecordSet[:len(newSet)]",
                       "for i := range newSet { view.RecordSet[i] = newSet[i] }"] := by rfl

/-- ONE worker, ascending: the in-place writes `a[i] := a[i + off]` leave exactly `drop off` — the OFFSET stage -/
theorem shift_sequential_spec {α : Type} (off : Nat) (a : List α) :
    Shift.result off a (Shift.sequential off a) = a.drop off := by
  unfold Shift.result Shift.sequential
  by_cases h : off ≤ a.length
  · rw [Shift.run_range_after off a (a.length - off) (by omega)]
    unfold Shift.after
    have : ((a.drop off).take (a.length - off)).length = a.length - off := by simp
    rw [List.take_append_of_le_length (by omega), List.take_take, Nat.min_self]
    exact List.take_of_length_le (by simp)
  · have h0 : a.length - off = 0 := by omega
    rw [h0]; simp; omega

/-- the OFFSET stage of the pipeline IS that loop run by one worker -/
theorem offset_stage_eq_sequential_shift (n : Nat) (rows : List R) :
    stageSpec (κ := κ) (offsetStage n) rows = Shift.result n rows (Shift.sequential n rows) := by
  rw [shift_sequential_spec]; rfl

/-- WHY IT MUST STAY SEQUENTIAL: two workers over the chunks [0,1] and [2] of the three writes of OFFSET 1 on four
    rows; when the second worker's write lands first, the first worker reads the slot it has already overwritten —
    row 2 is lost, row 3 appears twice, the row count is right.  (No cut-independence theorem can hold for a
    parallel shift; `gen_offset_shift_is_ascending_loop` and `gen_stage_shapes` keep the code on the sequential side.) -/
theorem shift_two_workers_counterexample :
    Shift.interleaves [2, 0, 1] [[0, 1], [2]] = true
    ∧ Shift.result 1 [10, 11, 12, 13] [2, 0, 1] = [11, 13, 13]
    ∧ Shift.result 1 [10, 11, 12, 13] (Shift.sequential 1 [10, 11, 12, 13]) = [11, 12, 13]
    ∧ ([10, 11, 12, 13] : List Nat).drop 1 = [11, 12, 13] := by decide

/-- … while the same two chunks run one after the other, in worker order, are the sequential schedule -/
theorem shift_chunks_in_order_ok :
    Shift.interleaves [0, 1, 2] [[0, 1], [2]] = true
    ∧ Shift.result 1 [10, 11, 12, 13] [0, 1, 2] = [11, 12, 13] := by decide

/-! ## non-vacuity: real cuts, a real query -/

/-- WHERE x ≠ 3, GROUP BY x % 2 with SUM, ORDER BY descending: one worker, two workers cut after 2 rows, chunks of 2 -/
example :
    let q : List (Stage Nat Nat) :=
      [.filter (· != 3), .group (· % 2) (fun _ rs => rs.foldl (· + ·) 0), .seq (fun l => l.reverse)]
    runImpl (fun _ => Cut.one) 0 q [1, 2, 3, 4, 5, 6] = [12, 6]
    ∧ runImpl (fun i => if i = 1 then Cut.at 2 else Cut.every 1) 0 q [1, 2, 3, 4, 5, 6] = [12, 6] := by decide

example : (Cut.every 1).cut [1, 2, 3, 4, 5] = [[1, 2], [3, 4], [5]] := by decide

/-- WHERE x ≠ 3 … LIMIT 2 OFFSET 1, LIMIT 50 PERCENT after OFFSET 2, LIMIT 2 WITH TIES on x / 10 -/
example :
    runImpl (κ := Nat) (fun _ => Cut.every 1) 0 [.filter (· != 3), offsetStage 1, limitStage 2] [1, 2, 3, 4, 5, 6] = [2, 4]
    ∧ runImpl (κ := Nat) (fun _ => Cut.at 2) 0 [offsetStage 2, limitPercentStage 50 2] [1, 2, 3, 4, 5, 6] = [3, 4, 5]
    ∧ runImpl (κ := Nat) (fun _ => Cut.one) 0 [limitTiesStage (· / 10) 2] [1, 12, 13, 15, 27] = [1, 12, 13, 15] := by decide

end Csvq.C12
