/-
  Csvq.Props.C12Pipe — property C12 for a WHOLE query: the clause pipeline of a SELECT, every stage cut into
  worker chunks in an arbitrary way, equals the pipeline without workers — so its rows and their order do not
  depend on --cpu, on RecordRange or on the scheduler, stage by stage and end to end.  The stage order and the
  primitive under each View method are regenerated from lib/query/query.go / view.go (extract/pipefacts).
  Property theorems only.
-/
import Csvq.Model.Pipeline
import Csvq.Gen.PipeFacts
import Csvq.Ref.PipeFacts
import Csvq.Props.C12
namespace Csvq.C12
open Csvq Csvq.Pipeline

/-! ## the regenerated pipeline is the reviewed one, and it is the order Model/Pipeline assumes -/

theorem gen_select_pipeline_eq_ref : Gen.selectPipeline = Ref.selectPipeline := rfl
theorem gen_view_primitives_eq_ref : Gen.viewMethodPrimitives = Ref.viewMethodPrimitives := rfl

/-- the shape a View method of the pipeline is built on, read off the primitives it calls: anything that ends in
    `EvaluateSequentially` through `view.filter` is a filter stage, `view.group` a group stage, slot-wise
    `GoroutineTaskManager` use an eval stage, no primitive at all sequential code -/
def shapeOf (prims : List String) : String :=
  if prims.contains "view.group" && !prims.contains "view.evalColumn" && !prims.contains "view.filter" then "group"
  else if prims.contains "view.group" && prims.contains "view.filter" then "group+filter"
  else if prims.contains "view.filter" then "filter"
  else if prims.contains "sort.Sort" then "eval+seq"
  else if prims.contains "view.evalColumn" then "eval(+group when the list aggregates)"
  else if prims.contains "NewGoroutineTaskManager" then "eval"
  else "seq"

/-- WHERE is a filter, GROUP BY a grouping, HAVING a filter (after an implicit grouping when there is none), the
    select list a slot-wise evaluation, ORDER BY slot-wise keys then sequential sort.Sort, OFFSET / LIMIT sequential,
    Fix slot-wise — regenerated on every run -/
theorem gen_stage_shapes :
    (["Where", "GroupBy", "Having", "Select", "OrderBy", "Offset", "Limit", "Fix"].map fun m =>
      (m, (Gen.viewMethodPrimitives.lookup m).map shapeOf))
    = [("Where", some "filter"), ("GroupBy", some "group"), ("Having", some "group+filter"),
       ("Select", some "eval(+group when the list aggregates)"), ("OrderBy", some "eval+seq"),
       ("Offset", some "seq"), ("Limit", some "seq"), ("Fix", some "eval")] := by decide

/-- the clauses are applied in the documented order: FROM, WHERE, GROUP BY, HAVING, select list; then ORDER BY,
    OFFSET, LIMIT, Fix -/
theorem gen_clause_order :
    (Gen.selectPipeline.lookup "selectEntity").map (·.drop 1) =
      some ["LoadView", "entity.WhereClause => view.Where", "entity.GroupByClause => view.GroupBy",
            "entity.HavingClause => view.Having", "view.Select"]
    ∧ Gen.selectPipeline.lookup "Select" = some ["selectQuery"]
    ∧ Gen.selectPipeline.lookup "selectQuery" =
      some ["selectEntity", "query.OrderByClause => view.OrderBy", "limitClause.OffsetClause => view.Offset",
            "limitClause.Type => view.Limit", "view.Fix"] := by decide

/-! ## every stage, under every cut, is its specification -/

variable {R κ : Type} [DecidableEq κ]

theorem stage_eq_spec (c : Cut) (st : Stage R κ) (rows : List R) : stageImpl c st rows = stageSpec st rows := by
  cases st with
  | eval f => simp only [stageImpl, stageSpec, run_slots_indep, c.flatten_cut]
  | filter p => simp only [stageImpl, stageSpec, filter_chunks_indep, c.flatten_cut]
  | group key agg => simp only [stageImpl, stageSpec, C04.group_spec, c.flatten_cut]
  | seq f => rfl

/-- THE WHOLE QUERY: whatever cut each stage got on this run, the result is the worker-free pipeline -/
theorem pipeline_eq_spec (cuts : Nat → Cut) (i : Nat) (stages : List (Stage R κ)) (rows : List R) :
    runImpl cuts i stages rows = runSpec stages rows := by
  induction stages generalizing i rows with
  | nil => rfl
  | cons st rest ih => simp only [runImpl, runSpec, stage_eq_spec, ih]

/-- two runs of the same query over the same rows — different --cpu, different scheduling, so different cuts at
    every stage — return the same rows in the same order -/
theorem pipeline_indep_of_cuts (cuts₁ cuts₂ : Nat → Cut) (stages : List (Stage R κ)) (rows : List R) :
    runImpl cuts₁ 0 stages rows = runImpl cuts₂ 0 stages rows := by
  rw [pipeline_eq_spec, pipeline_eq_spec]

/-- a single-source query without GROUP BY / ORDER BY keeps the source's row order: its result is a sublist of
    the evaluated rows, in order (C03's clause, end to end) -/
theorem filter_eval_keeps_order (cuts : Nat → Cut) (p : R → Bool) (f : R → R) (rows : List R) :
    runImpl (κ := κ) cuts 0 [.filter p, .eval f] rows = (rows.filter p).map f := by
  rw [pipeline_eq_spec]; rfl

/-! ## non-vacuity: real cuts, a real query -/

/-- WHERE x ≠ 3, GROUP BY x % 2 with SUM, ORDER BY descending: one worker, two workers cut after 2 rows, chunks of 2 -/
example :
    let q : List (Stage Nat Nat) :=
      [.filter (· != 3), .group (· % 2) (fun _ rs => rs.foldl (· + ·) 0), .seq (fun l => l.reverse)]
    runImpl (fun _ => Cut.one) 0 q [1, 2, 3, 4, 5, 6] = [12, 6]
    ∧ runImpl (fun i => if i = 1 then Cut.at 2 else Cut.every 1) 0 q [1, 2, 3, 4, 5, 6] = [12, 6] := by decide

example : (Cut.every 1).cut [1, 2, 3, 4, 5] = [[1, 2], [3, 4], [5]] := by decide

end Csvq.C12
