/-
  Csvq.Props.C12Session — property C12: state that is shared by the workers WITHOUT being captured by a closure —
  fields of the session-wide objects (query.Transaction, query.Session, option.Flags) and package-level variables,
  written by code the workers reach through Evaluate.

  extract/shapefacts regenerates the census of every such write (assignment, ++ and --, atomic add / store, map insert,
  delete, append, sync.Map / atomic.Value store) with the function it is in and whether that function can be reached
  from a worker body (static call graph over lib/query, lib/value, lib/option).  Here:
    * the class `counter` is given its meaning over the scheduler's traces (Model/Shapes: `sharedCounter`): with a
      limit, some schedules pass and some fail (`shared_counter_limit_depends_on_schedule`, the shape of C12-m23),
      whereas a counter allocated per evaluation sees its own steps only (`per_evaluation_counter_indep_of_schedule`);
    * `gen_no_session_counter_written_by_workers`: no write reachable from a worker counts in, or resets, a session-wide
      field, apart from the reviewed flags; `gen_session_writes_of_workers_are_the_reviewed_ones` pins the whole list of
      reachable writes against the reviewed table (a new one is a broken obligation).
  Property theorems only.
-/
import Csvq.Model.Shapes
import Csvq.Lemmas.Shapes
import Csvq.Gen.ShapeFacts
namespace Csvq.C12
open Csvq Csvq.Shapes

/-! ## the meaning of a counter -/

/-- a counter that belongs to one evaluation ends where that evaluation alone would have put it — whatever the other
    workers do in between -/
theorem per_evaluation_counter_eq_seq (tr : List (Nat × CStep)) (k : Nat) :
    ownCounters tr k = seqCounter (ownEvents tr k) := own_counter_foldl tr _ k

/-- hence whether an evaluation runs into the limit does not depend on the schedule -/
theorem per_evaluation_counter_indep_of_schedule (L : Nat) (cs : List (List CStep)) (t1 t2 : List (Nat × CStep))
    (h1 : Interleave cs t1) (h2 : Interleave cs t2) (k : Nat) : ownExceeds L t1 k = ownExceeds L t2 k := by
  simp only [ownExceeds, per_evaluation_counter_eq_seq, interleave_own h1, interleave_own h2]

/-- and it is the depth of the worker's own recursion that is compared with the limit -/
theorem per_evaluation_counter_is_own_depth (L d : Nat) (cs : List (List CStep)) (tr : List (Nat × CStep))
    (h : Interleave cs tr) (k : Nat) (hk : cs[k]? = some (recursion d)) : ownExceeds L tr k = decide (L < d) := by
  simp only [ownExceeds, per_evaluation_counter_eq_seq, interleave_own h, hk, Option.getD_some, seqCounter, recursion,
    List.foldl_cons]
  have h0 : counterStep (0, 0) CStep.reset = (0, 0) := rfl
  have := foldl_inc 0 d 0 0
  rw [List.foldl_map] at this
  rw [h0, this]
  by_cases hd : d = 0
  · subst hd; simp
  · simp [hd]

/-- ONE counter for the session, reset when a recursion starts (C12-m23): two workers that each need `d` iterations
    under a limit `L` with `d ≤ L < 2d` — one after the other they pass, started together they fail.  The result of the
    query depends on the schedule. -/
theorem shared_counter_limit_depends_on_schedule (d L : Nat) (hd : 0 < d) (h1 : d ≤ L) (h2 : L < 2 * d) :
    ∃ t1 t2 : List (Nat × CStep),
      Interleave [recursion d, recursion d] t1 ∧ Interleave [recursion d, recursion d] t2 ∧
      sharedExceeds L t1 = false ∧ sharedExceeds L t2 = true := by
  have hne : d ≠ 0 := by omega
  refine ⟨(recursion d).map (fun c => (0, c)) ++ ((recursion d).map (fun c => (1, c)) ++ []),
          (0, .reset) :: (1, .reset) :: ((List.replicate d CStep.inc).map (fun c => (0, c))
            ++ ((List.replicate d CStep.inc).map (fun c => (1, c)) ++ [])), ?_, ?_, ?_, ?_⟩
  · refine interleave_prefix (recursion d) _ 0 [] _ (by simp) ?_
    refine interleave_prefix (recursion d) _ 1 [] _ (by simp) ?_
    exact .done (by simp)
  · refine .step (k := 0) (rest := List.replicate d CStep.inc) (by simp [recursion]) ?_
    refine .step (k := 1) (rest := List.replicate d CStep.inc) (by simp [recursion]) ?_
    refine interleave_prefix (List.replicate d CStep.inc) _ 0 [] _ (by simp) ?_
    refine interleave_prefix (List.replicate d CStep.inc) _ 1 [] _ (by simp) ?_
    exact .done (by simp)
  · have r : ∀ s : Nat × Nat, counterStep s CStep.reset = (0, s.2) := fun _ => rfl
    simp only [sharedExceeds, sharedCounter, recursion, List.map_cons, List.append_nil, List.foldl_append, List.foldl_cons,
      r, foldl_inc, hne, if_false, Nat.zero_add, decide_eq_false_iff_not]
    simp only [Nat.max_def]
    repeat' split
    all_goals omega
  · have r : ∀ s : Nat × Nat, counterStep s CStep.reset = (0, s.2) := fun _ => rfl
    simp only [sharedExceeds, sharedCounter, List.append_nil, List.foldl_append, List.foldl_cons,
      r, foldl_inc, hne, if_false, Nat.zero_add, decide_eq_true_eq]
    simp only [Nat.max_def]
    repeat' split
    all_goals omega

/-! ## the regenerated census -/

abbrev SWrite := String × String × String × String × Bool
def SWrite.pkg (w : SWrite) : String := w.1
def SWrite.fn (w : SWrite) : String := w.2.1
def SWrite.target (w : SWrite) : String := w.2.2.1
def SWrite.op (w : SWrite) : String := w.2.2.2.1
def SWrite.reachable (w : SWrite) : Bool := w.2.2.2.2

/-- THE REVIEWED WRITES: every write to session-wide state in a function a worker can reach, with the reason why it
    cannot make a result depend on the schedule.  (function, target, operation, class) in the generator's order.
      statement     — reached only through `Processor.ExecuteStatement`, i.e. a statement in the body of a user-defined
                      function that a worker evaluates (`SET @@flag`, `ADD … TO @@datetime_format`, SELECT printing
                      its result, COMMIT …).  C12 excludes programs that assign inside queries; the data race with the
                      unlocked readers is C13's known finding F105.  None of them counts.
      once          — written once under sync.Once / under the loading mutex, value a function of the key (a cache fill)
      flag          — a boolean set / cleared under `viewLoadingMutex` by the worker that holds the STDIN lock -/
def reviewedSessionWrites : List (String × String × String × String) := [
  ("Flags.SetAllowUnevenFields", "option.Flags.ImportOptions.AllowUnevenFields", "assign", "statement"),
  ("Flags.SetAnsiQuotes", "option.Flags.AnsiQuotes", "assign", "statement"),
  ("Flags.SetCPU", "option.Flags.CPU", "assign", "statement"),
  ("Flags.SetColor", "option.Flags.ExportOptions.Color", "assign", "statement"),
  ("Flags.SetCountDiacriticalSign", "option.Flags.ExportOptions.CountDiacriticalSign", "assign", "statement"),
  ("Flags.SetCountFormatCode", "option.Flags.ExportOptions.CountFormatCode", "assign", "statement"),
  ("Flags.SetDatetimeFormat", "option.Flags.DatetimeFormat", "append", "statement"),
  ("Flags.SetDatetimeFormat", "option.Flags.DatetimeFormat", "assign", "statement"),
  ("Flags.SetDelimiter", "option.Flags.ImportOptions.Delimiter", "assign", "statement"),
  ("Flags.SetDelimiterPositions", "option.Flags.ImportOptions.DelimiterPositions", "assign", "statement"),
  ("Flags.SetDelimiterPositions", "option.Flags.ImportOptions.SingleLine", "assign", "statement"),
  ("Flags.SetEastAsianEncoding", "option.Flags.ExportOptions.EastAsianEncoding", "assign", "statement"),
  ("Flags.SetEncloseAll", "option.Flags.ExportOptions.EncloseAll", "assign", "statement"),
  ("Flags.SetEncoding", "option.Flags.ImportOptions.Encoding", "assign", "statement"),
  ("Flags.SetFormat", "option.Flags.ExportOptions.Format", "assign", "statement"),
  ("Flags.SetFormat", "option.Flags.ExportOptions.JsonEscape", "assign", "statement"),
  ("Flags.SetImportFormat", "option.Flags.ImportOptions.Format", "assign", "statement"),
  ("Flags.SetJsonEscape", "option.Flags.ExportOptions.JsonEscape", "assign", "statement"),
  ("Flags.SetJsonQuery", "option.Flags.ImportOptions.JsonQuery", "assign", "statement"),
  ("Flags.SetLimitRecursion", "option.Flags.LimitRecursion", "assign", "statement"),
  ("Flags.SetLineBreak", "option.Flags.ExportOptions.LineBreak", "assign", "statement"),
  ("Flags.SetLocation", "option.Flags.Location", "assign", "statement"),
  ("Flags.SetLocation", "option.Flags.defaultTimeLocation", "assign", "statement"),
  ("Flags.SetNoHeader", "option.Flags.ImportOptions.NoHeader", "assign", "statement"),
  ("Flags.SetPrettyPrint", "option.Flags.ExportOptions.PrettyPrint", "assign", "statement"),
  ("Flags.SetQuiet", "option.Flags.Quiet", "assign", "statement"),
  ("Flags.SetRepository", "option.Flags.Repository", "assign", "statement"),
  ("Flags.SetRepository", "option.Flags.Repository", "reset", "statement"),      -- `= ""`: a text, not a counter
  ("Flags.SetScientificNotation", "option.Flags.ExportOptions.ScientificNotation", "assign", "statement"),
  ("Flags.SetStats", "option.Flags.Stats", "assign", "statement"),
  ("Flags.SetStrictEqual", "option.Flags.StrictEqual", "assign", "statement"),
  ("Flags.SetStripEndingLineBreak", "option.Flags.ExportOptions.StripEndingLineBreak", "assign", "statement"),
  ("Flags.SetWaitTimeout", "option.Flags.WaitTimeout", "assign", "statement"),
  ("Flags.SetWithoutHeader", "option.Flags.ExportOptions.WithoutHeader", "assign", "statement"),
  ("Flags.SetWithoutNull", "option.Flags.ImportOptions.WithoutNull", "assign", "statement"),
  ("Flags.SetWriteDelimiter", "option.Flags.ExportOptions.Delimiter", "assign", "statement"),
  ("Flags.SetWriteDelimiterPositions", "option.Flags.ExportOptions.DelimiterPositions", "assign", "statement"),
  ("Flags.SetWriteDelimiterPositions", "option.Flags.ExportOptions.SingleLine", "assign", "statement"),
  ("Flags.SetWriteEncoding", "option.Flags.ExportOptions.Encoding", "assign", "statement"),
  ("GetGoroutineManager", "query.gm", "assign", "once"),                         -- inside getGm.Do
  ("Processor.ExecuteStatement", "Transaction.AffectedRows", "assign", "statement"),
  ("Processor.ExecuteStatement", "Transaction.SelectedViews", "append", "statement"),
  ("Reload", "option.Flags.DatetimeFormat", "assign", "statement"),
  ("RemoveFlagElement", "option.Flags.DatetimeFormat", "append", "statement"),
  ("RemoveFlagElement", "option.Flags.DatetimeFormat", "assign", "statement"),
  ("Transaction.ClearUrlCache", "Transaction.UrlCache", "mapInsert", "statement"), -- COMMIT / ROLLBACK
  ("Transaction.LockStdinContext", "Transaction.stdinIsLocked", "reset", "flag"),  -- `= true`
  ("Transaction.UnlockStdin", "Transaction.stdinIsLocked", "reset", "flag"),       -- `= false`
  ("Transaction.UpdateWaitTimeout", "Transaction.RetryDelay", "assign", "statement"),
  ("Transaction.UpdateWaitTimeout", "Transaction.WaitTimeout", "assign", "statement"),
  -- the body of a remote table, stored under its URL the first time it is requested (under viewLoadingMutex; C13's law
  -- remote_table_requested_once): the value is a function of the key
  ("loadHttpObject", "Transaction.UrlCache", "mapInsert", "once")
]

def reachableWrites : List SWrite := Gen.Shape.sessionWrites.filter fun (w : SWrite) => w.reachable

/-- NO WORKER COUNTS IN A SESSION-WIDE FIELD: among the writes to fields of Transaction / Session / Flags and to
    package-level variables that a worker body can reach, none is a `counter` (++ / += / atomic.Add), and the only
    constant stores (`reset`) are the three reviewed ones (two booleans under a mutex, one text).  C12-m23 breaks this
    with `atomic.AddInt64(&scope.Tx.recursionCount, 1)` in selectSetForRecursion and the reset in selectSet. -/
theorem gen_no_session_counter_written_by_workers :
    reachableWrites.all (fun (w : SWrite) => w.op != "counter") = true
    ∧ ((reachableWrites.filter fun (w : SWrite) => w.op == "reset").map fun (w : SWrite) => (w.fn, w.target))
        = [("Flags.SetRepository", "option.Flags.Repository"),
           ("Transaction.LockStdinContext", "Transaction.stdinIsLocked"),
           ("Transaction.UnlockStdin", "Transaction.stdinIsLocked")] := by decide

/-- the writes a worker can reach are exactly the reviewed ones: a NEW write to session-wide state in code below
    Evaluate (whatever its class) has to be reviewed -/
theorem gen_session_writes_of_workers_are_the_reviewed_ones :
    (reachableWrites.map fun (w : SWrite) => (w.fn, w.target, w.op)) = reviewedSessionWrites.map fun r => (r.1, r.2.1, r.2.2.1) := by
  decide

-- non-vacuity: the census is there, part of it is reachable, part is not
example : Gen.Shape.sessionWrites.length > 40 ∧ reachableWrites.length = reviewedSessionWrites.length := by decide
example : (Gen.Shape.sessionWrites.filter fun (w : SWrite) => !w.reachable).length > 5 := by decide

/-- every reviewed entry has one of the three reviewed classes -/
theorem reviewed_session_classes :
    reviewedSessionWrites.all (fun r => ["statement", "once", "flag"].contains r.2.2.2) = true := by decide

/-! ## non-vacuity -/
example : sharedExceeds 5 ((recursion 3).map (fun c => (0, c)) ++ (recursion 3).map (fun c => (1, c))) = false := by decide
example : sharedExceeds 5 ((0, .reset) :: (1, .reset) :: ((List.replicate 3 CStep.inc).map (fun c => (0, c))
    ++ (List.replicate 3 CStep.inc).map (fun c => (1, c)))) = true := by decide
example : ownExceeds 5 ((0, .reset) :: (1, .reset) :: ((List.replicate 3 CStep.inc).map (fun c => (0, c))
    ++ (List.replicate 3 CStep.inc).map (fun c => (1, c)))) 1 = false := by decide

end Csvq.C12
