/-
  C18 — GRAMMAR LAYER, the query level above the SELECT skeleton (Csvq/Model/Query.lean): set operators UNION / EXCEPT /
  INTERSECT [ALL] with the precedence parser.y declares (all %left, INTERSECT above the other two), parenthesised queries
  as their operands (Subquery nodes: the printer adds no parentheses, the tree keeps the written ones), ORDER BY / LIMIT /
  OFFSET of the whole query, FOR UPDATE, and WITH [RECURSIVE] name [(columns)] AS (query), … .  Property theorems only.
  For EVERY table of expression precedences, every assignment of levels to the set operators, every well-formed query of
  any size and nesting depth.
  Not in the model yet (by correspondence only): INTO, the FETCH form of LIMIT, sub-queries in FROM and in expressions,
  LATERAL, table functions.
-/
import Csvq.Lemmas.Query
import Csvq.Lemmas.AstPrint
namespace Csvq.C18
open Csvq.OpExpr Csvq.Clause Csvq.Query

/-- `parseQuery (printQuery q ++ rest) = some (q, rest)` for every well-formed query and every rest at which a query may
    end (the end of the text or a closing parenthesis), with any fuel from `costQ q` on -/
theorem query_print_parse {α : Type} [DecidableEq α] (tbl : Table α) (lv : SetOp → Nat) (q : Query α) (hw : WFQ tbl lv q)
    (rest : List (Tok α)) (hr : Closing rest) (m : Nat) (hm : costQ q ≤ m) :
    parseQuery tbl lv m (printQuery tbl q ++ rest) = some (q, rest) :=
  queryP tbl lv q hw rest hr m hm

/-- the whole text: `parseWhole (printQuery q) = some q` -/
theorem query_print_parse_whole {α : Type} [DecidableEq α] (tbl : Table α) (lv : SetOp → Nat) (q : Query α) (hw : WFQ tbl lv q) :
    parseWhole tbl lv (printQuery tbl q) = some q := by
  have hc := costQ_le tbl q
  have := queryP tbl lv q hw [] (by simp [Closing]) (queryFuel (printQuery tbl q)) (by simp [queryFuel]; omega)
  simp only [List.append_nil] at this
  simp [parseWhole, this]

/-- print ∘ parse ∘ print = print -/
theorem query_print_idempotent {α : Type} [DecidableEq α] (tbl : Table α) (lv : SetOp → Nat) (q : Query α) (hw : WFQ tbl lv q) :
    (parseWhole tbl lv (printQuery tbl q)).map (printQuery tbl) = some (printQuery tbl q) := by
  rw [query_print_parse_whole tbl lv q hw]; rfl

/-- a set tree in front of anything that is not a set operator is read back by the precedence-climbing loop, whatever the
    levels of the operators: the statement for the operands and operators alone -/
theorem set_tree_print_parse {α : Type} [DecidableEq α] (tbl : Table α) (lv : SetOp → Nat) (t : SetTree α) (hw : WFT tbl lv t)
    (hf : FitsT lv 0 t) (rest : List (Tok α)) (hr : Closing rest) :
    parseSetE tbl lv (1 + costT t) 0 (printTree tbl t ++ rest) = some (t, rest) :=
  treeP tbl lv t hw 0 rest 1 (t, rest) hf (stopT_of_none lv (setOpTok_closing hr)) (fun _ => after8_closing hr)
    (loop_return tbl lv 0 t rest (stopT_of_none lv (setOpTok_closing hr)) 0) _ (Nat.le_refl _)

open Csvq.Gen.Precedence in
/-- the levels of the set operators REGENERATED from the %left lines of parser.y: UNION and EXCEPT share a level, INTERSECT
    binds tighter, all three associate to the left, and the model's `genLv` is that table -/
theorem gen_set_operator_levels :
    levelOf .UNION = some (2, .left) ∧ levelOf .EXCEPT = some (2, .left) ∧ levelOf .INTERSECT = some (3, .left) ∧
    genLv .union = 2 ∧ genLv .except = 2 ∧ genLv .intersect = 3 := by decide

open Csvq.AstPrint Csvq.Gen.AstPrint in
/-- the printers of the query level emit their parts in the order, under the conditions and with the keywords of the
    String() methods as regenerated from ast.go (left), and the model's equations for the same nodes (right) -/
theorem gen_query_printers_match_model :
    emitted node_SelectSet = [("", "e.LHS.String()"), ("", "e.Operator.String()"), ("!e.All.IsEmpty()", "e.All.String()"), ("", "e.RHS.String()")] ∧
    node_Subquery.parts = [⟨"", "return", "putParentheses(e.Query.String())", ["Query"], []⟩] ∧
    emitted node_SelectQuery = [("e.WithClause != nil", "e.WithClause.String()"), ("", "e.SelectEntity.String()"),
      ("e.OrderByClause != nil", "e.OrderByClause.String()"), ("e.LimitClause != nil", "e.LimitClause.String()"),
      ("e.IsForUpdate()", "keyword(FOR)"), ("e.IsForUpdate()", "e.Context.String()")] ∧
    emitted node_WithClause = [("", "keyword(WITH)"), ("", "listQueryExpressions(e.InlineTables)")] ∧
    emitted node_InlineTable = [("!e.Recursive.IsEmpty()", "e.Recursive.String()"), ("", "e.Name.String()"),
      ("e.Fields != nil", "putParentheses(listQueryExpressions(e.Fields))"), ("", "keyword(AS)"), ("", "putParentheses(e.Query.String())")] ∧
    -- the model's printers
    (∀ (tbl : Table Csvq.Gen.Precedence.Term) l k all r, printTree tbl (.op l k all r) =
      printTree tbl l ++ ((.kw (kwOf k) :: (if all then [.kw .all] else [])) ++ printTree tbl r)) ∧
    (∀ (tbl : Table Csvq.Gen.Precedence.Term) q, printTree tbl (.sub q) = .lpar :: (printQuery tbl q ++ [.rpar])) ∧
    (∀ (tbl : Table Csvq.Gen.Precedence.Term) w b t fu, printQuery tbl (.mk w b t fu) =
      withKw w ++ (printWithList tbl w ++ (printTree tbl b ++ (printTail tbl t ++ (if fu then [.kw .for_, .kw .update] else []))))) ∧
    (∀ (tbl : Table Csvq.Gen.Precedence.Term) (t : Tail Csvq.Gen.Precedence.Term), printTail tbl t =
      printListClause [.kw .order, .kw .by] (printOrderItem tbl) t.orderBy ++ (printOptLimit t.limit ++ printOptOffset t.offset)) ∧
    (∀ (tbl : Table Csvq.Gen.Precedence.Term) rc n cols q, printWithList tbl (.cons rc n cols q .nil) =
      (if rc then [Tok.kw .recursive] else []) ++ (.atom n :: (printCols cols ++ (.kw .as :: .lpar :: (printQuery tbl q ++ [.rpar]))))) ∧
    (∀ (c : Nat) (cs : List Nat), printCols (α := Csvq.Gen.Precedence.Term) (c :: cs) =
      .lpar :: (printSep (fun c => [Tok.atom c]) (c :: cs) ++ [.rpar])) := by
  refine ⟨by decide, by decide, by decide, by decide, by decide, ?_, ?_, ?_, ?_, ?_, ?_⟩ <;> intros <;>
    simp [printTree, printQuery, printSetOp, printForUpdate, printTail, printWithList, printCols]

/-! ## non-vacuity -/

section examples
open Csvq.Gen.Precedence

private def sel (n : Nat) : List (Tok Term) := [.kw .select, .atom n]
private def selT (n : Nat) : Select Term := ⟨false, [.expr (.atom n) none], [], none, [], none, [], none, none⟩

-- INTERSECT binds tighter than UNION / EXCEPT, which associate to the left; ORDER BY belongs to the whole query (kept in
-- the right-most SELECT, see Model/Query.lean)
example : parseWhole genTable genLv (sel 1 ++ [.kw .union] ++ sel 3 ++ [.kw .intersect, .kw .all] ++ sel 5 ++ [.kw .except] ++ sel 7) =
    some (.mk .nil (.op (.op (.ent (selT 1)) .union false (.op (.ent (selT 3)) .intersect true (.ent (selT 5)))) .except false (.ent (selT 7)))
      emptyTail false) := by decide
-- parentheses are Subquery nodes; behind one the ORDER BY / LIMIT are the query's; FOR UPDATE; WITH RECURSIVE with a column list
example : (parseWhole genTable genLv ([.kw .with, .kw .recursive, .atom 0, .lpar, .atom 2, .kw .comma, .atom 4, .rpar, .kw .as, .lpar] ++ sel 1 ++
      [.rpar, .kw .comma, .atom 6, .kw .as, .lpar] ++ sel 3 ++ [.rpar] ++ sel 5 ++ [.kw .union, .lpar] ++ sel 7 ++ [.kw .limit, .atom 1, .rpar,
      .kw .limit, .atom 3, .kw .for_, .kw .update])) =
    some (.mk (.cons true 0 [2, 4] (.mk .nil (.ent (selT 1)) emptyTail false) (.cons false 6 [] (.mk .nil (.ent (selT 3)) emptyTail false) .nil))
      (.op (.ent (selT 5)) .union false (.sub (.mk .nil (.ent { selT 7 with limit := some ⟨1, .none, .none⟩ }) emptyTail false)))
      ⟨[], some ⟨3, .none, .none⟩, none⟩ true) := by decide
-- an operand that is not the last may not carry ORDER BY / LIMIT; a lone parenthesised query is not a query; ALL needs an operator
example : parseWhole genTable genLv (sel 1 ++ [.kw .limit, .atom 1, .kw .union] ++ sel 3) = none ∧
    parseWhole genTable genLv ([.lpar] ++ sel 1 ++ [.rpar]) = none ∧
    parseWhole genTable genLv (sel 1 ++ [.kw .all] ++ sel 3) = none := by decide
-- the hypothesis is needed: `a UNION (b UNION c)` built WITHOUT the Subquery node prints `a UNION b UNION c`, another tree
example : (parseWhole genTable genLv (printQuery genTable (.mk .nil (.op (.ent (selT 1)) .union false (.op (.ent (selT 3)) .union false (.ent (selT 5)))) emptyTail false))) =
    some (.mk .nil (.op (.op (.ent (selT 1)) .union false (.ent (selT 3))) .union false (.ent (selT 5))) emptyTail false) := by decide
-- a tree that satisfies the hypotheses of query_print_parse (WFQ unfolds to decidable facts about its SELECTs)
example : FitsT genLv 0 (.op (.ent (selT 1)) .union false (.op (.ent (selT 3)) .intersect true (.ent (selT 5))) : SetTree Term) ∧
    rctxT genLv (.op (.ent (selT 1)) .union false (.op (.ent (selT 3)) .intersect true (.ent (selT 5))) : SetTree Term) = [2, 3] := by
  constructor
  · intro l hl; simp [lopsT] at hl; subst hl; decide
  · decide

end examples

end Csvq.C18
