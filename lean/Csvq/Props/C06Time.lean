/-
  C06 (also used by C02 and C04) — datetimes written as text: time.Time.Format(time.RFC3339Nano) inside the model
  (Model/FormatTime.lean: the encoders' datetime cells, STRING(datetime), the %s placeholder, JSON output,
  Datetime.String()), the inverse of Model/ParseTime.lean (value.StrToTime).  Property theorems only; lemmas in
  Lemmas/FormatTime.lean.

  An instant is an `Int` of nanoseconds since the Unix epoch; the zone a time.Time carries enters as its offset
  `off` (seconds east of UTC) at that instant.  THE RANGE in which a printed datetime reads back:
    * the calendar year of the instant in that zone is 0000 … 9999 (`FT.localYear`), and
    * the offset is a whole number of minutes, less than 25 hours in magnitude.
  Outside it the real behaviour breaks the round trip (counterexamples below, reproduced against the binary).
-/
import Csvq.Lemmas.FormatTime
namespace Csvq.C06
open Csvq

/-! ## the calendar: days ↔ civil date -/

/-- **days → civil date → days**, for every day number -/
theorem civil_days_roundtrip (z : Int) :
    PT.daysFromCivil (FT.civilFromDays z).1 (FT.civilFromDays z).2.1 (FT.civilFromDays z).2.2 = z :=
  FT.days_civil_days z

/-- the date `civilFromDays` returns is a date of the proleptic Gregorian calendar: month 1 … 12, day 1 … length
    of that month in that year (29 February exactly in leap years) -/
theorem civil_from_days_valid (z : Int) :
    1 ≤ (FT.civilFromDays z).2.1 ∧ (FT.civilFromDays z).2.1 ≤ 12 ∧ 1 ≤ (FT.civilFromDays z).2.2
      ∧ (FT.civilFromDays z).2.2 ≤ PT.daysIn (FT.civilFromDays z).2.1 (FT.civilFromDays z).1 :=
  FT.civil_valid z

/-- **civil date → days → civil date**, for every date of the calendar (any year, also negative ones) -/
theorem days_civil_roundtrip (y m d : Int) (hm : 1 ≤ m ∧ m ≤ 12) (hd : 1 ≤ d ∧ d ≤ PT.daysIn m y) :
    FT.civilFromDays (PT.daysFromCivil y m d) = (y, m, d) :=
  FT.civil_days_civil y m d hm hd

/-- hence two different dates of the calendar are different days -/
theorem days_from_civil_injective (y m d y' m' d' : Int) (hm : 1 ≤ m ∧ m ≤ 12) (hd : 1 ≤ d ∧ d ≤ PT.daysIn m y)
    (hm' : 1 ≤ m' ∧ m' ≤ 12) (hd' : 1 ≤ d' ∧ d' ≤ PT.daysIn m' y')
    (h : PT.daysFromCivil y m d = PT.daysFromCivil y' m' d') : (y, m, d) = (y', m', d') := by
  rw [← days_civil_roundtrip y m d hm hd, ← days_civil_roundtrip y' m' d' hm' hd', h]

/-! ## the text of a datetime reads back as that datetime -/

/-- **value.StrToTime of the text csvq prints for a datetime is the same instant** — every instant whose local
    year is 0000 … 9999, every zone offset of whole minutes below 25 hours; nanoseconds, fractions with trailing
    zeros trimmed, `Z` and `±hh:mm` included.  (The reading carries the printed offset as a fixed zone, or UTC for
    `Z`; the model's StrToTime returns the instant.) -/
theorem time_text_roundtrip (ns off : Int) (hy : 0 ≤ FT.localYear ns off ∧ FT.localYear ns off ≤ 9999)
    (hm : off % 60 = 0) (hb : -90000 < off ∧ off < 90000) : PT.strToTime (FT.fmtTime ns off) = some ns :=
  FT.strToTime_fmtTime ns off hy.1 hy.2 hm hb

/-- in one zone, different instants have different texts -/
theorem time_text_injective (ns ns' off : Int) (hy : 0 ≤ FT.localYear ns off ∧ FT.localYear ns off ≤ 9999)
    (hy' : 0 ≤ FT.localYear ns' off ∧ FT.localYear ns' off ≤ 9999) (hm : off % 60 = 0) (hb : -90000 < off ∧ off < 90000)
    (h : FT.fmtTime ns off = FT.fmtTime ns' off) : ns = ns' := by
  have a := time_text_roundtrip ns off hy hm hb
  have b := time_text_roundtrip ns' off hy' hm hb
  rw [h, b] at a
  injection a with a; exact a.symm

/-- across zones: equal texts mean equal instants (the text determines the instant, whatever zone printed it) -/
theorem time_text_determines_instant (ns ns' off off' : Int)
    (hy : 0 ≤ FT.localYear ns off ∧ FT.localYear ns off ≤ 9999) (hy' : 0 ≤ FT.localYear ns' off' ∧ FT.localYear ns' off' ≤ 9999)
    (hm : off % 60 = 0) (hb : -90000 < off ∧ off < 90000) (hm' : off' % 60 = 0) (hb' : -90000 < off' ∧ off' < 90000)
    (h : FT.fmtTime ns off = FT.fmtTime ns' off') : ns = ns' := by
  have a := time_text_roundtrip ns off hy hm hb
  have b := time_text_roundtrip ns' off' hy' hm' hb'
  rw [h, b] at a
  injection a with a; exact a.symm

/-- the bytes of the text, for EVERY instant and offset: digits, '-', ':', 'T', '.', 'Z', '+' — no quote, no comma,
    no space, no line break (so the cell needs no quoting in CSV and Datetime.String() only adds the quotes) -/
theorem fmt_time_bytes (ns off : Int) : ∀ b ∈ FT.fmtTime ns off,
    (48 ≤ b ∧ b ≤ 57) ∨ b = 45 ∨ b = 58 ∨ b = 84 ∨ b = 46 ∨ b = 90 ∨ b = 43 :=
  FT.fmtTime_bytes ns off

/-! ## where the real behaviour breaks the round trip (full statement: `∀ ns off, strToTime (fmtTime ns off) = some ns`) -/

/-- years above 9999 are printed with five digits, which StrToTime does not read: 10000-01-01T00:00:00Z -/
theorem time_text_roundtrip_counterexample_year10000 :
    FT.fmtTime 253402300800000000000 0 = [49, 48, 48, 48, 48, 45, 48, 49, 45, 48, 49, 84, 48, 48, 58, 48, 48, 58, 48, 48, 90]
      ∧ PT.strToTime (FT.fmtTime 253402300800000000000 0) = none := by decide +kernel

/-- years below 0 are printed with a sign: -0001-12-31T23:59:59Z is not read either -/
theorem time_text_roundtrip_counterexample_year_negative :
    FT.fmtTime (-62167219201000000000) 0 = [45, 48, 48, 48, 49, 45, 49, 50, 45, 51, 49, 84, 50, 51, 58, 53, 57, 58, 53, 57, 90]
      ∧ PT.strToTime (FT.fmtTime (-62167219201000000000) 0) = none := by decide +kernel

/-- an offset with seconds (a local mean time: America/Los_Angeles before 1883 is -7:52:58) is printed without
    them — 1880-01-01T00:00:00-07:52 — and reads back 58 seconds away -/
theorem time_text_roundtrip_counterexample_seconds_offset :
    FT.fmtTime (-2840112422000000000) (-28378)
        = [49, 56, 56, 48, 45, 48, 49, 45, 48, 49, 84, 48, 48, 58, 48, 48, 58, 48, 48, 45, 48, 55, 58, 53, 50]
      ∧ PT.strToTime (FT.fmtTime (-2840112422000000000) (-28378)) = some (-2840112480000000000) := by decide +kernel

/-- an offset of 25 hours or more is printed (+25:00) but not read -/
theorem time_text_roundtrip_counterexample_large_offset :
    PT.strToTime (FT.fmtTime 0 90000) = none := by decide +kernel

/-! ## DATETIME_FORMAT: the % verbs -/

/-- text without '%' passes through value.ConvertDatetimeFormat unchanged — it is NOT escaped, so literal text that
    spells one of Go's reference items (`2006`, `15`, `Jan`, `PM`, `Monday`, `MST`, `1`, `2` …) reaches
    time.Format as a layout item: DATETIME_FORMAT(d, 'at 15 o''clock') prints the hour.  (Reported as a finding.) -/
theorem convert_format_literal_unchanged (s : List Nat) (h : ∀ c ∈ s, c ≠ 37) : FT.convertFormat false s = s := by
  induction s with
  | nil => rfl
  | cons c cs ih =>
    have hc : c ≠ 37 := h c (by simp)
    simp only [FT.convertFormat, hc, if_false]
    rw [ih (fun x hx => h x (by simp [hx]))]

/-- a verb is replaced by its layout, whatever follows; unknown verbs and `%%` give the rune itself -/
theorem convert_format_verb (r : Nat) (rs : List Nat) :
    FT.convertFormat false (37 :: r :: rs)
      = (match FT.verbLayout r with | some l => l | none => [r]) ++ FT.convertFormat false rs := by
  rfl

/-! ## non-vacuity: concrete instants -/

-- the epoch, one nanosecond before it, 2000-02-29 in +09:00, 9999-12-31T23:59:59.999999999Z, 0000-01-01, a half-hour zone
example : FT.fmtTime 0 0 = [49, 57, 55, 48, 45, 48, 49, 45, 48, 49, 84, 48, 48, 58, 48, 48, 58, 48, 48, 90] := by decide +kernel
example : FT.fmtTime (-1) 0 = [49, 57, 54, 57, 45, 49, 50, 45, 51, 49, 84, 50, 51, 58, 53, 57, 58, 53, 57, 46, 57, 57, 57, 57, 57, 57, 57, 57, 57, 90] := by
  decide +kernel
example : FT.fmtTime 951782400120000000 32400
    = [50, 48, 48, 48, 45, 48, 50, 45, 50, 57, 84, 48, 57, 58, 48, 48, 58, 48, 48, 46, 49, 50, 43, 48, 57, 58, 48, 48] := by decide +kernel
example : PT.strToTime (FT.fmtTime 253402300799999999999 0) = some 253402300799999999999 := by decide +kernel
example : PT.strToTime (FT.fmtTime (-62167219200000000000) 0) = some (-62167219200000000000) := by decide +kernel
example : PT.strToTime (FT.fmtTime 1328260695000000000 (-12600)) = some 1328260695000000000 := by decide +kernel
example : 0 ≤ FT.localYear 253402300799999999999 0 ∧ FT.localYear 253402300799999999999 0 ≤ 9999 := by decide +kernel
example : FT.civilFromDays 11016 = (2000, 2, 29) ∧ FT.civilFromDays (-25508) = (1900, 3, 1) ∧ FT.civilFromDays (-719528) = (0, 1, 1) := by
  decide +kernel
example : FT.convertFormat false [97, 116, 32, 49, 53, 32, 37, 72] = [97, 116, 32, 49, 53, 32, 49, 53] := by decide

end Csvq.C06
