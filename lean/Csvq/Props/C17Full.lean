/-
  C17, second part — Analyze end to end, LISTAGG / JSON_AGG, the aggregates over frames, and
  perseCumulativeGroups as maximal runs.  Model: Csvq/Model/AnalyticFull.lean.
-/
import Csvq.Model.AnalyticFull
import Csvq.Lemmas.SortSpec
import Csvq.Props.C04
import Csvq.Props.C17
import Csvq.Gen.AnalyticFacts
import Csvq.Gen.SortFacts
namespace Csvq.C17
open Csvq Csvq.Analytic

/-! ## 1. Analyze end to end -/

/-- the clause's ORDER BY only permutes the records … -/
theorem analyze_view_perm (its : List OrdItem) (hasOrder : Bool) (rows : List ARow) :
    (sortView its hasOrder rows).Perm rows := by
  unfold sortView
  split
  · exact sortBy_perm _ _
  · exact List.Perm.refl _

/-- … the records (all their columns) come out unchanged, each with exactly one new value … -/
theorem analyze_rows_kept {β : Type} (its : List OrdItem) (hasOrder : Bool)
    (exec : List ARow → List Nat → List (Nat × β)) (rows : List ARow) :
    (analyzeFull its hasOrder exec rows).map Prod.fst = sortView its hasOrder rows := by
  unfold analyzeFull
  apply List.map_fst_zip
  rw [analyze_length]; simp

/-- … and their number is unchanged -/
theorem analyze_row_count {β : Type} (its : List OrdItem) (hasOrder : Bool)
    (exec : List ARow → List Nat → List (Nat × β)) (rows : List ARow) :
    (analyzeFull its hasOrder exec rows).length = rows.length := by
  have h := congrArg List.length (analyze_rows_kept its hasOrder exec rows)
  rw [List.length_map] at h
  rw [h]; exact (analyze_view_perm its hasOrder rows).length_eq

/-- two records of the ordered view are in the same partition iff their normalised PARTITION BY values are equal -/
theorem analyze_same_partition (view : List ARow) (r : ARow) (j : Nat) :
    j ∈ members (keyOfRow r) (view.map keyOfRow).zipIdx ↔ ∃ r', view[j]? = some r' ∧ r'.part.map norm = r.part.map norm := by
  rw [mem_members_zipIdx, List.getElem?_map]
  cases view[j]? with
  | none =>
    constructor
    · intro h; cases h
    · rintro ⟨_, e, _⟩; cases e
  | some r' =>
    simp only [Option.map_some, Option.some.injEq, keyOfRow]
    constructor
    · intro h; exact ⟨r', rfl, h⟩
    · rintro ⟨r'', e, h⟩; cases e; exact h

/-- ANALYZE: the record at position `i` of the ordered view receives the function's definition `f` applied to
    the records of ITS partition — those with the same normalised PARTITION BY values, in the order of the
    view — before it (`a`) and after it (`b`) -/
theorem analyze_spec {β : Type} (its : List OrdItem) (hasOrder : Bool) (f : List ARow → List Nat → Nat → List Nat → β)
    (exec : List ARow → List Nat → List (Nat × β))
    (hexec : ∀ v p, exec v p = perRow (f v) [] p ∨ (p.Pairwise (· < ·) → exec v p = (perRow (f v) [] p).reverse))
    (rows : List ARow) (i : Nat) (r : ARow) (hr : (sortView its hasOrder rows)[i]? = some r) (a b : List Nat)
    (hsplit : members (keyOfRow r) ((sortView its hasOrder rows).map keyOfRow).zipIdx = a ++ i :: b) :
    (analyzeFull its hasOrder exec rows)[i]? = some (r, some (f (sortView its hasOrder rows) a i b)) := by
  unfold analyzeFull
  have hk : ((sortView its hasOrder rows).map keyOfRow)[i]? = some (keyOfRow r) := by
    rw [List.getElem?_map, hr]; rfl
  have := analyze_row_spec (f (sortView its hasOrder rows)) (exec (sortView its hasOrder rows))
    (hexec (sortView its hasOrder rows)) ((sortView its hasOrder rows).map keyOfRow) i (keyOfRow r) hk a b hsplit
  rw [List.getElem?_zip_eq_some]
  exact ⟨hr, this⟩

theorem map_chunks_flatten {α γ : Type} (g : α → γ) : ∀ (chunks : List (List α)),
    (chunks.map (List.map g)).flatten = chunks.flatten.map g
  | [] => rfl
  | c :: cs => by
    simp only [List.map_cons, List.flatten_cons, List.map_append]
    rw [map_chunks_flatten g cs]

/-- the result does not depend on how the records are cut into ranges for the workers that compute the
    partition keys, nor on how the partitions are distributed over the workers that execute them -/
theorem analyze_indep_of_workers {β : Type} (its : List OrdItem) (hasOrder : Bool)
    (cutRecords : List ARow → List (List ARow)) (hcut : ∀ l, (cutRecords l).flatten = l)
    (split : List (List NKey × List Nat) → List (List (List NKey × List Nat))) (hsplit : ∀ l, (split l).flatten = l)
    (exec : List ARow → List Nat → List (Nat × β)) (rows : List ARow) :
    analyzeFullWith its hasOrder cutRecords split exec rows = analyzeFull its hasOrder exec rows := by
  unfold analyzeFullWith analyzeFull
  rw [map_chunks_flatten, hcut, analyze_indep_workers split hsplit]

/-- partitioning by any injective image of the key (the serialised bytes) is partitioning by the key -/
theorem partition_by_injective_image {κ γ : Type} [DecidableEq κ] [DecidableEq γ] (g : κ → γ) (keys : List κ)
    (hinj : ∀ a ∈ keys, ∀ b ∈ keys, g a = g b → a = b) (k : κ) (hk : k ∈ keys) (i : Nat) :
    i ∈ members (g k) (keys.map g).zipIdx ↔ i ∈ members k keys.zipIdx := by
  rw [mem_members_zipIdx, mem_members_zipIdx, List.getElem?_map]
  cases h : keys[i]? with
  | none => simp
  | some k' =>
    have hk' : k' ∈ keys := List.mem_of_getElem? h
    simp only [Option.map_some, Option.some.injEq]
    exact ⟨fun e => hinj k' hk' k hk e, fun e => by rw [e]⟩

/-- … in particular by the bytes SerializeComparisonKeys / SortValues.Serialize write (C04: uniquely decodable) -/
theorem partition_by_serialized_key (kt : KeyText) (ok : KeyTextOK kt) (keys : List (List NKey)) (n : Nat)
    (hlen : ∀ k ∈ keys, k.length = n) (k : List NKey) (hk : k ∈ keys) (i : Nat) :
    i ∈ members (serKeys kt k) (keys.map (serKeys kt)).zipIdx ↔ i ∈ members k keys.zipIdx :=
  partition_by_injective_image (serKeys kt) keys
    (fun a ha b hb e => Csvq.C04.serKeys_inj kt ok a b (by rw [hlen a ha, hlen b hb]) e) k hk i

/-! ## 2. LISTAGG / JSON_AGG -/

section distinct
variable {κ : Type} [DecidableEq κ]

/-- DISTINCT (Distinguish): one value per comparison key — the keys in order of first appearance, none twice —
    and the kept values are a subsequence of the input (order preserved, each the FIRST of its key) -/
theorem distinguish_spec (key : Val → κ) (vals : List Val) :
    (distinguish key vals).map key = firstOcc (vals.map key) ∧
    ((distinguish key vals).map key).Nodup ∧ (distinguish key vals).Sublist vals := by
  have hsub := keepFirst_sublist (vals.map fun v => (key v, v))
  have hkey : ∀ e ∈ keepFirst (vals.map fun v => (key v, v)), e.1 = key e.2 := by
    intro e he
    obtain ⟨v, _, rfl⟩ := List.mem_map.mp (hsub.subset he)
    rfl
  have h1 : (distinguish key vals).map key = firstOcc (vals.map key) := by
    unfold distinguish
    rw [List.map_map]
    have : (keepFirst (vals.map fun v => (key v, v))).map (key ∘ Prod.snd)
        = (keepFirst (vals.map fun v => (key v, v))).map Prod.fst :=
      List.map_congr_left (fun e he => (hkey e he).symm)
    rw [this, keepFirst_keys]; simp [List.map_map, Function.comp_def]
  refine ⟨h1, by rw [h1]; exact firstOcc_nodup _, ?_⟩
  unfold distinguish
  have := hsub.map Prod.snd
  simpa [List.map_map, Function.comp_def] using this

/-- every input value's key is represented -/
theorem distinguish_complete (key : Val → κ) (vals : List Val) (v : Val) (hv : v ∈ vals) :
    key v ∈ (distinguish key vals).map key := by
  rw [(distinguish_spec key vals).1, mem_firstOcc]; exact List.mem_map_of_mem hv

end distinct

theorem foldl_sep (sep : Bytes) : ∀ (ss : List Bytes) (acc : Bytes),
    ss.foldl (fun a t => a ++ sep ++ t) acc = acc ++ (ss.map (fun t => sep ++ t)).flatten
  | [], acc => by simp
  | t :: ss, acc => by
    simp only [List.foldl_cons, List.map_cons, List.flatten_cons]
    rw [foldl_sep sep ss]; simp [List.append_assoc]

/-- LISTAGG: the string forms of the values that have one (NULLs have none), in the order of the list, with the
    separator between consecutive ones; NULL when no value has a string form -/
theorem listAgg_spec (toStr : Val → Option Bytes) (sep : Bytes) (vals : List Val) :
    listAgg toStr sep vals =
      match vals.filterMap toStr with
      | [] => none
      | s :: ss => some (s ++ (ss.map (fun t => sep ++ t)).flatten) := by
  unfold listAgg
  cases vals.filterMap toStr with
  | nil => rfl
  | cons s ss => simp only [foldl_sep]

/-- a value without string form (NULL) contributes nothing, wherever it stands -/
theorem listAgg_skips_null (toStr : Val → Option Bytes) (sep : Bytes) (a b : List Val) (v : Val) (hv : toStr v = none) :
    listAgg toStr sep (a ++ v :: b) = listAgg toStr sep (a ++ b) := by
  unfold listAgg
  simp [List.filterMap_append, hv]

theorem listAgg_all_null (toStr : Val → Option Bytes) (sep : Bytes) (vals : List Val) (h : ∀ v ∈ vals, toStr v = none) :
    listAgg toStr sep vals = none := by
  unfold listAgg
  have : vals.filterMap toStr = [] := List.filterMap_eq_nil_iff.mpr h
  rw [this]

/-- JSON_AGG keeps every value, NULLs included; only the empty list gives NULL -/
theorem jsonAgg_spec {J : Type} (enc : List Val → J) (vals : List Val) :
    jsonAgg enc vals = if vals = [] then none else some (enc vals) := by
  cases vals <;> simp [jsonAgg]

/-- analytic LISTAGG / JSON_AGG: every record receives the aggregate of the cells of its WHOLE partition in
    partition order (the ORDER BY of the clause), after DISTINCT -/
theorem listagg_analytic_spec {κ : Type} [DecidableEq κ] {β : Type} (cells : Nat → Val) (key : Val → κ)
    (distinct : Bool) (agg : List Val → β) (p : List Nat) :
    listAggAnalytic cells key distinct agg p =
      perRow (fun pre x post => agg (if distinct then distinguish key ((pre ++ x :: post).map cells)
                                     else (pre ++ x :: post).map cells)) [] p := by
  unfold listAggAnalytic
  exact listagg_over_spec cells _ p

/-- grouped LISTAGG / JSON_AGG … WITHIN GROUP (ORDER BY …): the aggregate of the argument's values taken in a
    sorted permutation of the group (the group itself without WITHIN GROUP), after DISTINCT -/
theorem listagg_grouped_spec {κ : Type} [DecidableEq κ] {β : Type} (its : List OrdItem) (hasOrder : Bool)
    (key : Val → κ) (distinct : Bool) (agg : List Val → β) (group : List ARow) :
    (sortView its hasOrder group).Perm group ∧
    listAggGrouped its hasOrder key distinct agg group =
      agg (if distinct then distinguish key ((sortView its hasOrder group).map fun r => r.arg.raw)
           else (sortView its hasOrder group).map fun r => r.arg.raw) :=
  ⟨analyze_view_perm its hasOrder group, rfl⟩

/-! ## 3. aggregates over frames -/

/-- every aggregate used with OVER returns, for every row, the aggregate of the cells of the row's frame in
    frame order — all ROWS forms, empty and inverted frames included -/
theorem agg_over_frame_spec {β : Type} (prof : Nat → Profile) (A : List Profile → β) (w : Window) (p : List Nat) :
    aggOverP prof A w p = perRow (fun pre x post => A ((frameRows w pre x post).map prof)) [] p := by
  unfold aggOverP
  exact frames_spec (fun _ rows => A (rows.map prof)) w p

/-- `aggOverP` is the aggregate branch of the code that exists (windowValues hands the frame's cells to the
    aggregate), for every aggregate `B` of the cells -/
theorem agg_over_frame_is_code {β : Type} (prof : Nat → Profile) (B : List Val → β) (w : Window) (p : List Nat) :
    aggOverAt repoState (fun i => (prof i).raw) (fun _ vs => B vs) w p
      = some (aggOverP prof (fun ps => B (ps.map Profile.raw)) w p) := by
  simp only [aggOverAt, repoState, Bool.false_eq_true, if_false, aggOverFixed, aggOverP, List.map_map]
  rfl

/-- COUNT, SUM, AVG, MIN, MAX, MEDIAN and their DISTINCT variants over a frame -/
theorem builtin_aggregates_over_frame (prof : Nat → Profile) (w : Window) (p : List Nat) :
    aggOverP prof aggCount w p = perRow (fun pre x post => aggCount ((frameRows w pre x post).map prof)) [] p ∧
    aggOverP prof aggSum w p = perRow (fun pre x post => aggSum ((frameRows w pre x post).map prof)) [] p ∧
    aggOverP prof aggAvg w p = perRow (fun pre x post => aggAvg ((frameRows w pre x post).map prof)) [] p ∧
    aggOverP prof aggMin w p = perRow (fun pre x post => aggMin ((frameRows w pre x post).map prof)) [] p ∧
    aggOverP prof aggMax w p = perRow (fun pre x post => aggMax ((frameRows w pre x post).map prof)) [] p ∧
    aggOverP prof aggMedian w p = perRow (fun pre x post => aggMedian ((frameRows w pre x post).map prof)) [] p ∧
    aggOverP prof (aggCount ∘ distinctProfiles) w p
      = perRow (fun pre x post => aggCount (distinctProfiles ((frameRows w pre x post).map prof))) [] p ∧
    aggOverP prof (aggSum ∘ distinctProfiles) w p
      = perRow (fun pre x post => aggSum (distinctProfiles ((frameRows w pre x post).map prof))) [] p ∧
    aggOverP prof (aggAvg ∘ distinctProfiles) w p
      = perRow (fun pre x post => aggAvg (distinctProfiles ((frameRows w pre x post).map prof))) [] p :=
  ⟨agg_over_frame_spec _ _ _ _, agg_over_frame_spec _ _ _ _, agg_over_frame_spec _ _ _ _, agg_over_frame_spec _ _ _ _,
   agg_over_frame_spec _ _ _ _, agg_over_frame_spec _ _ _ _, agg_over_frame_spec _ _ _ _, agg_over_frame_spec _ _ _ _,
   agg_over_frame_spec _ _ _ _⟩

/-- COUNT: the number of non-NULL cells -/
theorem count_spec (cells : List Profile) : aggCount cells = .int ((cells.filter fun p => !p.isNull).length) := rfl

/-- SUM is a LEFT fold in frame order: adding one more cell at the end adds it to the running sum -/
theorem sum_left_fold (l : List FVal) (x : FVal) : sumF (l ++ [x]) = FVal.add (sumF l) x ∧ sumF [] = .fin 0 := by
  simp [sumF, List.foldl_append]

set_option exponentiation.threshold 3000 in
/-- … and the order matters: float addition is not associative, the same three cells summed in another order
    give another SUM (2^53 + 1 − 2^53 = 0, but 2^53 − 2^53 + 1 = 1); the frame order is part of the definition -/
theorem sum_order_matters :
    sumF [FVal.ofInt 9007199254740992, FVal.ofInt 1, FVal.ofInt (-9007199254740992)]
      ≠ sumF [FVal.ofInt 9007199254740992, FVal.ofInt (-9007199254740992), FVal.ofInt 1] := by decide +kernel

/-- SUM of cells none of which converts to a float is NULL (SUM over an empty frame is NULL) -/
theorem sum_of_nothing (cells : List Profile) (h : ∀ p ∈ cells, p.flt? = none) : aggSum cells = .null ∧ aggAvg cells = .null := by
  have : floatList cells = [] := List.filterMap_eq_nil_iff.mpr h
  simp [aggSum, aggAvg, this]

/-- DISTINCT for aggregates: one cell per comparison key, first appearance order, a subsequence of the cells -/
theorem distinct_profiles_spec (cells : List Profile) :
    (distinctProfiles cells).map norm = firstOcc (cells.map norm) ∧ (distinctProfiles cells).Sublist cells := by
  have hsub := keepFirst_sublist (cells.map fun p => (norm p, p))
  have hkey : ∀ e ∈ keepFirst (cells.map fun p => (norm p, p)), e.1 = norm e.2 := by
    intro e he
    obtain ⟨v, _, rfl⟩ := List.mem_map.mp (hsub.subset he)
    rfl
  constructor
  · unfold distinctProfiles
    rw [List.map_map]
    have : (keepFirst (cells.map fun p => (norm p, p))).map (norm ∘ Prod.snd)
        = (keepFirst (cells.map fun p => (norm p, p))).map Prod.fst :=
      List.map_congr_left (fun e he => (hkey e he).symm)
    rw [this, keepFirst_keys]; simp [List.map_map, Function.comp_def]
  · unfold distinctProfiles
    have := hsub.map Prod.snd
    simpa [List.map_map, Function.comp_def] using this

/-- MIN / MAX: NULL iff every cell is NULL, otherwise one of the non-NULL cells -/
theorem extreme_mem (better : Profile → Profile → Tern) : ∀ (cells : List Profile) (acc : Option Profile),
    aggExtreme better cells acc = acc ∨ ∃ p ∈ cells, p.isNull = false ∧ aggExtreme better cells acc = some p
  | [], acc => Or.inl rfl
  | p :: ps, acc => by
    unfold aggExtreme
    by_cases hn : p.isNull = true
    · simp only [hn, if_true]
      rcases extreme_mem better ps acc with h | ⟨q, hq, h1, h2⟩
      · exact Or.inl h
      · exact Or.inr ⟨q, List.mem_cons_of_mem _ hq, h1, h2⟩
    · have hn' : p.isNull = false := by simpa using hn
      simp only [hn', Bool.false_eq_true, if_false]
      cases acc with
      | none =>
        rcases extreme_mem better ps (some p) with h | ⟨q, hq, h1, h2⟩
        · exact Or.inr ⟨p, by simp, hn', h⟩
        · exact Or.inr ⟨q, List.mem_cons_of_mem _ hq, h1, h2⟩
      | some r =>
        simp only
        split
        · rcases extreme_mem better ps (some p) with h | ⟨q, hq, h1, h2⟩
          · exact Or.inr ⟨p, by simp, hn', h⟩
          · exact Or.inr ⟨q, List.mem_cons_of_mem _ hq, h1, h2⟩
        · rcases extreme_mem better ps (some r) with h | ⟨q, hq, h1, h2⟩
          · exact Or.inl h
          · exact Or.inr ⟨q, List.mem_cons_of_mem _ hq, h1, h2⟩

theorem min_max_spec (cells : List Profile) :
    (aggMin cells = .null ∨ ∃ p ∈ cells, p.isNull = false ∧ aggMin cells = p.raw) ∧
    (aggMax cells = .null ∨ ∃ p ∈ cells, p.isNull = false ∧ aggMax cells = p.raw) := by
  constructor
  · rcases extreme_mem opLt cells none with h | ⟨q, hq, h1, h2⟩
    · left; simp [aggMin, h]
    · right; exact ⟨q, hq, h1, by simp [aggMin, h2]⟩
  · rcases extreme_mem opGt cells none with h | ⟨q, hq, h1, h2⟩
    · left; simp [aggMax, h]
    · right; exact ⟨q, hq, h1, by simp [aggMax, h2]⟩

/-! ## 4. perseCumulativeGroups -/

theorem openLoop_runs (eqv : Nat → Nat → Bool) : ∀ (rest : List Nat) (h : Nat) (run : List Nat),
    (∀ y ∈ run, eqv y h = true) →
    (openLoop eqv rest h (h :: run)).flatten = h :: run ++ rest ∧
    RunsOK eqv (openLoop eqv rest h (h :: run)) ∧
    (openLoop eqv rest h (h :: run)).head?.bind List.head? = some h := by
  intro rest
  induction rest with
  | nil => intro h run hrun; exact ⟨by simp [openLoop], ⟨h, run, rfl, hrun⟩, by simp [openLoop]⟩
  | cons x rest ih =>
    intro h run hrun
    simp only [openLoop]
    by_cases hx : eqv x h = true
    · simp only [hx, if_true]
      have := ih h (run ++ [x]) (fun y hy => by
        rcases List.mem_append.mp hy with hy | hy
        · exact hrun y hy
        · simp at hy; subst hy; exact hx)
      simpa using this
    · have hx' : eqv x h = false := by simpa using hx
      simp only [hx', Bool.false_eq_true, if_false]
      obtain ⟨h1, h2, h3⟩ := ih x [] (by simp)
      refine ⟨by simp [h1], ?_, by simp⟩
      cases hol : openLoop eqv rest x [x] with
      | nil => rw [hol] at h3; simp at h3
      | cons g' gs =>
        rw [hol] at h2 h3
        refine ⟨⟨h, run, rfl, hrun⟩, ⟨h, x, rfl, ?_, hx'⟩, h2⟩
        simpa using h3

/-- perseCumulativeGroups cuts the partition into MAXIMAL RUNS of records whose sort keys are EquivalentTo the
    first record of the run: the groups concatenate to the partition (nothing lost, order kept), every group
    is a head followed by records equivalent to it, and the head of every next group is not equivalent to
    the head before it -/
theorem cum_groups_spec (eqv : Nat → Nat → Bool) (p : List Nat) :
    (cumGroups eqv p none []).flatten = p ∧ RunsOK eqv (cumGroups eqv p none []) := by
  cases p with
  | nil => exact ⟨rfl, trivial⟩
  | cons x rest =>
    rw [cumGroups_eq]
    obtain ⟨h1, h2, _⟩ := openLoop_runs eqv rest x [] (by simp)
    exact ⟨by simpa using h1, h2⟩

theorem openLoop_separate (eqv : Nat → Nat → Bool) {p : List Nat} (P : Peers eqv p) :
    ∀ (rest pre0 : List Nat) (h : Nat) (run : List Nat),
    p = pre0 ++ h :: run ++ rest → (∀ y ∈ run, eqv y h = true) →
    SeparateOK eqv (openLoop eqv rest h (h :: run)) := by
  intro rest
  induction rest with
  | nil => intro pre0 h run _ _; simp [openLoop, SeparateOK]
  | cons x rest ih =>
    intro pre0 h run hp hrun
    simp only [openLoop]
    by_cases hx : eqv x h = true
    · simp only [hx, if_true]
      have := ih pre0 h (run ++ [x]) (by simp [hp]) (fun y hy => by
        rcases List.mem_append.mp hy with hy | hy
        · exact hrun y hy
        · simp at hy; subst hy; exact hx)
      simpa using this
    · have hx' : eqv x h = false := by simpa using hx
      simp only [hx', Bool.false_eq_true, if_false, SeparateOK]
      refine ⟨?_, ?_⟩
      · intro y hy j hj
        have hfl := (openLoop_runs eqv rest x [] (by simp)).1
        rw [hfl] at hj
        exact after_break eqv P hp hrun hx' j (by simpa using hj) y hy
      · have := ih (pre0 ++ h :: run) x [] (by simp [hp]) (by simp)
        simpa using this

/-- on a partition whose peer relation is symmetric, transitive and contiguous (`Peers`: every sorted partition)
    the groups of perseCumulativeGroups are exactly the peer classes: records of different groups are never peers
    (and, `group_members_are_peers`, records of one group always are) -/
theorem cum_groups_separate (eqv : Nat → Nat → Bool) (p : List Nat) (P : Peers eqv p) :
    SeparateOK eqv (cumGroups eqv p none []) := by
  cases p with
  | nil => trivial
  | cons x rest =>
    rw [cumGroups_eq]
    exact openLoop_separate eqv P rest [] x [] (by simp) (by simp)

/-- with a symmetric, transitive equivalence all records of a group are peers of one another -/
theorem group_members_are_peers (eqv : Nat → Nat → Bool) (p : List Nat) (P : Peers eqv p) (g : List Nat)
    (hg : GroupOK eqv g) : g.Pairwise (fun a b => eqv b a = true) := by
  obtain ⟨h, run, rfl, hrun⟩ := hg
  exact group_pairwise eqv P h run hrun

/-! ## the skeleton of Analyze, tied to the source

  The list code of Analyze / evalAnalyticFunction / SortValues.Serialize is not arithmetic; the translator emits
  it statement by statement and the theorems below pin it to the text `analyzeFull` was written from: the order of
  steps (PARTITION BY columns evaluated → the view ordered by the clause's ORDER BY → keys → partitions in order
  of first appearance → Execute / frames per partition → values appended by record index → sort state discarded),
  the cached-sort-value indexing of the key computation, the per-record evaluation of user-defined aggregate
  arguments, and which serialiser writes the key of which sort value type (integers and booleans by their VALUE). -/

theorem gen_analyze_reviewed :
    Gen.An.analyzeStatements = ["var anfn AnalyticFunction", "var aggfn AggregateFunction", "var udfn *UserDefinedFunction", "var err error", "fieldIdentifier := FormatFieldIdentifier(fn)", "fieldLabel := FormatFieldLabel(fn)", "uname := strings.ToUpper(fn.Name)", "if f, ok := AnalyticFunctions[uname]; ok {anfn = f} else if f, ok := AggregateFunctions[uname]; ok {aggfn = f} else {if udfn, err = scope.GetFunction(fn, uname); err != nil || !udfn.IsAggregate {return NewFunctionNotExistError(fn, fn.Name)}}", "if anfn != nil {if err := anfn.CheckArgsLen(fn); err != nil {return err}} else if aggfn != nil {if len(fn.Args) != 1 {return NewFunctionArgumentLengthError(fn, fn.Name, []int{1})} if _, ok := fn.Args[0].(parser.AllColumns); ok {args := make([]parser.QueryExpression, len(fn.Args)) copy(args, fn.Args) args[0] = parser.NewIntegerValue(1) fn.Args = args}} else {if err := udfn.CheckArgsLen(fn, fn.Name, len(fn.Args)-1); err != nil {return err}}", "if view.sortValuesInEachCell == nil {view.sortValuesInEachCell = make([][]*SortValue, view.RecordLen())}", "partitionKeys := make([]string, view.RecordLen())", "if err = NewGoroutineTaskManager(view.RecordLen(), -1, scope.Tx.Flags.CPU).Run(ctx, func(index int) error {keyBuf := GetComparisonKeysBuf() if view.sortValuesInEachCell[index] == nil {view.sortValuesInEachCell[index] = make([]*SortValue, cap(view.RecordSet[index]))} if partitionIndices != nil {sortValues := make(SortValues, len(partitionIndices)) for j, idx := range partitionIndices {if idx < len(view.sortValuesInEachCell[index]) && view.sortValuesInEachCell[index][idx] != nil {sortValues[j] = view.sortValuesInEachCell[index][idx]} else {sortValues[j] = NewSortValue(view.RecordSet[index][idx][0], scope.Tx.Flags) if idx < len(view.sortValuesInEachCell[index]) {view.sortValuesInEachCell[index][idx] = sortValues[j]}}} sortValues.Serialize(keyBuf)} partitionKeys[index] = keyBuf.String() PutComparisonkeysBuf(keyBuf) return nil}); err != nil {return err}", "partitions := make(Partitions, 20)", "partitionMapKeys := make([]string, 0, 20)", "for i, key := range partitionKeys {if _, ok := partitions[key]; ok {partitions[key] = append(partitions[key], i)} else {partitions[key] = make(Partition, 1, 40) partitions[key][0] = i partitionMapKeys = append(partitionMapKeys, key)}}", "calcCnt := view.RecordLen() * len(partitionMapKeys)", "minReq := -1", "if MinimumRequiredPerCPUCore < calcCnt {minReq = int(math.Ceil(float64(len(partitionMapKeys)) / (math.Floor(float64(calcCnt) / MinimumRequiredPerCPUCore))))}", "gm := NewGoroutineTaskManager(len(partitionMapKeys), minReq, scope.Tx.Flags.CPU)", "var analyzeFn = func(thIdx int) {defer func() {if panicReport := recover(); panicReport != nil {gm.SetError(NewFatalError(panicReport))} if 1 < gm.Number {gm.Done()}}() start, end := gm.RecordRange(thIdx) seqScope := scope.CreateScopeForSequentialEvaluation(view) AnalyzeLoop: for i := start; i < end; i++ {if gm.HasError() {break AnalyzeLoop} if i&15 == 0 && ctx.Err() != nil {break AnalyzeLoop} if anfn != nil {list, e := anfn.Execute(ctx, seqScope, partitions[partitionMapKeys[i]], fn) if e != nil {gm.SetError(e) break AnalyzeLoop} for idx, val := range list {view.RecordSet[idx] = append(view.RecordSet[idx], NewCell(val))}} else {partition := partitions[partitionMapKeys[i]] frameSet := WindowFrameSet(partition, fn.AnalyticClause) valueCache := make(map[int]value.Primary, len(partition)) udfnArgsExprs := fn.Args[1:] udfnArgs := make([]value.Primary, len(udfnArgsExprs)) for _, frame := range frameSet {values, e := windowValues(ctx, seqScope, frame, partition, fn, valueCache) if e != nil {gm.SetError(e) break AnalyzeLoop} if aggfn != nil {val := aggfn(values, scope.Tx.Flags) for _, idx := range frame.Records {view.RecordSet[idx] = append(view.RecordSet[idx], NewCell(val))}} else {for _, idx := range frame.Records {seqScope.Records[0].recordIndex = idx for i, v := range udfnArgsExprs {arg, e := Evaluate(ctx, seqScope, v) if e != nil {gm.SetError(e) break AnalyzeLoop} udfnArgs[i] = arg} val, e := udfn.ExecuteAggregate(ctx, seqScope, values, udfnArgs) if e != nil {gm.SetError(e) break AnalyzeLoop} view.RecordSet[idx] = append(view.RecordSet[idx], NewCell(val))}}}}}}", "if 1 < gm.Number {for i := 0; i < gm.Number; i++ {gm.Add() go analyzeFn(i)} gm.Wait()} else {analyzeFn(0)}", "if gm.HasError() {return gm.Err()}", "if ctx.Err() != nil {return ConvertContextError(ctx.Err())}", "view.Header, _ = AddHeaderField(view.Header, fieldIdentifier, fieldLabel, \"\")", "return nil"] := rfl

theorem gen_evalAnalyticFunction_reviewed :
    Gen.An.evalAnalyticFunctionStatements = ["if _, ok := view.Header.ContainsObject(expr); ok {return nil}", "name := strings.ToUpper(expr.Name)", "if _, ok := AggregateFunctions[name]; !ok {if _, ok := AnalyticFunctions[name]; !ok {if udfn, err := scope.GetFunction(expr, expr.Name); err != nil || !udfn.IsAggregate {return NewFunctionNotExistError(expr, expr.Name)}}}", "var partitionIndices []int", "if expr.AnalyticClause.PartitionClause != nil {partitionExprs := expr.AnalyticClause.PartitionValues() partitionIndices = make([]int, len(partitionExprs)) for i, pexpr := range partitionExprs {idx, err := view.evalColumn(ctx, scope, pexpr, \"\") if err != nil {return err} partitionIndices[i] = idx}}", "if view.sortValuesInEachCell == nil {view.sortValuesInEachCell = make([][]*SortValue, view.RecordLen())}", "if expr.AnalyticClause.OrderByClause != nil {err := view.OrderBy(ctx, scope, expr.AnalyticClause.OrderByClause.(parser.OrderByClause)) if err != nil {return err}}", "err := Analyze(ctx, scope, view, expr, partitionIndices)", "view.sortValuesInEachRecord = nil", "view.sortDirections = nil", "view.sortNullPositions = nil", "return err"] := rfl

theorem gen_serialize_reviewed :
    Gen.An.serializePrologue = ["if 0 < i {buf.WriteByte(58)}", "if val.SerializedKey != nil {buf.Write(val.SerializedKey.Bytes()) continue}"] ∧
    Gen.An.serializeCases = [("NullType", "serializeNull(buf)"), ("IntegerType, BooleanType", "serializeInteger(buf, value.Int64ToStr(val.Integer))"), ("FloatType", "serializeFloat(buf, floatKeyString(val.Float))"), ("DatetimeType", "serializeDatetimeFromUnixNano(buf, val.Datetime)"), ("StringType", "serializeString(buf, val.String)")] := ⟨rfl, rfl⟩

/-! ## the ordering inside OVER (…) is the source's comparison

  `sortView` orders the view by `rowsLess`, `peersOf` decides peers by `rowsEquiv`.  Both are the translations
  of `SortValue.Less` / `SortValues.Less` / `SortValue.EquivalentTo` that /verif/extract/sortfacts regenerates
  from lib/query/sort_value.go before this file is built (Csvq/Gen/SortFacts.lean) — in particular two integers
  are compared EXACTLY (also above 2^53), a number meets a string through the number's text. -/

/-- `SortValue.Less` as it stands in the source is the comparison `sortView` orders the view by -/
theorem analytic_order_less_is_source (a b : SortVal) (ha : a.WF) (hb : b.WF) :
    Gen.sortLess a.toSV b.toSV = a.less b := by
  cases a <;> cases b <;>
    simp only [Gen.sortLess, SortVal.toSV, SortVal.less, fltLess, strLess, SortVal.WF, intLt] at * <;>
    (try simp_all) <;> (try (split <;> simp_all)) <;> (try rfl) <;> (try (split <;> rfl)) <;>
    (try (split <;> (try rfl) <;> split <;> (try rfl) <;> split <;> rfl))

/-- one round of `SortValues.Less` (direction, NULLS position, next item) is one unfolding of `rowsLess` -/
theorem analytic_order_step_is_source (it : OrdItem) (a b : SortVal) (its : List OrdItem) (as bs : List SortVal) :
    rowsLess (it :: its) (a :: as) (b :: bs) =
      match Gen.rowsLessStep (a.less b) a.isNull b.isNull (it.dir == .asc) (it.np == .first) with
      | some r => r
      | none => rowsLess its as bs := by
  obtain ⟨d, n⟩ := it
  simp only [rowsLess, Gen.rowsLessStep]
  cases a.less b <;> cases d <;> cases n <;> cases a.isNull <;> cases b.isNull <;> simp

/-- `SortValue.EquivalentTo` as it stands in the source is the peer relation of RANK & co. (`peersOf`) -/
theorem analytic_peers_equiv_is_source (a b : SortVal) : Gen.sortEquiv a.toSV b.toSV = a.equiv b := by
  cases a <;> cases b <;> simp only [Gen.sortEquiv, SortVal.toSV, SortVal.equiv] <;> (try simp) <;>
    (try (rename_i x y; cases x <;> cases y <;> simp)) <;> (try (rename_i x _ _ _; cases x <;> simp <;> exact BEq.comm))

/-- two integers are ordered by their exact values, whatever their float64 images: 2^53 sorts before 2^53 + 1 -/
theorem analytic_order_big_integers (i j : Int) (f g : FVal) (s t : Bytes) :
    (SortVal.int i f s).less (SortVal.int j g t) = (if i = j then .U else ofB (i < j)) := rfl

/-- NewSortValue (what the sort value of a cell holds: for a number also its upper-cased trimmed text, which
    `Less` uses when the number meets a string) is the reviewed text `toSortVal` was written from -/
theorem gen_newSortValue_reviewed :
    Gen.An.newSortValueStatements = ["sortValue := &SortValue{}", "if value.IsNull(val) {sortValue.Type = NullType} else if i := value.ToIntegerStrictly(val); !value.IsNull(i) {s := value.ToString(val) sortValue.Type = IntegerType sortValue.Integer = i.(*value.Integer).Raw() sortValue.Float = float64(sortValue.Integer) sortValue.String = strings.ToUpper(option.TrimSpace(s.(*value.String).Raw())) value.Discard(i) value.Discard(s)} else if f := value.ToFloat(val); !value.IsNull(f) {s := value.ToString(val) sortValue.Type = FloatType sortValue.Float = f.(*value.Float).Raw() sortValue.String = strings.ToUpper(option.TrimSpace(s.(*value.String).Raw())) value.Discard(f) value.Discard(s)} else if dt := value.ToDatetime(val, flags.DatetimeFormat, flags.GetTimeLocation()); !value.IsNull(dt) {t := dt.(*value.Datetime).Raw() sortValue.Type = DatetimeType sortValue.Datetime = t.UnixNano() value.Discard(dt)} else if b := value.ToBoolean(val); !value.IsNull(b) {sortValue.Type = BooleanType if b.(*value.Boolean).Raw() {sortValue.Integer = 1} else {sortValue.Integer = 0}} else if s, ok := val.(*value.String); ok {sortValue.Type = StringType sortValue.String = strings.ToUpper(option.TrimSpace(s.Raw()))} else {sortValue.Type = NullType}", "if flags.StrictEqual {sortValue.SerializedKey = &bytes.Buffer{} SerializeIdenticalKey(sortValue.SerializedKey, val)}", "return sortValue"] := rfl

/-! ## non-vacuity -/

example : distinguish (fun v => v) [.int 1, .null, .int 1, .int 2, .null] = [.int 1, .null, .int 2] := by decide
example : listAgg (fun v => match v with | .str s => some s | _ => none) [44] [.str [97], .null, .str [98]] = some [97, 44, 98] := by decide
example : cumGroups (fun a b => a / 2 == b / 2) [0, 1, 2, 4, 5] none [] = [[0, 1], [2], [4, 5]] := by decide
example : aggCount [profileOf (.int 1), profileOf .null, profileOf (.int 3)] = .int 2 := by decide

end Csvq.C17
