/-
  C09 — NewHandlerForCreate (CREATE TABLE) under the model of the waiting side: it does NOT wait.  One attempt to
  take the `.lock`, then the table's file is created with O_EXCL.  What it does on a name race — two processes
  creating the same table — for every environment.  Property theorems only; `Csvq.Gen.Retry.newHandlerForCreate`
  is REGENERATED from lib/file/handler.go (extract/fsproto -retry), the attempt is the regenerated TryCreateLockFile.
-/
import Csvq.Lemmas.Retry
import Csvq.Gen.RetryLoop
namespace Csvq.C09
open Csvq.Retry Csvq.Gen.Retry

def createGood (atCheck atCreate : Bool) (r : Bool × CSt) : Bool :=
  !r.2.removedForeign &&
  (if r.1 then r.2.exist == .none && r.2.held == .none && !r.2.madeData
   else r.2.exist == .only .lock && r.2.held == .only .lock && r.2.created && r.2.madeData && !atCheck && !atCreate)

theorem gen_new_handler_for_create_good :
    ([false, true].all fun a => [false, true].all fun b => [false, true].all fun c =>
      (tryPaths (tryOf .lock) .none []).all fun o =>
        createGood a b (runCreate a b c o newHandlerForCreate .init none)) = true := by decide

theorem mem_bools (b : Bool) : b ∈ [false, true] := by cases b <;> simp

/-- **CREATE TABLE on a name race.**  Whatever other processes do (`env`: their control files at every instant of the
    one attempt; `atCheck` / `atCreate`: whether somebody else's table file is there at the existence check / at the
    create; `ioFail`):
    * the call never removes a table file that somebody else created;
    * if it fails it leaves no control file, a handler that holds nothing, and no table file of its own;
    * if it succeeds it holds the recorded `.lock`, the table's file is the one IT created (nobody else's was there),
      and the handler is marked `created` — so only then will a rollback remove the file. -/
theorem new_handler_for_create_race (env : Env) (t : Nat) (atCheck atCreate ioFail : Bool) :
    let o := runTry env (tryOf .lock) t .none []
    let r := runCreate atCheck atCreate ioFail (o.res, o.mine) newHandlerForCreate .init none
    r.2.removedForeign = false ∧
      (r.1 = true → r.2.exist = .none ∧ r.2.held = .none ∧ r.2.madeData = false) ∧
      (r.1 = false → r.2.exist = .only .lock ∧ r.2.held = .only .lock ∧ r.2.created = true ∧ r.2.madeData = true ∧
        atCheck = false ∧ atCreate = false) := by
  have h := gen_new_handler_for_create_good
  have h1 := List.all_eq_true.mp h atCheck (mem_bools _)
  have h2 := List.all_eq_true.mp h1 atCreate (mem_bools _)
  have h3 := List.all_eq_true.mp h2 ioFail (mem_bools _)
  have h4 := List.all_eq_true.mp h3 _ (runTry_mem env (tryOf .lock) t .none [])
  simp only [createGood, Bool.and_eq_true, Bool.not_eq_true'] at h4
  refine ⟨h4.1, ?_, ?_⟩
  · intro e; simp only [e, if_true, Bool.and_eq_true, beq_iff_eq, Bool.not_eq_true'] at h4; exact ⟨h4.2.1.1, h4.2.1.2, h4.2.2⟩
  · intro e
    simp only [e, Bool.false_eq_true, if_false, Bool.and_eq_true, beq_iff_eq, Bool.not_eq_true'] at h4
    exact ⟨h4.2.1.1.1.1.1, h4.2.1.1.1.1.2, h4.2.1.1.1.2, h4.2.1.1.2, h4.2.1.2, h4.2.2⟩

/-- **It does not wait**: when somebody else's `.lock` (or `.rlock`) file is there at the instant of its one attempt
    the call fails at once — there is no second attempt, no `--wait-timeout` -/
theorem new_handler_for_create_does_not_wait (env : Env) (t : Nat) (atCheck atCreate ioFail : Bool)
    (hb : (env t).lock = true ∨ (env t).rlock = true) :
    (runCreate atCheck atCreate ioFail ((runTry env (tryOf .lock) t .none []).res, (runTry env (tryOf .lock) t .none []).mine)
      newHandlerForCreate .init none).1 = true := by
  have hr : (runTry env (tryOf .lock) t .none []).res = .soft := by
    rcases hb with h | h <;> simp [tryOf, tryCreateLockFile, runTry, h]
  have hg : Mine.none.get .lock = false := rfl
  cases atCheck <;> simp [runCreate, newHandlerForCreate, hr, CSt.init, hg]

/-! non-vacuity: the winner; the loser that comes between the winner's commit and its own create; and the order
    matters — a handler marked `created` BEFORE the file exists removes the winner's table when its own create fails -/

example : runCreate false false false (.ok .lock, .only .lock) newHandlerForCreate .init none =
    (false, ⟨.only .lock, .only .lock, true, true, false⟩) := by decide
example : runCreate false true false (.ok .lock, .only .lock) newHandlerForCreate .init none =
    (true, ⟨.none, .none, false, false, false⟩) := by decide
example : (runCreate false true false (.ok .lock, .only .lock)
    [.existsReturn, .heldGuard .lock, .tryDirect .lock true, .recordDirect .lock, .markCreated, .createData true, .returnOk]
    .init none).2.removedForeign = true := by decide

end Csvq.C09
