/-
  C18 — GRAMMAR LAYER, sub-queries (Csvq/Model/SubQuery.lean): a parenthesised query as a VALUE (anywhere an operand of
  the operator fragment may stand: select list, WHERE, ON, GROUP BY, HAVING, ORDER BY, arguments, IN lists, BETWEEN
  bounds, operands of every operator) and as a TABLE of FROM (with or without alias, inside join chains), nested to ANY
  finite depth, also inside the operands of set operators and the bodies of inline tables.  Property theorems only.

  The device: the parsers and round-trip theorems of the levels below are used AS THEY ARE (they hold for every atom
  code); a query with sub-queries is a skeleton whose atoms `16 i + 2` stand for its sub-queries, `printN` writes
  `( text )` for them, `parseN (n + 1)` folds them back with `parseN n` and hands the skeleton to `Query.parseWhole`.
  `nested_query_print_parse` is proved for level n by induction on n with `query_print_parse` as the step.

  Hypothesis `WFN`: the skeleton is well formed in the sense of C18Query (`WFQ`), the sub-queries are, and `good` holds of
  the skeleton's tokens — a decidable condition on the concrete token list: sub-query atoms numbered in text order, none
  behind an atom / as a call name / qualifier, each text starting with SELECT or WITH, every other `( SELECT` of the
  skeleton behind a set operator / AS / at the start, parentheses balanced.  That `good` holds for EVERY placement the
  grammar allows is NOT proved (it is evaluated on the examples below and on every case of stream op c18.nq).
  `x [NOT] IN ( sub-query )` is in the fragment too (atoms `8 i + 6`, standing for the text between IN's parentheses), and
  `EXISTS ( sub-query )` (atoms `16 i + 10`, standing for the keyword, the parentheses and the text).
  Still by correspondence only: ANY / ALL, a sub-query whose text starts with `(`, parenthesised tables, LATERAL,
  CASE, FETCH, INTO.
-/
import Csvq.Lemmas.SubQuery
import Csvq.Lemmas.AstPrint
namespace Csvq.C18
open Csvq.OpExpr Csvq.Clause Csvq.Query Csvq.SubQuery

/-- level `n` of the parser reads back the text of every well-formed query whose sub-queries nest at most `n` deep, in
    front of every rest at which a query may end (end of text or a closing parenthesis) — for EVERY expression table and
    every assignment of levels to the set operators -/
theorem nested_query_print_parse {α : Type} [DecidableEq α] (tbl : Table α) (lv : SetOp → Nat) (n : Nat) (q : NQ α)
    (hd : depthN q ≤ n) (hw : WFN tbl lv q) (rest : List (Tok α)) (hr : Closing rest) :
    parseN tbl lv n (printN tbl q ++ rest) = some (q, rest) :=
  nqP tbl lv n q hd hw rest hr

/-- the union over all levels: every well-formed query with sub-queries, of ANY finite nesting depth, is read back from
    its own text by the level that is its depth, and by every higher level -/
theorem query_with_subqueries_print_parse {α : Type} [DecidableEq α] (tbl : Table α) (lv : SetOp → Nat) (q : NQ α)
    (hw : WFN tbl lv q) : ∀ n, depthN q ≤ n → parseNWhole tbl lv n (printN tbl q) = some q := by
  intro n hn
  have := nqP tbl lv n q hn hw [] (by simp [Closing])
  simp only [List.append_nil] at this
  simp [parseNWhole, this]

/-- print ∘ parse ∘ print = print, at every level that reaches the depth -/
theorem nested_query_print_idempotent {α : Type} [DecidableEq α] (tbl : Table α) (lv : SetOp → Nat) (q : NQ α)
    (hw : WFN tbl lv q) : (parseNWhole tbl lv (depthN q) (printN tbl q)).map (printN tbl) = some (printN tbl q) := by
  rw [query_with_subqueries_print_parse tbl lv q hw _ (Nat.le_refl _)]; rfl

/-- the folding pass alone, for ANY parser `P` of the level below that reads the sub-query texts back: it returns the
    skeleton tokens, the sub-queries in text order and the rest -/
theorem fold_inverts_expand {α β : Type} [DecidableEq α] (inn : α) (P : List (Tok α) → Option (β × List (Tok α)))
    (ts : List (Tok α)) (qps : List (β × List (Tok α))) (rest : List (Tok α)) (hr : Closing rest)
    (hg : good inn none false 0 0 ts (qps.map (·.2)) = true)
    (hP : ∀ qp ∈ qps, ∀ r, P (qp.2 ++ .rpar :: r) = some (qp.1, .rpar :: r)) :
    fold inn P ((expand ts (qps.map (·.2)) ++ rest).length + 1) none 0 0 (expand ts (qps.map (·.2)) ++ rest) =
      some (ts, qps.map (·.1), rest) :=
  fold_expand inn P rest hr _ ts (Nat.le_refl _) none 0 0 qps _ hg hP (Nat.lt_succ_self _)

/-- a query without sub-queries is a query of level 1: `printN` is `printQuery`, and level 1 reads exactly it -/
theorem level_one_is_query_level {α : Type} [DecidableEq α] (tbl : Table α) (skel : Query α) :
    depthN (NQ.mk skel .nil) = 1 ∧ (∀ ts : List (Tok α), expand ts [] = ts) ∧
    (printN tbl (NQ.mk skel .nil) = printQuery tbl skel) := by
  have hex : ∀ ts : List (Tok α), expand ts [] = ts := by
    intro ts
    induction ts with
    | nil => rfl
    | cons t ts ih => cases t <;> simp [expand, ih]
  exact ⟨by simp [depthN, depthNs], hex, by simp [printN, printNs, hex]⟩

open Csvq.AstPrint Csvq.Gen.AstPrint in
/-- the printer of a sub-query as regenerated from ast.go — Subquery.String() is putParentheses(Query.String()), and
    Table.String() prints [LATERAL] Object [AS] [Alias] with the object's own String() — against the model's equations:
    the atom standing for the sub-query becomes `(`, the text of the query, `)`; every other token stays -/
theorem gen_subquery_printer_matches_model :
    node_Subquery.parts = [⟨"", "return", "putParentheses(e.Query.String())", ["Query"], []⟩] ∧
    emitted node_Table = [("!e.Lateral.IsEmpty()", "e.Lateral.String()"), ("", "e.Object.String()"),
      ("!e.As.IsEmpty()", "e.As.String()"), ("e.Alias != nil", "e.Alias.String()")] ∧
    emitted node_In = [("", "e.LHS.String()"), ("e.IsNegated()", "e.Negation.String()"), ("", "keyword(IN)"), ("", "e.Values.String()")] ∧
    node_RowValue.parts = [⟨"", "return", "e.Value.String()", ["Value"], []⟩] ∧
    (∀ (i : Nat) (ts p : List (Tok Csvq.Gen.Precedence.Term)) ps,
      expand (.atom (subCode i) :: ts) (p :: ps) = .lpar :: (p ++ .rpar :: expand ts ps)) ∧
    emitted node_Exists = [("", "keyword(EXISTS)"), ("", "e.Query.String()")] ∧
    (∀ (i : Nat) (ts p : List (Tok Csvq.Gen.Precedence.Term)) ps,
      expand (.atom (exCode i) :: ts) (p :: ps) = .lit existsLit :: .lpar :: (p ++ .rpar :: expand ts ps)) ∧
    -- `x IN ( atom )` with the atom of an IN sub-query: IN's parentheses are those of Subquery.String()
    (∀ (i : Nat) (ts p : List (Tok Csvq.Gen.Precedence.Term)) ps,
      expand (.lpar :: .atom (inCode i) :: .rpar :: ts) (p :: ps) = .lpar :: (p ++ .rpar :: expand ts ps)) ∧
    (∀ (tbl : Table Csvq.Gen.Precedence.Term) skel q r, printN tbl (.mk skel (.cons q r)) =
      expand (printQuery tbl skel) (printN tbl q :: printNs tbl r)) := by
  refine ⟨by decide, by decide, by decide, by decide, ?_, by decide, ?_, ?_, ?_⟩
  · intro i ts p ps
    have : isSubCode (subCode i) = true := by simp [isSubCode, subCode]
    simp [expand, this]
  · intro i ts p ps
    have h1 : isSubCode (exCode i) = false := decide_eq_false (by show ¬ (16 * i + 10) % 16 = 2; omega)
    have h2 : isExCode (exCode i) = true := by simp [isExCode, exCode]
    simp [expand, h1, h2]
  · intro i ts p ps
    have h1 : isSubCode (inCode i) = false := decide_eq_false (by show ¬ (8 * i + 6) % 16 = 2; omega)
    have h0 : isExCode (inCode i) = false := decide_eq_false (by show ¬ (8 * i + 6) % 16 = 10; omega)
    have h2 : isInCode (inCode i) = true := by simp [isInCode, inCode]
    simp [expand, h1, h0, h2]
  · intros; simp [printN, printNs]

/-! ## non-vacuity -/

section examples
open Csvq.Gen.Precedence

private def eq_ : Tok Term := .sym .COMPARISON_OP 0

/-- SELECT <item> [FROM <table> [alias]] [WHERE <where>] -/
private def selW (item : Expr Term) (tab : Option (Nat × Option Nat)) (wh : Option (Expr Term)) : Select Term :=
  ⟨false, [.expr item none], (match tab with | some (t, a) => [⟨⟨t, false, a⟩, []⟩] | none => []), wh, [], none, [], none, none⟩
private def qOf (s : Select Term) : Query Term := .mk .nil (.ent s) emptyTail false

-- level 1: SELECT 1
private def q1 : NQ Term := .mk (qOf (selW (.atom 1) none none)) .nil
-- level 2: SELECT (SELECT 1)
private def q2 : NQ Term := .mk (qOf (selW (.atom (subCode 0)) none none)) (.cons q1 .nil)
-- level 3: SELECT (q2) + 3 FROM (q1) t WHERE x4 = (q2)
private def q3 : NQ Term :=
  .mk (qOf (selW (.bin (.atom (subCode 0)) .c_plus 0 (.atom 3)) (some (subCode 1, some 20)) (some (.bin (.atom 4) .COMPARISON_OP 0 (.atom (subCode 2))))))
    (.cons q2 (.cons q1 (.cons q2 .nil)))
-- level 4: three levels of sub-queries below the top, in the select list, in FROM and in WHERE
private def q4 : NQ Term :=
  .mk (qOf (selW (.atom (subCode 0)) (some (subCode 1, none)) (some (.bin (.atom (subCode 2)) .COMPARISON_OP 0 (.atom 5)))))
    (.cons q3 (.cons q3 (.cons q3 .nil)))

example : depthN q4 = 4 := by decide
-- the text of q3: SELECT ( SELECT ( SELECT 1 ) ) + 3 FROM ( SELECT 1 ) x20 WHERE x4 = ( SELECT ( SELECT 1 ) )
example : printN genTable q3 =
    [.kw .select, .lpar, .kw .select, .lpar, .kw .select, .atom 1, .rpar, .rpar, .sym .c_plus 0, .atom 3,
     .kw .from, .lpar, .kw .select, .atom 1, .rpar, .atom 20,
     .kw .where, .atom 4, eq_, .lpar, .kw .select, .lpar, .kw .select, .atom 1, .rpar, .rpar] := by decide
-- the parser of level 4 reads q4 back from its text; level 3 does not reach that deep
example : parseNWhole genTable genLv 4 (printN genTable q4) = some q4 := by decide
example : parseNWhole genTable genLv 3 (printN genTable q4) = none := by decide
example : parseNWhole genTable genLv 7 (printN genTable q4) = some q4 := by decide
-- the decidable part of the hypothesis of the theorems holds for q4 and everything below it
example : good genTable.inn none false 0 0 (printQuery genTable (match q4 with | .mk s _ => s)) (printNs genTable (match q4 with | .mk _ s => s)) = true ∧
    good genTable.inn none false 0 0 (printQuery genTable (match q3 with | .mk s _ => s)) (printNs genTable (match q3 with | .mk _ s => s)) = true := by decide
-- a sub-query inside the operand of a set operator and inside the body of an inline table: those parentheses stay with
-- the query level, the ones in value position are folded
example : parseNWhole genTable genLv 2
    [.kw .with, .atom 0, .kw .as, .lpar, .kw .select, .lpar, .kw .select, .atom 1, .rpar, .rpar,
     .kw .select, .atom 3, .kw .union, .lpar, .kw .select, .lpar, .kw .select, .atom 1, .rpar, .rpar] =
    some (.mk (.mk (.cons false 0 [] (qOf (selW (.atom (subCode 0)) none none)) .nil)
        (.op (.ent (selW (.atom 3) none none)) .union false (.sub (qOf (selW (.atom (subCode 1)) none none)))) emptyTail false)
      (.cons q1 (.cons q1 .nil))) := by decide
-- x [NOT] IN ( sub-query ): IN keeps its parentheses, the atom 8 i + 6 stands for the text between them; x IN ( ( sub-query ) )
-- is a list of one scalar sub-query (atom 8 i + 2) - two trees for two texts
private def qIn : NQ Term :=
  .mk (qOf (selW (.atom 1) (some (0, none)) (some (.bin (.inl (.atom 4) true (.cons (.atom (inCode 0)) .nil)) .AND 0
      (.inl (.atom 4) false (.cons (.atom (subCode 1)) (.cons (.atom 3) .nil)))))))
    (.cons q2 (.cons q1 .nil))
example : printN genTable qIn =
    [.kw .select, .atom 1, .kw .from, .atom 0, .kw .where, .atom 4, .sym .NOT 0, .sym .IN 0, .lpar, .kw .select, .lpar, .kw .select, .atom 1, .rpar, .rpar,
     .sym .AND 0, .atom 4, .sym .IN 0, .lpar, .lpar, .kw .select, .atom 1, .rpar, .kw .comma, .atom 3, .rpar] := by decide
example : parseNWhole genTable genLv 3 (printN genTable qIn) = some qIn := by decide
example : good genTable.inn none false 0 0 (printQuery genTable (match qIn with | .mk s _ => s)) (printNs genTable (match qIn with | .mk _ s => s)) = true := by decide
-- EXISTS ( sub-query ) is one value: NOT EXISTS (…) AND EXISTS (…) = 1
private def qEx : NQ Term :=
  .mk (qOf (selW (.atom 1) (some (0, none)) (some (.bin (.pre .NOT 0 (.atom (exCode 0))) .AND 0 (.bin (.atom (exCode 1)) .COMPARISON_OP 0 (.atom 5))))))
    (.cons q2 (.cons qIn .nil))
example : (printN genTable qEx).take 12 =
    [.kw .select, .atom 1, .kw .from, .atom 0, .kw .where, .sym .NOT 0, .lit existsLit, .lpar, .kw .select, .lpar, .kw .select, .atom 1] := by decide
example : parseNWhole genTable genLv 4 (printN genTable qEx) = some qEx ∧ depthN qEx = 4 := by decide
example : good genTable.inn none false 0 0 (printQuery genTable (match qEx with | .mk s _ => s)) (printNs genTable (match qEx with | .mk _ s => s)) = true := by decide
-- EXISTS needs its sub-query; a sub-query is not a name
example : parseNWhole genTable genLv 3 [.kw .select, .lit existsLit, .lpar, .atom 1, .rpar] = none ∧
    parseNWhole genTable genLv 3 [.kw .select, .lit existsLit] = none ∧
    parseNWhole genTable genLv 3 [.kw .select, .atom 1, .kw .as, .lit existsLit, .lpar, .kw .select, .atom 1, .rpar] = none ∧
    parseNWhole genTable genLv 3 [.kw .select, .atom 1, .kw .from, .atom 2, .lpar, .kw .select, .atom 1, .rpar] = none := by decide
-- not a query: an unclosed sub-query, a sub-query directly behind a value, an empty sub-query
example : parseNWhole genTable genLv 3 [.kw .select, .lpar, .kw .select, .atom 1] = none ∧
    parseNWhole genTable genLv 3 [.kw .select, .atom 1, .kw .from, .atom 2, .atom 4, .lpar, .kw .select, .atom 1, .rpar] = none ∧
    parseNWhole genTable genLv 3 [.kw .select, .lpar, .kw .select, .rpar] = none := by decide
-- the numbering hypothesis is needed: the same query with its sub-query atoms numbered 1, 0 prints the same text but is
-- another value of the representation, so it cannot be what parsing returns
example : good (α := Term) .IN none false 0 0 [.kw .select, .atom (subCode 1), .kw .comma, .atom (subCode 0)]
    [[.kw .select, .atom 1], [.kw .select, .atom 3]] = false := by decide

end examples

end Csvq.C18
