/-
  C07 — the state a View carries between the clauses of one query: the records (each a slice with its own capacity),
  the per-cell sort-value cache (sortValuesInEachCell), the sort keys of ORDER BY (sortValuesInEachRecord, directions,
  NULL positions) and the offset.  ORDER BY returns a permutation of its input only if (a) a cell appended to one record
  never lands in another record and (b) every cached sort value belongs to the record and the column it is read for.
  Property theorems only.  Facts REGENERATED on every run by extract/limitfacts (viewstate.go) from
  lib/query/view.go, analytic_function.go, query.go; the slab model is Model/Slab.lean.
-/
import Csvq.Model.Slab
import Csvq.Gen.LimitFacts
import Csvq.Ref.LimitFacts
namespace Csvq.C07
open Csvq

/-! ## a record's spare capacity is its own -/

theorem take_drop_set_outside {α} (cells : List α) (i o n : Nat) (x : α) (h : i < o ∨ o + n ≤ i) :
    ((cells.set i x).drop o).take n = (cells.drop o).take n := by
  apply List.ext_getElem?
  intro k
  simp only [List.getElem?_take, List.getElem?_drop, List.getElem?_set]
  by_cases hk : k < n
  · simp only [hk, if_true]
    have : ¬ i = o + k := by omega
    simp [this]
  · simp [hk]

/-- **appending within a record's own capacity leaves every other record as it was**, whenever the capacity
    windows do not overlap -/
theorem append_within_own_cap_keeps_neighbours {α} (cells : List α) (r s : Slab.Win) (x : α)
    (hcap : r.len < r.cap) (hs : s.len ≤ s.cap) (hd : Slab.Disjoint r s) :
    Slab.read (Slab.appendInPlace cells r x).1 s = Slab.read cells s := by
  unfold Slab.read Slab.appendInPlace
  apply take_drop_set_outside
  rcases hd with h | h
  · left; omega
  · right; omega

/-- … and the record itself shows its old cells followed by the new one (the slab is long enough) -/
theorem append_within_own_cap_appends {α} (cells : List α) (r : Slab.Win) (x : α)
    (hlen : r.off + r.len < cells.length) :
    Slab.read (Slab.appendInPlace cells r x).1 (Slab.appendInPlace cells r x).2 = Slab.read cells r ++ [x] := by
  unfold Slab.read Slab.appendInPlace
  apply List.ext_getElem?
  intro k
  simp only [List.getElem?_take, List.getElem?_drop, List.getElem?_set, List.getElem?_append, List.length_take,
    List.length_drop]
  have hm : min r.len (cells.length - r.off) = r.len := by omega
  rw [hm]
  by_cases h1 : k < r.len
  · have : ¬ r.off + r.len = r.off + k := by omega
    have h2 : k < r.len + 1 := by omega
    simp [h1, h2]
    intro e; omega
  · by_cases h2 : k = r.len
    · subst h2; simp [hlen]
    · have h3 : ¬ k < r.len + 1 := by omega
      have h4 : ¬ k - r.len = 0 := by omega
      simp [h1, h3]
      cases hk : k - r.len with
      | zero => exact absurd hk h4
      | succ m => simp

/-- records with a capacity bound (own allocation, three-index slice) have pairwise disjoint windows -/
theorem carveBounded_disjoint (fieldLen fieldCap i j : Nat) (h : i ≠ j) :
    Slab.Disjoint (Slab.carveBounded fieldLen fieldCap i) (Slab.carveBounded fieldLen fieldCap j) := by
  unfold Slab.Disjoint Slab.carveBounded
  simp only
  rcases Nat.lt_or_gt_of_ne h with l | l
  · left
    have : (i + 1) * fieldCap ≤ j * fieldCap := Nat.mul_le_mul_right _ l
    rw [Nat.add_mul, Nat.one_mul] at this; exact this
  · right
    have : (j + 1) * fieldCap ≤ i * fieldCap := Nat.mul_le_mul_right _ l
    rw [Nat.add_mul, Nat.one_mul] at this; exact this

/-- so after ExtendRecordCapacity as it stands, the cell ORDER BY (or an analytic function) appends to record i
    changes no other record -/
theorem bounded_records_append_keeps_others {α} (cells : List α) (fieldLen fieldCap i j : Nat) (x : α)
    (hij : i ≠ j) (hroom : fieldLen < fieldCap) :
    Slab.read (Slab.appendInPlace cells (Slab.carveBounded fieldLen fieldCap i) x).1 (Slab.carveBounded fieldLen fieldCap j)
      = Slab.read cells (Slab.carveBounded fieldLen fieldCap j) :=
  append_within_own_cap_keeps_neighbours cells _ _ x hroom (Nat.le_of_lt hroom) (carveBounded_disjoint fieldLen fieldCap i j hij)

/-- **counterexample — capacity running into the neighbour**: two records of two cells carved by a two-index slice out
    of one slab sized for exactly those cells.  The first record's capacity is the whole slab, so (1) the "enough
    capacity" test for a third column succeeds without a new allocation and (2) the cell appended to record 0
    overwrites the first cell of record 1: what ORDER BY then sorts is no permutation of its input. -/
theorem two_index_carve_overwrites_neighbour :
    let cells := [10, 11, 20, 21]
    let r0 := Slab.carveTwoIndex 2 2 2 0
    let r1 := Slab.carveTwoIndex 2 2 2 1
    Slab.enoughCapacity 3 r0 = true ∧ ¬ Slab.Disjoint r0 r1 ∧
    Slab.read cells r1 = [20, 21] ∧ Slab.read (Slab.appendInPlace cells r0 99).1 r1 = [99, 21] ∧
    -- with the capacity bound the same test asks for a new allocation
    Slab.enoughCapacity 3 (Slab.carveBounded 2 2 0) = false := by
  decide

/-! ## REGENERATED: the per-clause state of a View, field by field -/

abbrev Ev := String × String × String × List String

/-- an event that replaces or permutes elements of a view's RecordSet (truncations `set.reslice` / `set.empty`, the
    append of a further record `set.grow`, a cell appended to a record and a record resliced in place keep every
    remaining record at its index) -/
def isRebuild (e : Ev) : Bool :=
  e.2.1 == "RecordSet" &&
    (e.2.2.1 == "set.replace" || e.2.2.1 == "swap" ||
      (e.2.2.1.startsWith "elem." && e.2.2.1 != "elem.append" && e.2.2.1 != "elem.reslice-own"))

/-- the conditions `g'` hold whenever `g` holds: `g'` is an initial part of `g` -/
def unconditionalFor (g' g : List String) : Bool := g'.isPrefixOf g

/-- what must stand next to a rebuild in the same function -/
def handled (evs : List Ev) (e : Ev) : Bool :=
  Ref.rebuildsOutsideCacheLifetime.contains e.1 || Ref.rebuildsKeepingContent.contains e.1 ||
  (Ref.rebuildsRecordedInOffset.contains e.1 &&
    evs.any (fun c => c.1 == e.1 && c.2.1 == "offset" && c.2.2.1 == ":=value" && c.2.2.2 == [])) ||
  (if e.2.2.1 == "swap" then
    -- a permutation: the sort keys and the per-cell cache are permuted the same way (the cache may be absent)
    evs.any (fun c => c.1 == e.1 && c.2.1 == "sortValuesInEachRecord" && c.2.2.1 == "swap" && unconditionalFor c.2.2.2 e.2.2.2) &&
    evs.any (fun c => c.1 == e.1 && c.2.1 == "sortValuesInEachCell" && c.2.2.1 == "swap" &&
      unconditionalFor (c.2.2.2.filter (· != "view.sortValuesInEachCell != nil")) e.2.2.2)
  else
    -- a rebuild: the per-cell cache is cleared under no further condition than the rebuild itself
    evs.any (fun c => c.1 == e.1 && c.2.1 == "sortValuesInEachCell" && c.2.2.1 == ":=nil" && unconditionalFor c.2.2.2 e.2.2.2))

theorem cache_check : (Gen.viewStateEvents.all fun e => !isRebuild e || handled Gen.viewStateEvents e) = true := by
  decide +kernel

/-- **every function that replaces RecordSet elements or permutes them either permutes the sort keys and the per-cell
    sort-value cache the same way, or clears the cache under no further condition** — or is on the reviewed lists of
    Ref/LimitFacts.lean (runs outside the cache's lifetime; copies every record in place; records the shift in
    `offset`).  SELECT DISTINCT clearing the cache only when a record was removed, or Swap forgetting the cache, break it. -/
theorem gen_cache_invalidated_whenever_records_rebuilt :
    ∀ e ∈ Gen.viewStateEvents, isRebuild e = true → handled Gen.viewStateEvents e = true := by
  intro e he hr
  have := List.all_eq_true.mp cache_check e he
  simpa [hr] using this

/-- **every slice handed out as a record has a capacity window of its own**: own allocation, three-index slice, the
    record's own storage resliced / appended to, or an existing record moved — never a two-index carve out of a shared
    slab (`two_index_carve_overwrites_neighbour`) -/
theorem gen_record_extension_bounded :
    ∀ s ∈ Gen.recordSources, s.2.1 ∈ Ref.boundedRecordSources := by
  decide +kernel

/-- cells are appended to records by the analytic functions and by evalColumn only, each time to the record's own
    storage (`append(view.RecordSet[i], …)` assigned back to `view.RecordSet[i]`) -/
theorem gen_cell_appends :
    (Gen.viewStateEvents.filter fun e => e.2.1 == "RecordSet" && e.2.2.1 == "elem.append").map (·.1) =
      ["analytic_function.go:Analyze", "analytic_function.go:Analyze", "analytic_function.go:Analyze", "view.go:View.evalColumn"] := by
  decide +kernel

theorem gen_extend_record_capacity_eq_ref : Gen.fxViewExtendRecordCapacity = Ref.fxViewExtendRecordCapacity := by rfl

theorem gen_view_swap_eq_ref : Gen.fxViewSwap = Ref.fxViewSwap := by rfl

theorem gen_clause_call_order_eq_ref : Gen.clauseCallOrder = Ref.clauseCallOrder := by rfl

/-- the per-cell cache is written in three functions only (Analyze, OrderBy, evalAnalyticFunction create / fill it),
    cleared in two (Select's DISTINCT branch, Fix) and swapped in one (Swap) -/
theorem gen_cache_writers :
    ((Gen.viewStateEvents.filter fun e => e.2.1 == "sortValuesInEachCell" && e.2.2.1 != "read").map
        (fun e => e.1 ++ " " ++ e.2.2.1)).eraseDups =
      ["analytic_function.go:Analyze :=value", "analytic_function.go:Analyze elem", "view.go:View.Select :=nil",
       "view.go:View.OrderBy elem", "view.go:View.evalAnalyticFunction :=value", "view.go:View.Fix :=nil",
       "view.go:View.Swap swap"] := by
  decide +kernel

/-! ## non-vacuity -/

example : Slab.read [1, 2, 3, 4, 0, 0] ⟨0, 2, 3⟩ = [1, 2] ∧
    Slab.read (Slab.appendInPlace [1, 2, 0, 3, 4, 0] ⟨0, 2, 3⟩ 9).1 ⟨3, 2, 3⟩ = [3, 4] := by decide
example : Slab.Disjoint (Slab.carveBounded 2 3 0) (Slab.carveBounded 2 3 1) := by decide
-- the DISTINCT branch of View.Select is a rebuild that is handled by its unconditional clear; Swap by its swaps
example : isRebuild ("view.go:View.Select", "RecordSet", "set.replace", ["clause.IsDistinct()"]) = true ∧
    handled Gen.viewStateEvents ("view.go:View.Select", "RecordSet", "set.replace", ["clause.IsDistinct()"]) = true ∧
    handled Gen.viewStateEvents ("view.go:View.Swap", "RecordSet", "swap", []) = true := by decide +kernel
-- a clear under a further condition is not enough
example : handled [("f", "sortValuesInEachCell", ":=nil", ["c", "len(records) != len(view.RecordSet)"])]
    ("f", "RecordSet", "set.replace", ["c"]) = false := by decide
example : ("view.go:View.ExtendRecordCapacity", "alloc-cap", "make(Record, view.FieldLen(), fieldCap)") ∈ Gen.recordSources := by
  decide +kernel

end Csvq.C07
