/-
  C05 — INSERT / UPDATE / DELETE / REPLACE / ALTER TABLE change exactly what they say and report it.
  Property theorems only.  Model: Csvq.Model.Dml (lib/query/query.go:345-974, view.go:799-1020,
  view_map.go, processor.go:245-411); helper lemmas: Csvq.Lemmas.Dml.

  All theorems hold for ALL tables, field lists, value lists, conditions and expressions: conditions are
  arbitrary functions `Row → Except Err Tern`, expressions arbitrary `Row → Except Err Cell`.
-/
import Csvq.Lemmas.Dml
import Csvq.Model.Skeleton
import Csvq.Gen.DmlFacts
import Csvq.Ref.DmlFacts
import Csvq.Model.Sort
import Csvq.Gen.SortFacts
import Csvq.Model.CopySites
import Csvq.Ref.CopyFacts
namespace Csvq.C05
open Csvq Csvq.Dml

/-! ## INSERT -/

/-- INSERT appends the given rows, in the given order, behind the old rows; column `c` of a new row holds
    the value given for the first field named `c` and NULL when no field names it; the count is the
    number of given rows.  (All VALUES rows evaluated and have as many values as there are fields.) -/
theorem insert_spec (fields : List String) (given : List (Except Err Row)) (t t' : Table) (n : Nat)
    (hk : insertImpl fields given t = .ok (t', n)) :
    ∃ vals : List Row, given = vals.map .ok ∧ (∀ v ∈ vals, v.length = fields.length) ∧
      t'.header = t.header ∧ t'.rows = t.rows ++ vals.map (placeRow t.header fields) ∧ n = vals.length := by
  unfold insertImpl at hk
  cases hc : convertList fields.length given with
  | error e => simp [hc] at hk
  | ok vals =>
    simp only [hc] at hk
    cases hf : fieldIndices t.header fields with
    | error e => simp [hf] at hk
    | ok fidx =>
      simp only [hf] at hk
      cases hk
      obtain ⟨h1, h2⟩ := convertList_ok _ _ _ hc
      have hi := fieldIndices_ok _ _ _ hf
      refine ⟨vals, h1, h2, rfl, ?_, rfl⟩
      simp only
      congr 1
      apply List.map_congr_left
      intro v _
      exact buildRecord_eq_placeRow t.header fields fidx v hi

/-- a column that no field names is NULL in every inserted row -/
theorem insert_missing_null (header fields : List String) (vals : Row) (j : Nat) (c : String)
    (hj : header[j]? = some c) (hc : c ∉ fields) : (placeRow header fields vals)[j]? = some nullCell := by
  unfold placeRow
  rw [List.getElem?_map, hj]
  simp only [Option.map_some]
  rw [(firstIdx_none c fields).mpr hc]

/-- a named column takes the value at the position of its (first) field -/
theorem insert_named_value (header fields : List String) (vals : Row) (j k : Nat) (c : String)
    (hj : header[j]? = some c) (hk : firstIdx c fields = some k) (hv : k < vals.length) :
    (placeRow header fields vals)[j]? = some vals[k] := by
  unfold placeRow
  rw [List.getElem?_map, hj]
  simp only [Option.map_some, hk]
  rw [List.getElem?_eq_getElem hv]; rfl

/-- with the default field list (all columns of a table with distinct column names) the rows are appended as given -/
theorem insert_default_fields (t : Table) (vals : List Row) (hn : t.header.Nodup)
    (hl : ∀ v ∈ vals, v.length = t.header.length) (t' : Table) (n : Nat)
    (hk : insertImpl t.header (vals.map .ok) t = .ok (t', n)) : t'.rows = t.rows ++ vals ∧ n = vals.length := by
  obtain ⟨vals', h1, _, _, h4, h5⟩ := insert_spec _ _ _ _ _ hk
  have hv : vals' = vals := by
    have inj : ∀ (a b : List Row), a.map (Except.ok (ε := Err)) = b.map .ok → a = b := by
      intro a
      induction a with
      | nil => intro b h; cases b with
        | nil => rfl
        | cons _ _ => simp at h
      | cons x xs ih => intro b h; cases b with
        | nil => simp at h
        | cons y ys =>
          simp only [List.map_cons, List.cons.injEq] at h
          rw [Except.ok.inj h.1, ih ys h.2]
    exact (inj _ _ h1).symm
  subst hv
  refine ⟨?_, h5⟩
  rw [h4]
  congr 1
  have : ∀ v ∈ vals', placeRow t.header t.header v = v := by
    intro v hv
    unfold placeRow
    apply List.ext_getElem?
    intro j
    rw [List.getElem?_map]
    by_cases hj : j < t.header.length
    · rw [List.getElem?_eq_getElem hj]
      simp only [Option.map_some]
      rw [firstIdx_nodup t.header j _ hn (List.getElem?_eq_getElem hj)]
      have hjv : j < v.length := by rw [hl v hv]; exact hj
      simp [List.getElem?_eq_getElem hjv]
    · rw [List.getElem?_eq_none (by omega), List.getElem?_eq_none (by rw [hl v hv]; omega)]; rfl
  rw [List.map_congr_left this]; simp

/-! ## UPDATE (single table) -/

/-- UPDATE through the filtered view with internal ids = rewriting, in place, exactly the records whose
    condition is TRUE; every SET value is computed from the OLD record; header, row count and row order
    are kept; the count is the number of matching records. -/
theorem update_spec (cond : Row → Except Err Tern) (sets : List (SetItem Row)) (t t' : Table) (n : Nat)
    (hk : updateImpl cond sets t = .ok (t', n)) :
    t'.header = t.header ∧ t'.rows = updateSpecRows t.header cond sets t.rows ∧
    (sets ≠ [] → n = t.rows.countP (condT cond)) ∧ (∀ r ∈ t.rows, ∃ c, cond r = .ok c) := by
  unfold updateImpl at hk
  cases hf : filterView cond (withIdsFrom t.rows 0) with
  | error e => simp [hf] at hk
  | ok view =>
    simp only [hf] at hk
    obtain ⟨f1, f2⟩ := filterView_ok cond _ _ hf
    obtain ⟨u1, u2, u3, _⟩ := updateCore_ok view sets t t' n hk
    refine ⟨u1, ?_, ?_, ?_⟩
    · rw [u2, f2]
      have := updateViewRows_filter t.header sets cond t.rows [] 0 rfl
      simpa using this
    · intro hne
      rw [u3 hne, f2]
      obtain ⟨c1, c2⟩ := collectIds_filter (condT cond) t.rows 0 [] (by intro x hx; cases hx)
      rw [c1]; simpa using c2
    · intro r hr
      rw [List.mem_iff_getElem?] at hr
      obtain ⟨j, hj⟩ := hr
      have : (some (0 + j), r) ∈ withIdsFrom t.rows 0 := by
        rw [List.mem_iff_getElem?]
        exact ⟨j, by rw [withIdsFrom_getElem?, hj]; rfl⟩
      exact f1 _ this

/-- frame: a cell differs from the old table only in a record whose condition is TRUE and in a column
    named in the SET list; the number of records is unchanged -/
theorem update_frame (cond : Row → Except Err Tern) (sets : List (SetItem Row)) (t t' : Table) (n : Nat)
    (hk : updateImpl cond sets t = .ok (t', n)) :
    t'.rows.length = t.rows.length ∧
    ∀ i j, cellAt t'.rows i j ≠ cellAt t.rows i j →
      (∃ r, t.rows[i]? = some r ∧ cond r = .ok .T) ∧ ∃ s ∈ sets, colIndex t.header s.field = .ok j := by
  obtain ⟨_, h2, _, _⟩ := update_spec cond sets t t' n hk
  rw [h2]
  unfold updateSpecRows
  refine ⟨by simp, ?_⟩
  intro i j hne
  unfold cellAt at hne
  rw [List.getElem?_map] at hne
  cases hr : t.rows[i]? with
  | none => simp [hr] at hne
  | some r =>
    simp only [hr, Option.map_some, Option.bind_some] at hne
    by_cases hc : condT cond r = true
    · simp only [hc, if_true] at hne
      refine ⟨⟨r, rfl, ?_⟩, rewriteRow_changed t.header r j sets r hne⟩
      unfold condT at hc
      cases hcr : cond r with
      | error e => simp [hcr] at hc
      | ok c =>
        simp only [hcr] at hc
        cases c <;> simp [isT] at hc
        rfl
    · simp [hc] at hne

/-- records whose condition is not TRUE are untouched, whole -/
theorem update_other_rows (cond : Row → Except Err Tern) (sets : List (SetItem Row)) (t t' : Table) (n : Nat)
    (hk : updateImpl cond sets t = .ok (t', n)) (i : Nat) (r : Row) (hr : t.rows[i]? = some r)
    (hc : cond r ≠ .ok .T) : t'.rows[i]? = some r := by
  obtain ⟨_, h2, _, _⟩ := update_spec cond sets t t' n hk
  rw [h2]
  unfold updateSpecRows
  rw [List.getElem?_map, hr]
  have : condT cond r = false := by
    unfold condT
    cases hcr : cond r with
    | error e => rfl
    | ok c =>
      cases c with
      | T => exact absurd hcr hc
      | F => rfl
      | U => rfl
  simp [this]

/-- a matching record gets, in a SET column, the value of the SET expression on the OLD record
    (SET columns pairwise different, as the "value ambiguous" rule enforces) -/
theorem update_new_value (cond : Row → Except Err Tern) (sets : List (SetItem Row)) (t t' : Table) (n : Nat)
    (hk : updateImpl cond sets t = .ok (t', n)) (i : Nat) (r : Row) (hr : t.rows[i]? = some r)
    (hc : cond r = .ok .T) (s : SetItem Row) (j : Nat) (v : Cell)
    (hp : sets.Pairwise (fun a b => colIndex t.header a.field ≠ colIndex t.header b.field))
    (hs : s ∈ sets) (hj : colIndex t.header s.field = .ok j) (hv : s.expr r = .ok v) (hl : j < r.length) :
    cellAt t'.rows i j = some v := by
  obtain ⟨_, h2, _, _⟩ := update_spec cond sets t t' n hk
  rw [h2]
  unfold updateSpecRows cellAt
  rw [List.getElem?_map, hr]
  have : condT cond r = true := by simp [condT, hc, isT]
  simp only [Option.map_some, this, if_true, Option.bind_some]
  exact rewriteRow_value t.header r sets r s j v hp hs hj hv hl

/-! ## UPDATE over an arbitrary (joined) view — the multi-table form, per target table -/

/-- every record of the filtered view, in order, rewrites the target record of its internal id, with values
    computed from the view's record; the count is the number of distinct ids -/
theorem update_view_spec {ρ : Type} (view : List (Option Nat × ρ)) (sets : List (SetItem ρ)) (t t' : Table) (n : Nat)
    (hk : updateCore view sets t = .ok (t', n)) :
    t'.header = t.header ∧ t'.rows = updateViewRows t.header sets view t.rows ∧
    (sets ≠ [] → n = (collectIds (view.map Prod.fst) []).length) :=
  let ⟨a, b, c, _⟩ := updateCore_ok view sets t t' n hk
  ⟨a, b, c⟩

/-- frame of the multi-table form: a target record whose id does not occur in the filtered view is untouched,
    and only SET columns change -/
theorem update_view_frame {ρ : Type} (h : List String) (sets : List (SetItem ρ)) :
    ∀ (view : List (Option Nat × ρ)) (rows : List Row),
    (updateViewRows h sets view rows).length = rows.length ∧
    ∀ i j, cellAt (updateViewRows h sets view rows) i j ≠ cellAt rows i j →
      (∃ x ∈ view, x.1 = some i) ∧ ∃ s ∈ sets, colIndex h s.field = .ok j := by
  intro view
  induction view with
  | nil => intro rows; exact ⟨rfl, fun i j hne => absurd rfl hne⟩
  | cons x rest ih =>
    intro rows
    unfold updateViewRows
    simp only [List.foldl_cons]
    cases hx : x.1 with
    | none =>
      simp only
      obtain ⟨l, f⟩ := ih rows
      unfold updateViewRows at l f
      refine ⟨l, ?_⟩
      intro i j hne
      obtain ⟨⟨y, hy, hyi⟩, hs⟩ := f i j hne
      exact ⟨⟨y, List.mem_cons_of_mem _ hy, hyi⟩, hs⟩
    | some k =>
      simp only
      obtain ⟨l, f⟩ := ih (rows.modify k (rewriteRow h sets x.2))
      unfold updateViewRows at l f
      refine ⟨by rw [l]; simp, ?_⟩
      intro i j hne
      by_cases hmid : cellAt (rows.modify k (rewriteRow h sets x.2)) i j = cellAt rows i j
      · rw [← hmid] at hne
        obtain ⟨⟨y, hy, hyi⟩, hs⟩ := f i j hne
        exact ⟨⟨y, List.mem_cons_of_mem _ hy, hyi⟩, hs⟩
      · unfold cellAt at hmid
        rw [List.getElem?_modify] at hmid
        cases hr : rows[i]? with
        | none => simp [hr] at hmid
        | some r =>
          simp only [hr, Option.map_some, Option.bind_some] at hmid
          by_cases hki : k = i
          · subst hki
            simp only [if_true] at hmid
            exact ⟨⟨x, List.mem_cons_self, hx⟩, rewriteRow_changed h x.2 j sets r hmid⟩
          · simp [hki] at hmid

/-! ## DELETE -/

/-- DELETE by internal id through the filtered view = removing exactly the records whose condition is TRUE
    (the others stay, in their order); the count is the number of removed records -/
theorem delete_spec (cond : Row → Except Err Tern) (t t' : Table) (n : Nat)
    (hk : deleteImpl cond t = .ok (t', n)) :
    t'.header = t.header ∧ t'.rows = t.rows.filter (fun r => !condT cond r) ∧
    n = t.rows.countP (condT cond) ∧ t.rows.length = t'.rows.length + n := by
  unfold deleteImpl at hk
  cases hf : filterView cond (withIdsFrom t.rows 0) with
  | error e => simp [hf] at hk
  | ok view =>
    simp only [hf] at hk
    cases hk
    obtain ⟨_, f2⟩ := filterView_ok cond _ _ hf
    subst f2
    have hrows := deleteImpl_rows cond t.rows
    obtain ⟨c1, c2⟩ := collectIds_filter (condT cond) t.rows 0 [] (by intro x hx; cases hx)
    have hn : (collectIds (List.map Prod.fst (List.filter (fun x => condT cond x.snd) (withIdsFrom t.rows 0))) []).length
        = t.rows.countP (condT cond) := by rw [c1]; simpa using c2
    refine ⟨rfl, ?_, ?_, ?_⟩
    · show removeIdx _ t.rows 0 = _
      rw [hrows]; rfl
    · exact hn
    · show t.rows.length = (removeIdx _ t.rows 0).length + _
      rw [hrows, hn]
      unfold deleteSpecRows
      exact length_filter_not_add_countP (condT cond) t.rows

/-! ## REPLACE -/

/-- REPLACE: every existing record is rewritten, in place, from the FIRST given row whose key is equivalent
    to its key (only the non-key given columns are overwritten); the given rows that were no record's first
    match are appended; count = matched existing records + appended rows. -/
theorem replace_spec (keq : List Cell → List Cell → Bool) (fields keys : List String) (given : List (Except Err Row))
    (t t' : Table) (n : Nat) (hk : replaceImpl keq fields keys given t = .ok (t', n)) :
    ∃ (vals : List Row) (fidx kidx : List Nat),
      given = vals.map .ok ∧ (∀ v ∈ vals, v.length = fields.length) ∧
      IndicesOf t.header fields fidx ∧ IndicesOf t.header keys kidx ∧ (∀ k ∈ kidx, k ∈ fidx) ∧
      t'.header = t.header ∧
      t'.rows = t.rows.map (rewriteFromFirst keq kidx (fidx.filter fun i => i ∉ kidx) (vals.map (placeRow t.header fields)))
        ++ removeIdx (matchedOf keq kidx (vals.map (placeRow t.header fields)) t.rows) (vals.map (placeRow t.header fields)) 0 ∧
      n = (removeIdx (matchedOf keq kidx (vals.map (placeRow t.header fields)) t.rows) (vals.map (placeRow t.header fields)) 0).length
          + (matchedOf keq kidx (vals.map (placeRow t.header fields)) t.rows).length := by
  unfold replaceImpl at hk
  cases hc : convertList fields.length given with
  | error e => simp [hc] at hk
  | ok vals =>
    simp only [hc] at hk
    cases hf : fieldIndices t.header fields with
    | error e => simp [hf] at hk
    | ok fidx =>
      simp only [hf] at hk
      cases hkx : fieldIndices t.header keys with
      | error e => simp [hkx] at hk
      | ok kidx =>
        simp only [hkx] at hk
        split at hk
        · cases hk
        · rename_i hns
          cases hk
          obtain ⟨h1, h2⟩ := convertList_ok _ _ _ hc
          have hi := fieldIndices_ok _ _ _ hf
          have hki := fieldIndices_ok _ _ _ hkx
          have hrec : vals.map (buildRecord t.header.length fidx) = vals.map (placeRow t.header fields) := by
            apply List.map_congr_left
            intro v _
            exact buildRecord_eq_placeRow t.header fields fidx v hi
          refine ⟨vals, fidx, kidx, h1, h2, hi, hki, keyNotSet_false fidx kidx (by simpa using hns), rfl, ?_, ?_⟩
          · show (replaceRows keq kidx _ (vals.map (buildRecord t.header.length fidx)) t.rows).1 ++ _ = _
            rw [hrec, replaceRows_fst, replaceRows_snd]
            rfl
          · show (removeIdx _ (vals.map (buildRecord t.header.length fidx)) 0).length + _ = _
            rw [hrec, replaceRows_snd]
            rfl

/-- an existing record whose key no given row matches is kept as it is -/
theorem replace_unmatched_row_kept (keq : List Cell → List Cell → Bool) (kidx uidx : List Nat) (records : List Row) (r : Row)
    (h : ∀ g ∈ records, keq (keyOf kidx r) (keyOf kidx g) = false) : rewriteFromFirst keq kidx uidx records r = r := by
  unfold rewriteFromFirst
  rw [(firstMatch_none keq kidx r records).mpr h]

/-- a matched record keeps its length and every column that is not an update column (in particular its key
    and the columns not named in the field list); an update column takes the cell of the first matching given row -/
theorem replace_matched_row (keq : List Cell → List Cell → Bool) (kidx uidx : List Nat) (records : List Row) (r g : Row) (j : Nat)
    (h : firstMatch keq kidx r records = some (j, g)) :
    records[j]? = some g ∧ keq (keyOf kidx r) (keyOf kidx g) = true ∧
    (∀ j' g', j' < j → records[j']? = some g' → keq (keyOf kidx r) (keyOf kidx g') = false) ∧
    (rewriteFromFirst keq kidx uidx records r).length = r.length ∧
    (∀ c, c ∉ uidx → (rewriteFromFirst keq kidx uidx records r)[c]? = r[c]?) ∧
    (∀ c, c ∈ uidx → c < r.length → (rewriteFromFirst keq kidx uidx records r)[c]? = some (g[c]?.getD nullCell)) := by
  obtain ⟨a, b, c⟩ := firstMatch_some keq kidx r records j g h
  have e : rewriteFromFirst keq kidx uidx records r = overwrite uidx r g := by
    unfold rewriteFromFirst; rw [h]
  rw [e]
  exact ⟨a, b, c, overwrite_length g uidx r, fun c hc => overwrite_other g c uidx r hc,
    fun c hc hl => overwrite_updated g c uidx r hc hl⟩

/-- the appended rows come in the given order (a sub-list of the given rows) … -/
theorem replace_appended_in_given_order (d : List Nat) (records : List Row) : (removeIdx d records 0).Sublist records :=
  removeIdx_sublist d records 0

/-- … and are exactly the given rows whose position no existing record matched first -/
theorem replace_appended_iff (d : List Nat) (records : List Row) :
    removeIdx d records 0 = ((records.zip (List.range records.length)).filter (fun q => !decide (q.2 ∈ d))).map Prod.fst :=
  removeIdx_eq_filter_zip d records

/-
  The property text reads "REPLACE updates rows whose key matches and appends THE OTHERS": an appended row
  should match no existing record.  Full statement (false for the code as it is):

    theorem replace_appended_keys_are_new : replaceImpl keq fields keys given t = .ok (t', n) →
      ∀ g ∈ t'.rows.drop t.rows.length, ∀ r ∈ t.rows, keq (keyOf kidx r) (keyOf kidx g) = false

  The code lets every existing record take only its FIRST equivalent given row; a later given row with the
  same key matches no record "first" and is appended, although a record with that key exists.
-/
def cex (i : Int) : Cell :=
  { raw := .int i, int? := some i, flt? := none, dt? := none, bool? := none, strU? := none, tern := .U }

def cexKeq (a b : List Cell) : Bool := (a.map fun c => c.int?) == (b.map fun c => c.int?)

def cexTable : Table := { header := ["id", "v"], rows := [[cex 1, cex 10]] }

/-- witness: table (id,v) = [(1,10)], `REPLACE INTO t (id,v) USING (id) VALUES (1,20),(1,30)` gives
    [(1,20),(1,30)]: the row (1,30) is appended although a record with key 1 exists -/
theorem replace_appended_keys_are_new_counterexample :
    ∃ t' n, replaceImpl cexKeq ["id", "v"] ["id"] [.ok [cex 1, cex 20], .ok [cex 1, cex 30]] cexTable = .ok (t', n) ∧
      n = 2 ∧ (t'.rows.map fun r => r.map fun c => c.int?) = [[some 1, some 20], [some 1, some 30]] ∧
      ∃ g ∈ t'.rows.drop cexTable.rows.length, ∃ r ∈ cexTable.rows, cexKeq (keyOf [0] r) (keyOf [0] g) = true := by
  refine ⟨_, _, rfl, ?_, ?_, ?_⟩
  · decide
  · decide
  · refine ⟨[cex 1, cex 30], ?_, [cex 1, cex 10], ?_, ?_⟩ <;> decide

/-- partial: when no two given rows have equivalent keys (and key equivalence is symmetric and transitive)
    every appended row has a key that matches no existing record -/
theorem replace_appended_keys_are_new_partial (keq : List Cell → List Cell → Bool) (kidx : List Nat) (records rows : List Row)
    (symm : ∀ a b, keq a b = true → keq b a = true)
    (trans : ∀ a b c, keq a b = true → keq b c = true → keq a c = true)
    (distinct : ∀ (j1 j2 : Nat) (g1 g2 : Row), j1 < j2 → records[j1]? = some g1 → records[j2]? = some g2 →
      keq (keyOf kidx g1) (keyOf kidx g2) = false)
    (g : Row) (hg : g ∈ removeIdx (matchedOf keq kidx records rows) records 0) (r : Row) (hr : r ∈ rows) :
    keq (keyOf kidx r) (keyOf kidx g) = false := by
  obtain ⟨j, hj, hgj⟩ := mem_removeIdx _ _ _ hg
  cases hkq : keq (keyOf kidx r) (keyOf kidx g) with
  | false => rfl
  | true =>
    exfalso
    cases hm : firstMatch keq kidx r records with
    | none =>
      have := (firstMatch_none keq kidx r records).mp hm g (List.mem_of_getElem? hgj)
      rw [this] at hkq; cases hkq
    | some p =>
      obtain ⟨j', g'⟩ := p
      obtain ⟨a, b, c⟩ := firstMatch_some keq kidx r records j' g' hm
      have hmem : j' ∈ matchedOf keq kidx records rows := by
        unfold matchedOf
        rw [List.mem_filterMap]
        exact ⟨r, hr, by rw [hm]; rfl⟩
      rcases Nat.lt_trichotomy j' j with hlt | heq | hgt
      · have h1 := distinct j' j g' g hlt a hgj
        have h2 := trans _ _ _ (symm _ _ b) hkq
        rw [h2] at h1; cases h1
      · subst heq; exact hj hmem
      · have := c j g hgt hgj
        rw [this] at hkq; cases hkq

/-! ## ALTER TABLE -/

/-- ADD: the new columns are inserted at the position FIRST / LAST / BEFORE c / AFTER c says, every record
    gets there the default values computed from the OLD record (NULL without a default); count = number of columns -/
theorem addcols_spec (pos : ColPos) (cols : List (String × Option (Row → Except Err Cell))) (t t' : Table) (n : Nat)
    (hk : addColumnsImpl pos cols t = .ok (t', n)) :
    ∃ p, insertPos t.header pos = .ok p ∧ p ≤ t.header.length ∧
      t'.header = insertAt p (cols.map Prod.fst) t.header ∧
      t'.rows = t.rows.map (fun r => insertAt p (defVals (cols.map Prod.snd) r) r) ∧
      (∀ r ∈ t.rows, evalDefaults r (cols.map Prod.snd) = .ok (defVals (cols.map Prod.snd) r)) ∧
      (∀ c ∈ cols.map Prod.fst, c ∉ t.header) ∧ (cols.map Prod.fst).Nodup ∧ n = cols.length := by
  unfold addColumnsImpl at hk
  cases hp : insertPos t.header pos with
  | error e => simp [hp] at hk
  | ok p =>
    simp only [hp] at hk
    cases hc : checkNewNames t.header (cols.map Prod.fst) with
    | error e => simp [hc] at hk
    | ok u =>
      simp only [hc] at hk
      cases hr : addToRows p (cols.map Prod.snd) t.rows with
      | error e => simp [hr] at hk
      | ok rows =>
        simp only [hr] at hk
        cases hk
        obtain ⟨r1, r2⟩ := addToRows_ok p _ _ _ hr
        obtain ⟨c1, c2⟩ := checkNewNames_ok _ _ hc
        exact ⟨p, rfl, insertPos_le _ _ _ hp, rfl, r1, r2, c1, c2, rfl⟩

/-- where the position comes from -/
theorem addcols_position (h : List String) :
    insertPos h .first = .ok 0 ∧ insertPos h .last = .ok h.length ∧
    (∀ c i, colIndex h c = .ok i → insertPos h (.before c) = .ok i ∧ insertPos h (.after c) = .ok (i + 1)) := by
  refine ⟨rfl, rfl, ?_⟩
  intro c i hc
  simp [insertPos, hc]

/-- frame of ADD: left of the position and right of the new columns every record (and the header) is as before;
    in between stand the default values -/
theorem addcols_frame {α} (p : Nat) (xs l : List α) (hp : p ≤ l.length) :
    (insertAt p xs l).take p = l.take p ∧ (insertAt p xs l).drop (p + xs.length) = l.drop p ∧
    ((insertAt p xs l).drop p).take xs.length = xs ∧ (insertAt p xs l).length = l.length + xs.length :=
  ⟨insertAt_take p xs l hp, insertAt_drop p xs l hp, insertAt_mid p xs l hp, insertAt_length p xs l⟩

/-- DROP: the same set `d` of positions — those of the named columns — is removed from the header and from
    every record; the rest keeps its order; count = number of distinct dropped columns -/
theorem dropcols_spec (cols : List String) (t t' : Table) (n : Nat) (hk : dropColumnsImpl cols t = .ok (t', n)) :
    ∃ d : List Nat, d.Nodup ∧ (∀ i, i ∈ d ↔ ∃ c ∈ cols, colIndex t.header c = .ok i) ∧
      (∀ c ∈ cols, ∃ i, colIndex t.header c = .ok i) ∧
      t'.header = removeIdx d t.header 0 ∧ t'.rows = t.rows.map (fun r => removeIdx d r 0) ∧
      n = d.length ∧ t'.header.length + n = t.header.length := by
  unfold dropColumnsImpl at hk
  cases hf : fieldIndices t.header cols with
  | error e => simp [hf] at hk
  | ok idx =>
    simp only [hf] at hk
    cases hk
    have hi := fieldIndices_ok _ _ _ hf
    have hnd := nodup_dedupIdx idx [] List.nodup_nil
    have hmem : ∀ i, i ∈ dedupIdx idx [] ↔ ∃ c ∈ cols, colIndex t.header c = .ok i := by
      intro i
      rw [mem_dedupIdx]
      simp only [List.not_mem_nil, false_or]
      exact hi.mem_iff i
    refine ⟨dedupIdx idx [], hnd, hmem, hi.all_ok, rfl, rfl, rfl, ?_⟩
    apply removeIdx_count _ _ hnd
    intro i him
    obtain ⟨c, _, hc⟩ := (hmem i).mp him
    exact colIndex_lt _ _ _ hc

/-- cell level: the (column name, cell) pairs of a record after DROP are exactly the old pairs whose column
    is not named, in the old order -/
theorem dropcols_cells (cols : List String) (h : List String) (d : List Nat) (r : Row)
    (hd : ∀ i, i ∈ d ↔ ∃ c ∈ cols, colIndex h c = .ok i) (hall : ∀ c ∈ cols, ∃ i, colIndex h c = .ok i) :
    (removeIdx d h 0).zip (removeIdx d r 0) = (h.zip r).filter (fun q => !decide (q.1 ∈ cols)) := by
  rw [← removeIdx_zip]
  apply removeIdx_filter d (fun (q : String × Cell) => decide (q.1 ∈ cols))
  intro j hj
  simp only [List.getElem_zip, Nat.zero_add, decide_eq_true_eq]
  have hjh : j < h.length := by simp only [List.length_zip] at hj; omega
  constructor
  · intro hm
    obtain ⟨c, hc, hci⟩ := (hd j).mp hm
    have := (colIndex_ok h c j hci).1
    rw [List.getElem?_eq_getElem hjh] at this
    rw [Option.some.inj this]; exact hc
  · intro hm
    obtain ⟨i, hci⟩ := hall _ hm
    have := (colIndex_ok h _ i hci).2 j (List.getElem?_eq_getElem hjh)
    subst this
    exact (hd j).mpr ⟨_, hm, hci⟩

/-- RENAME: the one named column gets the new name (which no column had); nothing else changes -/
theorem rename_spec (old new : String) (t t' : Table) (hk : renameColumnImpl old new t = .ok t') :
    ∃ i, colIndex t.header old = .ok i ∧ new ∉ t.header ∧ t'.header = t.header.set i new ∧ t'.rows = t.rows ∧
      t'.header.length = t.header.length ∧ t'.header[i]? = some new ∧ ∀ j, j ≠ i → t'.header[j]? = t.header[j]? := by
  unfold renameColumnImpl at hk
  split at hk
  · cases hk
  · rename_i hn
    cases hc : colIndex t.header old with
    | error e => simp [hc] at hk
    | ok i =>
      simp only [hc] at hk
      cases hk
      have hl := colIndex_lt _ _ _ hc
      refine ⟨i, rfl, hn, rfl, rfl, by simp, ?_, ?_⟩
      · simp only [List.getElem?_set]; simp [hl]
      · intro j hj
        simp only [List.getElem?_set]
        have : i ≠ j := fun e => hj e.symm
        simp [this]

/-! ## the reported count -/

/-- reported = number of records inserted / matched / removed (REPLACE: matched existing records + appended) -/
theorem count_spec :
    (∀ fields given t t' n, insertImpl fields given t = .ok (t', n) →
      n = given.length ∧ t'.rows.length = t.rows.length + n) ∧
    (∀ cond sets t t' n, sets ≠ [] → updateImpl cond sets t = .ok (t', n) → n = t.rows.countP (condT cond)) ∧
    (∀ cond t t' n, deleteImpl cond t = .ok (t', n) →
      n = t.rows.countP (condT cond) ∧ t.rows.length = t'.rows.length + n) ∧
    (∀ keq fields keys given t t' n, replaceImpl keq fields keys given t = .ok (t', n) →
      ∃ (kidx : List Nat) (records : List Row), IndicesOf t.header keys kidx ∧ records.length = given.length ∧
        n = t.rows.countP (fun r => (firstMatch keq kidx r records).isSome) + (t'.rows.length - t.rows.length)) := by
  refine ⟨?_, ?_, ?_, ?_⟩
  · intro fields given t t' n hk
    obtain ⟨vals, h1, _, _, h4, h5⟩ := insert_spec _ _ _ _ _ hk
    subst h5
    constructor
    · rw [h1]; simp
    · rw [h4]; simp
  · intro cond sets t t' n hne hk
    exact (update_spec cond sets t t' n hk).2.2.1 hne
  · intro cond t t' n hk
    obtain ⟨_, _, c, d⟩ := delete_spec cond t t' n hk
    exact ⟨c, d⟩
  · intro keq fields keys given t t' n hk
    obtain ⟨vals, fidx, kidx, h1, _, hi, hki, _, _, hrows, hn⟩ := replace_spec keq fields keys given t t' n hk
    refine ⟨kidx, vals.map (placeRow t.header fields), hki, by rw [h1]; simp, ?_⟩
    rw [hn, hrows]
    have : (matchedOf keq kidx (vals.map (placeRow t.header fields)) t.rows).length =
        t.rows.countP (fun r => (firstMatch keq kidx r (vals.map (placeRow t.header fields))).isSome) := by
      unfold matchedOf
      generalize t.rows = rows
      induction rows with
      | nil => rfl
      | cons r rs ih =>
        rw [List.filterMap_cons, List.countP_cons]
        cases hm : firstMatch keq kidx r (vals.map (placeRow t.header fields)) with
        | none => simp [ih]
        | some q => simp [ih]
    rw [this]
    simp only [List.length_append, List.length_map]
    omega

/-! ## rectangularity is preserved by every operation -/

theorem insert_rect (fields : List String) (given : List (Except Err Row)) (t t' : Table) (n : Nat)
    (hr : t.Rect) (hk : insertImpl fields given t = .ok (t', n)) : t'.Rect := by
  obtain ⟨vals, _, _, h3, h4, _⟩ := insert_spec _ _ _ _ _ hk
  intro r hm
  rw [h4] at hm
  rw [h3]
  rcases List.mem_append.mp hm with hm | hm
  · exact hr r hm
  · rw [List.mem_map] at hm
    obtain ⟨v, _, rfl⟩ := hm
    simp [placeRow]

theorem update_rect (cond : Row → Except Err Tern) (sets : List (SetItem Row)) (t t' : Table) (n : Nat)
    (hr : t.Rect) (hk : updateImpl cond sets t = .ok (t', n)) : t'.Rect := by
  unfold updateImpl at hk
  cases hf : filterView cond (withIdsFrom t.rows 0) with
  | error e => simp [hf] at hk
  | ok view =>
    simp only [hf] at hk
    exact updateCore_rect view sets t t' n hr hk

theorem delete_rect (cond : Row → Except Err Tern) (t t' : Table) (n : Nat)
    (hr : t.Rect) (hk : deleteImpl cond t = .ok (t', n)) : t'.Rect := by
  obtain ⟨h1, h2, _, _⟩ := delete_spec cond t t' n hk
  intro r hm
  rw [h2] at hm
  rw [h1]
  exact hr r (List.mem_filter.mp hm).1

theorem replace_rect (keq : List Cell → List Cell → Bool) (fields keys : List String) (given : List (Except Err Row))
    (t t' : Table) (n : Nat) (hr : t.Rect) (hk : replaceImpl keq fields keys given t = .ok (t', n)) : t'.Rect := by
  obtain ⟨vals, fidx, kidx, _, _, _, _, _, hh, hrows, _⟩ := replace_spec keq fields keys given t t' n hk
  intro r hm
  rw [hrows] at hm
  rw [hh]
  rcases List.mem_append.mp hm with hm | hm
  · rw [List.mem_map] at hm
    obtain ⟨r0, hr0, rfl⟩ := hm
    unfold rewriteFromFirst
    split
    · exact hr r0 hr0
    · rw [overwrite_length]; exact hr r0 hr0
  · have := (removeIdx_sublist _ _ 0).subset hm
    rw [List.mem_map] at this
    obtain ⟨v, _, rfl⟩ := this
    simp [placeRow]

theorem addcols_rect (pos : ColPos) (cols : List (String × Option (Row → Except Err Cell))) (t t' : Table) (n : Nat)
    (hr : t.Rect) (hk : addColumnsImpl pos cols t = .ok (t', n)) : t'.Rect := by
  obtain ⟨p, _, _, hh, hrows, hdef, _, _, _⟩ := addcols_spec pos cols t t' n hk
  intro r hm
  rw [hrows, List.mem_map] at hm
  obtain ⟨r0, hr0, rfl⟩ := hm
  rw [hh, insertAt_length, insertAt_length, hr r0 hr0, evalDefaults_length r0 _ _ (hdef r0 hr0)]
  simp

theorem dropcols_rect (cols : List String) (t t' : Table) (n : Nat)
    (hr : t.Rect) (hk : dropColumnsImpl cols t = .ok (t', n)) : t'.Rect := by
  obtain ⟨d, _, _, _, hh, hrows, _, _⟩ := dropcols_spec cols t t' n hk
  intro r hm
  rw [hrows, List.mem_map] at hm
  obtain ⟨r0, hr0, rfl⟩ := hm
  rw [hh]
  exact removeIdx_length_congr d r0 t.header 0 (hr r0 hr0)

theorem rename_rect (old new : String) (t t' : Table) (hr : t.Rect) (hk : renameColumnImpl old new t = .ok t') : t'.Rect := by
  obtain ⟨i, _, _, _, hrows, hl, _, _⟩ := rename_spec old new t t' hk
  intro r hm
  rw [hrows] at hm
  rw [hl]; exact hr r hm

/-- a CREATE TABLE … AS SELECT hands over records of the SELECT's width (what `Select` returns) -/
def QueryWF (ts : Tables) : Stmt → Prop
  | .create _ _ (some q) => ∀ r, Except.ok r ∈ q.2 ts → r.length = q.1
  | _ => True

theorem updateTargets_rect (ts : Tables) (froms : List String) (view : List JRow) (sets : List (String × SetItem (List Row)))
    (hr : AllRect ts) : ∀ (targets : List String) (outs : List Out),
    updateTargets ts froms view sets targets = .ok outs → ∀ o ∈ outs, o.table.Rect := by
  intro targets
  induction targets with
  | nil => intro outs h o ho; simp [updateTargets] at h; subst h; cases ho
  | cons tn rest ih =>
    intro outs h o ho
    unfold updateTargets at h
    cases hg : getCopy ts tn with
    | error e => simp [hg] at h
    | ok t =>
      simp only [hg] at h
      cases hp : firstIdx tn froms with
      | none => simp [hp] at h
      | some p =>
        simp only [hp] at h
        split at h
        · cases h
        · rename_i t' n hu
          cases hrest : updateTargets ts froms view sets rest with
          | error e => simp [hrest] at h
          | ok outs' =>
            simp only [hrest] at h
            cases h
            cases ho with
            | head => exact updateCore_rect _ _ t t' n (getCopy_rect ts tn t hr hg) hu
            | tail _ hm => exact ih outs' hrest o hm

theorem deleteTargets_rect (ts : Tables) (froms : List String) (view : List JRow) (hr : AllRect ts) :
    ∀ (targets : List String) (outs : List Out),
    deleteTargets ts froms view targets = .ok outs → ∀ o ∈ outs, o.table.Rect := by
  intro targets
  induction targets with
  | nil => intro outs h o ho; simp [deleteTargets] at h; subst h; cases ho
  | cons tn rest ih =>
    intro outs h o ho
    unfold deleteTargets at h
    cases hg : getCopy ts tn with
    | error e => simp [hg] at h
    | ok t =>
      simp only [hg] at h
      cases hp : firstIdx tn froms with
      | none => simp [hp] at h
      | some p =>
        simp only [hp] at h
        cases hrest : deleteTargets ts froms view rest with
        | error e => simp [hrest] at h
        | ok outs' =>
          simp only [hrest] at h
          cases h
          cases ho with
          | head => exact deleteCore_rect _ t (getCopy_rect ts tn t hr hg)
          | tail _ hm => exact ih outs' hrest o hm

theorem body_rect (ts : Tables) (st : Stmt) (outs : List Out) (hr : AllRect ts) (hq : QueryWF ts st)
    (hk : body ts st = .ok outs) : ∀ o ∈ outs, o.table.Rect := by
  cases st with
  | insert tbl fields src =>
    simp only [body] at hk
    cases hg : getCopy ts tbl with
    | error e => simp [hg] at hk
    | ok t =>
      simp only [hg] at hk
      split at hk
      · cases hk
      · rename_i t' n hi
        cases hk
        intro o ho
        simp at ho; subst ho
        exact insert_rect _ _ t t' n (getCopy_rect ts tbl t hr hg) hi
  | replace keq tbl fields keys src =>
    simp only [body] at hk
    cases hg : getCopy ts tbl with
    | error e => simp [hg] at hk
    | ok t =>
      simp only [hg] at hk
      split at hk
      · cases hk
      · rename_i t' n hi
        cases hk
        intro o ho
        simp at ho; subst ho
        exact replace_rect keq _ _ _ t t' n (getCopy_rect ts tbl t hr hg) hi
  | update tbl cond sets =>
    simp only [body] at hk
    cases hg : getCopy ts tbl with
    | error e => simp [hg] at hk
    | ok t =>
      simp only [hg] at hk
      split at hk
      · cases hk
      · rename_i t' n hi
        cases hk
        intro o ho
        simp at ho; subst ho
        exact update_rect _ _ t t' n (getCopy_rect ts tbl t hr hg) hi
  | delete tbl cond =>
    simp only [body] at hk
    cases hg : getCopy ts tbl with
    | error e => simp [hg] at hk
    | ok t =>
      simp only [hg] at hk
      split at hk
      · cases hk
      · rename_i t' n hi
        cases hk
        intro o ho
        simp at ho; subst ho
        exact delete_rect _ t t' n (getCopy_rect ts tbl t hr hg) hi
  | updateMulti targets froms join cond sets =>
    simp only [body] at hk
    cases hj : joinedView ts froms join cond with
    | error e => simp [hj] at hk
    | ok view =>
      simp only [hj] at hk
      split at hk
      · cases hk
      · exact updateTargets_rect ts froms _ sets hr targets outs hk
  | deleteMulti targets froms join cond =>
    simp only [body] at hk
    cases hj : joinedView ts froms join cond with
    | error e => simp [hj] at hk
    | ok view =>
      simp only [hj] at hk
      exact deleteTargets_rect ts froms _ hr targets outs hk
  | addCols tbl pos cols =>
    simp only [body] at hk
    cases hg : getCopy ts tbl with
    | error e => simp [hg] at hk
    | ok t =>
      simp only [hg] at hk
      split at hk
      · cases hk
      · rename_i t' n hi
        cases hk
        intro o ho
        simp at ho; subst ho
        exact addcols_rect _ _ t t' n (getCopy_rect ts tbl t hr hg) hi
  | dropCols tbl cols =>
    simp only [body] at hk
    cases hg : getCopy ts tbl with
    | error e => simp [hg] at hk
    | ok t =>
      simp only [hg] at hk
      split at hk
      · cases hk
      · rename_i t' n hi
        cases hk
        intro o ho
        simp at ho; subst ho
        exact dropcols_rect _ t t' n (getCopy_rect ts tbl t hr hg) hi
  | rename tbl old new =>
    simp only [body] at hk
    cases hg : getCopy ts tbl with
    | error e => simp [hg] at hk
    | ok t =>
      simp only [hg] at hk
      split at hk
      · cases hk
      · rename_i t' hi
        cases hk
        intro o ho
        simp at ho; subst ho
        exact rename_rect _ _ t t' (getCopy_rect ts tbl t hr hg) hi
  | create tbl cols query =>
    simp only [body] at hk
    cases hl : lookupT ts tbl with
    | some t0 => simp [hl] at hk
    | none =>
      simp only [hl] at hk
      cases query with
      | none =>
        simp only at hk
        split at hk
        · cases hk
          intro o ho
          simp at ho; subst ho
          intro r hm; cases hm
        · cases hk
      | some q =>
        obtain ⟨w, src⟩ := q
        simp only at hk
        cases ha : allOk (src ts) with
        | error e => simp [ha] at hk
        | ok rows =>
          simp only [ha] at hk
          split at hk
          · cases hk
          · rename_i hw
            split at hk
            · cases hk
              intro o ho
              simp at ho; subst ho
              intro r hm
              have := (allOk_ok _ _ ha).2 r hm
              have hl := hq r this
              simp only at hl
              rw [hl]; simpa using hw
            · cases hk

/-- every statement — whether it succeeds or fails — leaves all tables of the transaction rectangular -/
theorem rect_preserved (s : State) (st : Stmt) (hr : AllRect s.tables) (hq : QueryWF s.tables st) :
    AllRect (stmtImpl s st).1.tables := by
  unfold stmtImpl
  cases hb : body s.tables st with
  | error e => exact hr
  | ok outs => exact publish_rect outs s.tables hr (body_rect s.tables st outs hr hq hb)

/-! ## histories: folding the per-statement specifications = folding the implementation model -/

theorem table_eq (a b : Table) (h1 : a.header = b.header) (h2 : a.rows = b.rows) : a = b := by
  cases a; cases b; simp_all

theorem getCopy_lookup (ts : Tables) (n : String) (t : Table) (h : getCopy ts n = .ok t) : lookupT ts n = some t := by
  unfold getCopy at h
  cases hl : lookupT ts n with
  | none => simp [hl] at h
  | some t0 => simp only [hl] at h; cases h; rfl

theorem updateTargets_publish (ts : Tables) (froms : List String) (join : Join) (cond : List Row → Except Err Tern)
    (view : List JRow) (sets : List (String × SetItem (List Row))) (hv : viewOf ts froms join cond = view) :
    ∀ (targets : List String) (outs : List Out) (acc : Tables),
    updateTargets ts froms view sets targets = .ok outs →
    publish acc outs = targets.foldl (updStepSpec ts froms join cond sets) acc := by
  intro targets
  induction targets with
  | nil => intro outs acc h; simp [updateTargets] at h; subst h; rfl
  | cons tn rest ih =>
    intro outs acc h
    unfold updateTargets at h
    cases hg : getCopy ts tn with
    | error e => simp [hg] at h
    | ok t =>
      simp only [hg] at h
      cases hp : firstIdx tn froms with
      | none => simp [hp] at h
      | some p =>
        simp only [hp] at h
        split at h
        · cases h
        · rename_i t' n hu
          cases hrest : updateTargets ts froms view sets rest with
          | error e => simp [hrest] at h
          | ok outs' =>
            simp only [hrest] at h
            cases h
            obtain ⟨u1, u2, _, _⟩ := updateCore_ok _ _ t t' n hu
            have hstep : updStepSpec ts froms join cond sets acc tn = setTable acc tn t' := by
              unfold updStepSpec
              simp only [getCopy_lookup ts tn t hg, hp]
              congr 1
              apply table_eq
              · exact u1.symm
              · rw [u2, hv]
            simp only [publish, List.foldl_cons, Bool.false_eq_true, if_false]
            rw [hstep]
            exact ih outs' _ hrest

theorem deleteTargets_publish (ts : Tables) (froms : List String) (join : Join) (cond : List Row → Except Err Tern)
    (view : List JRow) (hv : viewOf ts froms join cond = view) :
    ∀ (targets : List String) (outs : List Out) (acc : Tables),
    deleteTargets ts froms view targets = .ok outs →
    publish acc outs = targets.foldl (delStepSpec ts froms join cond) acc := by
  intro targets
  induction targets with
  | nil => intro outs acc h; simp [deleteTargets] at h; subst h; rfl
  | cons tn rest ih =>
    intro outs acc h
    unfold deleteTargets at h
    cases hg : getCopy ts tn with
    | error e => simp [hg] at h
    | ok t =>
      simp only [hg] at h
      cases hp : firstIdx tn froms with
      | none => simp [hp] at h
      | some p =>
        simp only [hp] at h
        cases hrest : deleteTargets ts froms view rest with
        | error e => simp [hrest] at h
        | ok outs' =>
          simp only [hrest] at h
          cases h
          have hstep : delStepSpec ts froms join cond acc tn =
              setTable acc tn (deleteCore (List.map (jid p) view) t).1 := by
            unfold delStepSpec
            simp only [getCopy_lookup ts tn t hg, hp]
            rw [hv]
            rfl
          simp only [publish, List.foldl_cons, Bool.false_eq_true, if_false]
          rw [hstep]
          exact ih outs' _ hrest

/-- a successful statement turns the tables into what the per-statement specifications say -/
theorem stmt_spec (ts : Tables) (st : Stmt) (outs : List Out) (hk : body ts st = .ok outs) :
    publish ts outs = specTables ts st := by
  cases st with
  | insert tbl fields src =>
    simp only [body] at hk
    cases hg : getCopy ts tbl with
    | error e => simp [hg] at hk
    | ok t =>
      simp only [hg] at hk
      split at hk
      · cases hk
      · rename_i t' n hi
        cases hk
        obtain ⟨vals, h1, _, h3, h4, _⟩ := insert_spec _ _ _ _ _ hi
        simp only [publish, specTables, getCopy_lookup ts tbl t hg, Bool.false_eq_true, if_false]
        congr 1
        apply table_eq
        · exact h3
        · rw [h4, h1, okRows_map_ok]
  | replace keq tbl fields keys src =>
    simp only [body] at hk
    cases hg : getCopy ts tbl with
    | error e => simp [hg] at hk
    | ok t =>
      simp only [hg] at hk
      split at hk
      · cases hk
      · rename_i t' n hi
        cases hk
        obtain ⟨vals, fidx, kidx, h1, _, hfi, hki, _, hh, hrows, _⟩ := replace_spec keq _ _ _ t t' n hi
        simp only [publish, specTables, getCopy_lookup ts tbl t hg, Bool.false_eq_true, if_false]
        congr 1
        have e1 : idxOf t.header keys = kidx := by
          unfold idxOf
          have : fieldIndices t.header keys = .ok kidx := by
            unfold replaceImpl at hi
            cases hc : convertList (fields.getD t.header).length (src ts) with
            | error e => simp [hc] at hi
            | ok v0 =>
              simp only [hc] at hi
              cases hf : fieldIndices t.header (fields.getD t.header) with
              | error e => simp [hf] at hi
              | ok f0 =>
                simp only [hf] at hi
                cases hkx : fieldIndices t.header keys with
                | error e => simp [hkx] at hi
                | ok k0 =>
                  have := fieldIndices_ok _ _ _ hkx
                  congr 1
                  exact indicesOf_unique this hki
          rw [this]
        have e2 : idxOf t.header (fields.getD t.header) = fidx := by
          unfold idxOf
          have : fieldIndices t.header (fields.getD t.header) = .ok fidx := by
            unfold replaceImpl at hi
            cases hc : convertList (fields.getD t.header).length (src ts) with
            | error e => simp [hc] at hi
            | ok v0 =>
              simp only [hc] at hi
              cases hf : fieldIndices t.header (fields.getD t.header) with
              | error e => simp [hf] at hi
              | ok f0 =>
                have := fieldIndices_ok _ _ _ hf
                congr 1
                exact indicesOf_unique this hfi
          rw [this]
        apply table_eq
        · exact hh
        · rw [hrows, e1, e2, h1, okRows_map_ok]
  | update tbl cond sets =>
    simp only [body] at hk
    cases hg : getCopy ts tbl with
    | error e => simp [hg] at hk
    | ok t =>
      simp only [hg] at hk
      split at hk
      · cases hk
      · rename_i t' n hi
        cases hk
        obtain ⟨h1, h2, _, _⟩ := update_spec _ _ t t' n hi
        simp only [publish, specTables, getCopy_lookup ts tbl t hg, Bool.false_eq_true, if_false]
        congr 1
        exact table_eq _ _ h1 h2
  | delete tbl cond =>
    simp only [body] at hk
    cases hg : getCopy ts tbl with
    | error e => simp [hg] at hk
    | ok t =>
      simp only [hg] at hk
      split at hk
      · cases hk
      · rename_i t' n hi
        cases hk
        obtain ⟨h1, h2, _, _⟩ := delete_spec _ t t' n hi
        simp only [publish, specTables, getCopy_lookup ts tbl t hg, Bool.false_eq_true, if_false]
        congr 1
        exact table_eq _ _ h1 h2
  | updateMulti targets froms join cond sets =>
    simp only [body] at hk
    cases hj : joinedView ts froms join cond with
    | error e => simp [hj] at hk
    | ok view =>
      simp only [hj] at hk
      split at hk
      · cases hk
      · have hv : viewOf ts froms join cond = view.map Prod.snd := by simp [viewOf, hj]
        simp only [specTables]
        exact updateTargets_publish ts froms join cond _ sets hv targets outs ts hk
  | deleteMulti targets froms join cond =>
    simp only [body] at hk
    cases hj : joinedView ts froms join cond with
    | error e => simp [hj] at hk
    | ok view =>
      simp only [hj] at hk
      have hv : viewOf ts froms join cond = view.map Prod.snd := by simp [viewOf, hj]
      simp only [specTables]
      exact deleteTargets_publish ts froms join cond _ hv targets outs ts hk
  | addCols tbl pos cols =>
    simp only [body] at hk
    cases hg : getCopy ts tbl with
    | error e => simp [hg] at hk
    | ok t =>
      simp only [hg] at hk
      split at hk
      · cases hk
      · rename_i t' n hi
        cases hk
        obtain ⟨p, hp, _, hh, hrows, _, _, _, _⟩ := addcols_spec _ _ t t' n hi
        simp only [publish, specTables, getCopy_lookup ts tbl t hg, Bool.false_eq_true, if_false]
        congr 1
        have : posOf t.header pos = p := by simp [posOf, hp]
        rw [this]
        exact table_eq _ _ hh hrows
  | dropCols tbl cols =>
    simp only [body] at hk
    cases hg : getCopy ts tbl with
    | error e => simp [hg] at hk
    | ok t =>
      simp only [hg] at hk
      split at hk
      · cases hk
      · rename_i t' n hi
        cases hk
        simp only [publish, specTables, getCopy_lookup ts tbl t hg, Bool.false_eq_true, if_false]
        congr 1
        unfold dropColumnsImpl at hi
        cases hf : fieldIndices t.header cols with
        | error e => simp [hf] at hi
        | ok idx =>
          simp only [hf] at hi
          cases hi
          simp [idxOf, hf]
  | rename tbl old new =>
    simp only [body] at hk
    cases hg : getCopy ts tbl with
    | error e => simp [hg] at hk
    | ok t =>
      simp only [hg] at hk
      split at hk
      · cases hk
      · rename_i t' hi
        cases hk
        obtain ⟨i, hc, _, hh, hrows, _, _, _⟩ := rename_spec _ _ t t' hi
        simp only [publish, specTables, getCopy_lookup ts tbl t hg, Bool.false_eq_true, if_false]
        congr 1
        have : colOf t.header old = i := by simp [colOf, hc]
        rw [this]
        exact table_eq _ _ hh hrows
  | create tbl cols query =>
    simp only [body] at hk
    cases hl : lookupT ts tbl with
    | some t0 => simp [hl] at hk
    | none =>
      simp only [hl] at hk
      cases query with
      | none =>
        simp only at hk
        split at hk
        · cases hk; simp [publish, specTables]
        · cases hk
      | some q =>
        obtain ⟨w, src⟩ := q
        simp only at hk
        cases ha : allOk (src ts) with
        | error e => simp [ha] at hk
        | ok rows =>
          simp only [ha] at hk
          split at hk
          · cases hk
          · split at hk
            · cases hk
              simp [publish, specTables, (allOk_ok _ _ ha).1]
            · cases hk

/-- history: for every statement list, the tables after running the implementation model are the fold of the
    per-statement specifications over the statements that reported success (failed ones change nothing) -/
theorem history_spec (stmts : List Stmt) : ∀ (s : State),
    (run s stmts).tables = runSpec s.tables stmts (outcomes s stmts) := by
  induction stmts with
  | nil => intro s; rfl
  | cons st rest ih =>
    intro s
    simp only [run, outcomes]
    rw [ih]
    unfold stmtImpl
    cases hb : body s.tables st with
    | error e => simp [runSpec, Result.isError]
    | ok outs =>
      simp only [runSpec, Result.isError, Bool.not_false]
      rw [stmt_spec s.tables st outs hb]

/-! ## the write-back of the Go functions, REGENERATED on every run (extract/dmlfacts → Csvq/Gen/DmlFacts.lean)

  The model's `publish` replaces the table the statement NAMED (`setTable ts o.name o.table`) with the working copy, for
  every kind of table.  Over the effect lists translated from the current lib/query/query.go: -/

/-- the single-table functions store back the very view the load returned, the multi-table ones the copies `v` of the
    tables their name list resolved to -/
theorem gen_writeback_target :
    Csvq.Skeleton.publishArgs Csvq.Gen.fxInsert = ["view", "view"] ∧ Csvq.Skeleton.publishArgs Csvq.Gen.fxReplace = ["view", "view"] ∧
    Csvq.Skeleton.publishArgs Csvq.Gen.fxAddColumns = ["view", "view"] ∧ Csvq.Skeleton.publishArgs Csvq.Gen.fxDropColumns = ["view", "view"] ∧
    Csvq.Skeleton.publishArgs Csvq.Gen.fxRenameColumn = ["view", "view"] ∧ Csvq.Skeleton.publishArgs Csvq.Gen.fxSetTableAttribute = ["view"] ∧
    Csvq.Skeleton.publishArgs Csvq.Gen.fxCreateTable = ["view"] ∧
    Csvq.Skeleton.publishArgs Csvq.Gen.fxUpdate = ["v", "v"] ∧ Csvq.Skeleton.publishArgs Csvq.Gen.fxDelete = ["v", "v"] ∧
    (["loop(viewsToUpdate){", "restore_header(v)"] <:+: Csvq.Gen.fxUpdate) ∧
    (["loop(viewsToDelete){", "loop(v.RecordSet){"] <:+: Csvq.Gen.fxDelete) ∧
    (["loop(query.Tables){", "resolve_name"] <:+: Csvq.Gen.fxUpdate) ∧
    (["loop(query.Tables){", "if{", "return", "}", "resolve_name"] <:+: Csvq.Gen.fxDelete) := by decide

/-- … to the place that belongs to the table's kind — in memory (temporary table AND stdin): the block that declared it
    (`ReplaceTemporaryTable`, never the innermost block); file: the transaction's cache — by the same guard in all seven
    functions (the seeds C05-m3 and C05-m6 each changed one of these eight tokens in one function) -/
theorem gen_writeback_by_table_kind :
    (["if(inMemory){", "publish_temp(view)", "}", "else{", "if(isFile){", "publish_file(view)", "}", "}", "return"] <:+ Csvq.Gen.fxInsert) ∧
    (["if(inMemory){", "publish_temp(view)", "}", "else{", "if(isFile){", "publish_file(view)", "}", "}", "return"] <:+ Csvq.Gen.fxReplace) ∧
    (["if(inMemory){", "publish_temp(view)", "}", "else{", "if(isFile){", "publish_file(view)", "}", "}", "return"] <:+ Csvq.Gen.fxAddColumns) ∧
    (["if(inMemory){", "publish_temp(view)", "}", "else{", "if(isFile){", "publish_file(view)", "}", "}", "return"] <:+ Csvq.Gen.fxDropColumns) ∧
    (["if(inMemory){", "publish_temp(view)", "}", "else{", "if(isFile){", "publish_file(view)", "}", "}", "return"] <:+ Csvq.Gen.fxRenameColumn) ∧
    (["if(inMemory){", "publish_temp(v)", "}", "else{", "if(isFile){", "publish_file(v)", "}", "}", "}", "return"] <:+ Csvq.Gen.fxUpdate) ∧
    (["if(inMemory){", "publish_temp(v)", "}", "else{", "if(isFile){", "publish_file(v)", "}", "}", "}", "return"] <:+ Csvq.Gen.fxDelete) := by decide

/-- UPDATE and DELETE load WITH internal record ids and write back by id; the others load without; every load is for update -/
theorem gen_load_modes :
    "load(forUpdate=true,ids=true)" ∈ Csvq.Gen.fxUpdate ∧ "load(forUpdate=true,ids=true)" ∈ Csvq.Gen.fxDelete ∧
    "load(forUpdate=true,ids=false)" ∈ Csvq.Gen.fxInsert ∧ "load(forUpdate=true,ids=false)" ∈ Csvq.Gen.fxReplace ∧
    "load(forUpdate=true,ids=false)" ∈ Csvq.Gen.fxAddColumns ∧ "load(forUpdate=true,ids=false)" ∈ Csvq.Gen.fxDropColumns ∧
    "load(forUpdate=true,ids=false)" ∈ Csvq.Gen.fxRenameColumn ∧
    (["internal_id", "if(err){", "return", "}"] <:+: Csvq.Gen.fxUpdate) ∧ "internal_id" ∈ Csvq.Gen.fxDelete := by decide

/-- the reported counts: what each function returns on success and where that number comes from (the count of the
    insert / replace helper; per table the number of distinct record ids written / removed; the number of distinct
    dropped columns), and that processor.go stores exactly it (the sum over the tables for the multi-table forms) -/
theorem gen_count_sources :
    Csvq.Gen.retInsert = "view.FileInfo;insertRecords;err" ∧ Csvq.Gen.retReplace = "view.FileInfo;replaceRecords;err" ∧
    Csvq.Gen.retUpdate = "fileInfos;updateRecords;nil" ∧ Csvq.Gen.retDelete = "fileInfos;deletedCounts;nil" ∧
    Csvq.Gen.retAddColumns = "view.FileInfo;len(fields);err" ∧ Csvq.Gen.retDropColumns = "view.FileInfo;dropIndices.Len();err" ∧
    Csvq.Gen.countSources = Csvq.Ref.countSources ∧
    "updateRecords:=append(updateRecords,updatedCount[k])" ∈ Csvq.Gen.countSources ∧
    "deletedCounts:=append(deletedCounts,len(deletedIndices[k]))" ∈ Csvq.Gen.countSources ∧
    (["if{", "count_record", "}"] <:+: Csvq.Gen.fxUpdate) ∧
    "store_affected(cnt)" ∈ Csvq.Gen.fxProcInsertQuery ∧ "store_affected(cnt)" ∈ Csvq.Gen.fxProcReplaceQuery ∧
    "store_affected(cntTotal)" ∈ Csvq.Gen.fxProcUpdateQuery ∧ "store_affected(cntTotal)" ∈ Csvq.Gen.fxProcDeleteQuery := by decide

/-- the model publishes to the named table whatever its kind: after a successful statement the entry of every target
    holds the working copy, all other entries are untouched -/
theorem model_publish_targets_named_table (ts : Tables) (n : String) (t : Table) :
    (∀ m, m ≠ n → lookupT (setTable ts n t) m = lookupT ts m) ∧
    (∀ t0, lookupT ts n = some t0 → lookupT (setTable ts n t) n = some t) := by
  constructor
  · intro m hm; exact lookupT_setTable_ne ts n m t (fun e => hm e.symm)
  · induction ts with
    | nil => intro t0 h; simp [lookupT] at h
    | cons e rest ih =>
      intro t0 h
      unfold lookupT at h
      unfold setTable
      split at h
      · rename_i he; simp [he, lookupT]
      · rename_i he
        simp only [he, if_false]
        unfold lookupT
        simp only [he, if_false]
        exact ih t0 h

/-! ## REPLACE's key equivalence, REGENERATED from lib/query/sort_value.go on every run (extract/sortfacts)

  `replaceImpl` takes the key equivalence as a parameter; the correspondence driver instantiates it with
  `SortVal.equiv` on `NewSortValue` of the key cells.  That this IS `SortValue.EquivalentTo` of the current source: -/

/-- `SortValue.EquivalentTo` as translated from the source equals the model's `SortVal.equiv` -/
theorem gen_replace_key_equiv (a b : SortVal) : Csvq.Gen.sortEquiv a.toSV b.toSV = a.equiv b := by
  cases a <;> cases b <;> simp only [Csvq.Gen.sortEquiv, SortVal.toSV, SortVal.equiv] <;> (try simp) <;>
    (try (rename_i x y; cases x <;> cases y <;> simp)) <;> (try (rename_i x _ _ _; cases x <;> simp <;> exact BEq.comm))

/-- two INTEGER keys are equivalent exactly when they are the same integer — whatever their float images, so keys
    beyond 2^53 that differ only in the low bits are different keys (seed C05-m14 compared the float images) -/
theorem gen_integer_keys_exact (i j : Int) (f g : FVal) (s t : Bytes) :
    Csvq.Gen.sortEquiv (SortVal.int i f s).toSV (SortVal.int j g t).toSV = (i == j) := by
  rw [gen_replace_key_equiv]; rfl

/-- 9007199254740993 and 9007199254740992 (same float64 image, 2^53) are different REPLACE keys, whatever float image
    and text NewSortValue stored for them -/
theorem gen_adjacent_big_keys_differ (f g : FVal) (s t : Bytes) :
    Csvq.Gen.sortEquiv (SortVal.int 9007199254740993 f s).toSV (SortVal.int 9007199254740992 g t).toSV = false := by
  rw [gen_integer_keys_exact]; decide

/-! ## multi-table DELETE / UPDATE over OUTER joins

  `DELETE b FROM a LEFT JOIN b ON …`: a record of `a` without partner is joined with a NULL-padded record of `b`,
  whose internal record id is NULL too (`jid … = none`).  Such joined records may stand anywhere in the view —
  first, between matched ones, last. -/

/-- a joined record without an id for the target is passed over wherever it stands: the ids collected are those of
    the other records, in the same order (Delete's `continue`, not `break`) -/
theorem collectIds_padded_anywhere (l₁ l₂ : List (Option Nat)) (acc : List Nat) :
    collectIds (l₁ ++ none :: l₂) acc = collectIds (l₁ ++ l₂) acc := by
  induction l₁ generalizing acc with
  | nil => simp [collectIds]
  | cons o rest ih =>
    cases o with
    | none => simp only [List.cons_append, collectIds]; exact ih acc
    | some i => simp only [List.cons_append, collectIds]; exact ih _

/-- multi-table DELETE: the new table and the reported count do not depend on padded records, whatever their position -/
theorem delete_passes_over_padded_records (l₁ l₂ : List (Option Nat)) (t : Table) :
    deleteCore (l₁ ++ none :: l₂) t = deleteCore (l₁ ++ l₂) t := by
  simp [deleteCore, collectIds_padded_anywhere]

/-- DELETE through ANY joined view (cross, inner, outer): record `j` of the target is removed iff some joined record
    carries its id; the others keep their order; the count is the number of distinct ids -/
theorem delete_view_spec (ids : List (Option Nat)) (t : Table) :
    (deleteCore ids t).1.header = t.header ∧
    (deleteCore ids t).1.rows =
      ((t.rows.zip (List.range t.rows.length)).filter (fun q => !decide (some q.2 ∈ ids))).map Prod.fst ∧
    (∀ x, x ∈ collectIds ids [] ↔ some x ∈ ids) ∧ (collectIds ids []).Nodup ∧
    (deleteCore ids t).2 = (collectIds ids []).length := by
  have hm : ∀ x, x ∈ collectIds ids [] ↔ some x ∈ ids := by
    intro x
    have := mem_collectIds ids [] x
    simpa using this
  refine ⟨rfl, ?_, hm, nodup_collectIds ids [] List.nodup_nil, rfl⟩
  show removeIdx (collectIds ids []) t.rows 0 = _
  rw [removeIdx_eq_filter_zip]
  congr 1
  apply List.filter_congr
  intro q _
  by_cases h : some q.2 ∈ ids
  · simp [h, (hm q.2).2 h]
  · have : q.2 ∉ collectIds ids [] := fun hc => h ((hm q.2).1 hc)
    simp [h, this]

/-- multi-table UPDATE: a SET item of a target that is NULL-padded in the joined record is refused ("value ambiguous"),
    after its value was evaluated and its column found — the statement fails, nothing is published (C08) -/
theorem update_refuses_padded_target {ρ : Type} (h : List String) (ctx : ρ) (s : SetItem ρ) (ss : List (SetItem ρ))
    (st : UpdSt) (v : Cell) (j : Nat) (hv : s.expr ctx = .ok v) (hj : colIndex h s.field = .ok j) :
    (applySets h none ctx (s :: ss) st).toOption = none ∧
    (match applySets h none ctx (s :: ss) st with | .error e => e.code | .ok _ => 0) = 12202 := by
  simp [applySets, hv, hj, Except.toOption, Err.code]

theorem partners_subset (on : Row → Except Err Tern) : ∀ (inner ms : List (Option Nat × Row)),
    partners on inner = .ok ms → ∀ j ∈ ms, j ∈ inner := by
  intro inner
  induction inner with
  | nil => intro ms h j hj; simp [partners] at h; subst h; cases hj
  | cons x xs ih =>
    intro ms h j hj
    unfold partners at h
    cases hc : on x.2 with
    | error e => simp [hc] at h
    | ok c =>
      simp only [hc] at h
      cases hr : partners on xs with
      | error e => simp [hr] at h
      | ok ms' =>
        simp only [hr] at h
        cases h
        by_cases ht : isT c = true
        · simp only [ht, if_true] at hj
          cases hj with
          | head => exact List.mem_cons_self
          | tail _ hm => exact List.mem_cons_of_mem _ (ih ms' hr j hm)
        · simp only [ht] at hj
          exact List.mem_cons_of_mem _ (ih ms' hr j hj)

/-- outer join: EVERY record of the preserved side is in the joined view — with a partner of the other table, or once
    with the padded record (which has no id) -/
theorem outer_join_keeps_preserved_side (on : Row → Row → Except Err Tern)
    (mk : (Option Nat × Row) → (Option Nat × Row) → JRow) (pad : Option Nat × Row) (inner : List (Option Nat × Row)) :
    ∀ (outerL : List (Option Nat × Row)) (recs : List JRow), outerLoop on mk pad inner outerL = .ok recs →
    ∀ o ∈ outerL, (∃ j ∈ inner, mk o j ∈ recs) ∨ mk o pad ∈ recs := by
  intro outerL
  induction outerL with
  | nil => intro recs _ o ho; cases ho
  | cons x xs ih =>
    intro recs h o ho
    unfold outerLoop at h
    cases hp : partners (on x.2) inner with
    | error e => simp [hp] at h
    | ok ms =>
      simp only [hp] at h
      cases hr : outerLoop on mk pad inner xs with
      | error e => simp [hr] at h
      | ok rest =>
        simp only [hr] at h
        cases h
        cases ho with
        | head =>
          cases ms with
          | nil => right; simp
          | cons m ms' =>
            left
            refine ⟨m, partners_subset _ _ _ hp m List.mem_cons_self, ?_⟩
            simp
        | tail _ hm =>
          rcases ih rest hr o hm with ⟨j, hj, hmem⟩ | hmem
          · left; exact ⟨j, hj, List.mem_append_right _ hmem⟩
          · right; exact List.mem_append_right _ hmem

/-! ## multi-table UPDATE over USING / NATURAL joins: the write-back goes by the TABLE's header, not by the joined view's layout

  joinViews moves the merged columns of a USING / NATURAL join to the front of the joined view and drops both originals
  (`joinedLayout`): behind it, a table's columns no longer follow its internal-id column one by one.  Update resolves the SET
  column in the joined view only to find its TABLE (FieldViewName); the position it writes is looked up in that table's own
  header (`viewsToUpdate[ref].Header.SearchIndex`).  Seed C05-m17 took "position in the joined view − position of the id
  column − 1" instead: one column too far left behind every join column. -/

theorem updateTargets_frame (ts : Tables) (froms : List String) (view : List JRow) (sets : List (String × SetItem (List Row))) :
    ∀ (targets : List String) (outs : List Out), updateTargets ts froms view sets targets = .ok outs →
    ∀ o ∈ outs, ∃ t, lookupT ts o.name = some t ∧ o.table.header = t.header ∧ o.table.rows.length = t.rows.length ∧
      ∀ i j, cellAt o.table.rows i j ≠ cellAt t.rows i j →
        ∃ s ∈ sets, s.1 = o.name ∧ colIndex t.header s.2.field = .ok j := by
  intro targets
  induction targets with
  | nil => intro outs h o ho; simp [updateTargets] at h; subst h; cases ho
  | cons tn rest ih =>
    intro outs h o ho
    unfold updateTargets at h
    cases hg : getCopy ts tn with
    | error e => simp [hg] at h
    | ok t =>
      simp only [hg] at h
      cases hp : firstIdx tn froms with
      | none => simp [hp] at h
      | some p =>
        simp only [hp] at h
        split at h
        · cases h
        · rename_i t' n hu
          cases hrest : updateTargets ts froms view sets rest with
          | error e => simp [hrest] at h
          | ok outs' =>
            simp only [hrest] at h
            cases h
            cases ho with
            | tail _ hm => exact ih outs' hrest o hm
            | head =>
              obtain ⟨u1, u2, _, _⟩ := updateCore_ok _ _ t t' n hu
              obtain ⟨hl, hf⟩ := update_view_frame t.header (List.map Prod.snd (sets.filter fun s => s.1 = tn))
                (List.map (fun jr => (jid p jr, jctx jr)) view) t.rows
              refine ⟨t, getCopy_lookup ts tn t hg, u1, by simp only; rw [u2]; exact hl, ?_⟩
              intro i j hne
              simp only at hne
              rw [u2] at hne
              obtain ⟨_, s, hs, hc⟩ := hf i j hne
              obtain ⟨s0, hs0, rfl⟩ := List.mem_map.mp hs
              have hmem := List.mem_filter.mp hs0
              exact ⟨s0, hmem.1, by simpa using hmem.2, hc⟩

/-- WHATEVER THE JOIN — cross, ON, LEFT / RIGHT / FULL, USING, NATURAL, i.e. whatever the layout of the joined view —: a
    successful multi-table UPDATE keeps every target's header and number of records, and a cell (record i, column j) of a
    target differs from before only if j is the position IN THAT TABLE'S HEADER of a column named by a SET item of that table -/
theorem update_writes_named_column_any_join (ts : Tables) (targets froms : List String) (join : Join)
    (cond : List Row → Except Err Tern) (sets : List (String × SetItem (List Row))) (outs : List Out)
    (hk : body ts (.updateMulti targets froms join cond sets) = .ok outs) :
    ∀ o ∈ outs, ∃ t, lookupT ts o.name = some t ∧ o.table.header = t.header ∧ o.table.rows.length = t.rows.length ∧
      ∀ i j, cellAt o.table.rows i j ≠ cellAt t.rows i j →
        ∃ s ∈ sets, s.1 = o.name ∧ colIndex t.header s.2.field = .ok j := by
  simp only [body] at hk
  cases hj : joinedView ts froms join cond with
  | error e => simp [hj] at hk
  | ok view =>
    simp only [hj] at hk
    split at hk
    · cases hk
    · exact updateTargets_frame ts froms _ sets targets outs hk

/-- the layout of the joined view of `a(id, x, k, y) JOIN b(k, p) USING (k)`, and why a position in it is not a position in
    the table: `a.y` stands at 4, a's id column at 1 — 4 − 1 − 1 = 2 is the position of `k` in a's header, `y` is at 3
    (the rule of C05-m17 writes `y`'s value into `k`); without USING the same arithmetic happens to be right -/
theorem joined_position_is_not_table_position :
    joinedLayout "a" "b" ["id", "x", "k", "y"] ["k", "p"] ["k"] =
      [("", "k"), ("a", idColumn), ("a", "id"), ("a", "x"), ("a", "y"), ("b", idColumn), ("b", "p")] ∧
    firstIdx ("a", "y") (joinedLayout "a" "b" ["id", "x", "k", "y"] ["k", "p"] ["k"]) = some 4 ∧
    firstIdx ("a", idColumn) (joinedLayout "a" "b" ["id", "x", "k", "y"] ["k", "p"] ["k"]) = some 1 ∧
    (colIndex ["id", "x", "k", "y"] "y").toOption = some 3 ∧ (colIndex ["id", "x", "k", "y"] "k").toOption = some 2 ∧
    -- before the join column the arithmetic agrees, behind it it is one too small
    firstIdx ("a", "x") (joinedLayout "a" "b" ["id", "x", "k", "y"] ["k", "p"] ["k"]) = some 3 ∧
    (colIndex ["id", "x", "k", "y"] "x").toOption = some 1 ∧
    -- without merged columns (cross / ON joins) every column of `a` stands at 1 + its header position
    (["id", "x", "k", "y"].map fun c => firstIdx ("a", c) (joinedLayout "a" "b" ["id", "x", "k", "y"] ["k", "p"] [])) =
      [some 1, some 2, some 3, some 4] := by decide

/-! ## one FileInfo per table and transaction (extract/copyfacts, REGENERATED on every run)

  A data-changing statement publishes its view with the FileInfo the table was loaded with; UncommittedViews registers that
  FileInfo at the table's FIRST change and COMMIT encodes every table with the registered one.  A statement that puts a
  private COPY of the FileInfo on its view (C05-m18: AddColumns clearing the delimiter positions of a fixed-length table on a
  copy; C02-m13: SetTableAttribute on a copy) changes attributes that COMMIT never sees when it is a LATER change of the
  transaction. -/

open Csvq.CopySites Csvq.CopyDepth in
/-- no data-changing function (nor a view method it calls) makes a struct copy of a FileInfo, and the only assignment that
    gives a view another FileInfo is CreateTable's (a new table: nothing registered yet); the one struct copy in lib/query is
    loadView's, for the RESULT OF A SUB-QUERY (F46: it must not rewrite the FileInfo of the table it was read from) -/
theorem no_fileinfo_copy_installed_on_cached_view :
    fileInfoProblems Csvq.Gen.fileInfoCopies Csvq.Gen.fileInfoInstalls = [] ∧
    Csvq.Gen.fileInfoCopies.map (fun w => (w.fn, w.target, w.level)) = [("loadView", "*view.FileInfo", "other")] ∧
    Csvq.Gen.fileInfoInstalls.map (fun w => (w.fn, w.target)) = [("CreateTable", "view.FileInfo")] := by decide

open Csvq.CopySites Csvq.CopyDepth in
/-- not vacuous: the shape of C05-m18 (`fileInfo := *view.FileInfo; …; view.FileInfo = &fileInfo` in AddColumns) is rejected
    with both sites named -/
theorem rejects_fileinfo_copy_in_add_columns :
    fileInfoProblems [⟨"loadView", "load_view.go", "load_view.go:408", "*view.FileInfo", "other"⟩,
                      ⟨"AddColumns", "query.go", "query.go:904", "*view.FileInfo", "dml"⟩]
                     [⟨"AddColumns", "query.go", "query.go:906", "view.FileInfo", "viewStruct"⟩,
                      ⟨"CreateTable", "query.go", "query.go:781", "view.FileInfo", "viewStruct"⟩] =
      ["AddColumns at query.go:904: struct copy *view.FileInfo of a FileInfo inside a data-changing function",
       "AddColumns at query.go:906: view.FileInfo is given another FileInfo than the one the transaction has registered"] := by decide

/-! ## non-vacuity: the hypotheses are satisfiable and the operations do something -/

def ints (t : Table) : List (List (Option Int)) := t.rows.map fun r => r.map fun c => c.int?
def intsOf (r : Except Err (Table × Nat)) : Option (List String × List (List (Option Int)) × Nat) :=
  match r with
  | .ok (t, n) => some (t.header, ints t, n)
  | .error _ => none

def errOf {α} (r : Except Err α) : Option Nat :=
  match r with
  | .ok _ => none
  | .error e => some e.code

def exT : Table := { header := ["id", "a", "b"], rows := [[cex 0, cex 5, cex 6], [cex 1, cex 7, cex 8], [cex 2, cex 9, cex 10]] }
def colI (j : Nat) : Row → Except Err Cell := fun r => match r[j]? with | some c => .ok c | none => .error .fieldNotExist
def idLt (k : Int) : Row → Except Err Tern := fun r =>
  match r[0]? with
  | some c => (match c.int? with | some i => .ok (if i < k then .T else .F) | none => .ok .U)
  | none => .error .fieldNotExist
/-- `1 / (id - k)`: fails with a division by zero exactly at the record whose id is k -/
def divAt (k : Int) : Row → Except Err Cell := fun r =>
  match r[0]? with
  | some c => (match c.int? with | some i => if i = k then .error .divZero else .ok (cex (1 / (i - k))) | none => .ok nullCell)
  | none => .error .fieldNotExist

-- INSERT (b, id) VALUES (60, 3): column mapping, the missing column `a` is NULL, count 1
example : intsOf (insertImpl ["b", "id"] [.ok [cex 60, cex 3]] exT) =
    some (["id", "a", "b"], [[some 0, some 5, some 6], [some 1, some 7, some 8], [some 2, some 9, some 10], [some 3, none, some 60]], 1) := by decide
-- wrong length in the second VALUES row: error
example : intsOf (insertImpl ["b", "id"] [.ok [cex 60, cex 3], .ok [cex 1]] exT) = none := by decide
-- UPDATE SET a = b, b = a WHERE id < 2: values come from the old record (swap); third record untouched; count 2
example : intsOf (updateImpl (idLt 2) [⟨"a", colI 2⟩, ⟨"b", colI 1⟩] exT) =
    some (["id", "a", "b"], [[some 0, some 6, some 5], [some 1, some 8, some 7], [some 2, some 9, some 10]], 2) := by decide
-- the SET expression fails at the SECOND matching record (after the first was rewritten in the working copy): error
example : intsOf (updateImpl (idLt 3) [⟨"a", divAt 1⟩] exT) = none := by decide
-- SET a = …, a = …: "value ambiguous"
example : errOf (updateImpl (idLt 3) [⟨"a", colI 2⟩, ⟨"a", colI 1⟩] exT) = some 12202 := by decide
-- an unknown SET column is only noticed when a record matches (the check sits inside the loop)
example : intsOf (updateImpl (idLt 0) [⟨"zz", colI 2⟩] exT) = some (["id", "a", "b"], ints exT, 0) := by decide
example : errOf (updateImpl (idLt 1) [⟨"zz", colI 2⟩] exT) = some 10102 := by decide
-- DELETE WHERE id < 2
example : intsOf (deleteImpl (idLt 2) exT) = some (["id", "a", "b"], [[some 2, some 9, some 10]], 2) := by decide
-- REPLACE (id, b) USING (id) VALUES (1, 80), (7, 70), (6, 60): one record matched, two appended in the given order
example : intsOf (replaceImpl cexKeq ["id", "b"] ["id"] [.ok [cex 1, cex 80], .ok [cex 7, cex 70], .ok [cex 6, cex 60]] exT) =
    some (["id", "a", "b"], [[some 0, some 5, some 6], [some 1, some 7, some 80], [some 2, some 9, some 10],
      [some 7, none, some 70], [some 6, none, some 60]], 3) := by decide
-- ALTER TABLE ADD (x DEFAULT a, y) AFTER id
example : intsOf (addColumnsImpl (.after "id") [("x", some (colI 1)), ("y", none)] exT) =
    some (["id", "x", "y", "a", "b"], [[some 0, some 5, none, some 5, some 6], [some 1, some 7, none, some 7, some 8],
      [some 2, some 9, none, some 9, some 10]], 2) := by decide
-- the DEFAULT fails at the last record
example : intsOf (addColumnsImpl .first [("x", some (divAt 2))] exT) = none := by decide
example : intsOf (dropColumnsImpl ["a", "a"] exT) = some (["id", "b"], [[some 0, some 6], [some 1, some 8], [some 2, some 10]], 1) := by decide
example : (renameColumnImpl "a" "z" exT).toOption.map (·.header) = some ["id", "z", "b"] := by decide
example : errOf (renameColumnImpl "a" "b" exT) = some 10104 := by decide
example : exT.Rect := by intro r hr; simp [exT] at hr; rcases hr with h | h | h <;> subst h <;> rfl

/-! ### outer joins: `a(id,x)` = ids 0..2, `b(id,k)` with k = 9, 2, 0 — `a LEFT JOIN b ON a.id = b.k` leaves record 1 of `a`
    without partner IN THE MIDDLE of the view; `a RIGHT JOIN b` leaves record 0 of `b` without partner FIRST -/
def ojA : Table := { header := ["id", "x"], rows := [[cex 0, cex 10], [cex 1, cex 11], [cex 2, cex 12]] }
def ojB : Table := { header := ["id", "k"], rows := [[cex 0, cex 9], [cex 1, cex 2], [cex 2, cex 0]] }
def ojTs : Tables := [("a", ojA), ("b", ojB)]
/-- `a.id = b.k` -/
def ojOn : List Row → Except Err Tern := fun rows =>
  match rows with
  | [ra, rb] => (match (ra[0]?).bind (·.int?), (rb[1]?).bind (·.int?) with
    | some i, some k => .ok (if i = k then .T else .F)
    | _, _ => .ok .U)
  | _ => .error .fieldNotExist
def ojTrue : List Row → Except Err Tern := fun _ => .ok .T
/-- names of the published tables, their records (all tables, one after the other), their counts -/
def outsOf (r : Except Err (List Out)) : Option (List String × List (List (Option Int)) × List Nat) :=
  match r with
  | .ok outs => some (outs.map (·.name), outs.flatMap (fun o => ints o.table), outs.map (·.count))
  | .error _ => none
-- the ids of `b` along the LEFT join: partner, PADDED, partner
example : ((joinedView ojTs ["a", "b"] (.outer .left ojOn) ojTrue).toOption.map fun v => v.map fun x => (jid 0 x.2, jid 1 x.2)) =
    some [(some 0, some 2), (some 1, none), (some 2, some 1)] := by decide
-- RIGHT: the unmatched record of `b` comes FIRST; FULL: LEFT, then the unmatched records of `b`
example : ((joinedView ojTs ["a", "b"] (.outer .right ojOn) ojTrue).toOption.map fun v => v.map fun x => (jid 0 x.2, jid 1 x.2)) =
    some [(none, some 0), (some 2, some 1), (some 0, some 2)] := by decide
example : ((joinedView ojTs ["a", "b"] (.outer .full ojOn) ojTrue).toOption.map fun v => v.map fun x => (jid 0 x.2, jid 1 x.2)) =
    some [(some 0, some 2), (some 1, none), (some 2, some 1), (none, some 0)] := by decide
-- DELETE b FROM a LEFT JOIN b: both matched records of `b` go, although a padded record stands between them
example : outsOf (body ojTs (.deleteMulti ["b"] ["a", "b"] (.outer .left ojOn) ojTrue)) =
    some (["b"], [[some 0, some 9]], [2]) := by decide
-- DELETE a, b FROM a RIGHT JOIN b: the padded record comes first; two records of each table go
example : outsOf (body ojTs (.deleteMulti ["a", "b"] ["a", "b"] (.outer .right ojOn) ojTrue)) =
    some (["a", "b"], [[some 1, some 11]], [2, 3]) := by decide
-- UPDATE b SET b.k = 7 FROM a LEFT JOIN b: refused at the padded record (12202); with the target on the preserved side it succeeds
example : errOf (body ojTs (.updateMulti ["b"] ["a", "b"] (.outer .left ojOn) ojTrue [("b", ⟨"k", fun _ => .ok (cex 7)⟩)])) = some 12202 := by decide
example : outsOf (body ojTs (.updateMulti ["a"] ["a", "b"] (.outer .left ojOn) ojTrue [("a", ⟨"x", fun _ => .ok (cex 7)⟩)])) =
    some (["a"], [[some 0, some 7], [some 1, some 7], [some 2, some 7]], [3]) := by decide

/-! ### USING / NATURAL joins: `ujA(id, x, k, y)`, `ujB(k, p)`; rows of A with k = 0, 1, 2; rows of B with k = 1, 2, 7 -/
def ujA : Table := { header := ["id", "x", "k", "y"], rows := [[cex 0, cex 10, cex 0, cex 20], [cex 1, cex 11, cex 1, cex 21], [cex 2, cex 12, cex 2, cex 22]] }
def ujB : Table := { header := ["k", "p"], rows := [[cex 1, cex 31], [cex 2, cex 32], [cex 7, cex 37]] }
def ujTs : Tables := [("a", ujA), ("b", ujB)]
def ujEq (x y : Cell) : Tern := match x.int?, y.int? with | some i, some j => if i = j then .T else .F | _, _ => .U
-- the joined records of A JOIN B USING (k), A LEFT JOIN B USING (k), A NATURAL FULL JOIN B (ids of A, ids of B)
example : ((joinedView ujTs ["a", "b"] (.using none (some ["k"]) ujEq) ojTrue).toOption.map fun v => v.map fun x => (jid 0 x.2, jid 1 x.2)) =
    some [(some 1, some 0), (some 2, some 1)] := by decide
example : ((joinedView ujTs ["a", "b"] (.using (some .left) (some ["k"]) ujEq) ojTrue).toOption.map fun v => v.map fun x => (jid 0 x.2, jid 1 x.2)) =
    some [(some 0, none), (some 1, some 0), (some 2, some 1)] := by decide
example : ((joinedView ujTs ["a", "b"] (.using (some .full) none ujEq) ojTrue).toOption.map fun v => v.map fun x => (jid 0 x.2, jid 1 x.2)) =
    some [(some 0, none), (some 1, some 0), (some 2, some 1), (none, some 2)] := by decide
-- UPDATE a SET a.y = 7 FROM a JOIN b USING (k): the value lands in column `y` (position 3 of a's header) of the two joined records
example : outsOf (body ujTs (.updateMulti ["a"] ["a", "b"] (.using none (some ["k"]) ujEq) ojTrue [("a", ⟨"y", fun _ => .ok (cex 7)⟩)])) =
    some (["a"], [[some 0, some 10, some 0, some 20], [some 1, some 11, some 1, some 7], [some 2, some 12, some 2, some 7]], [2]) := by decide
-- a repeated and an unknown USING column are refused
example : errOf (joinedView ujTs ["a", "b"] (.using none (some ["k", "k"]) ujEq) ojTrue) = some 10104 := by decide
example : errOf (joinedView ujTs ["a", "b"] (.using none (some ["k", "x"]) ujEq) ojTrue) = some 10102 := by decide

end Csvq.C05
