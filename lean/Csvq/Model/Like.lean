/-
  Csvq.Model.Like — `LIKE` as lib/query/comparison.go evaluates it, and the textbook definition.

  The code (shape kept):

    Like(p1, p2)            NULL operand → UNKNOWN; value.ToString of both (a text is itself, an integer / float its
                            decimal spelling, everything else NULL → UNKNOWN); strings.ToUpper of both; equal texts →
                            TRUE when the pattern holds no backslash; empty pattern → FALSE; else matchText on the
                            RUNES of both
    matchCondition(pattern) one segment of the pattern: the leading wildcards (`_` counted in anyRunesMinLen,
                            `%` makes anyRunesMaxLen = -1, otherwise it counts the `_` too), then the literal word
                            up to the next unescaped wildcard (`\%` `\_` are the characters, a backslash before
                            anything else and at the end stays a backslash), the rest of the pattern
    matchTextTailOnce       a text shorter than min fails; the word is looked up with strings.Index behind the first
                            min runes (FIRST occurrence there, as a rune index `idx` of the text); with a `%` in the
                            segment the same pattern is first tried on text[idx+1-min:] (the later occurrences);
                            the runes before the occurrence must number between min and max; an empty rest wants
                            the word at the very end, otherwise the rest goes on behind the word
                            (shape after the repairs F111 - e581029, e406f76; the shapes before them are kept as
                            counterexamples in Props/C03Like.lean)
    matchTextTail           the memo of failed (len text, len pattern) pairs: it stores FALSE results of a function
                            of exactly these two tails and changes no answer - not modelled

  strings.Index works on the UTF-8 text; the code converts the byte offset into a rune count.  On the encodings of
  two rune slices the first byte occurrence is the first rune occurrence (UTF-8 is self-synchronising): the model
  searches the rune list.

  The specification `likeSpec`: the pattern as a list of items (a literal rune, any one rune, any run of runes)
  matched against the rune list.  Props/C03Like.lean relates the two.
-/
import Csvq.Model.Unicode
import Csvq.Model.FormatFloat
namespace Csvq
namespace Like

abbrev Runes := List Nat

def pct : Nat := 37     -- %
def und : Nat := 95     -- _
def bsl : Nat := 92     -- \

/-! ## the specification -/

inductive Item
  | lit (c : Nat)
  | one            -- `_`
  | many           -- `%`
  deriving Repr, DecidableEq, Inhabited

def itemOf (r : Nat) : Item := if r = pct then .many else if r = und then .one else .lit r

/-- the pattern language: `%`, `_`, `\%` = the character %, `\_` = the character _; a backslash before any other
    character, and a backslash at the end, is the character \ (followed by that character).
    `esc` = the rune before was an unescaped backslash -/
def itemsOfE : Runes → Bool → List Item
  | [], esc => if esc then [.lit bsl] else []
  | r :: rest, true => (if r = pct ∨ r = und then [.lit r] else [.lit bsl, .lit r]) ++ itemsOfE rest false
  | r :: rest, false => if r = bsl then itemsOfE rest true else itemOf r :: itemsOfE rest false

def itemsOf (pattern : Runes) : List Item := itemsOfE pattern false

/-- `f` holds for some suffix of the text (the text itself and the empty text included) -/
def existsSuffix (f : Runes → Bool) : Runes → Bool
  | [] => f []
  | x :: t => f (x :: t) || existsSuffix f t

def matchItems : List Item → Runes → Bool
  | [], t => t.isEmpty
  | .lit c :: ps, t =>
    match t with
    | x :: t' => x == c && matchItems ps t'
    | [] => false
  | .one :: ps, t =>
    match t with
    | _ :: t' => matchItems ps t'
    | [] => false
  | .many :: ps, t => existsSuffix (matchItems ps) t

/-- `text LIKE pattern` on rune lists, the textbook way -/
def likeSpec (text pattern : Runes) : Bool := matchItems (itemsOf pattern) text

/-! ## the implementation -/

structure Cond where
  minLen : Nat              -- anyRunesMinLen
  maxLen : Option Nat       -- anyRunesMaxLen; `none` = -1 (no upper bound)
  word : Runes              -- searchWord
  rest : Runes              -- restPattern
  deriving Repr, DecidableEq

/-- the loop of `matchCondition` over the runes still to be read -/
def condLoop : Runes → Nat → Option Nat → Runes → Bool → Cond
  | [], mn, mx, w, esc => ⟨mn, mx, if esc then w ++ [bsl] else w, []⟩
  | r :: rest, mn, mx, w, esc =>
    if esc then
      condLoop rest mn mx (if r = pct ∨ r = und then w ++ [r] else w ++ [bsl, r]) false
    else if (r = pct ∨ r = und) ∧ w ≠ [] then ⟨mn, mx, w, r :: rest⟩        -- break
    else if r = pct then condLoop rest mn none w false
    else if r = und then condLoop rest (mn + 1) (mx.map (· + 1)) w false
    else if r = bsl then condLoop rest mn mx w true
    else condLoop rest mn mx (w ++ [r]) false

def matchCondition (pattern : Runes) : Cond := condLoop pattern 0 (some 0) [] false

/-- is `w` a prefix of `t` -/
def hasPrefix : Runes → Runes → Bool
  | [], _ => true
  | _ :: _, [] => false
  | a :: w, b :: t => b == a && hasPrefix w t

/-- strings.Index on runes: the position of the first occurrence -/
def indexOf (w : Runes) : Runes → Option Nat
  | [] => if hasPrefix w [] then some 0 else none
  | x :: t => if hasPrefix w (x :: t) then some 0 else (indexOf w t).map (· + 1)

/-- `matchTextTail` / `matchTextTailOnce`; `fuel` bounds the calls (each one shortens the text or the pattern) -/
def matchTail : Nat → Runes → Runes → Bool
  | 0, _, _ => false
  | fuel + 1, text, pattern =>
    let c := matchCondition pattern
    -- after the word was placed: the runes before it, the end of the pattern or the rest behind the word
    let finish := fun (anyLen : Nat) =>
      if anyLen < c.minLen then false
      else if (match c.maxLen with | some m => decide (m < anyLen) | none => false) then false
      else if c.rest.isEmpty then anyLen + c.word.length == text.length
      else matchTail fuel (text.drop (anyLen + c.word.length)) c.rest
    if c.word.isEmpty then finish text.length
    else if text.length < c.minLen then false
    else
      match indexOf c.word (text.drop c.minLen) with
      | none => false
      | some j =>
        let idx := c.minLen + j
        if c.maxLen.isNone && matchTail fuel (text.drop (idx + 1 - c.minLen)) pattern then true
        else finish idx

def matchText (text pattern : Runes) : Bool := matchTail (text.length + pattern.length + 1) text pattern

/-- `Like` on the two texts (after value.ToString) -/
def likeText (s1 s2 : Bytes) : Bool :=
  let str := Uni.strToUpper s1
  let pattern := Uni.strToUpper s2
  if str = pattern ∧ bsl ∉ pattern then true      -- !strings.Contains(pattern, "\\"): the byte 0x5C
  else if pattern.isEmpty then false
  else matchText (Uni.decodeRunes str) (Uni.decodeRunes pattern)

/-- value.ToString: a text, the spelling of an integer / a float; anything else is NULL -/
def toText : Val → Option Bytes
  | .str s => some s
  | .int i => some (decText i)
  | .flt f => some (FF.fmtF f)
  | _ => none

/-- `Like(p1, p2)` -/
def like (p1 p2 : Val) : Tern :=
  match p1, p2 with
  | .null, _ => .U
  | _, .null => .U
  | a, b =>
    match toText a, toText b with
    | some s1, some s2 => Tern.ofBool (likeText s1 s2)
    | _, _ => .U

/-- `evalLike`: LIKE / NOT LIKE -/
def evalLike (neg : Bool) (a b : Profile) : Tern :=
  let t := like a.raw b.raw
  if neg then t.not else t

/-- the same with the textbook matcher in the place of `matchText`, the shortcuts left out -/
def likeTextSpec (s1 s2 : Bytes) : Bool :=
  likeSpec (Uni.decodeRunes (Uni.strToUpper s1)) (Uni.decodeRunes (Uni.strToUpper s2))

end Like
end Csvq
