/-
  Csvq.Model.AnalyticScope — the scope in which an analytic function evaluates its FIRST ARGUMENT for the rows of a
  partition (lib/query/reference_scope.go `CreateScopeForAnalytics`, called by windowValues, setNthValue, setLag,
  AnalyticListAgg / AnalyticJsonAgg), over C03's model of name resolution across nested queries (Model/RelNames.lean:
  `resolveRef` walks `scope.Records` from the innermost query outwards).

      records := make([]ReferenceRecord, len(rs.Records))
      records[0] = NewReferenceRecord(rs.Records[0].view, -1, …)      -- the query's own view; the function moves the position
      for i := 1; i < len(rs.Records); i++ { records[i] = rs.Records[i].copyForChildScope() }   -- the ENCLOSING queries' records

  A scope is the list (header, current record) of every query from the innermost outwards; a record at position -1
  has no row: every column of its view reads NULL (`evalFieldReference`: `!IsInRange()` gives NULL) — the empty row.
  Core Lean only.
-/
import Csvq.Model.RelNames
namespace Csvq.AnScope
open Csvq Csvq.Rel

abbrev Scope := List HField × Row

/-- one element of the child scope's Records in terms of the parent's -/
inductive Slot
  | fresh (parentView : Nat) (recordIndex : Int)   -- new record on the view of the parent's record, fixed position
  | copy (parent : Nat)                            -- the parent's record (view and position kept)
  | given (recordIndex : Option Int)               -- new record on a view handed in
  deriving DecidableEq, Repr

/-- the model of `CreateScopeForAnalytics` + the function's `anScope.Records[0].recordIndex = idx`: the own view at the
    partition row `cur`, the enclosing queries' records unchanged -/
def analyticScope : List Scope → Row → List Scope
  | [], _ => []
  | (h, _) :: outer, cur => (h, cur) :: outer

/-- which record stands at element j of the analytic scope of a parent with n records (reviewed reading of the body) -/
def slotModel (n j : Nat) : Option Slot :=
  if 1 ≤ j ∧ j < n then some (.copy j) else if j = 0 then some (.fresh 0 (-1)) else none

/-- `CreateScopeForRecordEvaluation(view, recordIndex)`: the new view first, then ALL records of the parent -/
def recordSlotModel (n j : Nat) : Option Slot :=
  if 1 ≤ j ∧ j < n + 1 then some (.copy (j - 1)) else if j = 0 then some (.given none) else none

/-- what a slot is at evaluation time: a copy is the parent's entry; a new record at position -1 reads NULL in every
    column (the empty row) unless it is element 0, whose position the analytic function sets to the partition row -/
def slotScope (parent : List Scope) (cur : Row) (j : Nat) : Slot → Scope
  | .copy i => parent[i]?.getD ([], [])
  | .fresh i _ => ((parent[i]?.getD ([], [])).1, if j = 0 then cur else [])
  | .given _ => ([], cur)

/-- the shape of the seeded change C17-m25: EVERY element a new record at position -1 -/
def allFreshSlot (n j : Nat) : Option Slot := if j < n then some (.fresh j (-1)) else none

def allFreshScope : List Scope → Row → List Scope
  | [], _ => []
  | (h, _) :: outer, cur => (h, cur) :: outer.map (fun s => (s.1, []))

end Csvq.AnScope
