/-
  Shapes of the facts that extract/errfacts regenerates from /repo on every run (Csvq/Gen/ErrFacts.lean),
  and the small checker for index guards (property C19).  Core Lean only.
-/
namespace Csvq.ErrFacts

/-- one error constructor `NewXxx` of lib/query/error.go: the expressions it passes to the base error as
    return code and error number, resolved to the constants of error_code.go where they are constants -/
structure ErrCtor where
  name : String
  codeExpr : String
  code : Option Nat
  numberExpr : String
  number : Option Nat
deriving DecidableEq, Repr

/-- a method call / field access `Y.sel` on a variable `Y` of an error interface type, at a program point
    where the enclosing conditions establish that a DIFFERENT error variable (`tested`) is non-nil, while
    nothing on the path establishes `Y ≠ nil` or assigns `Y` -/
structure NilErrorFact where
  file : String
  line : Nat
  fn : String
  expr : String
  tested : String
deriving DecidableEq, Repr

def NilErrorFact.site (f : NilErrorFact) : String :=
  "nilerr:" ++ f.file ++ ":" ++ f.fn ++ ":" ++ f.expr

/-- a `recover()` call: the conjunction of the `if` conditions that guard it inside its deferred function
    (`""` = unconditional) and whether that guard calls a function (state other goroutines can change) -/
structure RecoverFact where
  file : String
  line : Nat
  fn : String
  guard : String
  shared : Bool
deriving DecidableEq, Repr

def RecoverFact.site (f : RecoverFact) : String :=
  "recover:" ++ f.file ++ ":" ++ f.fn ++ ":" ++ f.guard

/-- a type assertion `x.(T)` without the comma-ok form (it panics when `x` holds another type or nil) in the command
    layer; `safe` = it stands in the clause of a type switch over the same expression that lists exactly `T` -/
structure AssertFact where
  file : String
  fn : String
  expr : String
  safe : Bool
  count : Nat
deriving DecidableEq, Repr

def AssertFact.site (f : AssertFact) : String :=
  "assert:" ++ f.file ++ ":" ++ f.fn ++ ":" ++ f.expr

/-! ## index guards: `s[k]` / `s[len(s)-k]` under path conditions on `len(s)` -/

/-- a path condition on `len(s)` -/
inductive LenCond where
  | ge (k : Nat)      -- k ≤ len
  | lt (k : Nat)      -- len < k
  | eq (k : Nat)      -- len = k
  | notLt (k : Nat)   -- ¬ len < k   (else branch)
  | notEq (k : Nat)   -- ¬ len = k   (else branch)
deriving DecidableEq, Repr

def LenCond.holds (len : Nat) : LenCond → Prop
  | .ge k => k ≤ len
  | .lt k => len < k
  | .eq k => len = k
  | .notLt k => ¬ len < k
  | .notEq k => ¬ len = k

/-- the index expression: a constant, or a constant distance from the end (`len(s) - k`, Go `int`) -/
inductive Idx where
  | const (k : Nat)
  | fromEnd (k : Nat)
deriving DecidableEq, Repr

/-- Go's run-time check for `s[i]`: `0 ≤ i < len` -/
def Idx.inRange (len : Nat) : Idx → Prop
  | .const k => k < len
  | .fromEnd k => 1 ≤ k ∧ k ≤ len

structure IndexSite where
  line : Nat
  expr : String
  conds : List LenCond
  idx : Idx
deriving DecidableEq, Repr

/-- the lower bound on `len` implied by the conditions read from the outermost to the innermost -/
def lbStep (lb : Nat) : LenCond → Nat
  | .ge k => max lb k
  | .eq k => max lb k
  | .notLt k => max lb k
  | .notEq k => if lb = k then k + 1 else lb
  | .lt _ => lb

def lowerBound (conds : List LenCond) : Nat := conds.foldl lbStep 0

def IndexSite.ok (s : IndexSite) : Bool :=
  match s.idx with
  | .const k => decide (k < lowerBound s.conds)
  | .fromEnd k => decide (1 ≤ k) && decide (k ≤ lowerBound s.conds)

end Csvq.ErrFacts
