/-
  Shapes of the facts that extract/errfacts regenerates from /repo on every run (Csvq/Gen/ErrFacts.lean),
  and the small checker for index guards (property C19).  Core Lean only.
-/
namespace Csvq.ErrFacts

/-- one error constructor `NewXxx` of lib/query/error.go: the expressions it passes to the base error as
    return code and error number, resolved to the constants of error_code.go where they are constants -/
structure ErrCtor where
  name : String
  codeExpr : String
  code : Option Nat
  numberExpr : String
  number : Option Nat
deriving DecidableEq, Repr

/-- a method call / field access `Y.sel` on a variable `Y` of an error interface type, at a program point
    where the enclosing conditions establish that a DIFFERENT error variable (`tested`) is non-nil, while
    nothing on the path establishes `Y ≠ nil` or assigns `Y` -/
structure NilErrorFact where
  file : String
  line : Nat
  fn : String
  expr : String
  tested : String
deriving DecidableEq, Repr

def NilErrorFact.site (f : NilErrorFact) : String :=
  "nilerr:" ++ f.file ++ ":" ++ f.fn ++ ":" ++ f.expr

/-- a `recover()` call: the conjunction of the `if` conditions that guard it inside its deferred function
    (`""` = unconditional) and whether that guard calls a function (state other goroutines can change) -/
structure RecoverFact where
  file : String
  line : Nat
  fn : String
  guard : String
  shared : Bool
deriving DecidableEq, Repr

def RecoverFact.site (f : RecoverFact) : String :=
  "recover:" ++ f.file ++ ":" ++ f.fn ++ ":" ++ f.guard

/-- a type assertion `x.(T)` without the comma-ok form (it panics when `x` holds another type or nil) in the command
    layer; `safe` = it stands in the clause of a type switch over the same expression that lists exactly `T` -/
structure AssertFact where
  file : String
  fn : String
  expr : String
  safe : Bool
  count : Nat
deriving DecidableEq, Repr

def AssertFact.site (f : AssertFact) : String :=
  "assert:" ++ f.file ++ ":" ++ f.fn ++ ":" ++ f.expr

/-! ## index guards: `s[k]` / `s[len(s)-k]` under path conditions on `len(s)` -/

/-- a path condition on `len(s)` -/
inductive LenCond where
  | ge (k : Nat)      -- k ≤ len
  | lt (k : Nat)      -- len < k
  | eq (k : Nat)      -- len = k
  | notLt (k : Nat)   -- ¬ len < k   (else branch)
  | notEq (k : Nat)   -- ¬ len = k   (else branch)
deriving DecidableEq, Repr

def LenCond.holds (len : Nat) : LenCond → Prop
  | .ge k => k ≤ len
  | .lt k => len < k
  | .eq k => len = k
  | .notLt k => ¬ len < k
  | .notEq k => ¬ len = k

/-- the index expression: a constant, or a constant distance from the end (`len(s) - k`, Go `int`) -/
inductive Idx where
  | const (k : Nat)
  | fromEnd (k : Nat)
deriving DecidableEq, Repr

/-- Go's run-time check for `s[i]`: `0 ≤ i < len` -/
def Idx.inRange (len : Nat) : Idx → Prop
  | .const k => k < len
  | .fromEnd k => 1 ≤ k ∧ k ≤ len

structure IndexSite where
  line : Nat
  expr : String
  conds : List LenCond
  idx : Idx
deriving DecidableEq, Repr

/-- the lower bound on `len` implied by the conditions read from the outermost to the innermost -/
def lbStep (lb : Nat) : LenCond → Nat
  | .ge k => max lb k
  | .eq k => max lb k
  | .notLt k => max lb k
  | .notEq k => if lb = k then k + 1 else lb
  | .lt _ => lb

def lowerBound (conds : List LenCond) : Nat := conds.foldl lbStep 0

def IndexSite.ok (s : IndexSite) : Bool :=
  match s.idx with
  | .const k => decide (k < lowerBound s.conds)
  | .fromEnd k => decide (1 ≤ k) && decide (k ≤ lowerBound s.conds)

/-! ## argument slices: index / slice expressions under conditions on the length, closed under ∧ / ∨,
    with an index variable `i` that a loop or a comparison bounds by the length -/

/-- a condition on `len(s)` (and on the site's index variable) -/
inductive LenProp where
  | atom (c : LenCond)
  | varLt                    -- i < len(s) for the index variable i of the site
  | and (a b : LenProp)
  | or (a b : LenProp)
deriving DecidableEq, Repr

def LenProp.holds (len i : Nat) : LenProp → Prop
  | .atom c => c.holds len
  | .varLt => i < len
  | .and a b => a.holds len i ∧ b.holds len i
  | .or a b => a.holds len i ∨ b.holds len i

def LenCond.eval (len : Nat) : LenCond → Bool
  | .ge k => decide (k ≤ len)
  | .lt k => decide (len < k)
  | .eq k => decide (len = k)
  | .notLt k => !decide (len < k)
  | .notEq k => !decide (len = k)

/-- evaluation with the truth value of `i < len` given -/
def LenProp.eval (len : Nat) (vlt : Bool) : LenProp → Bool
  | .atom c => c.eval len
  | .varLt => vlt
  | .and a b => a.eval len vlt && b.eval len vlt
  | .or a b => a.eval len vlt || b.eval len vlt

/-- the index / slice expression: `s[k]`, `s[len(s)-k]`, `s[i]` (i a variable that is never negative),
    `s[a:]`, `s[:b]`, `s[a:b]` -/
inductive ArgIdx where
  | const (k : Nat)
  | fromEnd (k : Nat)
  | var
  | sliceFrom (a : Nat)
  | sliceTo (b : Nat)
  | slice (a b : Nat)
deriving DecidableEq, Repr

/-- Go's run-time checks: `0 ≤ i < len` for an index, `0 ≤ a ≤ b ≤ len` for a slice expression (`b ≤ cap` in Go;
    `len ≤ cap`, so this is the stronger demand) -/
def ArgIdx.inRange (len i : Nat) : ArgIdx → Prop
  | .const k => k < len
  | .fromEnd k => 1 ≤ k ∧ k ≤ len
  | .var => i < len
  | .sliceFrom a => a ≤ len
  | .sliceTo b => b ≤ len
  | .slice a b => a ≤ b ∧ b ≤ len

def ArgIdx.eval (len : Nat) (vlt : Bool) : ArgIdx → Bool
  | .const k => decide (k < len)
  | .fromEnd k => decide (1 ≤ k) && decide (k ≤ len)
  | .var => vlt
  | .sliceFrom a => decide (a ≤ len)
  | .sliceTo b => decide (b ≤ len)
  | .slice a b => decide (a ≤ b) && decide (b ≤ len)

structure ArgIndexSite where
  family : String
  fn : String
  file : String
  line : Nat
  slice : String
  expr : String
  conds : List LenProp
  idx : ArgIdx
deriving DecidableEq, Repr

/-- stable name of a site (no line number) -/
def ArgIndexSite.key (s : ArgIndexSite) : String :=
  "argidx:" ++ s.file ++ ":" ++ s.fn ++ ":" ++ s.expr

def LenCond.bound : LenCond → Nat
  | .ge k => k
  | .lt k => k
  | .eq k => k
  | .notLt k => k
  | .notEq k => k

def LenProp.bound : LenProp → Nat
  | .atom c => c.bound
  | .varLt => 0
  | .and a b => max a.bound b.bound
  | .or a b => max a.bound b.bound

/-- the largest constant any condition compares the length with -/
def condsBound (conds : List LenProp) : Nat := conds.foldl (fun b c => max b c.bound) 0

def ArgIndexSite.okAt (s : ArgIndexSite) (len : Nat) (vlt : Bool) : Bool :=
  !(s.conds.all (·.eval len vlt)) || s.idx.eval len vlt

/-- the checker: try every length up to one past the largest constant (beyond it no condition changes and the
    index checks only get easier), with both truth values of `i < len` -/
def ArgIndexSite.ok (s : ArgIndexSite) : Bool :=
  (List.range (condsBound s.conds + 2)).all (fun len => s.okAt len true && s.okAt len false)

/-- a use of a tracked slice the extractor has no rule for -/
structure ArgUnknownSite where
  family : String
  fn : String
  file : String
  line : Nat
  slice : String
  expr : String
  why : String
deriving DecidableEq, Repr

def ArgUnknownSite.key (s : ArgUnknownSite) : String :=
  "argunknown:" ++ s.file ++ ":" ++ s.fn ++ ":" ++ s.expr

/-- the count checks of one function name: it answers with the argument-length error iff the number of its
    arguments meets one of `rejects` -/
structure ArgCountCheck where
  table : String
  name : String
  goFunc : String
  rejects : List LenProp
  ctx : List String
deriving DecidableEq, Repr

def ArgCountCheck.rejectsCount (c : ArgCountCheck) (n : Nat) : Bool :=
  c.rejects.any (·.eval n false)

/-! ## unchecked type assertions `x.(T)` with their guard -/

/-- how an unchecked assertion is guarded (classified syntactically by extract/errfacts/assertsites.go) -/
inductive AssertGuard where
  | inCase                                        -- inside `case T:` of a type switch over the same expression
  | afterOk                                       -- dominated by a successful `_, ok := x.(T)`
  | oneOf (src : String) (excl : List String)     -- x comes from `src` (a function / a parser-node field) whose possible dynamic
                                                  -- types are listed in the table; dominating tests exclude `excl`
  | keyed (src : String) (keys : List String)   -- x was fetched by NAME from `src`, which picks the type of its result by that
                                                  -- name; the site stands in `case <keys>:` of a switch over the same name
  | unknown (why : String)
deriving DecidableEq, Repr

structure AssertSite where
  file : String
  fn : String
  line : Nat
  ord : Nat          -- which occurrence of (x, T) in the function, in source order
  expr : String
  typ : String
  guard : AssertGuard
deriving DecidableEq, Repr

/-- Go's rule for `x.(T)`: it succeeds iff the dynamic type of x is T (T concrete) or implements T (T an interface);
    a nil interface value ("nil") has no dynamic type and fails.  `impl` lists the (concrete, interface) pairs that hold. -/
def canAssert (impl : List (String × String)) (dyn typ : String) : Bool :=
  dyn != "nil" && dyn != "?" && (dyn == typ || impl.contains (dyn, typ))

def lookupSrc (sources : List (String × List String)) (src : String) : Option (List String) :=
  (sources.find? (·.1 == src)).map (·.2)

abbrev KeyedTable := List (String × List (String × List String))

def lookupKeyed (keyed : KeyedTable) (src key : String) : Option (List String) :=
  match keyed.find? (·.1 == src) with
  | none => none
  | some e => (e.2.find? (·.1 == key)).map (·.2)

/-- the checker: safe by the class of the guard -/
def AssertSite.ok (sources : List (String × List String)) (keyed : KeyedTable) (impl : List (String × String)) (s : AssertSite) : Bool :=
  match s.guard with
  | .keyed src keys =>
    !keys.isEmpty && keys.all (fun k => match lookupKeyed keyed src k with
      | none => false
      | some ts => ts.all (fun d => canAssert impl d s.typ))
  | .inCase => true
  | .afterOk => true
  | .oneOf src excl =>
    match lookupSrc sources src with
    | none => false
    | some ts => ts.all (fun d => excl.contains d || canAssert impl d s.typ)
  | .unknown _ => false

/-- `x.(T)` succeeds on a value of dynamic type `dyn` ("nil" = the nil interface value) -/
def Succeeds (impl : List (String × String)) (dyn typ : String) : Prop :=
  dyn ≠ "nil" ∧ (dyn = typ ∨ (dyn, typ) ∈ impl)

/-- what the guard establishes about the dynamic type of x at the site:
    `case T:` of a type switch is taken, and `_, ok := x.(T)` yields ok, exactly when `x.(T)` succeeds (Go specification);
    a source with a table entry yields one of the listed types, and the dominating tests rule out `excl`;
    a value fetched by name, inside `case <keys>:` of a switch over that name, was stored under one of these keys -/
def AssertSite.admits (sources : List (String × List String)) (keyed : KeyedTable) (impl : List (String × String)) (s : AssertSite) (dyn : String) : Prop :=
  match s.guard with
  | .keyed src keys => ∃ k ∈ keys, ∀ ts, lookupKeyed keyed src k = some ts → dyn ∈ ts
  | .inCase => Succeeds impl dyn s.typ
  | .afterOk => Succeeds impl dyn s.typ
  | .oneOf src excl =>
    match lookupSrc sources src with
    | none => True
    | some ts => dyn ∈ ts ∧ dyn ∉ excl
  | .unknown _ => True

/-- a site named without its line number -/
structure AssertRef where
  file : String
  fn : String
  expr : String
  typ : String
  ord : Nat
deriving DecidableEq, Repr

def AssertRef.is (r : AssertRef) (s : AssertSite) : Bool :=
  r.ord == s.ord && r.expr == s.expr && r.typ == s.typ && r.fn == s.fn && r.file == s.file

end Csvq.ErrFacts
