/-
  Csvq.Model.SessionStmt — the statements of a csvq program that are NOT data statements, as steps of the session
  machine (property C20): SET @@flag (every flag), ADD / REMOVE flag elements, SHOW, variables, environment variables,
  cursors, user functions, prepared statements, ECHO / PRINT / PRINTF, CHDIR / PWD / RELOAD, SHOW objects / fields,
  SYNTAX, external commands, flow control.  `Processor.ExecuteStatement` (lib/query/processor.go) dispatches on the
  statement type; `NonData.caseName` is the case it takes.

  Such a statement changes the ENVIRONMENT of the session (flags, working directory, declared objects) and may
  evaluate expressions; a table expression inside one (a sub-query) is an ordinary plain load — `reads` lists the
  tables it asks for.  It has no other access to the view cache: that is the regenerated obligation of Props/C20Stmt
  (`gen_cache_evictions_are_the_reviewed_ones`).
-/
import Csvq.Model.Session
namespace Csvq.Session

inductive NonData
  | setFlag (flag : String) | addFlagElement | removeFlagElement | showFlag
  | variableDeclaration | variableSubstitution | setEnvVar | unsetEnvVar | disposeVariable
  | cursorDeclaration | openCursor | closeCursor | disposeCursor | fetchCursor
  | functionDeclaration | disposeFunction | aggregateDeclaration
  | statementPreparation | disposeStatement
  | echo | print | printf | chdir (dir : String) | pwd | reload
  | showObjects | showFields | syntax | externalCommand
  | flowControl | exit | return_ | trigger
  deriving DecidableEq, Repr

def NonData.caseName : NonData → String
  | .setFlag _ => "parser.SetFlag" | .addFlagElement => "parser.AddFlagElement"
  | .removeFlagElement => "parser.RemoveFlagElement" | .showFlag => "parser.ShowFlag"
  | .variableDeclaration => "parser.VariableDeclaration" | .variableSubstitution => "parser.VariableSubstitution"
  | .setEnvVar => "parser.SetEnvVar" | .unsetEnvVar => "parser.UnsetEnvVar" | .disposeVariable => "parser.DisposeVariable"
  | .cursorDeclaration => "parser.CursorDeclaration" | .openCursor => "parser.OpenCursor"
  | .closeCursor => "parser.CloseCursor" | .disposeCursor => "parser.DisposeCursor" | .fetchCursor => "parser.FetchCursor"
  | .functionDeclaration => "parser.FunctionDeclaration" | .disposeFunction => "parser.DisposeFunction"
  | .aggregateDeclaration => "parser.AggregateDeclaration"
  | .statementPreparation => "parser.StatementPreparation" | .disposeStatement => "parser.DisposeStatement"
  | .echo => "parser.Echo" | .print => "parser.Print" | .printf => "parser.Printf"
  | .chdir _ => "parser.Chdir" | .pwd => "parser.Pwd" | .reload => "parser.Reload"
  | .showObjects => "parser.ShowObjects" | .showFields => "parser.ShowFields" | .syntax => "parser.Syntax"
  | .externalCommand => "parser.ExternalCommand"
  | .flowControl => "parser.FlowControl" | .exit => "parser.Exit" | .return_ => "parser.Return" | .trigger => "parser.Trigger"

/-- one representative of every kind (the arguments do not matter for the case taken) -/
def NonData.all : List NonData :=
  [.setFlag "", .addFlagElement, .removeFlagElement, .showFlag, .variableDeclaration, .variableSubstitution, .setEnvVar,
   .unsetEnvVar, .disposeVariable, .cursorDeclaration, .openCursor, .closeCursor, .disposeCursor, .fetchCursor,
   .functionDeclaration, .disposeFunction, .aggregateDeclaration, .statementPreparation, .disposeStatement, .echo,
   .print, .printf, .chdir "", .pwd, .reload, .showObjects, .showFields, .syntax, .externalCommand, .flowControl,
   .exit, .return_, .trigger]

/-- what such statements do change -/
structure Env where
  flags : String → Option String
  cwd : String
  events : Nat            -- declarations, output, … (anything else the statement did), counted
  deriving Inhabited

structure StateS (C : Type) where
  tx : State C
  env : Env

inductive Stmt (C : Type)
  | data (op : Op C)                              -- the statements Model/Session.lean knows
  | nonData (k : NonData) (reads : List Path)     -- `reads`: the tables of the sub-queries in its expressions

def envStep (e : Env) : NonData → Env
  | .setFlag f => { e with flags := fun g => if g = f then some "set" else e.flags g, events := e.events + 1 }
  | .chdir d => { e with cwd := d, events := e.events + 1 }
  | _ => { e with events := e.events + 1 }

/-- the plain loads of the sub-queries, in order; the first table that cannot be loaded fails the statement -/
def loadAll {C} (s : State C) : List Path → State C × Bool
  | [] => (s, true)
  | p :: ps =>
    match load s p false with
    | some (s', _) => loadAll s' ps
    | none => (s, false)

def stepS {C} (s : StateS C) : Stmt C → StateS C × Out C
  | .data op => ({ s with tx := (step s.tx op).1 }, (step s.tx op).2)
  | .nonData k reads =>
    match loadAll s.tx reads with
    | (tx', true) => ({ tx := tx', env := envStep s.env k }, .ok)
    | (tx', false) => ({ s with tx := tx' }, .failed)

def runS {C} (s : StateS C) (sts : List (Stmt C)) : StateS C := sts.foldl (fun s st => (stepS s st).1) s

end Csvq.Session
