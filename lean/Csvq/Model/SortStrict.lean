/-
  Csvq.Model.SortStrict — sort values under --strict-equal.  Mirrors lib/query/sort_value.go: the branch
  `if flags.StrictEqual { SerializeIdenticalKey(sortValue.SerializedKey, val) }` of NewSortValue, the block
  `if v.SerializedKey != nil { … }` that opens SortValue.Less and SortValue.EquivalentTo, and SortValues.Less /
  SortValues.EquivalentTo over such values.  The identical key is C04's (Model/Keys.lean: `normStrict`, `serKey`)
  with the texts csvq really writes (`decText`, `FF.fmtF`).  Core Lean only.
-/
import Csvq.Model.SortGen
import Csvq.Model.Keys
import Csvq.Model.FormatFloat
namespace Csvq

/-- the key texts csvq writes: value.Int64ToStr and value.Float64ToStr(·, false) -/
def sortKeyText : KeyText := { itext := decText, ftext := FF.fmtF }

/-- SerializeIdenticalKey: `[X]` + the exact content; for a text `[S]` + the escaped option.TrimSpace of the raw
    text (serializeCaseSensitiveString: the letter case is kept) -/
def identKey (v : Val) : Bytes :=
  serKey sortKeyText (normStrict v (match v with | .str s => PF.trimSpace s | _ => []))

/-- a SortValue under --strict-equal: the typed fields of the default mode (NewSortValue's ladder runs whatever
    the flag says) and `SerializedKey` -/
structure SSortVal where
  val : SortVal
  key : Bytes
  deriving DecidableEq, Repr, Inhabited

/-- NewSortValue under --strict-equal -/
def toSSortVal (p : Profile) (txt : Bytes) : SSortVal := ⟨toSortVal p txt, identKey p.raw⟩

/-- the `String` field of a SortValue (set for Integer, Float and String sort values, Go's "" otherwise) -/
def SortVal.text : SortVal → Bytes
  | .int _ _ s => s
  | .flt _ s => s
  | .str s => s
  | _ => []

/-- `SerializedKey.Bytes()[1] == 83`: the key is a text's (`[S]…`) -/
def SSortVal.isText (a : SSortVal) : Bool := a.key.getD 1 0 == 83

/-- SortValue.Less under --strict-equal: identical keys tie; two texts compare by their upper-cased trimmed texts
    and, when those are the same (letter-case twins), by the bytes of their identical keys; everything else
    goes through the typed comparison -/
def SSortVal.less (a b : SSortVal) : Tern :=
  if a.key = b.key then .U
  else if a.isText && b.isText then
    (if a.val.text ≠ b.val.text then ofB (bytesLt a.val.text b.val.text) else ofB (bytesLt a.key b.key))
  else a.val.less b.val

/-- the shape of the block before the repair of F116: two texts compared by their upper-cased texts only -/
def SSortVal.lessOld (a b : SSortVal) : Tern :=
  if a.key = b.key then .U
  else if a.isText && b.isText then ofB (bytesLt a.val.text b.val.text)
  else a.val.less b.val

/-- SortValue.EquivalentTo under --strict-equal: bytes.Equal of the identical keys -/
def SSortVal.equiv (a b : SSortVal) : Bool := a.key == b.key

/-- SortValues.Less over strict sort values (`less` = the per-value comparison) -/
def rowsLessWith (less : SSortVal → SSortVal → Tern) : List OrdItem → List SSortVal → List SSortVal → Bool
  | it :: its, a :: as, b :: bs =>
    match less a b with
    | .T => (match it.dir with | .asc => true | .desc => false)
    | .F => (match it.dir with | .asc => false | .desc => true)
    | .U =>
      if a.val.isNull && !b.val.isNull then (match it.np with | .first => true | .last => false)
      else if !a.val.isNull && b.val.isNull then (match it.np with | .first => false | .last => true)
      else rowsLessWith less its as bs
  | _, _, _ => false

/-- SortValues.Less under --strict-equal -/
def rowsLessS : List OrdItem → List SSortVal → List SSortVal → Bool := rowsLessWith SSortVal.less

/-- SortValues.EquivalentTo under --strict-equal -/
def rowsEquivS : List SSortVal → List SSortVal → Bool
  | a :: as, b :: bs => a.equiv b && rowsEquivS as bs
  | _, _ => true

/-- ORDER BY of the model under --strict-equal -/
def orderByS (its : List OrdItem) (rows : List (List SSortVal)) : List (List SSortVal) :=
  sortBy (rowsLessS its) rows

/-- the flat record with its key, as NewSortValue builds it under the flag -/
def SSortVal.toSVK (a : SSortVal) : SVK := ⟨a.val.toSV, some a.key⟩

/-- … and without the flag -/
def SortVal.toSVK (a : SortVal) : SVK := ⟨a.toSV, none⟩

end Csvq
