/-
  Csvq.Model.Float — an executable IEEE-754 binary64 round-to-nearest-even instance of
  `FloatOps`, on the exact representation `FVal` (finite x = n·2^-1074).
  Validated against the hardware by the correspondence check (stream `arith`, `i2f`).
-/
import Csvq.Model.Compare
namespace Csvq
namespace FVal

def pow2 (k : Nat) : Nat := 2 ^ k

/-- units per 1.0 -/
def unit : Nat := pow2 1074

/-- first non-finite magnitude, in units: 2^1024 · 2^1074 -/
def overflowAt : Nat := pow2 2098

def isNeg : FVal → Bool
  | ninf => true
  | negz => true
  | fin n => n < 0
  | _ => false

def neg : FVal → FVal
  | nan => nan
  | pinf => ninf
  | ninf => pinf
  | negz => fin 0
  | fin n => if n = 0 then negz else fin (-n)

def isInf : FVal → Bool
  | pinf | ninf => true
  | _ => false

def isZero : FVal → Bool
  | negz => true
  | fin n => n == 0
  | _ => false

/-- Round the positive rational (a / d) **in units of 2^-1074** to the nearest double
    (ties to even). Returns the magnitude in units; `none` = overflow to infinity. -/
def roundMag (a d : Nat) : Option Nat :=
  let q0 := a / d
  let bits := if q0 = 0 then 0 else Nat.log2 q0 + 1
  let k := bits - 53
  let dd := d * pow2 k
  let m := a / dd
  let rem := a - m * dd
  let m' := if 2 * rem > dd then m + 1
            else if 2 * rem = dd then (if m % 2 = 0 then m else m + 1)
            else m
  let n := m' * pow2 k
  if n ≥ overflowAt then none else some n

/-- assemble a signed result from a magnitude -/
def signed (negative : Bool) (mag : Option Nat) : FVal :=
  match mag with
  | none => if negative then ninf else pinf
  | some 0 => if negative then negz else fin 0
  | some n => if negative then fin (-(n : Int)) else fin n

/-- float64(i) for an int64 i -/
def ofInt (i : Int) : FVal :=
  if i = 0 then fin 0 else signed (i < 0) (roundMag (i.natAbs * unit) 1)

def add (x y : FVal) : FVal :=
  match x, y with
  | nan, _ => nan
  | _, nan => nan
  | pinf, ninf => nan
  | ninf, pinf => nan
  | pinf, _ => pinf
  | _, pinf => pinf
  | ninf, _ => ninf
  | _, ninf => ninf
  | negz, negz => negz
  | a, b =>
    match a.num?, b.num? with
    | some p, some q =>
        let s := p + q
        if s = 0 then fin 0 else signed (s < 0) (roundMag s.natAbs 1)
    | _, _ => nan

def sub (x y : FVal) : FVal := add x (neg y)

def mul (x y : FVal) : FVal :=
  if x.isNaN || y.isNaN then nan
  else
    let sgn := x.isNeg != y.isNeg
    if x.isInf || y.isInf then
      (if x.isZero || y.isZero then nan else if sgn then ninf else pinf)
    else match x.num?, y.num? with
      | some p, some q => signed sgn (roundMag (p.natAbs * q.natAbs) unit)
      | _, _ => nan

def div (x y : FVal) : FVal :=
  if x.isNaN || y.isNaN then nan
  else
    let sgn := x.isNeg != y.isNeg
    if x.isInf then (if y.isInf then nan else if sgn then ninf else pinf)
    else if y.isInf then (if sgn then negz else fin 0)
    else if y.isZero then (if x.isZero then nan else if sgn then ninf else pinf)
    else match x.num?, y.num? with
      | some p, some q => signed sgn (roundMag (p.natAbs * unit) q.natAbs)
      | _, _ => nan

/-- math.Mod: result has the sign of x, magnitude below |y|; exact (no rounding). -/
def fmod (x y : FVal) : FVal :=
  if x.isNaN || y.isNaN || x.isInf || y.isZero then nan
  else if y.isInf then x
  else match x.num?, y.num? with
    | some p, some q =>
        let r := Int.tmod p q
        if r = 0 then (if x.isNeg then negz else fin 0) else fin r
    | _, _ => nan

def ieee : FloatOps := { add := add, sub := sub, mul := mul, div := div, mod := fmod }

end FVal

/-- profile of a value that is not a string (for strings the harness supplies the profile) -/
def profileOf (v : Val) : Profile :=
  match v with
  | .null => { raw := v, int? := none, flt? := none, dt? := none, bool? := none, strU? := none, tern := .U }
  | .int i =>
      let t : Tern := if i = 0 then .F else if i = 1 then .T else .U
      { raw := v, int? := some i, flt? := some (FVal.ofInt i), dt? := none,
        bool? := (match t with | .U => none | .T => some true | .F => some false), strU? := none, tern := t }
  | .flt f =>
      let t : Tern := if f.isZero then .F else if f = .fin (FVal.unit : Int) then .T else .U
      { raw := v, int? := none, flt? := some f, dt? := none,
        bool? := (match t with | .U => none | .T => some true | .F => some false), strU? := none, tern := t }
  | .str s => { raw := v, int? := none, flt? := none, dt? := none, bool? := none, strU? := some s, tern := .U }
  | .bool b => { raw := v, int? := none, flt? := none, dt? := none, bool? := some b, strU? := none, tern := .ofBool b }
  | .tern t =>
      { raw := v, int? := none, flt? := none, dt? := none,
        bool? := (match t with | .U => none | .T => some true | .F => some false), strU? := none, tern := t }
  | .dt ns => { raw := v, int? := none, flt? := none, dt? := some ns, bool? := none, strU? := none, tern := .U }

end Csvq
