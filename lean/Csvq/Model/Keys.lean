/-
  Csvq.Model.Keys — comparison keys used for DISTINCT / GROUP BY / set operators / PARTITION BY.
  Mirrors lib/query/utils.go (SerializeComparisonKeys, SerializeKey, SerializeIdenticalKey and helpers).
  The decimal text of integers and the text of floats come from Go's strconv and enter as parameters
  (`KeyText`), with the recorded assumption that they are injective and contain neither the separator
  byte `:` (58) nor the escape byte `\` (92).
-/
import Csvq.Model.Compare
namespace Csvq

/-- normalised key of one value -/
inductive NKey
  | null
  | int (i : Int)
  | flt (f : FVal)
  | dt (ns : Int)          -- UnixNano (int64)
  | str (s : Bytes)
  | bool (b : Bool)        -- only under --strict-equal
  | tern (t : Tern)        -- only under --strict-equal
  deriving DecidableEq, Repr, Inhabited

/-- SerializeKey: the documented normalisation ladder (integer, float, datetime, boolean, text) -/
def norm (p : Profile) : NKey :=
  if p.isNull then .null
  else match p.int? with
    | some i => .int i
    | none => match p.flt? with
      | some f => .flt (if f = .negz then .fin 0 else f)
      | none => match p.dt? with
        | some ns => .dt (wrap64 ns)
        | none => match p.bool? with
          | some b => .int (if b then 1 else 0)
          | none => match p.strU? with
            | some s => .str s
            | none => .null

/-- SerializeIdenticalKey (--strict-equal): type and (trimmed) text; `trim` = option.TrimSpace raw -/
def normStrict (v : Val) (trim : Bytes) : NKey :=
  match v with
  | .null => .null
  | .int i => .int i
  | .flt f => .flt f
  | .dt ns => .dt (wrap64 ns)
  | .str _ => .str trim
  | .bool b => .bool b
  | .tern t => .tern t

def sepByte : Nat := 58   -- ':'
def escByte : Nat := 92   -- '\'

/-- escape the separator and the escape byte inside string payloads -/
def escKey : Bytes → Bytes
  | [] => []
  | b :: bs => if b = sepByte ∨ b = escByte then escByte :: b :: escKey bs else b :: escKey bs

structure KeyText where
  itext : Int → Bytes
  ftext : FVal → Bytes

def tagOf : NKey → Nat
  | .null => 78 | .int _ => 73 | .flt _ => 70 | .dt _ => 68 | .str _ => 83 | .bool _ => 66 | .tern _ => 84

def payload (kt : KeyText) : NKey → Bytes
  | .null => []
  | .int i => kt.itext i
  | .flt f => kt.ftext f
  | .dt ns => kt.itext ns
  | .str s => escKey s
  | .bool b => if b then [84] else [70]
  | .tern t => match t with | .T => [84] | .F => [70] | .U => [85]

/-- `[X]payload` -/
def serKey (kt : KeyText) (k : NKey) : Bytes := 91 :: tagOf k :: 93 :: payload kt k

/-- SerializeComparisonKeys: keys joined by `:` -/
def serKeys (kt : KeyText) : List NKey → Bytes
  | [] => []
  | [k] => serKey kt k
  | k :: ks => serKey kt k ++ sepByte :: serKeys kt ks

/-- decoder used in the injectivity proof and by the driver: split at unescaped separators.
    `e` = the previous byte was an unconsumed escape byte. -/
def splitKeys : Bool → Bytes → Bytes → List Bytes
  | _, [], cur => [cur.reverse]
  | true, b :: bs, cur => splitKeys false bs (b :: cur)
  | false, b :: bs, cur =>
    if b = escByte then splitKeys true bs (b :: cur)
    else if b = sepByte then cur.reverse :: splitKeys false bs []
    else splitKeys false bs (b :: cur)

/-- decimal text of an integer (driver instance of `itext`) -/
def natDigits : Nat → Nat → List Nat → List Nat
  | 0, _, acc => acc
  | fuel + 1, n, acc => if n < 10 then (48 + n) :: acc else natDigits fuel (n / 10) ((48 + n % 10) :: acc)

def decText (i : Int) : Bytes :=
  if i < 0 then 45 :: natDigits (i.natAbs + 1) i.natAbs [] else natDigits (i.natAbs + 1) i.natAbs []

end Csvq
