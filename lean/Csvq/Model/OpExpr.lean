/-
  Csvq.Model.OpExpr — the operator-expression sub-language of lib/parser/parser.y (core Lean only):
  binary operators `value T value`, prefix operators `T value [%prec P]`, the postfix test
  `value IS [NOT] (NULL | TRUE | FALSE | UNKNOWN)`, written parentheses (a `Parentheses` node, as in ast.go) and atoms.

  * `Expr` is the tree the semantic actions build; `print` is the `String()` methods of ast.go seen as token lists:
    operands are printed as they are, parentheses only where a `Parentheses` node is.
  * `parse` is precedence climbing.  Every decision is `act`: yacc's resolution of a shift/reduce conflict between
    the lookahead token (level `l`, associativity `a` of its declaration) and the pending rule (level `c`) —
    higher level shifts, lower reduces, equal level: %left reduces, %right shifts, %nonassoc is a syntax error.
    The pending rule of a binary production is the operator's level, of a prefix production its %prec level,
    inside parentheses and at the top there is none (level 0).
  * The table (`Table`) is a parameter of everything here; `genTable` is the one REGENERATED from parser.y
    (Csvq/Gen/Precedence.lean), which the driver and the instantiated theorems use.
  Not in this fragment (validated by correspondence only): BETWEEN, IN, the NOT LIKE / NOT IN / NOT BETWEEN forms,
  ANY / ALL, row values, and every non-operator `value`.
-/
import Csvq.Gen.Precedence
namespace Csvq.OpExpr

inductive Act | shift | reduce | error
  deriving DecidableEq, Repr

/-- yacc's conflict resolution: lookahead of level `l` (declared `a`) against a pending rule of level `c` -/
def act (l : Nat) (a : Assoc) (c : Nat) : Act :=
  if c < l then .shift
  else if l < c then .reduce
  else match a with
    | .left => .reduce
    | .right => .shift
    | .nonassoc => .error

/-- the clause keywords and punctuation of a SELECT statement (Csvq.Model.Clause); to the expression parser they are
    just tokens at which an expression ends -/
inductive Kw
  | select | distinct | from | where | group | by | having | order | asc | desc | nulls | first | last
  | limit | offset | percent | row | rows | only | with | ties | as | comma | dot
  | join | inner | outer | left | right | full | cross | natural | on | using
  | union | except | intersect | all
  deriving DecidableEq, Repr

structure Table (α : Type) where
  bin : α → Option (Nat × Assoc)     -- `value T value`
  pre : α → Option Nat               -- `T value [%prec P]`: level of P
  post : α → Option (Nat × Assoc)    -- `value T negation (ternary | null)`
  neg : α                            -- the token of `negation`
  star : α                           -- `*`, which is also the select item "all columns"

inductive Tok (α : Type)
  | atom (n : Nat)                   -- an identifier or a number
  | lpar | rpar
  | sym (t : α) (v : Nat)            -- an operator / keyword terminal; `v` tells its spellings apart (`<`, `<=`, …)
  | lit (w : Nat)                    -- NULL, TRUE, FALSE, UNKNOWN after IS
  | kw (k : Kw)                      -- a clause keyword or `,` `.`
  deriving DecidableEq, Repr

inductive Expr (α : Type)
  | atom (n : Nat)
  | paren (e : Expr α)                                   -- Parentheses{Expr}
  | pre (t : α) (v : Nat) (e : Expr α)                   -- UnaryArithmetic / UnaryLogic
  | bin (l : Expr α) (t : α) (v : Nat) (r : Expr α)      -- Arithmetic / Comparison / Logic / Like / Concat
  | post (e : Expr α) (t : α) (neg : Bool) (w : Nat)     -- Is{LHS, RHS, Negation}
  deriving DecidableEq, Repr

variable {α : Type} [DecidableEq α]

/-- the `String()` methods, as tokens -/
def print (tbl : Table α) : Expr α → List (Tok α)
  | .atom n => [.atom n]
  | .paren e => .lpar :: (print tbl e ++ [.rpar])
  | .pre t v e => .sym t v :: print tbl e
  | .bin l t v r => print tbl l ++ .sym t v :: print tbl r
  | .post e t neg w => print tbl e ++ .sym t 0 :: ((if neg then [.sym tbl.neg 0] else []) ++ [.lit w])

/-- what follows the postfix test token: `[NOT] (NULL | TRUE | FALSE | UNKNOWN)` -/
def postTail (tbl : Table α) : List (Tok α) → Option (Bool × Nat × List (Tok α))
  | .lit w :: ts => some (false, w, ts)
  | .sym t2 _ :: .lit w :: ts => if t2 = tbl.neg then some (true, w, ts) else none
  | _ => none

mutual
/-- an operand followed by the operators that bind tighter than the pending rule `r` -/
def parseE (tbl : Table α) : Nat → Nat → List (Tok α) → Option (Expr α × List (Tok α))
  | 0, _, _ => none
  | n + 1, r, ts =>
    match parseUnit tbl n ts with
    | some (u, ts1) => parseLoop tbl n r u ts1
    | none => none
/-- atom, parenthesised expression, or prefix operator with its operand -/
def parseUnit (tbl : Table α) : Nat → List (Tok α) → Option (Expr α × List (Tok α))
  | 0, _ => none
  | n + 1, ts =>
    match ts with
    | .atom k :: ts => some (.atom k, ts)
    | .lpar :: ts =>
      match parseE tbl n 0 ts with
      | some (e, .rpar :: ts') => some (.paren e, ts')
      | _ => none
    | .sym t v :: ts =>
      match tbl.pre t with
      | some p =>
        match parseE tbl n p ts with
        | some (e, ts') => some (.pre t v e, ts')
        | none => none
      | none => none
    | _ => none
/-- with `lhs` parsed and `r` pending: shift the next operator, reduce (return), or fail -/
def parseLoop (tbl : Table α) : Nat → Nat → Expr α → List (Tok α) → Option (Expr α × List (Tok α))
  | 0, _, _, _ => none
  | n + 1, r, lhs, ts =>
    match ts with
    | .sym t v :: ts' =>
      match tbl.bin t with
      | some (l, a) =>
        match act l a r with
        | .shift =>
          match parseE tbl n l ts' with
          | some (rhs, ts'') => parseLoop tbl n r (.bin lhs t v rhs) ts''
          | none => none
        | .reduce => some (lhs, ts)
        | .error => none
      | none =>
        match tbl.post t with
        | some (l, a) =>
          match act l a r with
          | .shift =>
            match postTail tbl ts' with
            | some (neg, w, ts'') => parseLoop tbl n r (.post lhs t neg w) ts''
            | none => none
          | .reduce => some (lhs, ts)
          | .error => none
        | none => some (lhs, ts)
    | _ => some (lhs, ts)
end

/-- the whole token list is one expression -/
def parse (tbl : Table α) (ts : List (Tok α)) : Option (Expr α) :=
  match parseE tbl (3 * ts.length + 3) 0 ts with
  | some (e, []) => some e
  | _ => none

/-! ## the table regenerated from parser.y -/

open Csvq.Gen.Precedence in
def levelOf (t : Term) : Option (Nat × Assoc) :=
  let rec go : Nat → List (Assoc × List Term) → Option (Nat × Assoc)
    | _, [] => none
    | i, (a, ts) :: rest => if ts.contains t then some (i, a) else go (i + 1) rest
  go 1 levels

open Csvq.Gen.Precedence in
def genTable : Table Term where
  bin t := if (binaryOps.map (·.1)).contains t then levelOf t else none
  pre t := match prefixOps.find? (fun p => p.1 = t) with
    | some (_, p, _) => (levelOf p).map (·.1)
    | none => none
  post t := if postfixOps.contains t then levelOf t else none
  neg := negationToken
  star := .c_star

end Csvq.OpExpr
