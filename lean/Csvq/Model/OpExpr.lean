/-
  Csvq.Model.OpExpr — the operator-expression sub-language of lib/parser/parser.y (core Lean only):
  binary operators `value T value`, prefix operators `T value [%prec P]`, the postfix test
  `value IS [NOT] (NULL | TRUE | FALSE | UNKNOWN)`, written parentheses (a `Parentheses` node, as in ast.go) and atoms.

  * `Expr` is the tree the semantic actions build; `print` is the `String()` methods of ast.go seen as token lists:
    operands are printed as they are, parentheses only where a `Parentheses` node is.
  * `parse` is precedence climbing.  Every decision is `act`: yacc's resolution of a shift/reduce conflict between
    the lookahead token (level `l`, associativity `a` of its declaration) and the pending rule (level `c`) —
    higher level shifts, lower reduces, equal level: %left reduces, %right shifts, %nonassoc is a syntax error.
    The pending rule of a binary production is the operator's level, of a prefix production its %prec level,
    inside parentheses and at the top there is none (level 0).
  * The table (`Table`) is a parameter of everything here; `genTable` is the one REGENERATED from parser.y
    (Csvq/Gen/Precedence.lean), which the driver and the instantiated theorems use.
  * Also in the fragment (wave 17), with decisions that are NOT those of a binary operator:
    `value NOT LIKE value` — the loop decides on NOT with the declared level of NOT, the right operand is read with the
    level of LIKE (`nbin`); `value [NOT] BETWEEN value AND value` — the rule has the level of its last terminal AND, so the
    upper bound is read with that level pending; the lower bound is read with no rule pending by a loop that ends at the
    first AND it meets (`ba`), which is what the LALR automaton does (the states after `value BETWEEN value` shift AND
    into the BETWEEN production, the reduce/reduce conflict behind it is resolved for BETWEEN) (`between`);
    `value [NOT] IN ( values )` (`inl`); function calls `identifier ( [values] )` (`call`); `CURSOR c IS [NOT] OPEN |
    IN RANGE` (`cstat`) and `CURSOR c COUNT` (`cattr`).  `Args` is the list type (mutual with `Expr`).
  Not in this fragment (validated by correspondence only): CASE, sub-queries (scalar, IN, EXISTS, ANY / ALL), row values,
  aggregate / analytic / list functions, SUBSTRING … FROM … FOR, and the other one-token values beyond identifiers and
  numbers (to the token-level model they are atoms).
-/
import Csvq.Gen.Precedence
namespace Csvq.OpExpr

inductive Act | shift | reduce | error
  deriving DecidableEq, Repr

/-- yacc's conflict resolution: lookahead of level `l` (declared `a`) against a pending rule of level `c` -/
def act (l : Nat) (a : Assoc) (c : Nat) : Act :=
  if c < l then .shift
  else if l < c then .reduce
  else match a with
    | .left => .reduce
    | .right => .shift
    | .nonassoc => .error

/-- the clause keywords and punctuation of a SELECT statement (Csvq.Model.Clause); to the expression parser they are
    just tokens at which an expression ends -/
inductive Kw
  | select | distinct | from | where | group | by | having | order | asc | desc | nulls | first | last
  | limit | offset | percent | row | rows | only | with | ties | as | comma | dot
  | join | inner | outer | left | right | full | cross | natural | on | using
  | union | except | intersect | all
  | recursive | for_ | update
  deriving DecidableEq, Repr

structure Table (α : Type) where
  bin : α → Option (Nat × Assoc)     -- `value T value`
  pre : α → Option Nat               -- `T value [%prec P]`: level of P
  post : α → Option (Nat × Assoc)    -- `value T negation (ternary | null)`
  neg : α                            -- the token of `negation` (NOT)
  star : α                           -- `*`, which is also the select item "all columns"
  lvl : α → Option (Nat × Assoc)     -- the declared level of a token: decides whether NOT / BETWEEN / IN is shifted
  btw : α                            -- BETWEEN
  and_ : α                           -- AND (also the separator of BETWEEN's bounds)
  inn : α                            -- IN
  is_ : α                            -- IS (in `CURSOR c IS …`)
  negable : α → Bool                 -- binary operators with a production `value NOT T value` (LIKE)

inductive Tok (α : Type)
  | atom (n : Nat)                   -- a one-token value: identifier (even code) or number (odd code)
  | lpar | rpar
  | sym (t : α) (v : Nat)            -- an operator / keyword terminal; `v` tells its spellings apart (`<`, `<=`, …)
  | lit (w : Nat)                    -- a reserved word of the expression grammar: 0–3 NULL TRUE FALSE UNKNOWN (after IS),
                                     -- 9 CURSOR, 10 OPEN, 11 RANGE, 12 COUNT
  | kw (k : Kw)                      -- a clause keyword or `,` `.`
  deriving DecidableEq, Repr

mutual
inductive Expr (α : Type)
  | atom (n : Nat)
  | paren (e : Expr α)                                   -- Parentheses{Expr}
  | pre (t : α) (v : Nat) (e : Expr α)                   -- UnaryArithmetic / UnaryLogic
  | bin (l : Expr α) (t : α) (v : Nat) (r : Expr α)      -- Arithmetic / Comparison / Logic / Like / Concat
  | post (e : Expr α) (t : α) (neg : Bool) (w : Nat)     -- Is{LHS, RHS, Negation}
  | nbin (l : Expr α) (t : α) (v : Nat) (r : Expr α)     -- Like{LHS, Pattern, Negation: NOT}: `l NOT LIKE r`
  | between (e : Expr α) (neg : Bool) (lo hi : Expr α)   -- Between{LHS, Low, High, Negation}
  | inl (e : Expr α) (neg : Bool) (vs : Args α)          -- In{LHS, Values: RowValue{ValueList}, Negation}
  | call (f : Nat) (as : Args α)                         -- Function{Name, Args}
  | cstat (c : Nat) (neg : Bool) (range : Bool)          -- CursorStatus{Cursor, Negation, Type: OPEN | RANGE}
  | cattr (c : Nat)                                      -- CursorAttrebute{Cursor, Attrebute: COUNT}
inductive Args (α : Type)
  | nil
  | cons (e : Expr α) (rest : Args α)
end

deriving instance DecidableEq for Expr, Args
deriving instance Repr for Expr, Args

variable {α : Type} [DecidableEq α]

def Args.len : Args α → Nat
  | .nil => 0
  | .cons _ r => r.len + 1

/-- atoms are identifiers (even codes) or numbers (odd codes): function and cursor names must be identifiers -/
def isId (n : Nat) : Bool := n % 2 = 0
def isNum (n : Nat) : Bool := n % 2 = 1

def negToks (tbl : Table α) (neg : Bool) : List (Tok α) := if neg then [.sym tbl.neg 0] else []

mutual
/-- the `String()` methods, as tokens -/
def print (tbl : Table α) : Expr α → List (Tok α)
  | .atom n => [.atom n]
  | .paren e => .lpar :: (print tbl e ++ [.rpar])
  | .pre t v e => .sym t v :: print tbl e
  | .bin l t v r => print tbl l ++ .sym t v :: print tbl r
  | .post e t neg w => print tbl e ++ .sym t 0 :: ((if neg then [.sym tbl.neg 0] else []) ++ [.lit w])
  | .nbin l t v r => print tbl l ++ .sym tbl.neg 0 :: .sym t v :: print tbl r
  | .between e neg lo hi =>
    print tbl e ++ (negToks tbl neg ++ .sym tbl.btw 0 :: (print tbl lo ++ .sym tbl.and_ 0 :: print tbl hi))
  | .inl e neg vs => print tbl e ++ (negToks tbl neg ++ .sym tbl.inn 0 :: .lpar :: (printArgs tbl vs ++ [.rpar]))
  | .call f as => .atom f :: .lpar :: (printArgs tbl as ++ [.rpar])
  | .cstat c neg range =>
    .lit 9 :: .atom c :: .sym tbl.is_ 0 :: (negToks tbl neg ++ (if range then [.sym tbl.inn 0, .lit 11] else [.lit 10]))
  | .cattr c => [.lit 9, .atom c, .lit 12]
/-- listQueryExpressions: the elements separated by `,` -/
def printArgs (tbl : Table α) : Args α → List (Tok α)
  | .nil => []
  | .cons e .nil => print tbl e
  | .cons e (.cons e2 r) => print tbl e ++ .kw .comma :: printArgs tbl (.cons e2 r)
end

/-- what follows the postfix test token: `[NOT] (NULL | TRUE | FALSE | UNKNOWN)` -/
def postTail (tbl : Table α) : List (Tok α) → Option (Bool × Nat × List (Tok α))
  | .lit w :: ts => if w < 4 then some (false, w, ts) else none
  | .sym t2 _ :: .lit w :: ts => if t2 = tbl.neg ∧ w < 4 then some (true, w, ts) else none
  | _ => none

def expectLpar : List (Tok α) → Option (List (Tok α))
  | .lpar :: ts => some ts
  | _ => none
def expectRpar : List (Tok α) → Option (List (Tok α))
  | .rpar :: ts => some ts
  | _ => none
def takeComma : List (Tok α) → Option (List (Tok α))
  | .kw .comma :: ts => some ts
  | _ => none
def nextSym : List (Tok α) → Option (α × Nat × List (Tok α))
  | .sym t v :: ts => some (t, v, ts)
  | _ => none
def expectSym (t : α) : List (Tok α) → Option (List (Tok α))
  | .sym t2 _ :: ts => if t2 = t then some ts else none
  | _ => none

/-- `CURSOR c IS [NOT] OPEN` | `CURSOR c IS [NOT] IN RANGE` | `CURSOR c COUNT`, the CURSOR token already read -/
def parseCursor (tbl : Table α) : List (Tok α) → Option (Expr α × List (Tok α))
  | .atom c :: .lit 12 :: ts => if isId c then some (.cattr c, ts) else none
  | .atom c :: .sym t _ :: .lit 10 :: ts => if isId c ∧ t = tbl.is_ then some (.cstat c false false, ts) else none
  | .atom c :: .sym t _ :: .sym t2 _ :: .lit 10 :: ts =>
    if isId c ∧ t = tbl.is_ ∧ t2 = tbl.neg then some (.cstat c true false, ts) else none
  | .atom c :: .sym t _ :: .sym t2 _ :: .lit 11 :: ts =>
    if isId c ∧ t = tbl.is_ ∧ t2 = tbl.inn then some (.cstat c false true, ts) else none
  | .atom c :: .sym t _ :: .sym t2 _ :: .sym t3 _ :: .lit 11 :: ts =>
    if isId c ∧ t = tbl.is_ ∧ t2 = tbl.neg ∧ t3 = tbl.inn then some (.cstat c true true, ts) else none
  | _ => none

mutual
/-- an operand followed by the operators that bind tighter than the pending rule `r`; `ba`: this is the lower bound of a
    BETWEEN, whose AND ends it -/
def parseE (tbl : Table α) : Nat → Nat → Bool → List (Tok α) → Option (Expr α × List (Tok α))
  | 0, _, _, _ => none
  | n + 1, r, ba, ts =>
    match parseUnit tbl n ts with
    | some (u, ts1) => parseLoop tbl n r ba u ts1
    | none => none
/-- atom, function call, parenthesised expression, prefix operator with its operand, CURSOR status -/
def parseUnit (tbl : Table α) : Nat → List (Tok α) → Option (Expr α × List (Tok α))
  | 0, _ => none
  | n + 1, ts =>
    match ts with
    | .atom k :: ts =>
      match expectLpar ts with
      | none => some (.atom k, ts)
      | some ts1 =>
        if isId k then
          match expectRpar ts1 with
          | some ts2 => some (.call k .nil, ts2)
          | none =>
            match parseArgs tbl n ts1 with
            | some (as, ts2) =>
              match expectRpar ts2 with
              | some ts3 => some (.call k as, ts3)
              | none => none
            | none => none
        else none
    | .lpar :: ts =>
      match parseE tbl n 0 false ts with
      | some (e, .rpar :: ts') => some (.paren e, ts')
      | _ => none
    | .sym t v :: ts =>
      match tbl.pre t with
      | some p =>
        match parseE tbl n p false ts with
        | some (e, ts') => some (.pre t v e, ts')
        | none => none
      | none => none
    | .lit w :: ts => if w = 9 then parseCursor tbl ts else none
    | _ => none
/-- `value (, value)*` -/
def parseArgs (tbl : Table α) : Nat → List (Tok α) → Option (Args α × List (Tok α))
  | 0, _ => none
  | n + 1, ts =>
    match parseE tbl n 0 false ts with
    | some (e, ts1) =>
      match takeComma ts1 with
      | some ts2 =>
        match parseArgs tbl n ts2 with
        | some (more, ts3) => some (.cons e more, ts3)
        | none => none
      | none => some (.cons e .nil, ts1)
    | none => none
/-- what follows `value [NOT]` when the next token `t` is BETWEEN, IN or (after NOT) a negatable binary operator -/
def parseTail (tbl : Table α) : Nat → Expr α → Bool → α → Nat → List (Tok α) → Option (Expr α × List (Tok α))
  | 0, _, _, _, _, _ => none
  | n + 1, lhs, neg, t, v, ts =>
    if t = tbl.btw then
      match tbl.bin tbl.and_ with
      | some (la, _) =>
        match parseE tbl n 0 true ts with
        | some (lo, ts1) =>
          match expectSym tbl.and_ ts1 with
          | some ts2 =>
            match parseE tbl n la false ts2 with
            | some (hi, ts3) => some (.between lhs neg lo hi, ts3)
            | none => none
          | none => none
        | none => none
      | none => none
    else if t = tbl.inn then
      match expectLpar ts with
      | some ts1 =>
        match parseArgs tbl n ts1 with
        | some (vs, ts2) =>
          match expectRpar ts2 with
          | some ts3 => some (.inl lhs neg vs, ts3)
          | none => none
        | none => none
      | none => none
    else if neg && tbl.negable t then
      match tbl.bin t with
      | some (l, _) =>
        match parseE tbl n l false ts with
        | some (rhs, ts1) => some (.nbin lhs t v rhs, ts1)
        | none => none
      | none => none
    else none
/-- with `lhs` parsed and `r` pending: shift the next operator, reduce (return), or fail -/
def parseLoop (tbl : Table α) : Nat → Nat → Bool → Expr α → List (Tok α) → Option (Expr α × List (Tok α))
  | 0, _, _, _, _ => none
  | n + 1, r, ba, lhs, ts =>
    match ts with
    | .sym t v :: ts' =>
      if ba && t = tbl.and_ then some (lhs, ts) else
      match tbl.bin t with
      | some (l, a) =>
        match act l a r with
        | .shift =>
          match parseE tbl n l false ts' with
          | some (rhs, ts'') => parseLoop tbl n r ba (.bin lhs t v rhs) ts''
          | none => none
        | .reduce => some (lhs, ts)
        | .error => none
      | none =>
        match tbl.post t with
        | some (l, a) =>
          match act l a r with
          | .shift =>
            match postTail tbl ts' with
            | some (neg, w, ts'') => parseLoop tbl n r ba (.post lhs t neg w) ts''
            | none => none
          | .reduce => some (lhs, ts)
          | .error => none
        | none =>
          if t = tbl.neg then
            match tbl.lvl t with
            | some (l, a) =>
              match act l a r with
              | .shift =>
                match nextSym ts' with
                | some (t2, v2, ts2) =>
                  match parseTail tbl n lhs true t2 v2 ts2 with
                  | some (e, ts3) => parseLoop tbl n r ba e ts3
                  | none => none
                | none => none
              | .reduce => some (lhs, ts)
              | .error => none
            | none => some (lhs, ts)
          else if t = tbl.btw ∨ t = tbl.inn then
            match tbl.lvl t with
            | some (l, a) =>
              match act l a r with
              | .shift =>
                match parseTail tbl n lhs false t v ts' with
                | some (e, ts3) => parseLoop tbl n r ba e ts3
                | none => none
              | .reduce => some (lhs, ts)
              | .error => none
            | none => some (lhs, ts)
          else some (lhs, ts)
    | _ => some (lhs, ts)
end

/-- fuel that suffices for a token list of this length (every call level consumes a token within three steps) -/
def fuelFor (ts : List (Tok α)) : Nat := 4 * ts.length + 4

/-- the whole token list is one expression -/
def parse (tbl : Table α) (ts : List (Tok α)) : Option (Expr α) :=
  match parseE tbl (fuelFor ts) 0 false ts with
  | some (e, []) => some e
  | _ => none

/-! ## the table regenerated from parser.y -/

open Csvq.Gen.Precedence in
def levelOf (t : Term) : Option (Nat × Assoc) :=
  let rec go : Nat → List (Assoc × List Term) → Option (Nat × Assoc)
    | _, [] => none
    | i, (a, ts) :: rest => if ts.contains t then some (i, a) else go (i + 1) rest
  go 1 levels

open Csvq.Gen.Precedence in
def genTable : Table Term where
  bin t := if (binaryOps.map (·.1)).contains t then levelOf t else none
  pre t := match prefixOps.find? (fun p => p.1 = t) with
    | some (_, p, _) => (levelOf p).map (·.1)
    | none => none
  post t := if postfixOps.contains t then levelOf t else none
  neg := negationToken
  star := .c_star
  lvl := levelOf
  btw := .BETWEEN
  and_ := .AND
  inn := .IN
  is_ := .IS
  negable t := negatedOps.contains t

end Csvq.OpExpr
