/- Csvq.Model.OpBase — the associativity kinds of yacc precedence declarations (shared by the generated
   Csvq/Gen/Precedence.lean and the operator-expression model). -/
namespace Csvq.OpExpr

inductive Assoc | left | right | nonassoc
  deriving DecidableEq, Repr

end Csvq.OpExpr
