/-
  C14 — the value pool as a heap with a free list (core Lean only), and the record types of the
  generated files `Csvq/Gen/DiscardFacts.lean`, `Csvq/Gen/AstWriteFacts.lean`.

  `lib/value/pool.go`: `value.New*` takes an object from a `sync.Pool` (or allocates) and fills it;
  `value.Discard(p)` puts the object back.  Whoever still holds a reference to a discarded object
  sees the contents the next `New*` writes into it.  The model: addresses, a heap, a free list,
  clients (holders of references: a local variable of an activation, a table cell, a literal of
  the syntax tree, a program variable, a cursor row), each with the set of addresses it still
  references and the value it expects behind each of them.
-/
namespace Csvq.Pool

/-! ## Generated facts -/

structure DiscardFact where
  file      : String
  line      : Nat
  fn        : String
  var       : String
  fresh     : Bool     -- every definition of the variable reaching the call is a value.To*/value.New* call
  usedAfter : Bool     -- mentioned on some path after the Discard (before being reassigned)
  escapes   : Bool     -- stored, captured or passed to a function that may keep it
  why       : String
deriving DecidableEq, Repr

def DiscardFact.ok (f : DiscardFact) : Bool := f.fresh && !f.usedAfter && !f.escapes

def DiscardFact.reason (f : DiscardFact) : String :=
  if !f.fresh then "notFresh" else if f.usedAfter then "usedAfter" else if f.escapes then "escapes" else "ok"

def DiscardFact.site (f : DiscardFact) : String :=
  "discard:" ++ f.file ++ ":" ++ f.fn ++ ":" ++ f.var ++ ":" ++ f.reason

structure AstWriteFact where
  file : String
  line : Nat
  fn   : String
  lhs  : String
  how  : String
deriving DecidableEq, Repr

def AstWriteFact.site (f : AstWriteFact) : String := "astwrite:" ++ f.file ++ ":" ++ f.fn ++ ":" ++ f.lhs

/-! ## Heap / pool model -/

abbrev Addr := Nat
abbrev Val := Nat
abbrev Client := Nat

structure State where
  heap : Addr → Option Val        -- contents
  free : List Addr                -- the pool (objects given back by Discard)
  next : Addr                     -- allocation frontier: addresses ≥ next were never handed out
  refs : Client → List Addr       -- addresses each client still references
  exp  : Client → Addr → Val      -- ghost: the value the client was given behind that address

def init : State := ⟨fun _ => none, [], 0, fun _ => [], fun _ _ => 0⟩

inductive Op
  | new (c : Client) (v : Val)          -- c := New(v): pops the free list or allocates fresh
  | discard (c : Client) (a : Addr)     -- Discard(a) by c
  | read (c : Client) (a : Addr)        -- c reads through its reference
  | share (c d : Client) (a : Addr)     -- c hands its reference to d (store into a cell, return, capture)
  | drop (c : Client) (a : Addr)        -- c forgets the reference (garbage)
deriving DecidableEq, Repr

/-- address issued by the next `new`, remaining free list, new frontier -/
def alloc (s : State) : Addr × List Addr × Addr :=
  match s.free with
  | a :: rest => (a, rest, s.next)
  | []        => (s.next, [], s.next + 1)

def step (s : State) : Op → State
  | .new c v =>
    let a := (alloc s).1
    { heap := fun x => if x = a then some v else s.heap x
      free := (alloc s).2.1
      next := (alloc s).2.2
      refs := fun d => if d = c then a :: s.refs d else s.refs d
      exp  := fun d x => if d = c ∧ x = a then v else s.exp d x }
  | .discard c a =>
    { s with free := a :: s.free
             refs := fun d => if d = c then (s.refs d).filter (fun x => decide (x ≠ a)) else s.refs d }
  | .read _ _ => s
  | .share c d a =>
    { s with refs := fun e => if e = d then a :: s.refs e else s.refs e
             exp  := fun e x => if e = d ∧ x = a then s.exp c a else s.exp e x }
  | .drop c a =>
    { s with refs := fun d => if d = c then (s.refs d).filter (fun x => decide (x ≠ a)) else s.refs d }

def run (s : State) : List Op → State
  | [] => s
  | op :: rest => run (step s op) rest

/-- what a read returns -/
def readResult (s : State) (a : Addr) : Option Val := s.heap a

/-- The discipline, per operation, in the state in which it executes: an address is discarded only by
    a client that holds it while nobody else references it (and the discarder's reference ends with
    the discard, so it cannot read it afterwards); reads and hand-overs go through a held reference. -/
def Allowed (s : State) : Op → Prop
  | .new _ _      => True
  | .discard c a  => a ∈ s.refs c ∧ ∀ d, d ≠ c → a ∉ s.refs d
  | .read c a     => a ∈ s.refs c
  | .share c _ a  => a ∈ s.refs c
  | .drop _ _     => True

def Disciplined : State → List Op → Prop
  | _, [] => True
  | s, op :: rest => Allowed s op ∧ Disciplined (step s op) rest

/-- no address is both in the free list and live; what a client references holds what it was given -/
structure PoolInv (s : State) : Prop where
  freeNotLive : ∀ a, a ∈ s.free → ∀ c, a ∉ s.refs c
  expected    : ∀ c a, a ∈ s.refs c → s.heap a = some (s.exp c a)
  freeBelow   : ∀ a, a ∈ s.free → a < s.next
  liveBelow   : ∀ c a, a ∈ s.refs c → a < s.next
  freeNodup   : s.free.Nodup

/-! ## Syntax tree shared between the stored program and an evaluation
     (the shape of pre-finding F8, repaired in /repo by commit 02f8662; kept as the model-level witness) -/

inductive Arg
  | allColumns            -- `*`
  | intLit (n : Int)
  | field (name : Nat)
deriving DecidableEq, Repr

/-- the text the header / the look-up use to identify `COUNT(args) OVER ()` -/
def identifier (args : List Arg) : List Arg := args

/-- `Analyze` as it was written before the repair: the identifier is taken first, then `fn.Args[0] = 1` is stored through the
    slice shared with the program; returns (identifier registered in the header, program's args afterwards) -/
def analyzeInPlace (programArgs : List Arg) : List Arg × List Arg :=
  let headerId := identifier programArgs
  match programArgs with
  | .allColumns :: rest => (headerId, .intLit 1 :: rest)
  | _ => (headerId, programArgs)

/-- `Analyze` on a private copy of the argument list (what the code does now): the program is left as it was -/
def analyzeOnCopy (programArgs : List Arg) : List Arg × List Arg :=
  (identifier programArgs, programArgs)

/-- the select clause then looks the function up by the identifier of the program's (current) args -/
def lookupFinds (r : List Arg × List Arg) : Bool := decide (identifier r.2 = r.1)

end Csvq.Pool
