/-
  Csvq.Model.Label — the SECOND producer of "text csvq derives from the syntax tree": the column label of a select item
  (lib/parser/ast.go `Field.Name()`, stored by lib/query/view.go `evalFields` in `view.selectLabels[i]` and written by
  `View.Fix` into `Header[i].Column`, where ORDER BY, outer queries and the header line of the output read it).  Core Lean.

  * `fieldName` is `Field.Name()` in the shape of the code: alias first, then a primitive literal (its `Literal`), then a
    column reference (the `Literal` of its column identifier), otherwise `f.Object.String()`.  The case order and the
    subject of every type test are REGENERATED from ast.go (Csvq/Gen/AstPrint.lean `fieldNameCases`) and pinned by
    `Csvq.C18.gen_field_name_cases_eq_model`.
  * `text` is `String()` of the operator-expression fragment as TEXT (not tokens): joinWithSpace, putParentheses,
    listQueryExpressions (`, `), the separating blank of the unary printers, the upper-cased function name — what the
    header line shows for an item without alias that is not a bare literal / column reference.  Tied to /repo by stream
    op `c18.lbl` (the real `Field.Name()` and the real header line, byte for byte).
  * one-token values are numbers in `OpExpr` (`atom n`); `Atoms` says what the code knows of them: the `Literal` of the
    token (`raw`), its `String()` (`shown`: QuoteString / QuoteIdentifier of the literal where the token was quoted) and
    whether the raw literal scans back to the same single token (`plain`: unquoted identifiers and numbers).  `genAtoms` is
    the instance of the driver: the code of an atom carries its class and its literal.
-/
import Csvq.Model.OpExpr
import Csvq.Model.Escape
namespace Csvq.Label
open Csvq.OpExpr Csvq.Esc

/-- Field.Name() returns one of three things -/
inductive Label (α : Type)
  | ident (n : Nat)          -- Identifier.Literal (the alias, or the column of a FieldReference)
  | literal (n : Nat)        -- PrimitiveType.Literal
  | printed (e : Expr α)     -- f.Object.String()
  deriving DecidableEq, Repr

variable {α : Type} [DecidableEq α]

/-- `func (f Field) Name() string` -/
def fieldName (e : Expr α) (alias : Option Nat) : Label α :=
  match alias with
  | some a => .ident a                          -- if f.Alias != nil { return f.Alias.(Identifier).Literal }
  | none =>
    match e with
    | .atom n =>
      if isNum n then .literal n                -- if t, ok := f.Object.(PrimitiveType); ok { return t.Literal }
      else .ident n                             -- if fr, ok := f.Object.(FieldReference); ok { if col, ok := fr.Column.(Identifier) … return col.Literal }
    | e => .printed e                           -- return f.Object.String()

/-- the variant that looks through enclosing parentheses before its special cases (NOT the code: the shape of a tempting
    change; `Csvq.C18.unwrapping_label_does_not_reparse`) -/
def unwrap : Expr α → Expr α
  | .paren e => unwrap e
  | e => e

def fieldNameUnwrapping (e : Expr α) (alias : Option Nat) : Label α :=
  match alias with
  | some a => .ident a
  | none =>
    match unwrap e with
    | .atom n => if isNum n then .literal n else .ident n
    | _ => .printed e

/-- the tokens the scanner reads back from the label; `none`: the raw literal is not the spelling of its token (a string
    literal without its quotes, a quoted identifier without its back quotes) — the documented special cases -/
def labelToks (plain : Nat → Bool) (tbl : Table α) : Label α → Option (List (Tok α))
  | .ident n => if plain n then some [.atom n] else none
  | .literal n => if plain n then some [.atom n] else none
  | .printed e => some (print tbl e)

/-! ## String() as text -/

structure Atoms where
  raw : Nat → List Char
  shown : Nat → List Char
  plain : Nat → Bool

/-- the spellings `text` needs: `Operator.String()` / `keyword(T)` of an operator terminal, and when the unary printers
    put a blank between operator and operand -/
structure Spell (α : Type) where
  atoms : Atoms
  sym : α → Nat → List Char
  preSep : α → List Char → Bool

def litText : Nat → List Char
  | 0 => "NULL".toList | 1 => "TRUE".toList | 2 => "FALSE".toList | 3 => "UNKNOWN".toList
  | 9 => "CURSOR".toList | 10 => "OPEN".toList | 11 => "RANGE".toList | 12 => "COUNT".toList
  | _ => []

/-- strings.ToUpper on the ASCII letters (function names of the stream are ASCII) -/
def asciiUpper (cs : List Char) : List Char :=
  cs.map fun c => if 'a' ≤ c ∧ c ≤ 'z' then Char.ofNat (c.toNat - 32) else c

def notText (sp : Spell α) (tbl : Table α) (neg : Bool) : List Char :=
  if neg then ' ' :: sp.sym tbl.neg 0 else []

mutual
def text (sp : Spell α) (tbl : Table α) : Expr α → List Char
  | .atom n => sp.atoms.shown n
  | .paren e => '(' :: (text sp tbl e ++ [')'])                                  -- putParentheses(e.Expr.String())
  | .pre t v e =>                                                               -- UnaryArithmetic / UnaryLogic
    let o := text sp tbl e
    sp.sym t v ++ (if sp.preSep t o then ' ' :: o else o)
  | .bin l t v r => text sp tbl l ++ ' ' :: (sp.sym t v ++ ' ' :: text sp tbl r) -- joinWithSpace [LHS, Operator, RHS]
  | .post e t neg w => text sp tbl e ++ ' ' :: (sp.sym t 0 ++ notText sp tbl neg ++ ' ' :: litText w)
  | .nbin l t v r => text sp tbl l ++ notText sp tbl true ++ ' ' :: (sp.sym t v ++ ' ' :: text sp tbl r)
  | .between e neg lo hi =>
    text sp tbl e ++ notText sp tbl neg ++ ' ' :: (sp.sym tbl.btw 0 ++ ' ' :: (text sp tbl lo ++ ' ' :: (sp.sym tbl.and_ 0 ++ ' ' :: text sp tbl hi)))
  | .inl e neg vs =>
    text sp tbl e ++ notText sp tbl neg ++ ' ' :: (sp.sym tbl.inn 0 ++ ' ' :: '(' :: (textArgs sp tbl vs ++ [')']))
  | .call f as => asciiUpper (sp.atoms.raw f) ++ '(' :: (textArgs sp tbl as ++ [')'])  -- strings.ToUpper(e.Name) + "(" + args + ")"
  | .cstat c neg range =>
    litText 9 ++ ' ' :: (sp.atoms.shown c ++ ' ' :: (sp.sym tbl.is_ 0 ++ notText sp tbl neg ++
      (if range then ' ' :: (sp.sym tbl.inn 0 ++ ' ' :: litText 11) else ' ' :: litText 10)))
  | .cattr c => litText 9 ++ ' ' :: (sp.atoms.shown c ++ ' ' :: litText 12)
/-- listQueryExpressions: joined by `, ` -/
def textArgs (sp : Spell α) (tbl : Table α) : Args α → List Char
  | .nil => []
  | .cons e .nil => text sp tbl e
  | .cons e (.cons e2 r) => text sp tbl e ++ ',' :: ' ' :: textArgs sp tbl (.cons e2 r)
end

/-- the header line's text of a label -/
def labelText (sp : Spell α) (tbl : Table α) : Label α → List Char
  | .ident n => sp.atoms.raw n
  | .literal n => sp.atoms.raw n
  | .printed e => text sp tbl e

/-! ## the atoms of the driver: class and literal inside the code

  `4k` the identifier `x<k>`, `4k+1` the number `k`, `8p+2` a back-quoted identifier, `8p+6` an unquoted identifier with
  a name of its own, `4p+3` a string literal; the payload `p` is the UTF-8 bytes of the literal as base-256 digits behind
  a leading 1 (so that leading zero bytes and the empty literal survive). -/

def bytesOf : Nat → Nat → List Nat
  | 0, _ => []
  | fuel + 1, p => if p ≤ 1 then [] else bytesOf fuel (p / 256) ++ [p % 256]

def payloadBytes (p : Nat) : List Nat := bytesOf (p + 1) p

def payloadOf (bs : List Nat) : Nat := bs.foldl (fun acc b => acc * 256 + b % 256) 1

def bytesToChars (bs : List Nat) : List Char :=
  match String.fromUTF8? (ByteArray.mk (bs.map UInt8.ofNat).toArray) with
  | some s => s.toList
  | none => []

def digits (n : Nat) : List Char := (toString n).toList

inductive AtomClass | xident | number | quotedIdent | namedIdent | string
  deriving DecidableEq, Repr

def classOf (n : Nat) : AtomClass :=
  if n % 4 = 0 then .xident else if n % 4 = 1 then .number else if n % 4 = 3 then .string
  else if n % 8 = 2 then .quotedIdent else .namedIdent

def rawOf (n : Nat) : List Char :=
  match classOf n with
  | .xident => 'x' :: digits (n / 4)
  | .number => digits (n / 4)
  | .string => bytesToChars (payloadBytes (n / 4))
  | .quotedIdent => bytesToChars (payloadBytes (n / 8))
  | .namedIdent => bytesToChars (payloadBytes (n / 8))

def genAtoms : Atoms where
  raw := rawOf
  shown n := match classOf n with
    | .string => quoteString (rawOf n)            -- PrimitiveType.String(): option.QuoteString(e.Literal)
    | .quotedIdent => quoteIdentifier (rawOf n)   -- Identifier.String(): option.QuoteIdentifier(e.Literal)
    | _ => rawOf n
  plain n := match classOf n with
    | .string => false
    | .quotedIdent => false
    | _ => true

/-! ## strings.Fields + strings.Join(…, " ") over a printed text (the shape of seed C18-m23; not the code) -/

def isBlank (c : Char) : Bool :=
  c = ' ' || c = '\t' || c = '\n' || c = '\x0b' || c = '\x0c' || c = '\r' || c = '\u0085' || c = '\u00a0' || c = '\u3000'

/-- runs of white space become one U+0020, leading and trailing ones vanish (`started`: a non-blank was written;
    `pending`: blanks were skipped since) -/
def collapseGo : Bool → Bool → List Char → List Char
  | _, _, [] => []
  | started, pending, c :: cs =>
    if isBlank c then collapseGo started true cs
    else (if started && pending then [' ', c] else [c]) ++ collapseGo true false cs

def collapse (cs : List Char) : List Char := collapseGo false false cs

end Csvq.Label
