/-
  C13 — abstract fork–join execution model (core Lean only).

  A parent forks `n` workers and joins them.  Each thread performs a list of *accesses*
  (location, read/write, set of locks held, "operation of a synchronisation object").  An
  *interleaving* is any sequence of events whose projection on every thread is that thread's
  access list.  A *data race* is a pair of events of different threads on the same location, at
  least one a write, with disjoint locksets, not both operations of a synchronisation object
  (the lockset formulation of "conflicting and unordered" for a region whose only
  synchronisation is fork, join, locks and synchronisation objects).

  Also here: the record types of the generated files `Csvq/Gen/ParFacts.lean`, and the
  hand-written model of `GoroutineTaskManager.RecordRange`.
-/
namespace Csvq.ForkJoin

inductive RW | r | w
deriving DecidableEq, Repr

/-! ## Generated facts (shape of `Csvq.Gen.parFacts`) -/

/-- syntactic class of an access to a shared variable inside a fork–join region -/
inductive ParClass
  | ownIndex   -- element `v[i]…` with `i` owned by the executing worker, or a variable used by one goroutine only
  | guarded    -- inside a mutex Lock…Unlock region, or an operation of sync.Pool / sync.Map / atomic
  | chan       -- channel send / receive / close / range
  | readOnly   -- nobody writes the location between fork and join
  | wg         -- WaitGroup Add / Done / Wait
  | unguarded  -- a write, or a read of something another goroutine writes, without protection
deriving DecidableEq, Repr

structure ParFact where
  file   : String
  line   : Nat
  fn     : String     -- enclosing function (`Recv.Name` for methods)
  region : Nat        -- fork–join region (index into `Gen.parRegions`)
  var    : String     -- access path `root.field…`, cut at the first index
  elem   : Bool       -- `true`: an element `var[i]…`; `false`: the variable / field / map itself
  rw     : RW
  cls    : ParClass
  how    : String     -- index space ("record", "worker", "stride", "partition", …), lock, sync object
  syncOp : Bool       -- an operation of a synchronisation object (channel, WaitGroup, sync.Pool, sync.Map, atomic)
deriving DecidableEq, Repr

/-- stable signature of a site (no line numbers) -/
def ParFact.site (f : ParFact) : String := "race:" ++ f.file ++ ":" ++ f.fn ++ ":" ++ f.var

structure MethodFact where
  typ        : String
  method     : String
  field      : String
  rw         : RW
  mutex      : String   -- "" = no mutex held
  concurrent : Bool     -- callable while worker goroutines run
deriving DecidableEq, Repr

/-- a reference-typed field of the result of a Copy-style method: does it share state with the original? -/
structure CopyFact where
  file  : String
  line  : Nat
  fn    : String
  field : String
  fresh : Bool     -- made anew (make / literal / Copy() of the field / nil) on every path
  how   : String
deriving DecidableEq, Repr

def CopyFact.site (f : CopyFact) : String := "copyshare:" ++ f.file ++ ":" ++ f.fn ++ ":" ++ f.field

/-- an object that is given back to a `sync.Pool` (node scope, block scope, merged record, key buffer): per function
    and released object the number of release sites, how many of them are deferred, and the fewest / most releases
    on any path through the function (deferred calls included; capped at 3) -/
structure ReleaseFact where
  file   : String
  line   : Nat
  fn     : String     -- function (`Recv.Name`; `….funcN` for the N-th function literal inside it)
  key    : String     -- the released expression
  via    : String     -- the releaser called (`sync.Pool.Put`, or a function that hands its argument on to one)
  sites  : Nat
  defers : Nat
  minRel : Nat
  maxRel : Nat
deriving DecidableEq, Repr

def ReleaseFact.site (f : ReleaseFact) : String := "doublerelease:" ++ f.file ++ ":" ++ f.fn ++ ":" ++ f.key
def ReleaseFact.leakSite (f : ReleaseFact) : String := "releaseleak:" ++ f.file ++ ":" ++ f.fn ++ ":" ++ f.key

/-- a place where a `View` gets its `Header`: made anew (`fresh`), or another view's header; for the latter whether
    the function then calls something on the new view that writes header fields -/
structure HeaderShareFact where
  file         : String
  line         : Nat
  fn           : String
  target       : String
  source       : String
  fresh        : Bool
  writtenAfter : Bool
  via          : String
deriving DecidableEq, Repr

def HeaderShareFact.site (f : HeaderShareFact) : String := "headershare:" ++ f.file ++ ":" ++ f.fn ++ ":" ++ f.target

/-- a statement that writes a field of a header element; `localHeader`: the header is made in the same function -/
structure HeaderWriteFact where
  file        : String
  line        : Nat
  fn          : String
  header      : String
  field       : String
  localHeader : Bool
deriving DecidableEq, Repr

def HeaderWriteFact.site (f : HeaderWriteFact) : String := "headerwrite:" ++ f.fn ++ ":" ++ f.header ++ ":" ++ f.field

/-- what one worker body (callback of Run / EvaluateSequentially, goroutine body) reaches in lib/query, lib/value and
    lib/option: `reachesCore` — it reaches `Evaluate` and with it every function of `Gen.reachableCore`; `direct` — the
    functions it reaches otherwise -/
structure ClosureReach where
  region      : Nat
  body        : String
  reachesCore : Bool
  direct      : List String
deriving DecidableEq, Repr

/-- a package-level variable of the analysed packages: is it changed after initialisation, and what makes that safe
    (a concurrency-safe type, a lock, a sync.Once; "" = nothing found) -/
structure PackageState where
  pkg     : String
  name    : String
  typ     : String
  written : Bool
  guard   : String
deriving DecidableEq, Repr

/-! ## Executions -/

abbrev LockId := Nat

structure Loc where
  var : Nat            -- the variable (access path)
  idx : Option Nat     -- `some k`: element `var[k]`; `none`: the variable itself
deriving DecidableEq, Repr

inductive Tid
  | parent
  | worker (i : Nat)
deriving DecidableEq, Repr

structure Access where
  loc    : Loc
  rw     : RW
  locks  : List LockId
  atomic : Bool         -- operation of a synchronisation object (channel, WaitGroup, sync.Pool, atomic.*)
deriving DecidableEq, Repr

structure Event where
  tid : Tid
  acc : Access
deriving DecidableEq, Repr

/-- one fork–join region: `n` workers, their accesses, and the parent's accesses between fork and join -/
structure Exec where
  n      : Nat
  worker : Nat → List Access
  parent : List Access

def Exec.thread (x : Exec) : Tid → List Access
  | .parent   => x.parent
  | .worker i => if i < x.n then x.worker i else []

/-- `tr` is an interleaving of the threads of `x`: its projection on every thread is that thread's list -/
def Interleaving (x : Exec) (tr : List Event) : Prop :=
  ∀ t : Tid, (tr.filter (fun e => decide (e.tid = t))).map (·.acc) = x.thread t

def Race (e₁ e₂ : Event) : Prop :=
  e₁.tid ≠ e₂.tid ∧ e₁.acc.loc = e₂.acc.loc ∧ (e₁.acc.rw = .w ∨ e₂.acc.rw = .w) ∧
  (∀ l, l ∈ e₁.acc.locks → l ∉ e₂.acc.locks) ∧ ¬ (e₁.acc.atomic = true ∧ e₂.acc.atomic = true)

instance (e₁ e₂ : Event) : Decidable (Race e₁ e₂) := by unfold Race; infer_instance

def HasRace (tr : List Event) : Prop :=
  ∃ (i j : Nat) (hi : i < tr.length) (hj : j < tr.length), i ≠ j ∧ Race tr[i] tr[j]

/-! ## The access discipline -/

inductive Policy
  | ownIndex               -- elements, each accessed only by the worker whose index range contains it
  | sole (i : Nat)         -- accessed by worker `i` only
  | guarded (m : LockId)   -- every access holds `m`
  | sync                   -- synchronisation object: every access is one of its operations
  | readOnly               -- never written between fork and join
deriving DecidableEq, Repr

structure Discipline where
  policy : Nat → Policy    -- per variable
  lo     : Nat → Nat       -- worker `i` owns the indices `lo i ≤ k < hi i`
  hi     : Nat → Nat

def Conforms (d : Discipline) (t : Tid) (a : Access) : Prop :=
  match d.policy a.loc.var with
  | .ownIndex  => ∃ i k, t = .worker i ∧ a.loc.idx = some k ∧ d.lo i ≤ k ∧ k < d.hi i
  | .sole i    => t = .worker i
  | .guarded m => m ∈ a.locks
  | .sync      => a.atomic = true
  | .readOnly  => a.rw = .r

def RangesDisjoint (n : Nat) (lo hi : Nat → Nat) : Prop :=
  ∀ i j k, i < n → j < n → i ≠ j → lo i ≤ k → k < hi i → ¬ (lo j ≤ k ∧ k < hi j)

/-! ## `GoroutineTaskManager.RecordRange` (hand-written; `Gen.recordRange` is the generated one) -/

/-- `recordRange len n i` = `(start, end)` as goroutine_manager.go computes it
    (`recordLen = len`, `Number = n`, `routineIndex = i`). -/
def recordRange (len n i : Nat) : Nat × Nat :=
  let calcLen := len / n
  let start := i * calcLen
  if len ≤ start then (0, 0)
  else (start, if i = n - 1 then len else (i + 1) * calcLen)

def rrLo (len n i : Nat) : Nat := (recordRange len n i).1
def rrHi (len n i : Nat) : Nat := (recordRange len n i).2

/-- the indices of worker `i`, in the order its loop visits them -/
def rrIndices (len n i : Nat) : List Nat :=
  List.range' (rrLo len n i) (rrHi len n i - rrLo len n i)

/-! ## Partition building (analytic functions): row `i` goes to the bucket of `keys[i]` -/

/-- the loop of `Analyze` that fills `partitions` / `partitionMapKeys`: state = (buckets, keys in order of discovery) -/
def addRow {K : Type} [DecidableEq K] (st : (K → List Nat) × List K) (i : Nat) (key : K) : (K → List Nat) × List K :=
  if key ∈ st.2 then (fun k => if k = key then st.1 k ++ [i] else st.1 k, st.2)
  else (fun k => if k = key then [i] else st.1 k, st.2 ++ [key])

def buildFrom {K : Type} [DecidableEq K] : (K → List Nat) × List K → Nat → List K → (K → List Nat) × List K
  | st, _, [] => st
  | st, i, key :: rest => buildFrom (addRow st i key) (i + 1) rest

def buildPartitions {K : Type} [DecidableEq K] (keys : List K) : (K → List Nat) × List K :=
  buildFrom (fun _ => [], []) 0 keys

end Csvq.ForkJoin
