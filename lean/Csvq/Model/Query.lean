/-
  Csvq.Model.Query — the query level above the SELECT skeleton of Csvq.Model.Clause (lib/parser/parser.y: select_query,
  select_entity with the set operators, select_set_entity, subquery, with_clause, inline_table(s); lib/parser/ast.go: the
  String() methods of SelectQuery, SelectSet, Subquery, WithClause, InlineTable).  Core Lean only.

  * `SetTree` is what `select_entity` builds: a SELECT (`ent`), a parenthesised query (`sub`, the Subquery node: written
    parentheses stay in the tree, the printer adds none) or `SelectSet{LHS, Operator, All, RHS}` (`op`).
  * `Query` is `SelectQuery{WithClause, SelectEntity, OrderByClause, LimitClause, Context}`.  REPRESENTATION: when the
    right-most operand of the body is a SELECT, the ORDER BY / LIMIT / OFFSET of the query are kept in that `Select` (the
    token sequence is the same: they are written directly behind it) and `tail` is empty; when it is a parenthesised query
    they are in `tail`.  No other SELECT operand may carry them (`SELECT 1 ORDER BY 1 UNION SELECT 2` is a syntax error).
  * The parser is precedence climbing over the set operators, all %left, with the levels of the table regenerated from
    parser.y (UNION = EXCEPT < INTERSECT), a SELECT operand being read by `Clause.parseSelect`; everything is fuelled
    (`Query` ↔ `SetTree` ↔ `Withs` are mutually recursive through parenthesised queries and WITH).
  Not modelled here: INTO, the FETCH form of LIMIT, LATERAL; sub-queries as values and as tables of FROM: Model/SubQuery.lean.
-/
import Csvq.Model.Clause
namespace Csvq.Query
open Csvq.OpExpr Csvq.Clause

inductive SetOp | union | except | intersect
  deriving DecidableEq, Repr

/-- OrderByClause, LimitClause{LIMIT …}, OffsetClause of a query whose body ends with a parenthesised query -/
structure Tail (α : Type) where
  orderBy : List (OrderItem α)
  limit : Option Limit
  offset : Option Offset
  deriving DecidableEq, Repr

mutual
inductive SetTree (α : Type)
  | ent (s : Select α)                                             -- SelectEntity
  | sub (q : Query α)                                              -- Subquery{Query}
  | op (l : SetTree α) (k : SetOp) (all : Bool) (r : SetTree α)    -- SelectSet{LHS, Operator, All, RHS}
inductive Query (α : Type)
  | mk (withs : Withs α) (body : SetTree α) (tail : Tail α) (forUpdate : Bool)
/-- InlineTable{Recursive, Name, Fields, Query}, as a list (WithClause{InlineTables}); `cols = []`: no column list -/
inductive Withs (α : Type)
  | nil
  | cons (recursive : Bool) (name : Nat) (cols : List Nat) (q : Query α) (rest : Withs α)
end

deriving instance DecidableEq for SetTree, Query, Withs
deriving instance Repr for SetTree, Query, Withs

variable {α : Type} [DecidableEq α]

def emptyTail : Tail α := ⟨[], none, none⟩

def kwOf : SetOp → Kw
  | .union => .union | .except => .except | .intersect => .intersect

def printSetOp (k : SetOp) (all : Bool) : List (Tok α) := .kw (kwOf k) :: (if all then [.kw .all] else [])

def printTail (tbl : Table α) (t : Tail α) : List (Tok α) :=
  printListClause [.kw .order, .kw .by] (printOrderItem tbl) t.orderBy ++ (printOptLimit t.limit ++ printOptOffset t.offset)

def printCols (cols : List Nat) : List (Tok α) :=
  match cols with
  | [] => []
  | c :: cs => .lpar :: (printSep (fun c => [Tok.atom c]) (c :: cs) ++ [.rpar])

def printForUpdate (fu : Bool) : List (Tok α) := if fu then [.kw .for_, .kw .update] else []

/-- keyword(WITH) of WithClause.String(), present when there are inline tables -/
def withKw : Withs α → List (Tok α)
  | .nil => []
  | .cons .. => [.kw .with]

mutual
/-- SelectSet.String() / Subquery.String() / the SELECT printer -/
def printTree (tbl : Table α) : SetTree α → List (Tok α)
  | .ent s => printSelect tbl s
  | .sub q => .lpar :: (printQuery tbl q ++ [.rpar])
  | .op l k all r => printTree tbl l ++ (printSetOp k all ++ printTree tbl r)
/-- SelectQuery.String(): [WITH tables] entity [ORDER BY …] [LIMIT …] [FOR UPDATE] -/
def printQuery (tbl : Table α) : Query α → List (Tok α)
  | .mk w b t fu => withKw w ++ (printWithList tbl w ++ (printTree tbl b ++ (printTail tbl t ++ printForUpdate fu)))
/-- WithClause.String() behind its keyword: the inline tables separated by `,`; InlineTable.String(): [RECURSIVE] name
    [(columns)] AS (query) -/
def printWithList (tbl : Table α) : Withs α → List (Tok α)
  | .nil => []
  | .cons r n cols q rest =>
    (if r then [Tok.kw .recursive] else []) ++ (.atom n :: (printCols cols ++ (.kw .as :: .lpar :: (printQuery tbl q ++
      (.rpar :: (match rest with | .nil => [] | .cons .. => .kw .comma :: printWithList tbl rest))))))
end

/-! ## parsing -/

def setOpTok : List (Tok α) → Option (SetOp × Bool × List (Tok α))
  | .kw .union :: .kw .all :: ts => some (.union, true, ts)
  | .kw .union :: ts => some (.union, false, ts)
  | .kw .except :: .kw .all :: ts => some (.except, true, ts)
  | .kw .except :: ts => some (.except, false, ts)
  | .kw .intersect :: .kw .all :: ts => some (.intersect, true, ts)
  | .kw .intersect :: ts => some (.intersect, false, ts)
  | _ => none

/-- the right-most operand is a parenthesised query -/
def endsWithSub : SetTree α → Bool
  | .ent _ => false
  | .sub _ => true
  | .op _ _ _ r => endsWithSub r

/-- the right-most operand, if it is a SELECT, has no ORDER BY / LIMIT / OFFSET -/
def rightTailEmpty : SetTree α → Bool
  | .ent s => s.orderBy.isEmpty && s.limit.isNone && s.offset.isNone
  | .sub _ => true
  | .op _ _ _ r => rightTailEmpty r

def isSub : SetTree α → Bool
  | .sub _ => true
  | _ => false

def parseTail (tbl : Table α) (ts : List (Tok α)) : Option (Tail α × List (Tok α)) :=
  match parseOptOrderBy tbl ts with
  | none => none
  | some (ob, r1) =>
    match parseOptLimit r1 with
    | none => none
    | some (lim, r2) =>
      match parseOptOffset r2 with
      | none => none
      | some (off, r3) => some (⟨ob, lim, off⟩, r3)

def parseForUpdate : List (Tok α) → Option (Bool × List (Tok α))
  | .kw .for_ :: .kw .update :: r => some (true, r)
  | .kw .for_ :: _ => none
  | r => some (false, r)

def parseRecursive : List (Tok α) → Bool × List (Tok α)
  | .kw .recursive :: r => (true, r)
  | r => (false, r)

/-- `[( identifiers )]` -/
def parseCols : List (Tok α) → Option (List Nat × List (Tok α))
  | .lpar :: r =>
    match parseSep parseAtomTok r.length r with
    | some (cols, r1) =>
      match expectRpar r1 with
      | some r2 => some (cols, r2)
      | none => none
    | none => none
  | r => some ([], r)

def takeWith : List (Tok α) → Option (List (Tok α))
  | .kw .with :: r => some r
  | _ => none

def expectAsLpar : List (Tok α) → Option (List (Tok α))
  | .kw .as :: .lpar :: r => some r
  | _ => none

mutual
def parseQuery (tbl : Table α) (lv : SetOp → Nat) : Nat → List (Tok α) → Option (Query α × List (Tok α))
  | 0, _ => none
  | n + 1, ts =>
    match parseWith tbl lv n ts with
    | none => none
    | some (w, ts1) =>
      match parseSetE tbl lv n 0 ts1 with
      | none => none
      | some (b, ts2) =>
        if isSub b then none else
        match (if endsWithSub b then parseTail tbl ts2 else some (emptyTail, ts2)) with
        | none => none
        | some (t, ts3) =>
          match parseForUpdate ts3 with
          | none => none
          | some (fu, ts4) => some (.mk w b t fu, ts4)
def parseWith (tbl : Table α) (lv : SetOp → Nat) : Nat → List (Tok α) → Option (Withs α × List (Tok α))
  | 0, _ => none
  | n + 1, ts =>
    match takeWith ts with
    | some r => parseWithList tbl lv n r
    | none => some (.nil, ts)
def parseWithList (tbl : Table α) (lv : SetOp → Nat) : Nat → List (Tok α) → Option (Withs α × List (Tok α))
  | 0, _ => none
  | n + 1, ts =>
    match parseAtomTok (parseRecursive ts).2 with
    | some (name, ts2) =>
        match parseCols ts2 with
        | none => none
        | some (cols, ts3) =>
          match expectAsLpar ts3 with
          | none => none
          | some ts4 =>
            match parseQuery tbl lv n ts4 with
            | none => none
            | some (q, ts5) =>
              match expectRpar ts5 with
              | none => none
              | some ts6 =>
                match takeComma ts6 with
                | none => some (.cons (parseRecursive ts).1 name cols q .nil, ts6)
                | some ts7 =>
                  match parseWithList tbl lv n ts7 with
                  | none => none
                  | some (more, ts8) => some (.cons (parseRecursive ts).1 name cols q more, ts8)
    | none => none
/-- an operand followed by the set operators that bind tighter than the pending one (all are %left) -/
def parseSetE (tbl : Table α) (lv : SetOp → Nat) : Nat → Nat → List (Tok α) → Option (SetTree α × List (Tok α))
  | 0, _, _ => none
  | n + 1, r, ts =>
    match parseSetUnit tbl lv n ts with
    | none => none
    | some (u, ts1) => parseSetLoop tbl lv n r u ts1
/-- a parenthesised query or a SELECT -/
def parseSetUnit (tbl : Table α) (lv : SetOp → Nat) : Nat → List (Tok α) → Option (SetTree α × List (Tok α))
  | 0, _ => none
  | n + 1, ts =>
    match expectLpar ts with
    | some ts1 =>
      match parseQuery tbl lv n ts1 with
      | none => none
      | some (q, ts2) =>
        match expectRpar ts2 with
        | some ts3 => some (.sub q, ts3)
        | none => none
    | none =>
      match parseSelect tbl ts with
      | some (s, ts1) => some (.ent s, ts1)
      | none => none
def parseSetLoop (tbl : Table α) (lv : SetOp → Nat) : Nat → Nat → SetTree α → List (Tok α) → Option (SetTree α × List (Tok α))
  | 0, _, _, _ => none
  | n + 1, r, lhs, ts =>
    match setOpTok ts with
    | none => some (lhs, ts)
    | some (k, all, ts1) =>
      if r < lv k then
        if rightTailEmpty lhs then
          match parseSetE tbl lv n (lv k) ts1 with
          | none => none
          | some (rhs, ts2) => parseSetLoop tbl lv n r (.op lhs k all rhs) ts2
        else none
      else some (lhs, ts)
end

def queryFuel (ts : List (Tok α)) : Nat := 4 * ts.length + 4

/-- the whole token list is one query -/
def parseWhole (tbl : Table α) (lv : SetOp → Nat) (ts : List (Tok α)) : Option (Query α) :=
  match parseQuery tbl lv (queryFuel ts) ts with
  | some (q, []) => some q
  | _ => none

/-- the levels of the set operators in the table regenerated from parser.y -/
def genLv : SetOp → Nat
  | .union => ((levelOf .UNION).map (·.1)).getD 0
  | .except => ((levelOf .EXCEPT).map (·.1)).getD 0
  | .intersect => ((levelOf .INTERSECT).map (·.1)).getD 0

end Csvq.Query
