/-
  Csvq.Model.Clause — the clause skeleton of a SELECT statement (lib/parser/parser.y: select_query, select_entity,
  select_clause, from_clause, table, join, where / group by / having / order by / limit / offset clauses; lib/parser/ast.go:
  the String() methods of SelectQuery, SelectEntity, SelectClause, Field, FromClause, Table, Join, JoinCondition,
  WhereClause, GroupByClause, HavingClause, OrderByClause, OrderItem, LimitClause, OffsetClause).  Core Lean only.

  * `Select` is the tree (expressions are the `OpExpr.Expr` trees); `printSelect` writes the tokens in exactly the order
    and with the keywords of the String() methods (tied to the regenerated sequences of Csvq/Gen/AstPrint.lean by
    `Csvq.C18.gen_clause_printers_match_model`).
  * `parseSelect` is recursive descent: every optional clause is recognised by its keyword; comma lists use a fuel equal
    to the number of remaining tokens (each element consumes at least one), expressions are parsed by `OpExpr.parseE`
    with no rule pending.  It is total, and it consumes tokens whenever it succeeds (`Csvq.C18.parse_total`).
  Not modelled yet (by correspondence only): INTO, WITH, FOR UPDATE, the FETCH form of LIMIT, LATERAL, parenthesised
  tables and sub-selects in FROM, table functions, set operators, and the expression forms outside `OpExpr` (which since
  wave 17 holds NOT LIKE, [NOT] BETWEEN, [NOT] IN lists, function calls and cursor status: they may stand wherever the
  SELECT skeleton has an expression, and `select_print_parse` covers them).
-/
import Csvq.Model.OpExpr
namespace Csvq.Clause
open Csvq.OpExpr

inductive Dir | none | asc | desc
  deriving DecidableEq, Repr
inductive NullsPos | none | first | last
  deriving DecidableEq, Repr
inductive LimUnit | none | percent | row | rows
  deriving DecidableEq, Repr
inductive LimRestr | none | only | ties
  deriving DecidableEq, Repr
inductive OffUnit | none | row | rows
  deriving DecidableEq, Repr
inductive JDir | none | left | right | full
  deriving DecidableEq, Repr
inductive JTyp | none | inner | outer | cross
  deriving DecidableEq, Repr

/-- Field{Object, As, Alias} / AllColumns / FieldReference{View, Column: AllColumns} -/
inductive Item (α : Type)
  | star
  | tstar (t : Nat)
  | expr (e : Expr α) (alias : Option Nat)
  deriving DecidableEq, Repr

/-- OrderItem{Value, Direction, NullsPosition} -/
structure OrderItem (α : Type) where
  e : Expr α
  dir : Dir
  nulls : NullsPos
  deriving DecidableEq, Repr

/-- LimitClause{Type: LIMIT, Value, Unit, Restriction} -/
structure Limit where
  value : Nat
  unit : LimUnit
  restr : LimRestr
  deriving DecidableEq, Repr

/-- OffsetClause{Value, Unit} -/
structure Offset where
  value : Nat
  unit : OffUnit
  deriving DecidableEq, Repr

/-- Table{Object: identifier, As, Alias} -/
structure TableAtom where
  name : Nat
  as : Bool
  alias : Option Nat
  deriving DecidableEq, Repr

/-- JoinCondition{On | Using} -/
inductive JoinCond (α : Type)
  | none
  | on (e : Expr α)
  | cols (cols : List Nat)
  deriving DecidableEq, Repr

/-- one `… JOIN table [condition]` applied to the table expression on its left: Join{Natural, Direction, JoinType, JoinTable, Condition} -/
structure JoinStep (α : Type) where
  natural : Bool
  dir : JDir
  typ : JTyp
  table : TableAtom
  cond : JoinCond α
  deriving DecidableEq, Repr

/-- a table followed by the joins applied to it (joins associate to the left) -/
structure TableRef (α : Type) where
  base : TableAtom
  joins : List (JoinStep α)
  deriving DecidableEq, Repr

/-- SelectQuery{SelectEntity{SelectClause, FromClause, WhereClause, GroupByClause, HavingClause}, OrderByClause, LimitClause} -/
structure Select (α : Type) where
  distinct : Bool
  items : List (Item α)
  tables : List (TableRef α)
  where_ : Option (Expr α)
  groupBy : List (Expr α)
  having : Option (Expr α)
  orderBy : List (OrderItem α)
  limit : Option Limit
  offset : Option Offset
  deriving DecidableEq, Repr

variable {α : Type} [DecidableEq α]

/- atoms are identifiers (even codes) or numbers (odd codes) — `OpExpr.isId` / `OpExpr.isNum`: names, aliases and USING
   columns must be identifiers, the values of LIMIT / OFFSET numbers -/

/-! ## printing (the String() methods) -/

/-- listQueryExpressions: the elements separated by `,` -/
def printSep {β : Type} (pr : β → List (Tok α)) : List β → List (Tok α)
  | [] => []
  | [x] => pr x
  | x :: y :: xs => pr x ++ .kw .comma :: printSep pr (y :: xs)

def printOptAtom : Option Nat → List (Tok α)
  | some x => [.atom x]
  | none => []

/-- Table.String(): object, AS if written, alias if any -/
def printTableAtom (a : TableAtom) : List (Tok α) :=
  .atom a.name :: ((if a.as then [.kw .as] else []) ++ printOptAtom a.alias)

/-- Field.String() / AllColumns / `t.*` -/
def printItem (tbl : Table α) : Item α → List (Tok α)
  | .star => [.sym tbl.star 0]
  | .tstar t => [.atom t, .kw .dot, .sym tbl.star 0]
  | .expr e al => print tbl e ++ (match al with | some x => [.kw .as, .atom x] | none => [])

def printDir : Dir → List (Tok α)
  | .none => [] | .asc => [.kw .asc] | .desc => [.kw .desc]

def printNulls : NullsPos → List (Tok α)
  | .none => [] | .first => [.kw .nulls, .kw .first] | .last => [.kw .nulls, .kw .last]

/-- OrderItem.String(): value, direction if any, NULLS position if any -/
def printOrderItem (tbl : Table α) (o : OrderItem α) : List (Tok α) :=
  print tbl o.e ++ (printDir o.dir ++ printNulls o.nulls)

def printLimUnit : LimUnit → List (Tok α)
  | .none => [] | .percent => [.kw .percent] | .row => [.kw .row] | .rows => [.kw .rows]

def printLimRestr : LimRestr → List (Tok α)
  | .none => [] | .only => [.kw .only] | .ties => [.kw .with, .kw .ties]

/-- LimitClause.String() for Type = LIMIT (without the offset clause, which `printSelect` appends) -/
def printLimit (l : Limit) : List (Tok α) :=
  .kw .limit :: .atom l.value :: (printLimUnit l.unit ++ printLimRestr l.restr)

def printOffUnit : OffUnit → List (Tok α)
  | .none => [] | .row => [.kw .row] | .rows => [.kw .rows]

/-- OffsetClause.String() -/
def printOffset (o : Offset) : List (Tok α) :=
  .kw .offset :: .atom o.value :: printOffUnit o.unit

def printJDir : JDir → List (Tok α)
  | .none => [] | .left => [.kw .left] | .right => [.kw .right] | .full => [.kw .full]

def printJTyp : JTyp → List (Tok α)
  | .none => [] | .inner => [.kw .inner] | .outer => [.kw .outer] | .cross => [.kw .cross]

/-- JoinCondition.String() -/
def printJoinCond (tbl : Table α) : JoinCond α → List (Tok α)
  | .none => []
  | .on e => .kw .on :: print tbl e
  | .cols cols => .kw .using :: .lpar :: (printSep (fun c => [Tok.atom c]) cols ++ [.rpar])

/-- Join.String() without the left table: NATURAL, direction, type, JOIN, the joined table, the condition -/
def printJoinStep (tbl : Table α) (j : JoinStep α) : List (Tok α) :=
  (if j.natural then [.kw .natural] else []) ++ (printJDir j.dir ++ (printJTyp j.typ ++
    (.kw .join :: (printTableAtom j.table ++ printJoinCond tbl j.cond))))

def printJoins (tbl : Table α) : List (JoinStep α) → List (Tok α)
  | [] => []
  | j :: js => printJoinStep tbl j ++ printJoins tbl js

def printTableRef (tbl : Table α) (r : TableRef α) : List (Tok α) :=
  printTableAtom r.base ++ printJoins tbl r.joins

def printOptClause (kws : List (Tok α)) (tbl : Table α) : Option (Expr α) → List (Tok α)
  | some e => kws ++ print tbl e
  | none => []

def printListClause {β : Type} (kws : List (Tok α)) (pr : β → List (Tok α)) : List β → List (Tok α)
  | [] => []
  | x :: xs => kws ++ printSep pr (x :: xs)

def printOptLimit : Option Limit → List (Tok α)
  | some l => printLimit l
  | none => []

def printOptOffset : Option Offset → List (Tok α)
  | some o => printOffset o
  | none => []

/-- SelectQuery.String(): SELECT [DISTINCT] fields [FROM tables] [WHERE filter] [GROUP BY items] [HAVING filter]
    [ORDER BY items] [LIMIT …] [OFFSET …] -/
def printSelect (tbl : Table α) (s : Select α) : List (Tok α) :=
  .kw .select :: ((if s.distinct then [.kw .distinct] else []) ++ (printSep (printItem tbl) s.items ++
    (printListClause [.kw .from] (printTableRef tbl) s.tables ++ (printOptClause [.kw .where] tbl s.where_ ++
    (printListClause [.kw .group, .kw .by] (print tbl) s.groupBy ++ (printOptClause [.kw .having] tbl s.having ++
    (printListClause [.kw .order, .kw .by] (printOrderItem tbl) s.orderBy ++ (printOptLimit s.limit ++ printOptOffset s.offset))))))))

/-! ## parsing (recursive descent) -/

/-- an expression with no rule pending -/
def parseExpr (tbl : Table α) (ts : List (Tok α)) : Option (Expr α × List (Tok α)) :=
  parseE tbl (fuelFor ts) 0 false ts

/-- `p (, p)*` -/
def parseSep {β : Type} (p : List (Tok α) → Option (β × List (Tok α))) : Nat → List (Tok α) → Option (List β × List (Tok α))
  | 0, _ => none
  | n + 1, ts =>
    match p ts with
    | none => none
    | some (x, ts1) =>
      match ts1 with
      | .kw .comma :: ts2 =>
        match parseSep p n ts2 with
        | some (xs, r) => some (x :: xs, r)
        | none => none
      | _ => some ([x], ts1)

def parseTableAtom : List (Tok α) → Option (TableAtom × List (Tok α))
  | .atom t :: .kw .as :: .atom x :: r => if isId t && isId x then some (⟨t, true, some x⟩, r) else none
  | .atom _ :: .kw .as :: _ => none
  | .atom t :: .atom x :: r => if isId t && isId x then some (⟨t, false, some x⟩, r) else none
  | .atom t :: r => if isId t then some (⟨t, false, none⟩, r) else none
  | _ => none

def parseItemExpr (tbl : Table α) (ts : List (Tok α)) : Option (Item α × List (Tok α)) :=
  match parseExpr tbl ts with
  | none => none
  | some (e, r) =>
    match r with
    | .kw .as :: .atom x :: r' => if isId x then some (.expr e (some x), r') else none
    | .kw .as :: _ => none
    | _ => some (.expr e none, r)

def parseItem (tbl : Table α) (ts : List (Tok α)) : Option (Item α × List (Tok α)) :=
  match ts with
  | .sym t _ :: r => if t = tbl.star then some (.star, r) else parseItemExpr tbl ts
  | .atom t :: .kw .dot :: .sym s _ :: r => if s = tbl.star && isId t then some (.tstar t, r) else none
  | _ => parseItemExpr tbl ts

def parseDir : List (Tok α) → Dir × List (Tok α)
  | .kw .asc :: r => (.asc, r)
  | .kw .desc :: r => (.desc, r)
  | r => (.none, r)

def parseNulls : List (Tok α) → Option (NullsPos × List (Tok α))
  | .kw .nulls :: .kw .first :: r => some (.first, r)
  | .kw .nulls :: .kw .last :: r => some (.last, r)
  | .kw .nulls :: _ => none
  | r => some (.none, r)

def parseOrderItem (tbl : Table α) (ts : List (Tok α)) : Option (OrderItem α × List (Tok α)) :=
  match parseExpr tbl ts with
  | none => none
  | some (e, r) =>
    match parseNulls (parseDir r).2 with
    | some (n, r') => some (⟨e, (parseDir r).1, n⟩, r')
    | none => none

def parseLimUnit : List (Tok α) → LimUnit × List (Tok α)
  | .kw .percent :: r => (.percent, r)
  | .kw .row :: r => (.row, r)
  | .kw .rows :: r => (.rows, r)
  | r => (.none, r)

def parseLimRestr : List (Tok α) → Option (LimRestr × List (Tok α))
  | .kw .only :: r => some (.only, r)
  | .kw .with :: .kw .ties :: r => some (.ties, r)
  | .kw .with :: _ => none
  | r => some (.none, r)

/-- `[LIMIT n [unit] [restriction]]` -/
def parseOptLimit : List (Tok α) → Option (Option Limit × List (Tok α))
  | .kw .limit :: .atom v :: r =>
    if isNum v then
      match parseLimRestr (parseLimUnit r).2 with
      | some (x, r') => some (some ⟨v, (parseLimUnit r).1, x⟩, r')
      | none => none
    else none
  | .kw .limit :: _ => none
  | r => some (none, r)

def parseOffUnit : List (Tok α) → OffUnit × List (Tok α)
  | .kw .row :: r => (.row, r)
  | .kw .rows :: r => (.rows, r)
  | r => (.none, r)

/-- `[OFFSET n [unit]]` -/
def parseOptOffset : List (Tok α) → Option (Option Offset × List (Tok α))
  | .kw .offset :: .atom v :: r => if isNum v then some (some ⟨v, (parseOffUnit r).1⟩, (parseOffUnit r).2) else none
  | .kw .offset :: _ => none
  | r => some (none, r)

/-- `[INNER] JOIN` | `(LEFT | RIGHT | FULL) [OUTER] JOIN` -/
def parseJoinKind : List (Tok α) → Option ((JDir × JTyp) × List (Tok α))
  | .kw .join :: r => some ((.none, .none), r)
  | .kw .inner :: .kw .join :: r => some ((.none, .inner), r)
  | .kw .left :: .kw .join :: r => some ((.left, .none), r)
  | .kw .left :: .kw .outer :: .kw .join :: r => some ((.left, .outer), r)
  | .kw .right :: .kw .join :: r => some ((.right, .none), r)
  | .kw .right :: .kw .outer :: .kw .join :: r => some ((.right, .outer), r)
  | .kw .full :: .kw .join :: r => some ((.full, .none), r)
  | .kw .full :: .kw .outer :: .kw .join :: r => some ((.full, .outer), r)
  | _ => none

def parseAtomTok : List (Tok α) → Option (Nat × List (Tok α))
  | .atom c :: r => if isId c then some (c, r) else none
  | _ => none

/-- `ON value` | `USING ( identifiers )` — mandatory -/
def parseJoinCond (tbl : Table α) : List (Tok α) → Option (JoinCond α × List (Tok α))
  | .kw .on :: r =>
    match parseExpr tbl r with
    | some (e, r') => some (.on e, r')
    | none => none
  | .kw .using :: .lpar :: r =>
    match parseSep parseAtomTok r.length r with
    | some (cols, .rpar :: r') => some (.cols cols, r')
    | _ => none
  | _ => none

/-- does a join start here? -/
def joinStarts : List (Tok α) → Bool
  | .kw .cross :: _ => true
  | .kw .natural :: _ => true
  | .kw .inner :: _ => true
  | .kw .left :: _ => true
  | .kw .right :: _ => true
  | .kw .full :: _ => true
  | .kw .join :: _ => true
  | _ => false

def parseJoinStep (tbl : Table α) : List (Tok α) → Option (JoinStep α × List (Tok α))
  | .kw .cross :: .kw .join :: r =>
    match parseTableAtom r with
    | some (t, r') => some (⟨false, .none, .cross, t, .none⟩, r')
    | none => none
  | .kw .natural :: r =>
    match parseJoinKind r with
    | some ((d, k), r1) =>
      match parseTableAtom r1 with
      | some (t, r2) => some (⟨true, d, k, t, .none⟩, r2)
      | none => none
    | none => none
  | ts =>
    match parseJoinKind ts with
    | some ((d, k), r1) =>
      match parseTableAtom r1 with
      | some (t, r2) =>
        match parseJoinCond tbl r2 with
        | some (c, r3) => some (⟨false, d, k, t, c⟩, r3)
        | none => none
      | none => none
    | none => none

def parseJoins (tbl : Table α) : Nat → List (Tok α) → Option (List (JoinStep α) × List (Tok α))
  | 0, _ => none
  | n + 1, ts =>
    if joinStarts ts then
      match parseJoinStep tbl ts with
      | some (j, r) =>
        match parseJoins tbl n r with
        | some (js, r') => some (j :: js, r')
        | none => none
      | none => none
    else some ([], ts)

def parseTableRef (tbl : Table α) (ts : List (Tok α)) : Option (TableRef α × List (Tok α)) :=
  match parseTableAtom ts with
  | some (b, r) =>
    match parseJoins tbl (r.length + 1) r with
    | some (js, r') => some (⟨b, js⟩, r')
    | none => none
  | none => none

def parseOptExprClause (tbl : Table α) (k : Kw) : List (Tok α) → Option (Option (Expr α) × List (Tok α))
  | .kw k' :: r =>
    if k' = k then
      match parseExpr tbl r with
      | some (e, r') => some (some e, r')
      | none => none
    else some (none, .kw k' :: r)
  | r => some (none, r)

/-- `FROM table [, table]`.  parser.y: `tables : table | table ',' joinable_tables` and
    `joinable_tables : table | LATERAL … | laterable_query_table ',' joinable_tables` — the list continues after the second
    element only behind a sub-query, so with plain tables it has at most two elements (`select 1 from t, u, v` is a
    syntax error in csvq). -/
def parseOptFrom (tbl : Table α) : List (Tok α) → Option (List (TableRef α) × List (Tok α))
  | .kw .from :: r =>
    match parseTableRef tbl r with
    | some (t1, .kw .comma :: r1) =>
      match parseTableRef tbl r1 with
      | some (t2, r2) => some ([t1, t2], r2)
      | none => none
    | some (t1, r1) => some ([t1], r1)
    | none => none
  | r => some ([], r)

def parseOptGroupBy (tbl : Table α) : List (Tok α) → Option (List (Expr α) × List (Tok α))
  | .kw .group :: .kw .by :: r => parseSep (parseExpr tbl) r.length r
  | .kw .group :: _ => none
  | r => some ([], r)

def parseOptOrderBy (tbl : Table α) : List (Tok α) → Option (List (OrderItem α) × List (Tok α))
  | .kw .order :: .kw .by :: r => parseSep (parseOrderItem tbl) r.length r
  | .kw .order :: _ => none
  | r => some ([], r)

def parseDistinct : List (Tok α) → Bool × List (Tok α)
  | .kw .distinct :: r => (true, r)
  | r => (false, r)

def parseSelect (tbl : Table α) : List (Tok α) → Option (Select α × List (Tok α))
  | .kw .select :: r0 =>
    match parseSep (parseItem tbl) (parseDistinct r0).2.length (parseDistinct r0).2 with
    | none => none
    | some (items, r1) =>
      match parseOptFrom tbl r1 with
      | none => none
      | some (tabs, r2) =>
        match parseOptExprClause tbl .where r2 with
        | none => none
        | some (wh, r3) =>
          match parseOptGroupBy tbl r3 with
          | none => none
          | some (gb, r4) =>
            match parseOptExprClause tbl .having r4 with
            | none => none
            | some (hv, r5) =>
              match parseOptOrderBy tbl r5 with
              | none => none
              | some (ob, r6) =>
                match parseOptLimit r6 with
                | none => none
                | some (lim, r7) =>
                  match parseOptOffset r7 with
                  | none => none
                  | some (off, r8) => some (⟨(parseDistinct r0).1, items, tabs, wh, gb, hv, ob, lim, off⟩, r8)
  | _ => none

end Csvq.Clause
