/-
  Csvq.Model.JoinTree — the FROM clause of a multi-table UPDATE / DELETE as a join TREE of any depth, in the shape of
  lib/query/load_view.go (loadView's `parser.Join` case: load the left operand, load the right operand, joinViews),
  lib/query/join.go (ParseJoinCondition: the NATURAL loop over the left header, the USING list, include / exclude fields;
  CrossJoin / InnerJoin / OuterJoin) and lib/query/header.go (Header.FieldIndex with its join-column rule).

  * a leaf is an updatable table (file, temporary table, STDIN: loaded WITH its internal-id column) or a source without
    internal id (inline table, sub-query, table function);
  * a record of the joined view is kept as the tuple of the records of its leaves (`JRow`: per leaf its internal id and
    record; a NULL-padded leaf has no id), a header field of the joined view carries the accessor (`Get`) that reads its
    cell out of that tuple: the internal id of a leaf, a column of a leaf, or the merged column of a USING / NATURAL join
    (the preserved side's value or, where that is NULL, the other's);
  * joinViews: the merged columns go to the front (view name "", IsJoinColumn), both originals are dropped, BY INDEX in
    the merged header, exactly as load_view.go does it;
  * Update / Delete find a target's internal id through the header (`Header.ContainsInternalId(view)`).

  Column and view names are compared exactly (the generators use distinct lower-case identifiers; Go folds case).
-/
import Csvq.Model.Dml
namespace Csvq.Dml

/-! ## header fields with accessors -/

inductive Get
  /-- the internal record id of leaf `p` -/
  | id (p : Nat)
  /-- column `j` of leaf `p` -/
  | col (p j : Nat)
  /-- merged column of a USING / NATURAL join: `a` unless it is NULL, then `b` -/
  | merge (a b : Get)
  deriving DecidableEq, Repr, Inhabited

def Get.shift (n : Nat) : Get → Get
  | .id p => .id (p + n)
  | .col p j => .col (p + n) j
  | .merge a b => .merge (a.shift n) (b.shift n)

def idCell : Option Nat → Cell
  | some k => profileOf (.int k)
  | none => nullCell

def Get.eval (jr : JRow) : Get → Cell
  | .id p => idCell (jid p jr)
  | .col p j => match jr[p]? with
    | some x => x.2[j]?.getD nullCell
    | none => nullCell
  | .merge a b => let v := a.eval jr; if v.isNull then b.eval jr else v

/-- the cell as an internal record id (`View.InternalRecordId`: the cell must be an integer) -/
def Get.asId (jr : JRow) : Get → Option Nat
  | .id p => jid p jr
  | .col _ _ => none
  | .merge a b => match a.asId jr with | some i => some i | none => b.asId jr

structure HField where
  view : String
  col : String
  isJoin : Bool
  get : Get
  deriving DecidableEq, Repr, Inhabited

/-- Header.FieldIndex.  `view = ""`: an unqualified reference — the first JOIN COLUMN of that name wins at once (`break`),
    otherwise a second hit is ambiguous; qualified: view and column must agree, a second hit is ambiguous. -/
def searchFrom (view col : String) : List HField → Nat → Option Nat → Except Err Nat
  | [], _, none => .error .fieldNotExist
  | [], _, some i => .ok i
  | f :: fs, k, found =>
    if view ≠ "" then
      if f.view = view ∧ f.col = col then
        match found with
        | some _ => .error .fieldAmbiguous
        | none => searchFrom view col fs (k + 1) (some k)
      else searchFrom view col fs (k + 1) found
    else
      if f.col = col then
        if f.isJoin then .ok k
        else match found with
          | some _ => .error .fieldAmbiguous
          | none => searchFrom view col fs (k + 1) (some k)
      else searchFrom view col fs (k + 1) found

def searchIdx (h : List HField) (view col : String) : Except Err Nat := searchFrom view col h 0 none

/-- View.FieldViewName -/
def fieldViewName (h : List HField) (view col : String) : Except Err String :=
  match searchIdx h view col with
  | .error e => .error e
  | .ok k => .ok ((h[k]?).map (·.view) |>.getD "")

/-- View.InternalRecordId(ref, i): the id column of view `ref` must exist (once) and hold an integer -/
def idOfRef (h : List HField) (ref : String) (jr : JRow) : Option Nat :=
  match searchIdx h ref idColumn with
  | .error _ => none
  | .ok k => (h[k]?).bind fun f => f.get.asId jr

def cellAtField (h : List HField) (k : Nat) (jr : JRow) : Cell :=
  match h[k]? with
  | some f => f.get.eval jr
  | none => nullCell

/-! ## ParseJoinCondition -/

/-- THE NATURAL LOOP (join.go ParseJoinCondition, `!join.Natural.IsEmpty()`): for every field of the LEFT view, in order —
    a field that is an internal-id column is skipped, WHEREVER IT STANDS (a left side that is itself a join has one per
    updatable table, and behind merged columns); the column is searched in the right header: ambiguous → the statement
    fails, not there → skipped, there → a join key. -/
def naturalUsing (rh : List HField) : List HField → Except Err (List String)
  | [] => .ok []
  | f :: fs =>
    if f.col = idColumn then naturalUsing rh fs
    else match searchIdx rh "" f.col with
      | .error .fieldAmbiguous => .error .fieldAmbiguous
      | .error _ => naturalUsing rh fs
      | .ok _ =>
        match naturalUsing rh fs with
        | .error e => .error e
        | .ok U => .ok (f.col :: U)

/-- the loop over the USING list: a repeated name is refused; the name is looked up (unqualified) in the left and in the
    right header; the two references of the comparison `lhs = rhs` carry the VIEW NAME found there ("" for a merged column) -/
def usingRefs (lh rh : List HField) : List String → List String → Except Err (List ((String × String) × (String × String)))
  | _, [] => .ok []
  | seen, v :: vs =>
    if v ∈ seen then .error .dupField
    else match fieldViewName lh "" v with
      | .error e => .error e
      | .ok lv =>
        match fieldViewName rh "" v with
        | .error e => .error e
        | .ok rv =>
          match usingRefs lh rh (v :: seen) vs with
          | .error e => .error e
          | .ok r => .ok (((lv, v), (rv, v)) :: r)

/-- the references of the comparisons, resolved in the MERGED header (left fields, then right fields) — where the ON
    condition is evaluated and where joinViews looks up includeFields / excludeFields -/
def resolveRefs (merged : List HField) : List ((String × String) × (String × String)) → Except Err (List (Nat × Nat))
  | [] => .ok []
  | (l, r) :: rest =>
    match searchIdx merged l.1 l.2 with
    | .error e => .error e
    | .ok i =>
      match searchIdx merged r.1 r.2 with
      | .error e => .error e
      | .ok j =>
        match resolveRefs merged rest with
        | .error e => .error e
        | .ok ps => .ok ((i, j) :: ps)

/-- `lhs₁ = rhs₁ AND lhs₂ = rhs₂ …` on a merged record -/
def usingCond (eqv : Cell → Cell → Tern) (merged : List HField) (pairs : List (Nat × Nat)) (jr : JRow) : Except Err Tern :=
  .ok (if pairs.all (fun p => isT (eqv (cellAtField merged p.1 jr) (cellAtField merged p.2 jr))) then .T else .F)

/-- keep the elements whose position (counted from `k`) is not in `d` -/
def dropIdx {α} (d : List Nat) : List α → Nat → List α
  | [], _ => []
  | a :: as, k => if k ∈ d then dropIdx d as (k + 1) else a :: dropIdx d as (k + 1)

/-- joinViews, the header: `ie` = (include index, exclude index) per join column, in USING order.  The included fields go to
    the front as merged columns (view "", IsJoinColumn; the record takes the excluded field's value where the included one is
    NULL), then every other field that is neither included nor excluded, in order. -/
def mergedField (merged : List HField) (p : Nat × Nat) : Option HField :=
  match merged[p.1]?, merged[p.2]? with
  | some fi, some fe => some { view := "", col := fi.col, isJoin := true, get := .merge fi.get fe.get }
  | _, _ => none

def mergeHeader (merged : List HField) (ie : List (Nat × Nat)) : List HField :=
  ie.filterMap (mergedField merged) ++ dropIdx (ie.map Prod.fst ++ ie.map Prod.snd) merged 0

/-! ## the joins on records (tuples of leaf records) -/

def partnersT (on : JRow → Except Err Tern) : List JRow → Except Err (List JRow)
  | [] => .ok []
  | j :: js =>
    match on j with
    | .error e => .error e
    | .ok c =>
      match partnersT on js with
      | .error e => .error e
      | .ok ms => .ok (if isT c then j :: ms else ms)

/-- CrossJoin: the left records vary slowest -/
def crossT (L R : List JRow) : List JRow := L.flatMap fun l => R.map fun r => l ++ r

/-- InnerJoin with a condition -/
def innerT (on : JRow → Except Err Tern) (R : List JRow) : List JRow → Except Err (List JRow)
  | [] => .ok []
  | l :: ls =>
    match partnersT (fun r => on (l ++ r)) R with
    | .error e => .error e
    | .ok ms =>
      match innerT on R ls with
      | .error e => .error e
      | .ok rest => .ok (ms.map (fun r => l ++ r) ++ rest)

/-- OuterJoin's loop: every record of the preserved side once per partner, or once with the padded other side;
    `mk o i` puts the two in FROM order -/
def outerT (on : JRow → Except Err Tern) (mk : JRow → JRow → JRow) (pad : JRow) (inner : List JRow) :
    List JRow → Except Err (List JRow)
  | [] => .ok []
  | o :: os =>
    match partnersT (fun i => on (mk o i)) inner with
    | .error e => .error e
    | .ok ms =>
      match outerT on mk pad inner os with
      | .error e => .error e
      | .ok rest => .ok ((if ms.isEmpty then [mk o pad] else ms.map (mk o)) ++ rest)

/-- FULL: the right records no left record matched -/
def unmatchedT (on : JRow → Except Err Tern) (L : List JRow) : List JRow → List JRow
  | [] => []
  | r :: rs =>
    if L.any (fun l => match on (l ++ r) with | .ok c => isT c | .error _ => false) then unmatchedT on L rs
    else r :: unmatchedT on L rs

/-- the NULL-padded side of an outer join: every leaf of that side is a NULL record WITHOUT internal id -/
def padOf (widths : List Nat) : JRow := widths.map fun w => (none, nullRow w)

def joinRecs (dir : Option Dir) (on : JRow → Except Err Tern) (padL padR : JRow) (L R : List JRow) : Except Err (List JRow) :=
  match dir with
  | none => innerT on R L
  | some .left => outerT on (fun l r => l ++ r) padR R L
  | some .right => outerT on (fun r l => l ++ r) padL L R
  | some .full =>
    match outerT on (fun l r => l ++ r) padR R L with
    | .error e => .error e
    | .ok recs => .ok (recs ++ (unmatchedT on L R).map fun r => padL ++ r)

/-! ## the tree -/

inductive Src
  /-- an updatable table (file, temporary table, STDIN), loaded with its internal ids under its own name -/
  | table (name : String)
  /-- a source without internal ids (inline table, sub-query, table function) named `alias`, with the records of `src` -/
  | inline (alias src : String)
  deriving Repr, Inhabited

/-- how two operands are joined.  `on` conditions are functions of the merged header and the merged record. -/
inductive JoinSpec
  /-- comma / CROSS JOIN -/
  | cross
  /-- `[INNER | LEFT | RIGHT | FULL] JOIN … ON` (`dir = none`: INNER) -/
  | on (dir : Option Dir) (f : List HField → JRow → Except Err Tern)
  /-- `… JOIN … USING (cols)`, and with `cols = none` NATURAL … JOIN -/
  | using (dir : Option Dir) (cols : Option (List String))

inductive Tree
  | leaf (s : Src)
  | join (l r : Tree) (spec : JoinSpec)

/-- a loaded (joined) view: header, the column count of every leaf (for padding), the records -/
structure TView where
  header : List HField
  widths : List Nat
  recs : List JRow

def colFields (view : String) : List String → Nat → List HField
  | [], _ => []
  | c :: cs, j => { view := view, col := c, isJoin := false, get := .col 0 j } :: colFields view cs (j + 1)

def leafView (ts : Tables) : Src → Except Err TView
  | .table n =>
    match getCopy ts n with
    | .error e => .error e
    | .ok t => .ok { header := { view := n, col := idColumn, isJoin := false, get := .id 0 } :: colFields n t.header 0,
                     widths := [t.header.length], recs := (idRows t.rows 0).map fun x => [x] }
  | .inline a src =>
    match getCopy ts src with
    | .error e => .error e
    | .ok t => .ok { header := colFields a t.header 0, widths := [t.header.length], recs := t.rows.map fun r => [(none, r)] }

def shiftHeader (n : Nat) (h : List HField) : List HField := h.map fun f => { f with get := f.get.shift n }

/-- joinViews -/
def joinTViews (eqv : Cell → Cell → Tern) (lv rv : TView) : JoinSpec → Except Err TView
  | .cross =>
    .ok { header := lv.header ++ shiftHeader lv.widths.length rv.header, widths := lv.widths ++ rv.widths,
          recs := crossT lv.recs rv.recs }
  | .on dir f =>
    let merged := lv.header ++ shiftHeader lv.widths.length rv.header
    match joinRecs dir (f merged) (padOf lv.widths) (padOf rv.widths) lv.recs rv.recs with
    | .error e => .error e
    | .ok recs => .ok { header := merged, widths := lv.widths ++ rv.widths, recs := recs }
  | .using dir cols =>
    let rh := shiftHeader lv.widths.length rv.header
    let merged := lv.header ++ rh
    match (match cols with | some U => (Except.ok U : Except Err (List String)) | none => naturalUsing rh lv.header) with
    | .error e => .error e
    | .ok [] =>
      -- no common column: ParseJoinCondition returns no condition, `Evaluate(nil)` is TRUE — every pair is joined
      match joinRecs dir (fun _ => .ok .T) (padOf lv.widths) (padOf rv.widths) lv.recs rv.recs with
      | .error e => .error e
      | .ok recs => .ok { header := merged, widths := lv.widths ++ rv.widths, recs := recs }
    | .ok U =>
      match usingRefs lv.header rh [] U with
      | .error e => .error e
      | .ok refs =>
        match resolveRefs merged refs with
        | .error e => .error e
        | .ok pairs =>
          match joinRecs dir (usingCond eqv merged pairs) (padOf lv.widths) (padOf rv.widths) lv.recs rv.recs with
          | .error e => .error e
          | .ok recs =>
            let ie := match dir with
              | some .right => pairs.map fun p => (p.2, p.1)
              | _ => pairs
            .ok { header := mergeHeader merged ie, widths := lv.widths ++ rv.widths, recs := recs }

/-- loadView over the FROM clause -/
def treeView (ts : Tables) (eqv : Cell → Cell → Tern) : Tree → Except Err TView
  | .leaf s => leafView ts s
  | .join l r spec =>
    match treeView ts eqv l with
    | .error e => .error e
    | .ok lv =>
      match treeView ts eqv r with
      | .error e => .error e
      | .ok rv => joinTViews eqv lv rv spec

/-- the leaves in FROM order: `some n` for an updatable table -/
def Tree.leaves : Tree → List (Option String)
  | .leaf (.table n) => [some n]
  | .leaf (.inline _ _) => [none]
  | .join l r _ => l.leaves ++ r.leaves

/-- the view names of the leaves -/
def Tree.names : Tree → List String
  | .leaf (.table n) => [n]
  | .leaf (.inline a _) => [a]
  | .join l r _ => l.names ++ r.names

/-- no USING list names the internal-id column (it cannot be written as an identifier) -/
def Tree.usingClean : Tree → Prop
  | .leaf _ => True
  | .join l r spec => l.usingClean ∧ r.usingClean ∧
    match spec with
    | .using _ (some U) => idColumn ∉ U
    | _ => True

/-! ## UPDATE / DELETE over a tree (query.go Update / Delete) -/

/-- the filtered joined view -/
def treeFiltered (ts : Tables) (eqv : Cell → Cell → Tern) (tree : Tree) (cond : List HField → JRow → Except Err Tern) :
    Except Err (List HField × List JRow) :=
  match treeView ts eqv tree with
  | .error e => .error e
  | .ok v =>
    match filterView (cond v.header) (v.recs.map fun jr => (none, jr)) with
    | .error e => .error e
    | .ok view => .ok (v.header, view.map Prod.snd)

/-- `SET view.field = expr` (`view = ""`: the column is written without a table) -/
structure TSet where
  view : String
  field : String
  expr : List HField → JRow → Except Err Cell

/-- the table a SET item writes (FieldViewName of its field in the joined view) -/
def TSet.target (h : List HField) (s : TSet) : Option String :=
  match fieldViewName h s.view s.field with
  | .ok v => some v
  | .error _ => none

/-- Update's loop for one record of the filtered view, in the order of the Go loop (decides WHICH error is reported) -/
def scanSetsT (ts : Tables) (targets : List String) (h : List HField) (jr : JRow) :
    List TSet → List (String × Nat × Nat) → Except Err (List (String × Nat × Nat))
  | [], touched => .ok touched
  | s :: rest, touched =>
    match s.expr h jr with
    | .error e => .error e
    | .ok _ =>
      match fieldViewName h s.view s.field with
      | .error e => .error e
      | .ok tn =>
        if tn ∉ targets then .error .updFieldNotExist
        else match idOfRef h tn jr with
          | none => .error .ambiguous
          | some i =>
            match lookupT ts tn with
            | none => .error .noTable
            | some t =>
              match colIndex t.header s.field with
              | .error e => .error e
              | .ok j =>
                if (tn, i, j) ∈ touched then .error .ambiguous
                else scanSetsT ts targets h jr rest ((tn, i, j) :: touched)

def scanViewT (ts : Tables) (targets : List String) (h : List HField) (sets : List TSet) :
    List JRow → List (String × Nat × Nat) → Except Err Unit
  | [], _ => .ok ()
  | jr :: rest, touched =>
    match scanSetsT ts targets h jr sets touched with
    | .error e => .error e
    | .ok touched' => scanViewT ts targets h sets rest touched'

def updateTargetsT (ts : Tables) (h : List HField) (view : List JRow) (sets : List TSet) : List String → Except Err (List Out)
  | [] => .ok []
  | tn :: rest =>
    match getCopy ts tn with
    | .error e => .error e
    | .ok t =>
      match updateCore (view.map fun jr => (idOfRef h tn jr, jr))
          ((sets.filter fun s => s.target h = some tn).map fun s => { field := s.field, expr := s.expr h }) t with
      | .error e => .error e
      | .ok (t', n) =>
        match updateTargetsT ts h view sets rest with
        | .error e => .error e
        | .ok outs => .ok ({ name := tn, table := t', count := n, mark := 0 < n } :: outs)

def deleteTargetsT (ts : Tables) (h : List HField) (view : List JRow) : List String → Except Err (List Out)
  | [] => .ok []
  | tn :: rest =>
    match getCopy ts tn with
    | .error e => .error e
    | .ok t =>
      let r := deleteCore (view.map (idOfRef h tn)) t
      match deleteTargetsT ts h view rest with
      | .error e => .error e
      | .ok outs => .ok ({ name := tn, table := r.1, count := r.2, mark := 0 < r.2 } :: outs)

def updateTreeBody (ts : Tables) (eqv : Cell → Cell → Tern) (targets : List String) (tree : Tree)
    (cond : List HField → JRow → Except Err Tern) (sets : List TSet) : Except Err (List Out) :=
  match treeFiltered ts eqv tree cond with
  | .error e => .error e
  | .ok (h, view) =>
    match scanViewT ts targets h sets view [] with
    | .error e => .error e
    | .ok _ => updateTargetsT ts h view sets targets

def deleteTreeBody (ts : Tables) (eqv : Cell → Cell → Tern) (targets : List String) (tree : Tree)
    (cond : List HField → JRow → Except Err Tern) : Except Err (List Out) :=
  match treeFiltered ts eqv tree cond with
  | .error e => .error e
  | .ok (h, view) => deleteTargetsT ts h view targets

/-- publication of a statement body's result (the success / failure branches of `stmtImpl`) -/
def publishBody (s : State) : Except Err (List Out) → State × Result
  | .error e => (s, .error e)
  | .ok outs =>
    ({ s with tables := publish s.tables outs, marks := markAll s.marks outs },
     .ok ((outs.filter fun o => !o.isNew).map fun o => (o.name, o.count)))

end Csvq.Dml
