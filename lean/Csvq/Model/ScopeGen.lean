/-
  Csvq.Model.ScopeGen — the vocabulary of the walks over the block stack that /verif/extract/scopefacts
  regenerates from lib/query/reference_scope.go on every run (Csvq/Gen/ScopeFacts.lean).

  A generated walk is generic in what ONE call on ONE block's map does: `call : String → B → OpRes B P`,
  the string being "<Map>.<Method>" as written in the Go source (`rs.Blocks[i].Variables.Get(expr)` is
  `call "Variables.Get" b`).  Core Lean only.
-/
namespace Csvq.ScopeGen

/-- what one call on one block's map reports -/
structure OpRes (B P : Type) where
  block : B          -- the block after the call (the maps are mutated in place)
  hit : Bool         -- success: `ok`, `true`, `err == nil`
  absent : Bool      -- "not declared in this block": `err == errUndeclaredCursor`, `err == errTableNotLoaded`
  pseudo : Bool      -- `err == errPseudoCursor`
  payload : P        -- the value / the error that came back

/-- what a walk answers, with the blocks as they are afterwards -/
inductive Walk (B P : Type)
  | found (bs : List B) (p : P)            -- a return after a success: `return v, nil`, `return nil`, `return`
  | failed (bs : List B) (p : P)           -- the error of the call itself is handed on: `return nil, err`
  | raised (bs : List B) (what : String)   -- an error (or constant) made by the walk: `NewUndeclared…Error`, `false`

/-- the walk went past block `b` -/
def Walk.cons {B P : Type} (b : B) : Walk B P → Walk B P
  | .found bs p => .found (b :: bs) p
  | .failed bs p => .failed (b :: bs) p
  | .raised bs w => .raised (b :: bs) w

def Walk.blocks {B P : Type} : Walk B P → List B
  | .found bs _ => bs
  | .failed bs _ => bs
  | .raised bs _ => bs

/-- the blocks after a successful walk -/
def Walk.toOption {B P : Type} : Walk B P → Option (List B)
  | .found bs _ => some bs
  | _ => none

/-- the value a successful walk found -/
def Walk.value {B P : Type} : Walk B P → Option P
  | .found _ p => some p
  | _ => none

end Csvq.ScopeGen
