/-
  Csvq.Model.RelGen — hand-written support for lean/Csvq/Gen/RelFacts.lean (regenerated from the Go source by
  extract/relfacts on every run): the result of one round of a translated `for` loop, the loop driver, the kinds
  of object `loadObject` tries, the origin of every field of a derived ReferenceScope, integer helpers.
-/
import Csvq.Model.Rel
import Csvq.Model.Lateral
import Csvq.Model.RelNames
namespace Csvq.Rel
open Csvq

/-- what one round of the loop `for i := range h` of `Header.FieldIndex` does with the loop variable `idx`:
    go on (also `continue`), `break`, or `return -1, err` -/
inductive LoopR
  | next (idx : Int)
  | brk (idx : Int)
  | ret (e : ResErr)
  deriving Repr

def runLoop (body : HField → Nat → Int → LoopR) : List HField → Nat → Int → Except ResErr Int
  | [], _, idx => .ok idx
  | f :: fs, i, idx =>
    match body f i idx with
    | .next idx' => runLoop body fs (i + 1) idx'
    | .brk idx' => .ok idx'
    | .ret e => .error e

/-- `view` of the Go function: the empty string stands for an unqualified reference -/
def viewStr : Option String → String
  | none => ""
  | some v => v

/-- `Header.FieldIndex` put together from its translated parts: `column := strings.TrimSpace(col.Literal)`,
    `idx := -1`, the loop, the statements after the loop -/
def fieldIndexBy (body : String → String → HField → Nat → Int → LoopR) (post : Int → Except ResErr Nat)
    (h : List HField) (view column : String) : Except ResErr Nat :=
  match runLoop (body view (trimSpace column)) h 0 (-1) with
  | .ok idx => post idx
  | .error e => .error e

/-- the tests of `loadObject`, in the order of the source -/
inductive LoadStep
  | stdin | dataObject | httpObject | inlineFile | recursive | cte | temp | file
  | other (what : String)
  deriving Repr, DecidableEq

/-- the kind of object an identifier denotes when the tests are tried in the given order (the tests for stdin,
    data / http objects and inline files concern other spellings of a table, they never hold for an identifier) -/
def tableKindBy (recName : Option String) (ctes temps : List String) (n : String) : List LoadStep → Option TKind
  | [] => none
  | .recursive :: rest =>
    if (match recName with | some r => eqFold r n | none => false) then some .recursive
    else tableKindBy recName ctes temps n rest
  | .cte :: rest => if nameIn ctes n then some .cte else tableKindBy recName ctes temps n rest
  | .temp :: rest => if nameIn temps n then some .temp else tableKindBy recName ctes temps n rest
  | .file :: _ => some .file
  | _ :: rest => tableKindBy recName ctes temps n rest

/-! ### the scope constructors of reference_scope.go, field by field

  extract/relfacts reads the composite literal `&ReferenceScope{…}` each of `createScope`, `CreateChild`,
  `CreateNode` returns and says, for every field of the struct, where its value comes from. -/

inductive FieldOrigin
  | inherited            -- `F: rs.F`
  | fresh                -- any other expression (a new slice built from the receiver's, the argument …)
  | zero                 -- not mentioned, or `nil`
  deriving Repr, DecidableEq

structure ScopeCtor where
  tx : FieldOrigin
  blocks : FieldOrigin
  nodes : FieldOrigin
  cachedFilePath : FieldOrigin
  now : FieldOrigin
  records : FieldOrigin
  recursiveTable : FieldOrigin
  recursiveTmpView : FieldOrigin
  recursiveCount : FieldOrigin
  recursionRoot : FieldOrigin
  deriving Repr, DecidableEq

/-- the scope a constructor with these origins derives (a field that is not inherited is lost; `fresh` nodes =
    one more layer on top, in which `defined` is declared afterwards; `fresh` blocks keep the temporary tables
    of the enclosing blocks visible) -/
def deriveBy (o : ScopeCtor) (defined : List String) (s : NameScope) : NameScope :=
  { recName := (match o.recursiveTable with | .inherited => s.recName | _ => none),
    working := (match o.recursiveTmpView with | .inherited => s.working | _ => none),
    ctes := (match o.nodes with | .inherited => s.ctes | .fresh => defined ++ s.ctes | .zero => []),
    temps := (match o.blocks with | .zero => [] | _ => s.temps),
    limitCount := (match o.recursiveCount with | .inherited => s.limitCount | _ => 0),
    root := (match o.recursionRoot with | .inherited => s.root | _ => false) }

/-! ### the sub-query functions of eval.go (evalExists, evalSubqueryForValue, evalSubqueryForArray)

  extract/relfacts translates the chain of length tests each of them runs after `Select` into a function of the
  result's field and record count; `SubOut` says what is returned. -/

inductive SubOut
  | tooManyFields | noFields | tooManyRecords
  | null                 -- `value.NewNull()`
  | empty                -- `nil, nil`: no value at all (an empty list)
  | firstCell            -- `view.RecordSet[0][0][0]`
  | firstColumn          -- the first cell of every record, in order
  | tern (t : Tern)
  deriving Repr, DecidableEq

/-- the value a scalar sub-query stands for, given what the translated function decides -/
def scalarBy (o : SubOut) (res : Nat × List Row) : Except ResErr Profile :=
  match o with
  | .tooManyFields => .error .tooManyFields
  | .tooManyRecords => .error .tooManyRecords
  | .null => .ok nullP
  | .firstCell => .ok ((((res.2[0]?).getD [])[0]?).getD nullP)
  | _ => .error .notExist

/-- the list a sub-query stands for in IN / ANY / ALL, given what the translated function decides -/
def listBy (o : SubOut) (res : Nat × List Row) : Except ResErr (List Profile) :=
  match o with
  | .tooManyFields => .error .tooManyFields
  | .empty => .ok []
  | .firstColumn => .ok (res.2.map (fun r => (r[0]?).getD nullP))
  | _ => .error .notExist

/-- math.Floor(float64(a) / float64(b)) for positive ints below 2^53 -/
def floorDivI (a b : Int) : Int := a / b
/-- math.Ceil(float64(a) / b) for positive ints below 2^53 -/
def ceilDivI (a b : Int) : Int := (a + b - 1) / b

end Csvq.Rel
