/-
  Csvq.Model.Text — the text ↔ value conversions that csvq delegates to strconv, on ASCII input:
  strconv.ParseInt(s, 10, 64) after option.TrimSpace (value.ToIntegerStrictly on strings),
  strconv.ParseBool (String.Ternary), and strconv.FormatInt (the `decText` of Model/Keys.lean).
-/
import Csvq.Model.Keys
namespace Csvq

def isAsciiSpace (b : Nat) : Bool := b = 32 || b = 9 || b = 10 || b = 11 || b = 12 || b = 13

/-- option.TrimSpace on ASCII text -/
def trimAscii (s : Bytes) : Bytes :=
  ((s.dropWhile isAsciiSpace).reverse.dropWhile isAsciiSpace).reverse

/-- value of a decimal digit string; `none` on a non-digit or the empty string -/
def parseDigits : Bytes → Nat → Option Nat
  | [], acc => some acc
  | b :: bs, acc => if 48 ≤ b ∧ b ≤ 57 then parseDigits bs (acc * 10 + (b - 48)) else none

def parseNat (s : Bytes) : Option Nat := if s.isEmpty then none else parseDigits s 0

/-- optional sign and decimal digits -/
def parseSigned (s : Bytes) : Option Int :=
  match s with
  | 45 :: rest => (parseNat rest).map fun n => -(n : Int)
  | 43 :: rest => (parseNat rest).map fun n => (n : Int)
  | _ => (parseNat s).map fun n => (n : Int)

/-- strconv.ParseInt(s, 10, 64): optional sign, decimal digits, int64 range -/
def parseIntStrict (s : Bytes) : Option Int :=
  match parseSigned s with
  | some i => if minI64 ≤ i ∧ i ≤ maxI64 then some i else none
  | none => none

/-- value.ToIntegerStrictly on an ASCII string -/
def strToIntStrict (s : Bytes) : Option Int := parseIntStrict (trimAscii s)

/-- strconv.ParseBool -/
def parseBoolStrict (s : Bytes) : Option Bool :=
  if s = [49] ∨ s = [116] ∨ s = [84] ∨ s = [84, 82, 85, 69] ∨ s = [116, 114, 117, 101] ∨ s = [84, 114, 117, 101] then some true
  else if s = [48] ∨ s = [102] ∨ s = [70] ∨ s = [70, 65, 76, 83, 69] ∨ s = [102, 97, 108, 115, 101] ∨ s = [70, 97, 108, 115, 101] then some false
  else none

/-- String.Ternary() on an ASCII string -/
def strTernary (s : Bytes) : Tern :=
  match parseBoolStrict (trimAscii s) with
  | some true => .T
  | some false => .F
  | none => .U

end Csvq
