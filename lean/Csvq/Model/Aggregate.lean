/-
  Csvq.Model.Aggregate — the aggregate functions themselves, in the shape of
  lib/query/aggregate_function.go (Count, Max, Min, Sum, Avg, StdEV, StdEVP, Var, VarP, floatList, sum,
  average, variance, standardDeviation, Median, ListAgg) and of the glue in lib/query/eval.go /
  view.go (ListValuesForAggregateFunctions: the DISTINCT option = utils.go Distinguish).

  A cell is the coercion `Profile` of the value the argument expression produced for one record of the
  group.  float64 arithmetic is exact binary64 (`FVal`, Model/Float.lean): `+ - /` are `FVal.add/sub/div`,
  math.Pow(x, 2) is `FVal.powTwo` (below, the code path of math.pow for y = 2), math.Sqrt is
  `FVal.sqrt` (below, correctly rounded).  Core Lean only.
-/
import Csvq.Model.Sort
import Csvq.Model.Group
namespace Csvq
namespace FVal

/-! ### math.Sqrt -/

/-- `isqrtAux k n` = ⌊√n⌋ for n < 4^k (one result bit per step) -/
def isqrtAux : Nat → Nat → Nat
  | 0, _ => 0
  | k + 1, n =>
    let r := 2 * isqrtAux k (n / 4)
    if (r + 1) * (r + 1) ≤ n then r + 1 else r

/-- Newton's iteration from a guess above the root, while it decreases (fast; used after checking its answer) -/
def newtonAux : Nat → Nat → Nat → Nat
  | 0, _, g => g
  | f + 1, n, g =>
    let g' := (g + n / g) / 2
    if g' < g then newtonAux f n g' else g

/-- integer square root ⌊√n⌋: Newton's answer when it passes the defining test `s² ≤ n < (s+1)²`
    (it always does; the test keeps the proof independent of the iteration), else bit by bit -/
def isqrt (n : Nat) : Nat :=
  let s := newtonAux 64 n (pow2 (n.log2 / 2 + 1))
  if s * s ≤ n ∧ n < (s + 1) * (s + 1) then s else isqrtAux (n.log2 / 2 + 1) n

/-- math.Sqrt (IEEE-754 correctly rounded; the hardware instruction on amd64):
    the finite x = n·2^-1074 has √x = √(n·2^1074) units.  With s = ⌊√(n·2^1074)⌋ ≥ 2^537 the value
    s + (sticky bit)/2 lies on the same side of every rounding boundary of a 53-bit result as the real root,
    so rounding `(2s + sticky) / 2` is rounding the root. -/
def sqrt : FVal → FVal
  | nan => nan
  | pinf => pinf
  | ninf => nan
  | negz => negz
  | fin n =>
    if n < 0 then nan
    else if n = 0 then fin 0
    else
      let a := n.natAbs * unit
      let s := isqrt a
      signed false (roundMag (2 * s + (if s * s = a then 0 else 1)) 2)

/-! ### math.Pow(x, 2) -/

/-- round the natural number `a` to 53 significant bits, ties to even (one float64 multiplication of two
    mantissas, exponent range aside) -/
def round53 (a : Nat) : Nat :=
  let bits := if a = 0 then 0 else Nat.log2 a + 1
  let k := bits - 53
  let dd := pow2 k
  let m := a / dd
  let rem := a - m * dd
  let m' := if 2 * rem > dd then m + 1
            else if 2 * rem = dd then (if m % 2 = 0 then m else m + 1)
            else m
  m' * dd

/-- math.Pow(x, 2) as math.pow computes it (pow.go, no assembly on amd64): yi = 2, yf = 0;
    `x1, xe := Frexp(x)`; the loop squares the mantissa ONCE in float64 (`x1 *= x1`, rounded to 53 bits,
    renormalised exactly), multiplies `a1 = 1` by it (exact) and `Ldexp(a1, ae)` scales — which rounds a
    second time when the result is subnormal.  Equal to the correctly rounded x·x (`FVal.mul x x`) whenever
    the result is normal, zero or infinite; in the subnormal range the two roundings can differ from the
    single one by one unit (`Csvq.C04.powTwo_double_rounding`).
    Special cases before the loop: Pow(NaN,2) = NaN, Pow(±0,2) = +0, Pow(±Inf,2) = +Inf, Pow(1,2) = 1. -/
def powTwo : FVal → FVal
  | nan => nan
  | pinf => pinf
  | ninf => pinf
  | negz => fin 0
  | fin n => signed false (roundMag (round53 (n.natAbs * n.natAbs)) unit)

end FVal

namespace Agg

/-- result of an aggregate function: NULL, an integer (COUNT), a float, a text (LISTAGG) or — MAX / MIN —
    one of the cells itself -/
inductive Res
  | null
  | int (i : Int)
  | flt (f : FVal)
  | str (s : Bytes)
  | cell (p : Profile)
  deriving DecidableEq, Repr, Inhabited

/-! ### COUNT -/

/-- the loop of Count -/
def countLoop : List Profile → Int → Int
  | [], c => c
  | v :: vs, c => if v.isNull then countLoop vs c else countLoop vs (c + 1)

def count (l : List Profile) : Int := countLoop l 0

/-! ### MAX / MIN -/

/-- the loop of Max / Min: `better v result` is `value.Greater` (`opGt`) resp. `value.Less` (`opLt`);
    `res = none` is the NULL the loop starts from -/
def extLoop (better : Profile → Profile → Tern) : List Profile → Option Profile → Option Profile
  | [], res => res
  | v :: vs, res =>
    if v.isNull then extLoop better vs res
    else match res with
      | none => extLoop better vs (some v)
      | some r => if better v r = .T then extLoop better vs (some v) else extLoop better vs (some r)

def maxAgg (l : List Profile) : Option Profile := extLoop opGt l none
def minAgg (l : List Profile) : Option Profile := extLoop opLt l none

/-! ### SUM, AVG, VAR, STDEV -/

/-- floatList: the cells value.ToFloat accepts (integers, floats, numeric texts), in order -/
def floatList : List Profile → List FVal
  | [] => []
  | v :: vs => match v.flt? with
    | some f => f :: floatList vs
    | none => floatList vs

/-- `sum`: `var sum float64; for … { sum += v }` -/
def fsum (l : List FVal) : FVal := l.foldl FVal.add (.fin 0)

/-- Go's `==` between a float64 and the constant 0 -/
def isZeroF (x : FVal) : Bool := FVal.feq x (.fin 0)

/-- `average` -/
def average (l : List FVal) : FVal :=
  let denom := FVal.ofInt l.length
  let s := fsum l
  if isZeroF denom || isZeroF s then .fin 0 else FVal.div s denom

/-- the accumulation loop of `variance`: `sum += math.Pow(v-avg, 2)` -/
def sqDevSum (avg : FVal) (l : List FVal) : FVal :=
  l.foldl (fun s v => FVal.add s (FVal.powTwo (FVal.sub v avg))) (.fin 0)

/-- `variance` -/
def variance (l : List FVal) (isP : Bool) : FVal :=
  let avg := average l
  let denom0 := FVal.ofInt l.length
  let denom := if isP then denom0 else FVal.sub denom0 (FVal.ofInt 1)
  let s := sqDevSum avg l
  if isZeroF denom || isZeroF s then .fin 0 else FVal.div s denom

/-- `standardDeviation` -/
def standardDeviation (l : List FVal) (isP : Bool) : FVal := FVal.sqrt (variance l isP)

def sum (l : List Profile) : Res :=
  let vs := floatList l
  if vs.length < 1 then .null else .flt (fsum vs)

def avg (l : List Profile) : Res :=
  let vs := floatList l
  if vs.length < 1 then .null else .flt (average vs)

def stdev (l : List Profile) : Res :=
  let vs := floatList l
  if vs.length < 2 then .null else .flt (standardDeviation vs false)

def stdevp (l : List Profile) : Res :=
  let vs := floatList l
  if vs.length < 1 then .null else .flt (standardDeviation vs true)

def var (l : List Profile) : Res :=
  let vs := floatList l
  if vs.length < 2 then .null else .flt (variance vs false)

def varp (l : List Profile) : Res :=
  let vs := floatList l
  if vs.length < 1 then .null else .flt (variance vs true)

/-! ### MEDIAN -/

/-- `float64(t.UnixNano()) / 1e9` (UnixNano is an int64: it wraps for instants outside 1678–2262) -/
def dtSeconds (ns : Int) : FVal := FVal.div (FVal.ofInt (wrap64 ns)) (FVal.ofInt 1000000000)

/-- the value list of Median: numbers, else datetimes as seconds since the epoch -/
def medianList : List Profile → List FVal
  | [] => []
  | v :: vs => match v.flt? with
    | some f => f :: medianList vs
    | none => match v.dt? with
      | some ns => dtSeconds ns :: medianList vs
      | none => medianList vs

/-- `Less` of sort.Float64Slice: NaN before every number, then `<` -/
def f64Less (x y : FVal) : Bool := FVal.flt x y || (x.isNaN && !y.isNaN)

def isNegZero : FVal → Bool
  | .negz => true
  | _ => false

def isPosZero : FVal → Bool
  | .fin n => n == 0
  | _ => false

/-- the order the model sorts by: `f64Less`, and -0 before +0.  sort.Float64s promises only SOME permutation
    sorted by `f64Less` (pdqsort is not stable, -0 and +0 are equal keys); `Csvq.C04.median_any_sort` shows that
    every such permutation gives the same median up to the sign of a zero. -/
def medLess (x y : FVal) : Bool := f64Less x y || (isNegZero x && isPosZero y)

/-- the two branches after `sort.Float64s(values)` -/
def medianOfSorted (s : List FVal) : Option FVal :=
  if s.length % 2 = 1 then s[(s.length + 1) / 2 - 1]?
  else match s[s.length / 2 - 1]?, s[s.length / 2 - 1 + 1]? with
    | some a, some b => some (FVal.div (FVal.add a b) (FVal.ofInt 2))
    | _, _ => none

def median (l : List Profile) : Res :=
  let vs := medianList l
  if vs.length < 1 then .null
  else match medianOfSorted (sortBy medLess vs) with
    | some f => .flt f
    | none => .null       -- not reached (`Csvq.C04.median_null_iff`)

/-! ### LISTAGG -/

/-- value.ToString: texts, integers and floats have a text; NULL, booleans, ternaries and DATETIMES do not -/
def cellText (kt : KeyText) (p : Profile) : Option Bytes :=
  match p.raw with
  | .str s => some s
  | .int i => some (kt.itext i)
  | .flt f => some (kt.ftext f)
  | _ => none

/-- the texts ListAgg collects, in list order -/
def textList (kt : KeyText) : List Profile → List Bytes
  | [] => []
  | v :: vs => match cellText kt v with
    | some s => s :: textList kt vs
    | none => textList kt vs

/-- strings.Join -/
def join (sep : Bytes) : List Bytes → Bytes
  | [] => []
  | [x] => x
  | x :: xs => x ++ sep ++ join sep xs

def listAgg (kt : KeyText) (sep : Bytes) (l : List Profile) : Res :=
  let ss := textList kt l
  if ss.length < 1 then .null else .str (join sep ss)

/-- JsonAgg: NULL for an empty list, else the JSON text of the array (the encoder is outside this model) -/
def jsonAggIsNull (l : List Profile) : Bool := l.length < 1

/-! ### the DISTINCT option: utils.go Distinguish — the first cell of every comparison key, in order -/

def distinguish (l : List Profile) : List Profile :=
  (keepFirst (l.map fun p => (norm p, p))).map Prod.snd

/-- under the strict-equal flag the key is SerializeIdenticalKey's (`trim` = option.TrimSpace of a text) -/
def distinguishStrict (l : List (Profile × Bytes)) : List Profile :=
  (keepFirst (l.map fun p => (normStrict p.1.raw p.2, p.1))).map Prod.snd

end Agg
end Csvq
