/-
  Csvq.Model.Commit — the file-system effect of committing / closing one table handler
  (lib/file/handler.go: commit, close, closeWithErrors), on the files of one table:
  the data file P, `.P.temp`, `.P.lock`, `.P.<x>.rlock`.  Contents are an arbitrary type.
  A crash is "stop after any prefix of the operations".
-/
namespace Csvq.Commit

inductive FsOp
  | closeFd          -- close(2) of a descriptor: no effect on names or contents
  | removeData       -- unlink P
  | renameTempData   -- rename(.P.temp, P): atomic replace
  | rmTemp           -- ControlFile.Close of the temp file: close + unlink
  | rmLock
  | rmRLock
  | unknown (s : String)
  deriving DecidableEq, Repr

/-- read one generated effect string (extract/fsproto) -/
def parseOp (s : String) : FsOp :=
  if s = "close(h.fp)" ∨ s = "close(h.tempFile.fp)" then .closeFd
  else if s = "remove(h.path)" then .removeData
  else if s = "rename(h.tempFile.path,h.path)" then .renameTempData
  else if s = "cf_close(h.tempFile)" then .rmTemp
  else if s = "cf_close(h.lockFile)" then .rmLock
  else if s = "cf_close(h.rlockFile)" then .rmRLock
  else .unknown s

/-- the files of one table -/
structure TState (α : Type) where
  data : Option α
  temp : Option α
  lock : Bool
  rlock : Bool
  stuck : Bool := false      -- an operation the model does not know was met
  deriving DecidableEq, Repr

def stepOp {α} (op : FsOp) (s : TState α) : TState α :=
  match op with
  | .closeFd => s
  | .removeData => { s with data := none }
  | .renameTempData => (match s.temp with
      | some c => { s with data := some c, temp := none }
      | none => s)
  | .rmTemp => { s with temp := none }
  | .rmLock => { s with lock := false }
  | .rmRLock => { s with rlock := false }
  | .unknown _ => { s with stuck := true }

def runOps {α} (ops : List FsOp) (s : TState α) : TState α := ops.foldl (fun s op => stepOp op s) s

def TState.map {α β} (f : α → β) (s : TState α) : TState β :=
  { data := s.data.map f, temp := s.temp.map f, lock := s.lock, rlock := s.rlock, stuck := s.stuck }

/-- state of an existing table about to be committed by an update: old contents in P,
    complete new contents in the temp file, lock held -/
def startUpdate {α} (old new : α) : TState α :=
  { data := some old, temp := some new, lock := true, rlock := false }

/-- symbolic contents: `false` = old, `true` = new -/
def symStart : TState Bool := startUpdate false true

/-- decidable check over every prefix of an operation list: the data file is old or new -/
def oldOrNewAllPrefixes (ops : List FsOp) : Bool :=
  (List.range (ops.length + 1)).all fun k =>
    let s := runOps (ops.take k) symStart
    !s.stuck && (s.data == some false || s.data == some true)

/-- after the full list: new contents in place, nothing left behind -/
def completesClean (ops : List FsOp) : Bool :=
  let s := runOps ops symStart
  s.data == some true && s.temp == none && !s.lock && !s.rlock && !s.stuck

/-- close / closeWithErrors leave no control file behind (data untouched) -/
def releasesAll (ops : List FsOp) : Bool :=
  let s := runOps ops symStart
  s.temp == none && !s.lock && !s.rlock && !s.stuck

/-! several tables: operations tagged with the table they act on -/

def stepTagged {α} (s : Nat → TState α) (iop : Nat × FsOp) : Nat → TState α :=
  fun j => if j = iop.1 then stepOp iop.2 (s j) else s j

def runTagged {α} (l : List (Nat × FsOp)) (s : Nat → TState α) : Nat → TState α := l.foldl stepTagged s

def proj (i : Nat) (l : List (Nat × FsOp)) : List FsOp :=
  l.filterMap fun iop => if iop.1 = i then some iop.2 else none

end Csvq.Commit
