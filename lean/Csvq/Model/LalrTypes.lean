/-
  Csvq.Model.LalrTypes — the semantic values of the goyacc driver, as far as their DYNAMIC TYPES go.

  The driver model (Csvq/Model/Lalr.lean) drops the semantic values.  Here every stack entry gets a tag: the dynamic
  Go type of the value in the `yySymType` field its symbol lives in (`%type<queryexpr>` …) — `nil`, `unknown`, or one
  of the concrete types the actions construct (Csvq/Gen/LalrActions.lean, regenerated from parser.y and the
  type-checked lib/parser).  A shift pushes the tag of `Token` (the only field `(*Lexer).Lex` writes); a reduction
  by production `p` pops the tags of `$1 … $k` and pushes a tag the action of `p` can leave in `yyVAL`: one of its
  sources (a concrete type, nil, unknown, or a copy of some `$j`) — WHICH one is not modelled (it may depend on the
  values), so the run takes an oracle and stops with `impossibleAction` when the oracle proposes a tag the action
  cannot produce.  Before that, every type assertion without `ok` of the action is tested against the tags of its
  operand: `assertPanic`.

  Core Lean only.
-/
import Csvq.Model.Lalr
namespace Csvq.Lalr

/-- tag of the nil interface value -/
def nilTag : Nat := 0
/-- tag of a value whose dynamic type the extractor could not determine (it satisfies no assertion) -/
def unknownTag : Nat := 1

/-- sources of yyVAL at or above this number stand for "a copy of `$j`", j = the excess -/
def copyBase : Nat := 10000

structure Prod where
  /-- yyR1 number of the left-hand side -/
  lhs : Nat
  /-- right-hand symbols in the stored form of yyChk (token number, or minus the yyR1 number, plus 32768) -/
  rhs : List Nat
  /-- what the action can leave in yyVAL: a tag, or `copyBase + j`: a copy of `$j` -/
  srcs : List Nat
  /-- type assertions without `ok`: (j, the tags that satisfy it, nil excluded before it) on `yyDollar[j]` -/
  asserts : List (Nat × List Nat × Bool)

structure Grammar where
  prods : List Prod
  /-- certificate: the tags a symbol's value can have (symbols in stored form) -/
  types : List (Nat × List Nat)
  tokTag : Nat

/-- the productions from the parallel lists of Csvq/Gen/LalrActions.lean -/
def mkProds : Nat → List Nat → List (List Nat) → List (List Nat) → List (Nat × Nat × List Nat × Bool) → List Prod
  | p, l :: ls, r :: rs, s :: ss, as =>
    { lhs := l, rhs := r, srcs := s, asserts := (as.filter (fun a => a.1 == p)).map (fun a => a.2) } :: mkProds (p + 1) ls rs ss as
  | _, _, _, _, _ => []

/-- can the action leave a value with tag `res` when `$1 …` have the tags `args`? -/
def Prod.allowed (pr : Prod) (args : List Nat) (res : Nat) : Bool :=
  pr.srcs.any fun s => if s < copyBase then res == s else args[s - copyBase - 1]? == some res

/-- does the assertion `yyDollar[j].f.(T)` panic on these tags? -/
def assertFails (args : List Nat) (a : Nat × List Nat × Bool) : Bool :=
  match args[a.1 - 1]? with
  | none => true
  | some t => !(a.2.1.contains t || (a.2.2 && t == nilTag))

inductive ResultV
  | accept
  | syntaxError (index : Nat)
  | indexPanic (w : Where)
  | outOfFuel
  /-- the type assertion on `yyDollar[j]` in the action of production `p` fails -/
  | assertPanic (p j : Nat)
  /-- the oracle proposed a tag the action of `p` cannot produce: not an execution of the program -/
  | impossibleAction (p : Nat)
  deriving DecidableEq, Repr

/-- the loop of `run` with the tags of the semantic values beside the state stack (`tags`: top first, one per stack
    entry); `orc fuel`: the tag the action executed in the round with this much fuel left leaves in yyVAL -/
def runV (T : Tables) (G : Grammar) (orc : Nat → Nat) : Nat → St → List Nat → ResultV
  | 0, _, _ => .outOfFuel
  | fuel + 1, s, tags =>
    match step T s with
    | .accept => .accept
    | .abort i => .syntaxError i
    | .panic w => .indexPanic w
    | .next s' (.shift _) => runV T G orc fuel s' (G.tokTag :: tags)
    | .next s' (.errShift _) => runV T G orc fuel s' (unknownTag :: tags)
    | .next s' .discard => runV T G orc fuel s' tags
    | .next s' (.reduce p _) =>
      match G.prods[p.toNat]? with
      | none => .impossibleAction p.toNat
      | some pr =>
        let k := pr.rhs.length
        let args := (tags.take k).reverse
        match pr.asserts.find? (assertFails args) with
        | some a => .assertPanic p.toNat a.1
        | none =>
          if pr.allowed args (orc fuel) then runV T G orc fuel s' (orc fuel :: tags.drop k)
          else .impossibleAction p.toNat

end Csvq.Lalr
