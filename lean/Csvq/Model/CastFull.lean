/-
  Csvq.Model.CastFull — the casts that need the text functions: DATETIME(x) (lib/query/function.go Datetime, one
  argument) with value.Float64ToTime, and STRING(x) for every type (datetimes through Format(RFC3339Nano)).

  value.Float64ToTime does not compute with the float: it prints it (Float64ToStr(f, false)), splits the text at
  the point, reads the part before it as the seconds (strconv.ParseInt, error ignored: 0 on a syntax error, the
  nearest int64 bound when out of range) and the first nine digits after it — padded with zeros on the right — as
  the nanoseconds, negates the nanoseconds when the float is negative (so that the fraction of a negative number
  counts backwards like its integer part; before the repair F114 it was added), and hands both to time.Unix.
-/
import Csvq.Model.Cast
import Csvq.Model.CellText
namespace Csvq

/-- strconv.ParseInt(s, 10, 64) with the error dropped: the value on success, 0 on a syntax error, the nearest
    bound on a range error -/
def parseIntLenient (s : Bytes) : Int :=
  match parseSigned s with
  | some i => if i < minI64 then minI64 else if maxI64 < i then maxI64 else i
  | none => 0

/-- the text before the first '.', and the text after it (`strings.Split(s, ".")`, elements 0 and 1) -/
def splitPoint : Bytes → Bytes × Option Bytes
  | [] => ([], none)
  | b :: bs =>
    if b = 46 then ([], some (bs.takeWhile (· ≠ 46)))
    else let r := splitPoint bs; (b :: r.1, r.2)

/-- value.Float64ToTime, as nanoseconds since the epoch (time.Unix(sec, nsec)) -/
def float64ToTime (f : FVal) : Int :=
  let ar := splitPoint (FF.fmtF f)
  let sec := parseIntLenient ar.1
  let nsec : Int := match ar.2 with
    | none => 0
    | some d => if 9 < d.length then parseIntLenient (d.take 9) else parseIntLenient (d ++ FF.zeros (9 - d.length))
  sec * 1000000000 + (if FVal.flt f (FVal.ofInt 0) then -nsec else nsec)

/-- DATETIME(x), one argument: value.ToDatetime, else ToIntegerStrictly as Unix seconds, else ToFloat through
    Float64ToTime (NULL for NaN and ±Inf), else NULL -/
def castDatetime (p : Profile) : Val :=
  match p.dt? with
  | some ns => .dt ns
  | none => match p.int? with
    | some i => .dt (i * 1000000000)
    | none => match p.flt? with
      | some f => if f.isNaN || f.isInf then .null else .dt (float64ToTime f)
      | none => .null

/-- STRING(x): `off` is the zone offset of a Datetime argument -/
def castStringFull (v : Val) (off : Int) : Val :=
  match v with
  | .null => .null
  | .dt ns => .str (FT.fmtTime ns off)
  | .bool b => .str (if b then sTrue else sFalse)
  | .tern t => .str (match t with
      | .T => [84, 82, 85, 69] | .F => [70, 65, 76, 83, 69] | .U => [85, 78, 75, 78, 79, 87, 78])
  | .str s => .str s
  | .int i => .str (decText i)
  | .flt f => .str (FF.fmtF f)

end Csvq
