/-
  Csvq.Model.Slab — records as windows into one cell array.  A Go slice is (pointer, len, cap): a record carved
  out of a shared array is an offset, a length and a CAPACITY; `append(record, cell)` with len < cap writes IN PLACE
  at offset+len — whoever owns that cell.  lib/query/view.go gives every record its own allocation
  (ExtendRecordCapacity: `make(Record, len, cap)`), i.e. windows [off, off+cap) that are pairwise disjoint; a
  two-index carve `cells[a:b]` from a shared slab has cap = len(cells) − a, which runs into every following record.
  Core Lean only.
-/
namespace Csvq.Slab

/-- a record: `cells[off : off+len]` with capacity `cap` (its window is [off, off+cap)) -/
structure Win where
  off : Nat
  len : Nat
  cap : Nat
  deriving DecidableEq, Repr

/-- the cells a record shows -/
def read {α} (cells : List α) (r : Win) : List α := (cells.drop r.off).take r.len

/-- `append(record, x)` while len < cap: the cell at off+len is overwritten in place and the record grows by one -/
def appendInPlace {α} (cells : List α) (r : Win) (x : α) : List α × Win :=
  (cells.set (r.off + r.len) x, { r with len := r.len + 1 })

/-- the capacity windows of two records do not overlap -/
def Disjoint (r s : Win) : Prop := r.off + r.cap ≤ s.off ∨ s.off + s.cap ≤ r.off

instance (r s : Win) : Decidable (Disjoint r s) := by unfold Disjoint; infer_instance

/-- record i of n carved with a capacity bound: own allocation `make(Record, len, cap)` or `cells[a : a+len : a+cap]` -/
def carveBounded (fieldLen fieldCap i : Nat) : Win := ⟨i * fieldCap, fieldLen, fieldCap⟩

/-- record i of n carved by a two-index slice `cells[i*cap : i*cap+len]` out of a slab of n*cap cells:
    its capacity reaches to the end of the slab -/
def carveTwoIndex (n fieldLen fieldCap i : Nat) : Win := ⟨i * fieldCap, fieldLen, n * fieldCap - i * fieldCap⟩

/-- ExtendRecordCapacity's early return: `fieldCap <= cap(view.RecordSet[0])` — no new allocation -/
def enoughCapacity (fieldCap : Nat) (first : Win) : Bool := decide (fieldCap ≤ first.cap)

end Csvq.Slab
