/-
  C14 — value lists and who owns them (core Lean only), and the record types of the generated file
  `Csvq/Gen/ListWriteFacts.lean`.

  A VALUE LIST of csvq is a Go slice over `value.Primary` (`[]value.Primary`, `Cell`) or over value lists (`Record`,
  `RecordSet`, …).  A slice is a view of a backing array: `q := p[:0]; q = append(q, v)` stores `v` into the first
  element of `p`, `sort.Sort(p)`, `copy(p, …)`, `p[i] = …` rewrite what every other holder of the same array reads.
  The grouped record of a view keeps, per column, ONE list with the group's values of that column
  (`NewGroupCell`); aggregate functions, list functions, `HAVING`, `ORDER BY` all read that list.

  The model: an abstract heap of lists by address; a list is `shared` when something other than the running
  function can reach it (a table cell, a variable, a cursor row, a syntax tree, the caller's caller); a function
  may write IN PLACE only into lists that are not shared — lists it made itself (`makeFresh`).
-/
namespace Csvq.ListOwn

/-! ## Generated facts -/

/-- one value-list parameter (or receiver) of a function of lib/query / lib/value -/
structure ListParamFact where
  file  : String
  line  : Nat
  fn    : String     -- "query.Distinguish", "query.Record.Merge"
  param : String
  cls   : String     -- reads | freshCopyFirst | writesInPlace
deriving DecidableEq, Repr

/-- one write through a value-list parameter -/
structure ListWriteSite where
  file  : String
  line  : Nat
  fn    : String
  param : String
  kind  : String     -- index | copy | appendInPlace | appendBeyond | sort | via:<callee> | extern:<function>
  text  : String
deriving DecidableEq, Repr

/-- one call of an in-place writer (or, in `listForeignWrites`, one write through a local that holds somebody else's
    list: `callee` is then the kind of write and `param` is empty) -/
structure ListCallFact where
  file   : String
  line   : Nat
  caller : String
  callee : String
  param  : String
  arg    : String
  origin : String    -- fresh | ownParam | cell | field | unknown
  detail : String
deriving DecidableEq, Repr

/-- what identifies a write site in the reviewed table (no line numbers: unrelated edits move lines) -/
def ListWriteSite.key (s : ListWriteSite) : String × String × String × String := (s.fn, s.param, s.kind, s.text)

def ListWriteSite.site (s : ListWriteSite) : String :=
  "listwrite:" ++ s.file ++ ":" ++ s.fn ++ ":" ++ s.param ++ ":" ++ s.kind

/-- the argument is a list the caller made itself, or the caller's own parameter (the caller is then listed as an
    in-place writer itself and ITS call sites carry the obligation) -/
def ListCallFact.owned (c : ListCallFact) : Bool := c.origin == "fresh" || c.origin == "ownParam"

def ListCallFact.key (c : ListCallFact) : String × String × String × String := (c.caller, c.callee, c.param, c.arg)

def ListCallFact.site (c : ListCallFact) : String :=
  "listcall:" ++ c.file ++ ":" ++ c.caller ++ ":" ++ c.callee ++ ":" ++ c.origin

/-! ## Heap of lists with ownership -/

abbrev Addr := Nat
abbrev Val := Int

structure Heap where
  lists  : Addr → List Val      -- contents of each list
  shared : Addr → Bool          -- reachable from a table cell / variable / cursor row / syntax tree / an outer caller
  next   : Addr                 -- allocation frontier: addresses ≥ next were never handed out

/-- what evaluation does with lists, as far as ownership is concerned -/
inductive Call
  | makeFresh (src : List Val)                          -- the running function builds a list (make / literal / append to its own)
  | writeInPlace (a : Addr) (f : List Val → List Val)   -- an in-place writer runs on list `a` (compaction, sort, copy, p[i] = …)
  | read (a : Addr)                                     -- any reader (aggregate functions, serialisation, comparison)
  | publish (a : Addr)                                  -- the list is stored into a cell / variable / result view: shared from now on

def step (h : Heap) : Call → Heap
  | .makeFresh src =>
    { lists := fun x => if x = h.next then src else h.lists x
      shared := fun x => if x = h.next then false else h.shared x
      next := h.next + 1 }
  | .writeInPlace a f => { h with lists := fun x => if x = a then f (h.lists a) else h.lists x }
  | .read _ => h
  | .publish a => { h with shared := fun x => if x = a then true else h.shared x }

def run (h : Heap) : List Call → Heap
  | [] => h
  | c :: rest => run (step h c) rest

/-- the discipline, per call, in the state in which it executes: an in-place writer only ever runs on a list that is
    not shared (one the caller made: `fresh` in the caller); only lists that exist are published -/
def Allowed (h : Heap) : Call → Prop
  | .writeInPlace a _ => h.shared a = false
  | .publish a => a < h.next
  | _ => True

def Disciplined : Heap → List Call → Prop
  | _, [] => True
  | h, c :: rest => Allowed h c ∧ Disciplined (step h c) rest

/-- every shared list lies below the allocation frontier (so a new list never lands on one) -/
def WF (h : Heap) : Prop := ∀ a, h.shared a = true → a < h.next

/-! ## Call sites as the generated facts describe them -/

/-- one call of an in-place writer: by its call-site fact the argument is `fresh` (the caller built the list `src`
    just before and nobody else holds it) or it is the existing list `target` -/
structure Site where
  fresh  : Bool
  src    : List Val
  target : Addr
  f      : List Val → List Val

def runSites : Heap → List Site → Heap
  | h, [] => h
  | h, s :: rest =>
    if s.fresh then runSites (step (step h (.makeFresh s.src)) (.writeInPlace h.next s.f)) rest
    else runSites (step h (.writeInPlace s.target s.f)) rest

/-! ## The two ways to write `Distinguish` (lib/query/utils.go) -/

/-- first occurrence of each value, in order of appearance: a NEW list (what `Distinguish` returns) -/
def distinct (l : List Val) : List Val := l.eraseDups

/-- the list the CALLER still holds after `d := list[:0]; for v in list { if new(v) { d = append(d, v) } }`: the
    distinct values packed at the head, the old elements behind them -/
def compactedInPlace (l : List Val) : List Val := distinct l ++ l.drop (distinct l).length

def sum (l : List Val) : Int := l.foldl (· + ·) 0

end Csvq.ListOwn
