/-
  Csvq.Model.Pipeline — a whole SELECT as the sequence of clause stages lib/query/query.go applies
  (Select / selectEntity: FROM → WHERE → GROUP BY → HAVING → select list → ORDER BY → OFFSET → LIMIT → Fix),
  each stage built on one of the parallel shapes of lib/query/view.go, with the way the rows are cut into
  worker chunks an explicit, arbitrary parameter of EVERY stage:
    * `eval`   — GoroutineTaskManager.Run: slot i of the output is f(row i)        (select list, sort keys, Fix)
    * `filter` — EvaluateSequentially + compaction: per-worker kept rows, concatenated in worker order (WHERE, HAVING)
    * `group`  — per-worker key maps merged in worker order, one output row per bucket                 (GROUP BY)
    * `seq`    — sequential code on the whole list (sort.Sort over precomputed keys, OFFSET, LIMIT, DISTINCT)
  The order of the stages and the primitive each View method uses are regenerated from the source
  (Gen/PipeFacts.lean) and compared with this reading in Props/C12Pipe.lean.
-/
import Csvq.Model.Group
namespace Csvq.Pipeline

/-- a way of cutting any list into contiguous worker chunks — whatever --cpu, RecordRange and the scheduler make
    of it; the only thing known about it is that the chunks, in worker order, are the list -/
structure Cut where
  cut : {α : Type} → List α → List (List α)
  flatten_cut : ∀ {α : Type} (l : List α), (cut l).flatten = l

/-- one worker -/
def Cut.one : Cut := ⟨fun l => [l], by intro α l; simp⟩

/-- two workers, the first takes `k` rows -/
def Cut.at (k : Nat) : Cut := ⟨fun l => [l.take k, l.drop k], by intro α l; simp⟩

/-- `n` rows per worker (the last worker takes the rest) -/
def chunksOf {α : Type} (n : Nat) : Nat → List α → List (List α)
  | 0, l => [l]
  | fuel + 1, l => if l.length ≤ n + 1 then [l] else l.take (n + 1) :: chunksOf n fuel (l.drop (n + 1))

theorem chunksOf_flatten {α : Type} (n fuel : Nat) (l : List α) : (chunksOf n fuel l).flatten = l := by
  induction fuel generalizing l with
  | zero => simp [chunksOf]
  | succ f ih =>
    unfold chunksOf
    split
    · simp
    · simp [ih]

def Cut.every (n : Nat) : Cut := ⟨fun l => chunksOf n l.length l, fun l => chunksOf_flatten n l.length l⟩

inductive Stage (R κ : Type)
  | eval (f : R → R)
  | filter (p : R → Bool)
  | group (key : R → κ) (agg : κ → List R → R)
  | seq (f : List R → List R)

variable {R κ : Type} [DecidableEq κ]

/-- rows with their key and their index -/
def keyed (key : R → κ) (rows : List R) : List (κ × Nat) :=
  rows.zipIdx.map fun ri => (key ri.1, ri.2)

def pickRows (rows : List R) (idxs : List Nat) : List R := idxs.filterMap fun i => rows[i]?

/-- a stage as the code runs it, over the given cut -/
def stageImpl (c : Cut) : Stage R κ → List R → List R
  | .eval f, rows => ((c.cut rows).map (List.map f)).flatten
  | .filter p, rows => ((c.cut rows).map (List.filter p)).flatten
  | .group key agg, rows => (groupImpl (c.cut (keyed key rows))).map fun b => agg b.1 (pickRows rows b.2)
  | .seq f, rows => f rows

/-- the stage as the property reads it: no workers anywhere -/
def stageSpec : Stage R κ → List R → List R
  | .eval f, rows => rows.map f
  | .filter p, rows => rows.filter p
  | .group key agg, rows => (groupSpec (keyed key rows)).map fun b => agg b.1 (pickRows rows b.2)
  | .seq f, rows => f rows

/-- the whole query; `cuts i` is how stage `i` happened to be cut on this run -/
def runImpl (cuts : Nat → Cut) : Nat → List (Stage R κ) → List R → List R
  | _, [], rows => rows
  | i, st :: rest, rows => runImpl cuts (i + 1) rest (stageImpl (cuts i) st rows)

def runSpec : List (Stage R κ) → List R → List R
  | [], rows => rows
  | st :: rest, rows => runSpec rest (stageSpec st rows)

/-! ### OFFSET / LIMIT: the concrete sequential stages of View.Offset / View.Limit -/

/-- OFFSET n: the rows after the first `n` -/
def offsetStage (n : Nat) : Stage R κ := .seq (List.drop n)

/-- LIMIT k / FETCH FIRST k ROWS ONLY -/
def limitStage (k : Nat) : Stage R κ := .seq (List.take k)

/-- LIMIT p PERCENT after an OFFSET of `off` rows: ⌈(rows left + off)·p/100⌉ rows (View.Limit counts the rows the
    OFFSET removed) -/
def limitPercentStage (p off : Nat) : Stage R κ := .seq fun l => l.take (((l.length + off) * p + 99) / 100)

/-- LIMIT k WITH TIES over the sort key `key`: the rows after the k-th that share its key stay -/
def takeTies (key : R → κ) (k : Nat) (l : List R) : List R :=
  match k with
  | 0 => []
  | k' + 1 =>
    match l[k']? with
    | none => l
    | some b => l.take (k' + 1) ++ (l.drop (k' + 1)).takeWhile fun r => decide (key r = key b)

def limitTiesStage (key : R → κ) (k : Nat) : Stage R κ := .seq (takeTies key k)

end Csvq.Pipeline
