/-
  Csvq.Model.Proto — line protocol shared by the Go harness and the Lean driver.
  One operation per line, tokens separated by single spaces; strings are hex encoded.
  (Part of the trusted correspondence machinery, not of the proofs.)
-/
import Csvq.Model.Float
import Csvq.Model.ParseFloat
import Csvq.Model.ParseTime
import Csvq.Model.Unicode
namespace Csvq.Proto
open Csvq

def hexVal (c : Char) : Option Nat :=
  if '0' ≤ c ∧ c ≤ '9' then some (c.toNat - '0'.toNat)
  else if 'a' ≤ c ∧ c ≤ 'f' then some (c.toNat - 'a'.toNat + 10)
  else none

def unhexAux : List Char → List Nat → Option Bytes
  | [], acc => some acc.reverse
  | [_], _ => none
  | a :: b :: rest, acc =>
    match hexVal a, hexVal b with
    | some x, some y => unhexAux rest ((x * 16 + y) :: acc)
    | _, _ => none

def unhex (s : String) : Option Bytes := unhexAux s.toList []

def hexDigit (n : Nat) : Char :=
  if n < 10 then Char.ofNat (n + '0'.toNat) else Char.ofNat (n - 10 + 'a'.toNat)

def hex (b : Bytes) : String :=
  String.ofList (b.flatMap fun x => [hexDigit (x / 16 % 16), hexDigit (x % 16)])

def parseF (s : String) : Option FVal :=
  if s = "nan" then some .nan
  else if s = "+inf" then some .pinf
  else if s = "-inf" then some .ninf
  else if s = "-0" then some .negz
  else s.toInt?.map .fin

def showF : FVal → String
  | .nan => "nan" | .pinf => "+inf" | .ninf => "-inf" | .negz => "-0" | .fin n => toString n

def parseT (s : String) : Option Tern :=
  if s = "F" then some .F else if s = "U" then some .U else if s = "T" then some .T else none

def parseVal (s : String) : Option Val :=
  if s = "N" then some .null
  else
    let rest := (s.drop 1).toString
    match s.front with
    | 'I' => rest.toInt?.map .int
    | 'F' => (parseF rest).map .flt
    | 'S' => (unhex rest).map .str
    | 'B' => if rest = "1" then some (.bool true) else if rest = "0" then some (.bool false) else none
    | 'T' => (parseT rest).map .tern
    | 'D' => rest.toInt?.map .dt
    | _ => none

def showVal : Val → String
  | .null => "N"
  | .int i => "I" ++ toString i
  | .flt f => "F" ++ showF f
  | .str s => "S" ++ hex s
  | .bool b => if b then "B1" else "B0"
  | .tern t => "T" ++ t.toStr
  | .dt ns => "D" ++ toString ns

def parseOpt {α} (f : String → Option α) (s : String) : Option (Option α) :=
  if s = "-" then some none else (f s).map some

def showOpt {α} (f : α → String) : Option α → String
  | none => "-" | some a => f a

def parseBool (s : String) : Option Bool :=
  if s = "1" then some true else if s = "0" then some false else none

def parseHexX (s : String) : Option Bytes :=
  if s.front = 'x' then unhex (s.drop 1).toString else none

/-- the numeric / boolean part of a text's profile, recomputed by the model -/
def textProfileOK (p : Profile) : Bool :=
  match p.raw with
  | .str b =>
    let t := PF.strTernaryB b
    p.int? == PF.strToIntStrictB b && p.flt? == PF.strToFloat b && p.tern == t
      && p.bool? == (match t with | .U => none | .T => some true | .F => some false)
      -- the text of the string rung and of the GROUP BY key: strings.ToUpper(option.TrimSpace(raw)), by the model's
      -- own case mapping (Model/Unicode.lean)
      && p.strU? == some (Uni.strToUpper (PF.trimSpace b))
      -- the datetime reading: the built-in notations all begin with a digit; a text that begins otherwise can
      -- only be a datetime through a custom format of the session (the C07 stream runs under one), which the
      -- model does not know
      && (match PT.strToTime b with
          | some d => p.dt? == some d
          | none => p.dt? == none || !(PT.isDig ((PF.trimSpace b).getD 0 0)))
  | _ => true

/-- profile token: raw;int;flt;dt;bool;strU;tern -/
def parseProfile (s : String) : Option Profile :=
  match s.splitOn ";" with
  | [r, i, f, d, b, u, t] => do
      let raw ← parseVal r
      let i ← parseOpt String.toInt? i
      let f ← parseOpt parseF f
      let d ← parseOpt String.toInt? d
      let b ← parseOpt parseBool b
      let u ← parseOpt parseHexX u
      let t ← parseT t
      let p : Profile := { raw := raw, int? := i, flt? := f, dt? := d, bool? := b, strU? := u, tern := t }
      -- what the real conversions made of a TEXT must be what the model's own conversions make of its bytes
      -- (Model/ParseFloat.lean); otherwise the token is rejected and the line shows up as a difference
      if textProfileOK p then pure p else none
  | [v] => (parseVal v).map profileOf     -- bare non-string value: the model derives the profile
  | _ => none

def showProfile (p : Profile) : String :=
  String.intercalate ";" [showVal p.raw, showOpt toString p.int?, showOpt showF p.flt?,
    showOpt toString p.dt?, showOpt (fun b => if b then "1" else "0") p.bool?,
    showOpt (fun b => "x" ++ hex b) p.strU?, p.tern.toStr]

def parseCOp (s : String) : Option COp :=
  match s with
  | "=" => some .eq | "==" => some .ident | ">" => some .gt | "<" => some .lt
  | ">=" => some .ge | "<=" => some .le | "<>" => some .ne | _ => none

def parseAOp (s : String) : Option AOp :=
  match s with
  | "+" => some .add | "-" => some .sub | "*" => some .mul | "/" => some .div | "%" => some .mod
  | _ => none

def parseProfiles (l : List String) : Option (List Profile) := l.mapM parseProfile

end Csvq.Proto
