/-
  Csvq.Model.Escape — lib/option/utils.go: EscapeString, UnescapeString, EscapeIdentifier,
  UnescapeIdentifier, QuoteString, QuoteIdentifier (core Lean only).

  Go iterates over `[]rune(s)`; the model works on `List Char` (Unicode scalar values — exactly
  what `[]rune` of any Go string contains, invalid bytes having become U+FFFD).
  The functions are written in the shape of the Go loops: a `switch` per rune for the escapers,
  and the two-flag state machine (`escaped`, `quoteRune`) for the unescapers.
-/
namespace Csvq.Esc

/-! ## EscapeString / EscapeIdentifier -/

/-- body of the `switch r` in `EscapeString` (`q = '\''`) and `EscapeIdentifier` (`q = '`'`);
    the two Go functions differ only in which quote rune they escape. -/
def escRune (q : Char) (r : Char) : List Char :=
  if r = '\x07' then ['\\', 'a']
  else if r = '\x08' then ['\\', 'b']
  else if r = '\x0c' then ['\\', 'f']
  else if r = '\n' then ['\\', 'n']
  else if r = '\r' then ['\\', 'r']
  else if r = '\t' then ['\\', 't']
  else if r = '\x0b' then ['\\', 'v']
  else if r = q then ['\\', q]
  else if r = '\\' then ['\\', '\\']
  else [r]

/-- `for _, r := range runes { switch r {…} }` -/
def escapeWith (q : Char) : List Char → List Char
  | [] => []
  | r :: rs => escRune q r ++ escapeWith q rs

/-- option.EscapeString -/
def escapeString (s : List Char) : List Char := escapeWith '\'' s
/-- option.EscapeIdentifier -/
def escapeIdentifier (s : List Char) : List Char := escapeWith '`' s

/-- option.QuoteString: `"'" + EscapeString(s) + "'"` -/
def quoteString (s : List Char) : List Char := '\'' :: (escapeString s ++ ['\''])
/-- option.QuoteIdentifier -/
def quoteIdentifier (s : List Char) : List Char := '`' :: (escapeIdentifier s ++ ['`'])

/-! ## UnescapeString / UnescapeIdentifier -/

/-- what the `if escaped { switch r {…} }` block writes for rune `r`; `q2` is `'\''` in
    `UnescapeString` and `'`'` in `UnescapeIdentifier` (both also accept `'"'` and `'\\'`). -/
def unescRune (q2 : Char) (r : Char) : List Char :=
  if r = 'a' then ['\x07']
  else if r = 'b' then ['\x08']
  else if r = 'f' then ['\x0c']
  else if r = 'n' then ['\n']
  else if r = 'r' then ['\r']
  else if r = 't' then ['\t']
  else if r = 'v' then ['\x0b']
  else if r = '"' ∨ r = q2 ∨ r = '\\' then [r]
  else ['\\', r]

/-- the loop of `UnescapeString(s, quote)` / `UnescapeIdentifier(s, quote)`.
    `escaped` and `quoteRune` are the two Go variables (`quoteRune = 0` means "none": the test is
    `0 < quoteRune`); the result is what is written to `buf`, including the trailing
    `if escaped { buf.WriteRune('\\') }`.  A pending `quoteRune` at the end of the input is
    dropped, as in the Go code. -/
def unescLoop (q2 : Char) (quote : Char) : Bool → Char → List Char → List Char
  | escaped, _, [] => if escaped then ['\\'] else []
  | escaped, quoteRune, r :: rs =>
    if quoteRune ≠ '\x00' ∧ r = quoteRune then
      -- buf.WriteRune(quoteRune); quoteRune = 0; continue
      quoteRune :: unescLoop q2 quote escaped '\x00' rs
    else
      (if quoteRune ≠ '\x00' then [quoteRune] else []) ++
      (if escaped then unescRune q2 r ++ unescLoop q2 quote false '\x00' rs
       else if r = '\\' then unescLoop q2 quote true '\x00' rs
       else if r = quote then unescLoop q2 quote false r rs
       else r :: unescLoop q2 quote false '\x00' rs)

/-- option.UnescapeString(s, quote) -/
def unescapeString (s : List Char) (quote : Char) : List Char := unescLoop '\'' quote false '\x00' s
/-- option.UnescapeIdentifier(s, quote) -/
def unescapeIdentifier (s : List Char) (quote : Char) : List Char := unescLoop '`' quote false '\x00' s

/-- the runes `escRune q` replaces by a two-rune escape -/
def isEscaped (q : Char) (r : Char) : Bool :=
  r = '\x07' || r = '\x08' || r = '\x0c' || r = '\n' || r = '\r' || r = '\t' || r = '\x0b' || r = q || r = '\\'

end Csvq.Esc
