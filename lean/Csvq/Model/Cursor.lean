/-
  Csvq.Model.Cursor — executable model of csvq's cursors (core Lean only).

  Shape of the Go code:
  * lib/query/cursor.go      `Cursor{view, index, fetched}`: Open / Close / Fetch / IsOpen / IsInRange / Count,
                             `CursorMap` (names are compared after strings.ToUpper): Declare / Dispose / …
  * lib/query/query.go       `FetchCursor` (position token + number; NULL number → InvalidFetchPosition)
  * lib/query/processor.go   `WhileInCursor` (FETCH NEXT until nothing is returned, or BREAK)
  * lib/query/reference_scope.go  DeclareCursor … CursorCount (undeclared → UndeclaredCursorError)

  Go `int` is 64 bit on the platforms csvq is built for: every `+` / `-` of the Go code is `wrap64 (… ± …)`
  here, so overflow behaves as in the code (FETCH RELATIVE guards its addition and saturates).  The row type `α` is a parameter: the cursor never looks
  into a row.  The result of evaluating the cursor's query at OPEN time is an argument of the `open`
  operation (the view is a value of the model; DML statements are the operation `dml`, which does not
  mention any cursor).
-/
import Csvq.Model.Basic
namespace Csvq.Cursor
open Csvq

/-- error kinds (lib/query/error_code.go) -/
inductive Err
  | redeclared        -- ErrorCursorRedeclared      11001
  | undeclared        -- ErrorUndeclaredCursor      11002
  | closed            -- ErrorCursorClosed          11003
  | alreadyOpen       -- ErrorCursorOpen            11004
  | pseudo            -- ErrorPseudoCursor          11006
  | fetchLength       -- ErrorCursorFetchLength     11007
  | invalidPosition   -- ErrorInvalidFetchPosition  11008
  deriving DecidableEq, Repr, Inhabited

def Err.code : Err → Nat
  | .redeclared => 11001
  | .undeclared => 11002
  | .closed => 11003
  | .alreadyOpen => 11004
  | .pseudo => 11006
  | .fetchLength => 11007
  | .invalidPosition => 11008

/-- FETCH position: the token and the evaluated number (`int(i.Raw())`, an int64) -/
inductive Pos
  | next
  | prior
  | first
  | last
  | absolute (n : Int)
  | relative (n : Int)
  deriving DecidableEq, Repr, Inhabited

/-- `Cursor.view == nil` is `closed`; otherwise the materialised rows, the pointer and `fetched`. -/
inductive CState (α : Type)
  | closed
  | opened (rows : List α) (index : Int) (fetched : Bool)
  deriving Repr

instance {α} : Inhabited (CState α) := ⟨.closed⟩

/-- `c.view.RecordLen()` -/
def recordLen {α} (rows : List α) : Int := (rows.length : Int)

/-- the `switch position` of `Cursor.Fetch` -/
def moveIndex (p : Pos) (index len : Int) : Int :=
  match p with
  | .absolute n => n
  | .relative n =>
    -- saturating since /repo 63b833c (was: wrap64 (index + n))
    if 0 < n ∧ wrap64 (9223372036854775807 - n) < index then 9223372036854775807
    else if n < 0 ∧ index < wrap64 (-9223372036854775808 - n) then -9223372036854775808
    else wrap64 (index + n)
  | .first => 0
  | .last => wrap64 (len - 1)
  | .prior => wrap64 (index - 1)
  | .next => wrap64 (index + 1)

/-- `Cursor.Open` after the query has been evaluated to `rows` -/
def CState.open {α} (c : CState α) (rows : List α) : Except Err (CState α) :=
  match c with
  | .opened _ _ _ => .error .alreadyOpen
  | .closed => .ok (.opened rows (-1) false)

/-- `Cursor.Close` (closing a closed cursor is not an error) -/
def CState.close {α} (_ : CState α) : CState α := .closed

/-- `Cursor.Fetch`: new state and the row returned (`none`: nothing returned, variables untouched) -/
def CState.fetch {α} (c : CState α) (p : Pos) : Except Err (CState α × Option α) :=
  match c with
  | .closed => .error .closed
  | .opened rows index _ =>
    let i := moveIndex p index (recordLen rows)
    if i < 0 then .ok (.opened rows (-1) true, none)
    else if recordLen rows ≤ i then .ok (.opened rows (recordLen rows) true, none)
    else .ok (.opened rows i true, rows[i.toNat]?)

def CState.isOpen {α} (c : CState α) : Bool :=
  match c with
  | .closed => false
  | .opened _ _ _ => true

/-- `Cursor.IsInRange` (UNKNOWN before the first fetch) -/
def CState.isInRange {α} (c : CState α) : Except Err Tern :=
  match c with
  | .closed => .error .closed
  | .opened rows index fetched =>
    match fetched with
    | false => .ok .U
    | true => .ok (Tern.ofBool (decide (-1 < index ∧ index < recordLen rows)))

/-- eval.go `evalCursorStatus`: `CURSOR c IS [NOT] OPEN / IN RANGE` — the error of the status passes through,
    NOT is the three-valued negation (NOT UNKNOWN = UNKNOWN) -/
def cursorStatus (negation : Bool) (r : Except Err Tern) : Except Err Tern :=
  match r with
  | .error e => .error e
  | .ok t =>
    match negation with
    | true => .ok t.not
    | false => .ok t

def CState.count {α} (c : CState α) : Except Err Int :=
  match c with
  | .closed => .error .closed
  | .opened rows _ _ => .ok (recordLen rows)

/-- `WhileInCursor`: FETCH NEXT until nothing is returned.  `brk = some k` (k ≥ 1): the body
    executes BREAK in its k-th iteration.  `fuel` bounds the number of iterations of the Go `for`;
    `C16.while_in_terminates` shows that `len + 2` iterations are never exhausted.
    Returns the rows the body has seen, in order. -/
def whileIn {α} : Nat → Option Nat → CState α → List α → Except Err (CState α × List α)
  | 0, _, c, acc => .ok (c, acc.reverse)
  | fuel + 1, brk, c, acc =>
    match c.fetch .next with
    | .error e => .error e
    | .ok (c', none) => .ok (c', acc.reverse)
    | .ok (c', some r) =>
      match brk with
      | some 1 => .ok (c', (r :: acc).reverse)
      | some (k + 1) => whileIn fuel (some k) c' (r :: acc)
      | _ => whileIn fuel none c' (r :: acc)

/-- iterations that always suffice for WHILE IN on `c` -/
def whileFuel {α} (c : CState α) : Nat :=
  match c with
  | .closed => 1
  | .opened rows _ _ => rows.length + 2

/-! ## the cursor map of a scope (CursorMap; keys are upper-cased names) -/

abbrev Scope (α : Type) := List (String × CState α)

def lookup {α} (s : Scope α) (k : String) : Option (CState α) :=
  match s with
  | [] => none
  | (k', c) :: t => if k' = k then some c else lookup t k

def update {α} (s : Scope α) (k : String) (c : CState α) : Scope α :=
  match s with
  | [] => []
  | (k', c') :: t => if k' = k then (k', c) :: t else (k', c') :: update t k c

def erase {α} (s : Scope α) (k : String) : Scope α :=
  match s with
  | [] => []
  | (k', c') :: t => if k' = k then t else (k', c') :: erase t k

/-- CursorMap key: `strings.ToUpper(name)` (cursor names are ASCII identifiers in the harness; written with
    `toList`/`ofList` so that the kernel can evaluate it in the examples) -/
def key (name : String) : String := String.ofList (name.toList.map Char.toUpper)

inductive Op (α : Type)
  | declare (name : String)
  | dispose (name : String)
  | open (name : String) (rows : List α)      -- `rows`: the result of the cursor's query evaluated now
  | close (name : String)
  | fetch (name : String) (p : Pos)
  | fetchBad (name : String)                  -- FETCH ABSOLUTE/RELATIVE with a number that is not an integer
  | isOpen (name : String)
  | isInRange (name : String)
  | count (name : String)
  | whileIn (name : String) (brk : Option Nat)
  | dml                                        -- any data-changing statement on the underlying tables
  deriving Repr

inductive Res (α : Type)
  | ok
  | err (e : Err)
  | row (r : α)
  | none
  | tern (t : Tern)
  | int (n : Int)
  | rows (l : List α)
  deriving Repr

def step {α} (s : Scope α) (op : Op α) : Scope α × Res α :=
  match op with
  | .declare n =>
    match lookup s (key n) with
    | some _ => (s, .err .redeclared)
    | none => ((key n, .closed) :: s, .ok)
  | .dispose n =>
    match lookup s (key n) with
    | some _ => (erase s (key n), .ok)
    | none => (s, .err .undeclared)
  | .open n rows =>
    match lookup s (key n) with
    | none => (s, .err .undeclared)
    | some c =>
      match c.open rows with
      | .error e => (s, .err e)
      | .ok c' => (update s (key n) c', .ok)
  | .close n =>
    match lookup s (key n) with
    | none => (s, .err .undeclared)
    | some c => (update s (key n) c.close, .ok)
  | .fetch n p =>
    match lookup s (key n) with
    | none => (s, .err .undeclared)
    | some c =>
      match c.fetch p with
      | .error e => (s, .err e)
      | .ok (c', some r) => (update s (key n) c', .row r)
      | .ok (c', none) => (update s (key n) c', .none)
  | .fetchBad _ => (s, .err .invalidPosition)
  | .isOpen n =>
    match lookup s (key n) with
    | none => (s, .err .undeclared)
    | some c => (s, .tern (Tern.ofBool c.isOpen))
  | .isInRange n =>
    match lookup s (key n) with
    | none => (s, .err .undeclared)
    | some c =>
      match c.isInRange with
      | .error e => (s, .err e)
      | .ok t => (s, .tern t)
  | .count n =>
    match lookup s (key n) with
    | none => (s, .err .undeclared)
    | some c =>
      match c.count with
      | .error e => (s, .err e)
      | .ok k => (s, .int k)
  | .whileIn n brk =>
    match lookup s (key n) with
    | none => (s, .err .undeclared)
    | some c =>
      match whileIn (whileFuel c) brk c [] with
      | .error e => (s, .err e)
      | .ok (c', seen) => (update s (key n) c', .rows seen)
  | .dml => (s, .ok)

/-- OPEN of a cursor whose query cannot be evaluated any more (its prepared statement / temporary view was
    disposed): the guards of `Cursor.Open` come first — "undeclared" and "already open" are reported as
    usual (and nothing is evaluated); only a closed cursor gets as far as the evaluation, whose own error is
    then reported (`none`).  Nothing changes in any case. -/
def stepOpenFailing {α} (s : Scope α) (n : String) : Option Err :=
  match (step s (.open n [])).2 with
  | .err e => some e
  | _ => none

/-! ## FETCH … INTO v₁, …, vₖ and WHILE v₁, …, vₖ IN: the number of variables

  query.go `FetchCursor`: the cursor is moved FIRST (`scope.FetchCursor`), then — only when a row came
  back — `len(vars) != len(primaries)` is the CursorFetchLength error.  So a FETCH with the wrong number of
  variables still moves the pointer, and is no error at all when it addresses no row.  `w r`: the number
  of columns of row `r`. -/

def stepFetchInto {α} (w : α → Nat) (s : Scope α) (n : String) (p : Pos) (nvars : Nat) : Scope α × Res α :=
  match step s (.fetch n p) with
  | (s', .row r) => if w r = nvars then (s', .row r) else (s', .err .fetchLength)
  | x => x

/-- WHILE v₁, …, vₖ IN: rows handed to the body, and the error that ended the loop (the state keeps the
    pointer where the failing FETCH left it) -/
def whileInto {α} (w : α → Nat) (nvars : Nat) : Nat → CState α → List α → CState α × List α × Option Err
  | 0, c, acc => (c, acc.reverse, none)
  | fuel + 1, c, acc =>
    match c.fetch .next with
    | .error e => (c, acc.reverse, some e)
    | .ok (c', none) => (c', acc.reverse, none)
    | .ok (c', some r) =>
      if w r = nvars then whileInto w nvars fuel c' (r :: acc) else (c', acc.reverse, some .fetchLength)

def stepWhileInto {α} (w : α → Nat) (s : Scope α) (n : String) (nvars : Nat) : Scope α × Res α :=
  match lookup s (key n) with
  | none => (s, .err .undeclared)
  | some c =>
    match whileInto w nvars (whileFuel c) c [] with
    | (c', _, some e) => (update s (key n) c', .err e)
    | (c', seen, none) => (update s (key n) c', .rows seen)

/-- run a history; results in order -/
def run {α} (s : Scope α) (ops : List (Op α)) : Scope α × List (Res α) :=
  match ops with
  | [] => (s, [])
  | op :: rest =>
    let r := step s op
    let rr := run r.1 rest
    (rr.1, r.2 :: rr.2)

/-! ## blocks and WHILE IN with a body

  reference_scope.go: `Blocks[0]` is the innermost block; DECLARE adds to `Blocks[0]`; every other cursor
  statement walks the blocks innermost-first and acts on the FIRST block that knows the name
  (`errUndeclaredCursor` means "try the next block").  IF / WHILE bodies and function calls run in a child
  scope with a fresh `Blocks[0]` (csvq is dynamically scoped: a function body sees the caller's blocks).

  processor.go `WhileInCursor`: every iteration clears the loop's own block, then fetches NEXT **by name**
  through the scope chain (`FetchCursor(ctx, childProc.ReferenceScope, stmt.Cursor, …)`), so whatever the
  body did to the cursor — CLOSE, DISPOSE, a shadowing DECLARE in an inner block, DISPOSE of the shadowing
  one, re-OPEN, FETCH — decides what the next iteration does: error, end, or going on over the cursor the
  name denotes NOW.  An error in the body ends the whole program. -/

abbrev Stack (α : Type) := List (Scope α)

/-- the name a statement resolves through the scope chain (DECLARE always addresses `Blocks[0]`) -/
def Op.chainKey {α} : Op α → Option String
  | .dispose n | .open n _ | .close n | .fetch n _ | .isOpen n | .isInRange n | .count n | .whileIn n _ => some (key n)
  | .declare _ | .fetchBad _ | .dml => none

/-- innermost binding of a key -/
def lookupS {α} (st : Stack α) (k : String) : Option (CState α) :=
  match st with
  | [] => none
  | b :: rest =>
    match lookup b k with
    | some c => some c
    | none => lookupS rest k

/-- one statement on a block stack: it is `step` on the first block that knows the name -/
def stepS {α} (st : Stack α) (op : Op α) : Stack α × Res α :=
  match st with
  | [] => ([], (step [] op).2)
  | b :: rest =>
    match op.chainKey with
    | none => ((step b op).1 :: rest, (step b op).2)
    | some k =>
      match lookup b k with
      | some _ => ((step b op).1 :: rest, (step b op).2)
      | none => (b :: (stepS rest op).1, (stepS rest op).2)

/-- statements of a loop body: a cursor statement, or a child block (`IF @n = k THEN … END IF` when
    `guard = some k`, executed in iteration k only; `IF TRUE THEN … END IF` or a function call when
    `guard = none`) -/
inductive Item (α : Type)
  | act (o : Op α)
  | sub (guard : Option Nat) (ops : List (Op α))
  deriving Repr

/-- run statements up to and including the first error; `true`: an error ended the program -/
def runOps {α} (st : Stack α) (ops : List (Op α)) : Stack α × List (Res α) × Bool :=
  match ops with
  | [] => (st, [], false)
  | op :: rest =>
    match stepS st op with
    | (st', .err e) => (st', [.err e], true)
    | (st', r) =>
      let rr := runOps st' rest
      (rr.1, r :: rr.2.1, rr.2.2)

def runItem {α} (n : Nat) (st : Stack α) (it : Item α) : Stack α × List (Res α) × Bool :=
  match it with
  | .act o => runOps st [o]
  | .sub g ops =>
    match g with
    | none => let r := runOps ([] :: st) ops; (r.1.tail, r.2.1, r.2.2)
    | some k => if k = n then (let r := runOps ([] :: st) ops; (r.1.tail, r.2.1, r.2.2)) else (st, [], false)

def runBody {α} (n : Nat) (st : Stack α) (items : List (Item α)) : Stack α × List (Res α) × Bool :=
  match items with
  | [] => (st, [], false)
  | it :: rest =>
    match runItem n st it with
    | (st', rs, true) => (st', rs, true)
    | (st', rs, false) =>
      let rr := runBody n st' rest
      (rr.1, rs ++ rr.2.1, rr.2.2)

/-- WHILE … IN name DO body END WHILE, iteration counter `n` (1-based).  Result: the stack, the trace
    (row handed to the body, results of the body's statements, …, final `none` or error) and whether the
    loop ended by itself (`false`: `fuel` iterations were not enough). -/
def loopS {α} : Nat → Nat → String → List (Item α) → Stack α → Stack α × List (Res α) × Bool
  | 0, _, _, _, st => (st, [], false)
  | fuel + 1, n, name, body, st =>
    match stepS ([] :: st) (.fetch name .next) with
    | (st1, .row r) =>
      match runBody n st1 body with
      | (st2, rs, true) => (st2.tail, .row r :: rs, true)
      | (st2, rs, false) =>
        let rr := loopS fuel (n + 1) name body st2.tail
        (rr.1, .row r :: rs ++ rr.2.1, rr.2.2)
    | (st1, r) => (st1.tail, [r], true)

def endsWithErr {α} : List (Res α) → Bool
  | [] => false
  | [.err _] => true
  | [_] => false
  | _ :: rest => endsWithErr rest

/-- `IF TRUE THEN pre…; WHILE … IN name DO body END WHILE; post… END IF` (or the same in a function):
    the loop runs over whatever the name denotes inside that block — e.g. a cursor declared in `pre`
    that shadows an outer one; when the body disposes it, the loop goes on over the outer cursor. -/
def nestS {α} (fuel : Nat) (pre : List (Op α)) (name : String) (body : List (Item α)) (post : List (Op α))
    (st : Stack α) : Stack α × List (Res α) × Bool :=
  match runOps ([] :: st) pre with
  | (st1, rs1, true) => (st1.tail, rs1, true)
  | (st1, rs1, false) =>
    match loopS fuel 1 name body st1 with
    | (st2, rs2, ended) =>
      if !ended || endsWithErr rs2 then (st2.tail, rs1 ++ rs2, ended)
      else
        let r3 := runOps st2 post
        (r3.1.tail, rs1 ++ rs2 ++ r3.2.1, true)

/-! ## pseudo cursors: the first parameter of a user-defined aggregate function

  function.go: the aggregate's body runs in a child scope whose `Blocks[0]` holds a PSEUDO cursor over the
  list of values (NewPseudoCursor: view = the values, index −1, not fetched, isPseudo).  It can be fetched
  from, looped over and asked for its status like an open cursor, but OPEN / CLOSE / DISPOSE of it are the
  "pseudo cursor" error (Cursor.Open / Close and CursorMap.Dispose test isPseudo first), and a DECLARE of
  its name in the body is "redeclared".  The caller's cursors are visible (dynamic scoping). -/

def aggStep {α} (pk : String) (st : Stack α) (op : Op α) : Stack α × Res α :=
  match op with
  | .open n _ => if key n = pk then (st, .err .pseudo) else stepS st op
  | .close n => if key n = pk then (st, .err .pseudo) else stepS st op
  | .dispose n => if key n = pk then (st, .err .pseudo) else stepS st op
  | _ => stepS st op

def aggOps {α} (pk : String) (st : Stack α) (ops : List (Op α)) : Stack α × List (Res α) × Bool :=
  match ops with
  | [] => (st, [], false)
  | op :: rest =>
    match aggStep pk st op with
    | (st', .err e) => (st', [.err e], true)
    | (st', r) =>
      let rr := aggOps pk st' rest
      (rr.1, r :: rr.2.1, rr.2.2)

/-- one call of the aggregate over `values`, its cursor parameter named `pname`; `s`: the caller's cursors -/
def aggRun {α} (pname : String) (values : List α) (ops : List (Op α)) (s : Scope α) : Scope α × List (Res α) × Bool :=
  let r := aggOps (key pname) [[(key pname, .opened values (-1) false)], s] ops
  (r.1.getLastD s, r.2.1, r.2.2)

/-! ## the DECLARE position: blocks nested two deep

  Every construct that opens a block — the branches of IF / ELSEIF / ELSE and of CASE … WHEN / ELSE
  (`executeChild`), the bodies of WHILE and WHILE … IN (a child processor whose block is cleared per iteration
  and closed at the end), a function body (`scope.CreateChild`) — is a `runOps ([] :: st) …` followed by
  dropping the block: which construct it was makes no difference to the cursors.  `runNested` is an outer
  block with statements before and after an inner block. -/

def runNested {α} (st : Stack α) (pre inner post : List (Op α)) : Stack α × List (Res α) × Bool :=
  match runOps ([] :: st) pre with
  | (st1, rs1, true) => (st1.tail, rs1, true)
  | (st1, rs1, false) =>
    match runOps ([] :: st1) inner with
    | (st2, rs2, true) => (st2.tail.tail, rs1 ++ rs2, true)
    | (st2, rs2, false) =>
      let r3 := runOps st2.tail post
      (r3.1.tail, rs1 ++ rs2 ++ r3.2.1, r3.2.2)

/-! ## re-entrant histories: the cursor's query calls a user-defined function that works on cursors

  cursor.go `Cursor.Open`: refuse a pseudo cursor, refuse an open cursor (`c.view != nil`), THEN evaluate the
  query, and only after a successful evaluation assign `c.view / c.index / c.fetched`.  So for everything the
  evaluation itself executes — a user-defined function called by the query, `reps` times (once from a LIMIT
  clause, once per row from a WHERE clause), whose body runs in a child block of its own — the cursor that is
  being opened IS STILL CLOSED: FETCH / IS IN RANGE / COUNT of it are the "closed" error (which ends the
  evaluation: the OPEN fails with that error and the cursor stays closed), IS OPEN is FALSE, CLOSE is the
  no-op it always is on a closed cursor, DISPOSE removes the name (the OPEN then completes on an object no
  name denotes any more).  Statements on OTHER cursors act as they would in front of the OPEN.

  `Cursor.Open` holds the cursor's (non-re-entrant) mutex during the evaluation; a method reached from the
  evaluation must therefore not wait for that mutex — Props/C16.lean states this over the
  regenerated access traces (`Gen.CursorLocks.trace`). -/

/-- index of the first block that knows the key -/
def depthOf {α} (st : Stack α) (k : String) : Option Nat :=
  match st with
  | [] => none
  | b :: rest =>
    match lookup b k with
    | some _ => some 0
    | none => (depthOf rest k).map (· + 1)

/-- `update` in the d-th block (nothing happens when that block no longer knows the key) -/
def updateAt {α} (st : Stack α) (d : Nat) (k : String) (c : CState α) : Stack α :=
  match st, d with
  | [], _ => []
  | b :: rest, 0 => update b k c :: rest
  | b :: rest, d + 1 => b :: updateAt rest d k c

/-- the function's body, once per call, each call in a fresh child block; stops at the first error -/
def runReps {α} (st : Stack α) (body : List (Op α)) : Nat → Stack α × List (Res α) × Bool
  | 0 => (st, [], false)
  | r + 1 =>
    match runOps ([] :: st) body with
    | (st1, rs, true) => (st1.tail, rs, true)
    | (st1, rs, false) =>
      let rr := runReps st1.tail body r
      (rr.1, rs ++ rr.2.1, rr.2.2)

/-- `OPEN n` where evaluating the cursor's query (result: `rows`) calls, `reps` times, a function with the
    given body.  Trace: the results of the body's statements, then `ok` — or the error that ended it all. -/
def openRe {α} (st : Stack α) (n : String) (rows : List α) (reps : Nat) (body : List (Op α)) :
    Stack α × List (Res α) × Bool :=
  match depthOf st (key n), lookupS st (key n) with
  | some d, some .closed =>
    match runReps st body reps with
    | (st1, rs, true) => (st1, rs, true)
    | (st1, rs, false) => (updateAt st1 d (key n) (.opened rows (-1) false), rs ++ [.ok], false)
  | _, some (.opened _ _ _) => (st, [.err .alreadyOpen], true)
  | _, _ => (st, [.err .undeclared], true)

/-! ## concurrent fetchers

  A user-defined function that FETCHes from a cursor of an outer scope is evaluated by several goroutines at
  once when the calling query has 160 rows or more (--cpu > 1).  `Cursor.Fetch` moves the pointer AND reads
  the row inside one critical section, so every FETCH is one atomic `fetch` step of the model; a run of k
  clients is a schedule: the list of the clients in the order in which their FETCH NEXT took the mutex. -/

/-- the atomic FETCH NEXT steps of a schedule: every event is (client, what its FETCH returned) -/
def runSched {α κ} (c : CState α) (sched : List κ) : CState α × List (κ × Option α) :=
  match sched with
  | [] => (c, [])
  | k :: rest =>
    match c.fetch .next with
    | .error _ => (c, [])
    | .ok (c', r) =>
      let rr := runSched c' rest
      (rr.1, (k, r) :: rr.2)

/-- the rows handed out, in the order of the schedule -/
def handedOut {α κ} (ev : List (κ × Option α)) : List α := ev.filterMap (·.2)

/-- the rows one client received -/
def receivedBy {α κ} [DecidableEq κ] (k : κ) (ev : List (κ × Option α)) : List α :=
  handedOut (ev.filter (fun e => e.1 = k))

end Csvq.Cursor
