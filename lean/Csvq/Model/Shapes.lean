/-
  Csvq.Model.Shapes — what "schedule-independent by construction" means for a fan-out of lib/query.

  A fan-out hands every worker `k` a list of record indices (`chunks[k]`, in the order the worker goes through
  them).  A run is an INTERLEAVING of the workers: at every step the scheduler picks some worker that still has
  work and lets it handle its next index — the trace `[(worker, index), …]` in time order.  Nothing else is
  assumed about the scheduler.

  What a worker does to a variable it shares with the others is one of a few kinds of write (the classes
  extract/shapefacts finds in the source); each kind is given its meaning as a function of the trace:

    * `slotStore`  x[i] = f i         — the event (k, i) stores into slot i
    * `pieces`     p[k] = g (own indices, in own order); afterwards the pieces are read in worker order
    * `accum`      under a mutex: s = op i s   (counter, set insert, flag, write under `i == c`)
    * `errorOf`    under a mutex: first error wins; only "was there an error" reaches a result
    * `appended`   under a mutex: list = append(list, f i)  — the list is the trace itself: NOT independent
    * `ownEvents`  a goroutine with a role of its own (producer / consumer): sees its own events only

  Core Lean only.  The theorems are in Props/C12Shapes.lean, the lemmas in Lemmas/Shapes.lean.
-/
namespace Csvq.Shapes

/-- the traces a scheduler can produce from the workers' index lists: repeatedly pick a worker whose list is not
    exhausted and take its next index -/
inductive Interleave {α : Type} : List (List α) → List (Nat × α) → Prop
  | done {cs : List (List α)} : (∀ c ∈ cs, c = []) → Interleave cs []
  | step {cs : List (List α)} {k : Nat} {x : α} {rest : List α} {tr : List (Nat × α)} :
      cs[k]? = some (x :: rest) → Interleave (cs.set k rest) tr → Interleave cs ((k, x) :: tr)

/-- the indices in the order they were handled -/
def order {α : Type} (tr : List (Nat × α)) : List α := tr.map (·.2)

/-- what worker `k` handled, in the order it did -/
def ownEvents {α : Type} (tr : List (Nat × α)) (k : Nat) : List α := (tr.filter (·.1 == k)).map (·.2)

/-- slot-wise writes: after the trace, slot `j` holds `f j` if some worker handled `j` -/
def slotStore {β : Type} (f : Nat → β) (tr : List (Nat × Nat)) : Nat → Option β :=
  tr.foldl (fun st e => fun j => if j = e.2 then some (f e.2) else st j) (fun _ => none)

/-- per-worker pieces, read in worker order after the join -/
def pieces {γ : Type} (g : List Nat → γ) (n : Nat) (tr : List (Nat × Nat)) : List γ :=
  (List.range n).map fun k => g (ownEvents tr k)

/-- a shared accumulator updated under a mutex -/
def accum {σ : Type} (op : Nat → σ → σ) (init : σ) (tr : List (Nat × Nat)) : σ :=
  tr.foldl (fun s e => op e.2 s) init

/-- `SetError`: the first error stays -/
def firstErr {ε : Type} (err : Nat → Option ε) (i : Nat) (s : Option ε) : Option ε :=
  match s with
  | some e => some e
  | none => err i

def errorOf {ε : Type} (err : Nat → Option ε) (tr : List (Nat × Nat)) : Option ε := accum (firstErr err) none tr

/-- a list appended to under a mutex -/
def appended {β : Type} (f : Nat → β) (tr : List (Nat × Nat)) : List β := tr.map fun e => f e.2

/-- a write under `if index == c` -/
def writeAt {σ : Type} (c : Nat) (v : σ) (i : Nat) (s : σ) : σ := if i = c then v else s

/-- a set of flags (`m[h i] = true` under a mutex) -/
def flagSet (h : Nat → Option Nat) (i : Nat) (s : Nat → Bool) : Nat → Bool :=
  fun j => s j || (h i == some j)

/-! ### an iteration counter with a limit (`--limit-recursion`) -/

/-- what one evaluation of a recursive query does to its iteration counter -/
inductive CStep
  | reset | inc
  deriving DecidableEq, Repr

/-- a recursive query of depth `d`: the counter starts at 0 and is counted up once per iteration -/
def recursion (d : Nat) : List CStep := .reset :: List.replicate d .inc

/-- one counter: (current value, largest value it ever had) -/
def counterStep (s : Nat × Nat) (c : CStep) : Nat × Nat :=
  match c with
  | .reset => (0, s.2)
  | .inc => (s.1 + 1, max s.2 (s.1 + 1))

/-- the class `counter` / `reset` on a SESSION-WIDE field (C12-m23: `tx.recursionCount`): every worker's steps go to the
    one counter, in the order the scheduler lets them happen -/
def sharedCounter (tr : List (Nat × CStep)) : Nat × Nat := tr.foldl (fun s e => counterStep s e.2) (0, 0)

/-- the query fails with "exceeded the limit" iff the counter ever was above the limit -/
def sharedExceeds (L : Nat) (tr : List (Nat × CStep)) : Bool := decide (L < (sharedCounter tr).2)

/-- the class `perEvaluationOnly` (`scope.RecursiveCount = new(int64)`): every evaluation counts in an object of its own -/
def ownCounters (tr : List (Nat × CStep)) : Nat → Nat × Nat :=
  tr.foldl (fun st e => fun k => if k = e.1 then counterStep (st k) e.2 else st k) (fun _ => (0, 0))

def ownExceeds (L : Nat) (tr : List (Nat × CStep)) (k : Nat) : Bool := decide (L < (ownCounters tr k).2)

/-- the same steps without any other worker -/
def seqCounter (l : List CStep) : Nat × Nat := l.foldl counterStep (0, 0)

/-! ### what a shared variable shows after the join, and the two notions of independence -/

/-- the value a variable has after the workers were joined, as a function of how the indices were cut into the
    workers' lists and of the trace -/
structure Behaviour where
  Obs : Type
  obs : List (List Nat) → List (Nat × Nat) → Obs

/-- the same cut, any two schedules: the same value -/
def IndependentOfSchedule (b : Behaviour) : Prop :=
  ∀ cs t1 t2, Interleave cs t1 → Interleave cs t2 → b.obs cs t1 = b.obs cs t2

/-- any two cuts of the same index sequence (any two worker counts), any two schedules: the same value -/
def IndependentOfCut (b : Behaviour) : Prop :=
  ∀ c1 c2 t1 t2, c1.flatten = c2.flatten → Interleave c1 t1 → Interleave c2 t2 → b.obs c1 t1 = b.obs c2 t2

/-- the meanings a classified write can have -/
inductive Sem
  | slot | pieces | accum | errorFlag | role | ordered
  deriving DecidableEq, Repr

/-- `Realises s b`: `b` is a behaviour of kind `s` (with the side conditions the kind needs) -/
inductive Realises : Sem → Behaviour → Prop
  | slot {β : Type} (f : Nat → β) : Realises .slot ⟨Nat → Option β, fun _ tr => slotStore f tr⟩
  | pieces {γ δ : Type} (g : List Nat → γ) (combine : List γ → δ) (spec : List Nat → δ)
      (hom : ∀ cs : List (List Nat), combine (cs.map g) = spec cs.flatten) :
      Realises .pieces ⟨δ, fun cs tr => combine (pieces g cs.length tr)⟩
  | accum {σ : Type} (op : Nat → σ → σ) (init : σ) (comm : ∀ i j s, op i (op j s) = op j (op i s)) :
      Realises .accum ⟨σ, fun _ tr => accum op init tr⟩
  | sortedAppend {β δ : Type} (f : Nat → β) (post : List β → δ) (hpost : ∀ l1 l2 : List β, l1.Perm l2 → post l1 = post l2) :
      Realises .accum ⟨δ, fun _ tr => post (appended f tr)⟩
  | errorFlag {ε : Type} (err : Nat → Option ε) : Realises .errorFlag ⟨Bool, fun _ tr => (errorOf err tr).isSome⟩
  | role {γ : Type} (g : List Nat → γ) (k : Nat) : Realises .role ⟨γ, fun _ tr => g (ownEvents tr k)⟩
  | ordered {β : Type} (f : Nat → β) : Realises .ordered ⟨List β, fun _ tr => appended f tr⟩

/-! ### the classification of the regenerated facts -/

/-- a fact of Gen/ShapeFacts: (function, fan-out kind, shared variable, write class, operation, through which call) -/
abbrev Fact := String × String × String × String × String × String

def Fact.fn (f : Fact) : String := f.1
def Fact.fan (f : Fact) : String := f.2.1
def Fact.var (f : Fact) : String := f.2.2.1
def Fact.kind (f : Fact) : String := f.2.2.2.1
def Fact.how (f : Fact) : String := f.2.2.2.2.1

/-- a reviewed exception: (function, variable, write class) and what it is read as -/
abbrev Review := String × String × String × Sem

def reviewOf (rv : List Review) (f : Fact) : Option Sem :=
  (rv.find? fun r => r.1 == f.fn && r.2.1 == f.var && r.2.2.1 == f.kind).map (·.2.2.2)

/-- classes that are never accepted without a reviewed entry -/
def needsReview (f : Fact) : Bool :=
  match f.kind with
  | "slotAffine" | "slotVia" | "guardedAppend" | "guardedAssign" | "guardedMapInsert" | "atomic" | "pool" => true
  | _ => false

/-- what a fact means.  Slot writes, per-worker pieces, counters, writes under `index == c`, a role's own variables and
    channels with one sender are independent by construction; guarded appends / assignments / map inserts, atomics and
    pools are what the review table says (and order-dependent without an entry); everything else is order-dependent. -/
def semOf (rv : List Review) (f : Fact) : Sem :=
  match f.kind with
  | "slot" => .slot
  | "perWorker" => .pieces
  | "ownLoop" => .slot
  | "singleWriter" => .accum
  | "guardedCount" => .accum
  | "role" => .role
  | "chan" => if f.how == "singleSender" then .role else .ordered
  | _ => if needsReview f then (reviewOf rv f).getD .ordered else .ordered

/-- schedule-independent by construction: no fact is read as order-dependent -/
def shapesOk (rv : List Review) (facts : List Fact) : Bool := facts.all fun f => semOf rv f != .ordered

/-- the first fact that does not check (named by the replay when the obligation breaks) -/
def firstBad (rv : List Review) (facts : List Fact) : Option Fact := facts.find? fun f => semOf rv f == .ordered

/-- `MergeRecordSetList` as the source has it: with exactly two lists of which the second is empty the first list
    itself, otherwise a copy of all lists one after the other -/
def mergeModel {α : Type} (l : List (List α)) : List α :=
  if l.length = 2 ∧ (l[1]?.getD []).length = 0 then l[0]?.getD [] else l.flatten

end Csvq.Shapes
