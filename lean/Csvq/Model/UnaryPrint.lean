/-
  Csvq.Model.UnaryPrint — lib/parser/ast.go: `UnaryArithmetic.String()`, `UnaryLogic.String()` (operator `!`)
  and `Parentheses.String()` over operands whose text is given (core Lean only).

      func (e UnaryArithmetic) String() string {
          operand := e.Operand.String()
          if e.Operator.Token == '-' && strings.HasPrefix(operand, "-") { return e.Operator.String() + " " + operand }
          return e.Operator.String() + operand
      }
      func (e UnaryLogic) String() string {            // the "!" form; the NOT form joins with a space
          operand := e.Operand.String()
          if strings.HasPrefix(operand, "!") || strings.HasPrefix(operand, ":") { return e.Operator.String() + " " + operand }
          return e.Operator.String() + operand
      }
      func (p Parentheses) String() string { return "(" + p.Expr.String() + ")" }

  `printOld` is the printer before the repairs c4eeafc / 98baed3 (and the later `:` case) (operator immediately followed by the operand).
-/
namespace Csvq.UPrint

inductive UExpr
  | atom (text : List Char)     -- a literal or a field reference; `text` is its `String()`
  | neg (e : UExpr)             -- UnaryArithmetic, operator '-'
  | pos (e : UExpr)             -- UnaryArithmetic, operator '+'
  | bang (e : UExpr)            -- UnaryLogic, operator '!'
  | paren (e : UExpr)           -- Parentheses
  deriving Repr

/-- `strings.HasPrefix(s, string(c))` -/
def startsWith (c : Char) : List Char → Bool
  | [] => false
  | x :: _ => x = c

/-- the `String()` methods of the current code -/
def UExpr.print : UExpr → List Char
  | .atom t => t
  | .neg e => if startsWith '-' e.print then '-' :: ' ' :: e.print else '-' :: e.print
  | .pos e => '+' :: e.print
  | .bang e => if startsWith '!' e.print || startsWith ':' e.print then '!' :: ' ' :: e.print else '!' :: e.print
  | .paren e => '(' :: (e.print ++ [')'])

/-- the `String()` methods before c4eeafc / 98baed3: operator immediately followed by the operand's text -/
def UExpr.printOld : UExpr → List Char
  | .atom t => t
  | .neg e => '-' :: e.printOld
  | .pos e => '+' :: e.printOld
  | .bang e => '!' :: e.printOld
  | .paren e => '(' :: (e.printOld ++ [')'])

/-- the text contains `--` (line comment) or `/*` (block comment) -/
def hasCommentOpener : List Char → Bool
  | [] => false
  | [_] => false
  | a :: b :: tl => (a = '-' && b = '-') || (a = '/' && b = '*') || hasCommentOpener (b :: tl)

/-- scanner.go `isOperatorRune` -/
def opRune (c : Char) : Bool := c = '=' || c = '>' || c = '<' || c = '!' || c = '|' || c = ':'

/-- the text contains a `!` immediately followed by an operator rune: the scanner would read both as ONE operator token -/
def hasBangFusion : List Char → Bool
  | [] => false
  | [_] => false
  | a :: b :: tl => (a = '!' && opRune b) || hasBangFusion (b :: tl)

end Csvq.UPrint
