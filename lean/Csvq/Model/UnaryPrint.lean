/-
  Csvq.Model.UnaryPrint — lib/parser/ast.go: `UnaryArithmetic.String()`, `UnaryLogic.String()` (operator `!`)
  and `Parentheses.String()` over operands whose text is given (core Lean only).

      func (e UnaryArithmetic) String() string { return e.Operator.String() + e.Operand.String() }
      func (e UnaryLogic) String() string      { … return e.Operator.String() + e.Operand.String() }   // for "!"
      func (p Parentheses) String() string     { return "(" + p.Expr.String() + ")" }
-/
namespace Csvq.UPrint

inductive UExpr
  | atom (text : List Char)     -- a literal or a field reference; `text` is its `String()`
  | neg (e : UExpr)             -- UnaryArithmetic, operator '-'
  | pos (e : UExpr)             -- UnaryArithmetic, operator '+'
  | bang (e : UExpr)            -- UnaryLogic, operator '!'
  | paren (e : UExpr)           -- Parentheses
  deriving Repr

/-- the `String()` methods: operator immediately followed by the operand's text -/
def UExpr.print : UExpr → List Char
  | .atom t => t
  | .neg e => '-' :: e.print
  | .pos e => '+' :: e.print
  | .bang e => '!' :: e.print
  | .paren e => '(' :: (e.print ++ [')'])

/-- a printer that separates a unary operator from an operand that begins with an operator rune (the repair) -/
def UExpr.printSep : UExpr → List Char
  | .atom t => t
  | .neg e => '-' :: ' ' :: e.printSep
  | .pos e => '+' :: ' ' :: e.printSep
  | .bang e => '!' :: ' ' :: e.printSep
  | .paren e => '(' :: (e.printSep ++ [')'])

/-- the text contains `--` (line comment) or `/*` (block comment) -/
def hasCommentOpener : List Char → Bool
  | [] => false
  | [_] => false
  | a :: b :: tl => (a = '-' && b = '-') || (a = '/' && b = '*') || hasCommentOpener (b :: tl)

end Csvq.UPrint
