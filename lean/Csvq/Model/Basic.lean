/-
  Csvq.Model.Basic — value domain of the model (core Lean only; no Mathlib).

  Mirrors lib/value/type.go and github.com/mithrandie/ternary.
  * Go `int64`  → `Int` with explicit `wrap64` where Go arithmetic can wrap.
  * Go `float64`→ `FVal`: a finite double x is the integer n = x·2^1074 (exact).
  * Go `string` → `Bytes` (list of byte values); comparison is bytewise as in Go.
  * Go `time.Time` → unbounded `Int` nanoseconds since the Unix epoch.
-/
namespace Csvq

abbrev Bytes := List Nat

/-- Three-valued logic, github.com/mithrandie/ternary: FALSE < UNKNOWN < TRUE. -/
inductive Tern | F | U | T
  deriving DecidableEq, Repr, Inhabited

namespace Tern

def not : Tern → Tern
  | F => T | U => U | T => F

/-- ternary.And -/
def and : Tern → Tern → Tern
  | F, _ => F
  | _, F => F
  | T, T => T
  | _, _ => U

/-- ternary.Or -/
def or : Tern → Tern → Tern
  | T, _ => T
  | _, T => T
  | F, F => F
  | _, _ => U

def ofBool : Bool → Tern
  | true => T | false => F

/-- numeric rank used to state Kleene logic as min / max -/
def rank : Tern → Nat
  | F => 0 | U => 1 | T => 2

/-- ternary.Equal (used by IS): UNKNOWN = UNKNOWN is TRUE -/
def eqv (a b : Tern) : Tern := ofBool (a == b)

/-- ternary.All: FALSE if any FALSE, else UNKNOWN if any UNKNOWN, else TRUE -/
def all (l : List Tern) : Tern := l.foldl and T
/-- ternary.Any -/
def any (l : List Tern) : Tern := l.foldl or F

def toStr : Tern → String
  | F => "F" | U => "U" | T => "T"

end Tern

/-- float64. `fin n` is the finite double n·2^-1074; `negz` is -0. -/
inductive FVal
  | nan
  | pinf
  | ninf
  | negz
  | fin (n : Int)
  deriving DecidableEq, Repr, Inhabited

namespace FVal

def isNaN : FVal → Bool
  | nan => true | _ => false

/-- numerator (scale 2^-1074) of a finite value; -0 ↦ 0 -/
def num? : FVal → Option Int
  | fin n => some n
  | negz => some 0
  | _ => none

/-- IEEE `==` -/
def feq : FVal → FVal → Bool
  | nan, _ => false
  | _, nan => false
  | pinf, pinf => true
  | ninf, ninf => true
  | pinf, _ => false
  | _, pinf => false
  | ninf, _ => false
  | _, ninf => false
  | a, b => a.num? == b.num?

/-- IEEE `<` -/
def flt : FVal → FVal → Bool
  | nan, _ => false
  | _, nan => false
  | pinf, _ => false
  | _, pinf => true
  | _, ninf => false
  | ninf, _ => true
  | a, b => match a.num?, b.num? with
    | some x, some y => x < y
    | _, _ => false

end FVal

/-- Primary values (lib/value/type.go). -/
inductive Val
  | null
  | int (i : Int)
  | flt (f : FVal)
  | str (s : Bytes)
  | bool (b : Bool)
  | tern (t : Tern)
  | dt (ns : Int)
  deriving DecidableEq, Repr, Inhabited

/-- result of value.CompareCombinedly -/
inductive Cmp | eq | boolEq | ne | lt | gt | incomm
  deriving DecidableEq, Repr, Inhabited

namespace Cmp
def flip : Cmp → Cmp
  | lt => gt | gt => lt | c => c
def toStr : Cmp → String
  | eq => "eq" | boolEq => "beq" | ne => "ne" | lt => "lt" | gt => "gt" | incomm => "inc"
end Cmp

/-- Coercion profile of a value: what the *real* conversion functions of lib/value
    return for it.  `int?` = ToIntegerStrictly, `flt?` = ToFloat, `dt?` = ToDatetime,
    `bool?` = ToBoolean, `strU?` = upper(trim raw) when raw is a String,
    `tern` = Primary.Ternary().  Theorems quantify over all profiles. -/
structure Profile where
  raw   : Val
  int?  : Option Int
  flt?  : Option FVal
  dt?   : Option Int
  bool? : Option Bool
  strU? : Option Bytes
  tern  : Tern
  deriving DecidableEq, Repr, Inhabited

def Profile.isNull (p : Profile) : Bool :=
  match p.raw with | .null => true | _ => false

/-- int64 two's complement wrap -/
def wrap64 (x : Int) : Int := (x + 9223372036854775808) % 18446744073709551616 - 9223372036854775808

def minI64 : Int := -9223372036854775808
def maxI64 : Int := 9223372036854775807
def inI64 (x : Int) : Prop := minI64 ≤ x ∧ x ≤ maxI64

instance (x : Int) : Decidable (inI64 x) := by unfold inI64; infer_instance

/-- bytewise lexicographic `<` on strings (Go's string `<`) -/
def bytesLt : Bytes → Bytes → Bool
  | [], [] => false
  | [], _ :: _ => true
  | _ :: _, [] => false
  | a :: as, b :: bs => if a < b then true else if b < a then false else bytesLt as bs

end Csvq
