/-
  Csvq.Model.Dml — INSERT / UPDATE / DELETE / REPLACE / ALTER TABLE as pure functions on tables, in
  the shape of the Go code, and the statement wrapper (work on a copy, publish on success).

  Mirrors lib/query/query.go (Insert, Update, Delete, Replace, CreateTable, AddColumns, DropColumns,
  RenameColumn), lib/query/view.go (convertListToRecordValues, convertRecordValuesToRecordSet,
  insert, replace), lib/query/view_map.go (Get / GetWithInternalId return copies, Set publishes),
  lib/query/processor.go:245-411 (affected-row counts, uncommitted marks).

  * Go `error`                    → `Except Err`.
  * mutation of a copied view     → a function returning the new rows (value semantics).
  * expressions and conditions    → arbitrary functions `ρ → Except Err Cell`, `ρ → Except Err Tern`
                                    (any row may fail after earlier rows were processed).
  * internal record ids           → `Option Nat` (NULL id of an outer join = `none`).
  * column names are compared exactly (the generators use distinct lower-case identifiers; Go folds case).
-/
import Csvq.Model.Float
namespace Csvq.Dml
open Csvq

abbrev Cell := Profile
def nullCell : Cell := profileOf .null
abbrev Row := List Cell

structure Table where
  header : List String
  rows : List Row
  deriving Repr, Inhabited

/-- every record has as many cells as the header has columns -/
def Table.Rect (t : Table) : Prop := ∀ r ∈ t.rows, r.length = t.header.length

def Table.rectB (t : Table) : Bool := t.rows.all fun r => r.length == t.header.length

/-- csvq's errors on the DML paths (lib/query/error_code.go) -/
inductive Err
  | fieldAmbiguous | fieldNotExist | dupField | rowLen | selLen | updFieldNotExist | ambiguous
  | keyNotSet | divZero | noTable | tableExists | tableFieldLen | canceled | other (code : Nat)
  deriving DecidableEq, Repr, Inhabited

def Err.code : Err → Nat
  | .fieldAmbiguous => 10101 | .fieldNotExist => 10102 | .dupField => 10104 | .rowLen => 12101
  | .selLen => 12102 | .updFieldNotExist => 12201 | .ambiguous => 12202 | .keyNotSet => 13901
  | .divZero => 30000 | .noTable => 11502 | .tableExists => 90182 | .tableFieldLen => 11401 | .canceled => 90081 | .other c => c

def isT : Tern → Bool
  | .T => true
  | _ => false

/-! ## list helpers -/

/-- position of the first element equal to `a` -/
def firstIdx {α} [DecidableEq α] (a : α) : List α → Option Nat
  | [] => none
  | c :: cs => if c = a then some 0 else (firstIdx a cs).map (· + 1)

/-- keep the elements whose position (counted from `k`) is not in `d` -/
def removeIdx {α} (d : List Nat) : List α → Nat → List α
  | [], _ => []
  | a :: as, k => if k ∈ d then removeIdx d as (k + 1) else a :: removeIdx d as (k + 1)

def insertAt {α} (pos : Nat) (xs l : List α) : List α := l.take pos ++ xs ++ l.drop pos

/-- append `i` unless present (a Go `map[int]…` used as a set; only its size and membership are used) -/
def addId (ids : List Nat) (i : Nat) : List Nat := if i ∈ ids then ids else ids ++ [i]

/-! ## field lookup -/

/-- Header.FieldIndex for an unqualified column name of one table: not found / found once / found twice -/
def colIndex (h : List String) (n : String) : Except Err Nat :=
  match firstIdx n h with
  | none => .error .fieldNotExist
  | some i => if n ∈ h.drop (i + 1) then .error .fieldAmbiguous else .ok i

/-- View.FieldIndices -/
def fieldIndices (h : List String) : List String → Except Err (List Nat)
  | [] => .ok []
  | f :: fs =>
    match colIndex h f with
    | .error e => .error e
    | .ok i =>
      match fieldIndices h fs with
      | .error e => .error e
      | .ok is => .ok (i :: is)

/-! ## INSERT -/

/-- View.convertListToRecordValues: evaluate the VALUES rows in order; the first failing evaluation
    or the first row of the wrong length aborts -/
def convertList (nfields : Nat) : List (Except Err Row) → Except Err (List Row)
  | [] => .ok []
  | v :: vs =>
    match v with
    | .error e => .error e
    | .ok vals =>
      if vals.length ≠ nfields then .error .rowLen
      else match convertList nfields vs with
        | .error e => .error e
        | .ok rest => .ok (vals :: rest)

/-- one record of View.convertRecordValuesToRecordSet: column j takes the value whose field index is j
    (the first such field), NULL when no field names it -/
def buildRecord (width : Nat) (fidx : List Nat) (vals : Row) : Row :=
  (List.range width).map fun j =>
    match firstIdx j fidx with
    | none => nullCell
    | some k => vals[k]?.getD nullCell

/-- Insert → View.InsertValues / InsertFromQuery → View.insert; count = number of given rows -/
def insertImpl (fields : List String) (given : List (Except Err Row)) (t : Table) : Except Err (Table × Nat) :=
  match convertList fields.length given with
  | .error e => .error e
  | .ok recordValues =>
    match fieldIndices t.header fields with
    | .error e => .error e
    | .ok fidx =>
      .ok ({ t with rows := t.rows ++ recordValues.map (buildRecord t.header.length fidx) }, recordValues.length)

/-! ## UPDATE (through a filtered view carrying internal record ids) -/

structure SetItem (ρ : Type) where
  field : String
  expr : ρ → Except Err Cell

/-- ViewMap.GetWithInternalId: every record gets its position as internal id -/
def withIdsFrom : List Row → Nat → List (Option Nat × Row)
  | [], _ => []
  | r :: rs, k => (some k, r) :: withIdsFrom rs (k + 1)

/-- View.Where: keep the records whose condition is TRUE; a failing evaluation aborts -/
def filterView {ρ : Type} (cond : ρ → Except Err Tern) : List (Option Nat × ρ) → Except Err (List (Option Nat × ρ))
  | [] => .ok []
  | x :: xs =>
    match cond x.2 with
    | .error e => .error e
    | .ok c =>
      match filterView cond xs with
      | .error e => .error e
      | .ok ys => .ok (if isT c then x :: ys else ys)

/-- working state of Update's loop: the copy being written (`viewsToUpdate[ref].RecordSet`),
    `updatesList` (which (id, field) pairs were written) and the ids counted in `updatedCount` -/
structure UpdSt where
  rows : List Row
  touched : List (Nat × Nat)
  ids : List Nat

def setCell (rows : List Row) (i j : Nat) (v : Cell) : List Row := rows.modify i fun r => r.set j v

/-- the SET list for one record of the filtered view (query.go:469-511) -/
def applySets {ρ : Type} (h : List String) (id : Option Nat) (ctx : ρ) : List (SetItem ρ) → UpdSt → Except Err UpdSt
  | [], st => .ok st
  | s :: ss, st =>
    match s.expr ctx with
    | .error e => .error e
    | .ok v =>
      match colIndex h s.field with
      | .error e => .error e
      | .ok j =>
        match id with
        | none => .error .ambiguous
        | some i =>
          if (i, j) ∈ st.touched then .error .ambiguous
          else applySets h id ctx ss
            { rows := setCell st.rows i j v, touched := (i, j) :: st.touched, ids := addId st.ids i }

def updateLoop {ρ : Type} (h : List String) (sets : List (SetItem ρ)) : List (Option Nat × ρ) → UpdSt → Except Err UpdSt
  | [], st => .ok st
  | x :: rest, st =>
    match applySets h x.1 x.2 sets st with
    | .error e => .error e
    | .ok st' => updateLoop h sets rest st'

/-- Update for one target table over an arbitrary (joined, filtered) view; count = distinct ids written -/
def updateCore {ρ : Type} (view : List (Option Nat × ρ)) (sets : List (SetItem ρ)) (t : Table) : Except Err (Table × Nat) :=
  match updateLoop t.header sets view { rows := t.rows, touched := [], ids := [] } with
  | .error e => .error e
  | .ok st => .ok ({ t with rows := st.rows }, st.ids.length)

/-- single-table UPDATE t SET … WHERE cond -/
def updateImpl (cond : Row → Except Err Tern) (sets : List (SetItem Row)) (t : Table) : Except Err (Table × Nat) :=
  match filterView cond (withIdsFrom t.rows 0) with
  | .error e => .error e
  | .ok view => updateCore view sets t

/-! ## DELETE (by internal id) -/

/-- `deletedIndices[ref]`: the ids of the filtered view's records; records without an id are skipped -/
def collectIds : List (Option Nat) → List Nat → List Nat
  | [], acc => acc
  | none :: rest, acc => collectIds rest acc
  | some i :: rest, acc => collectIds rest (addId acc i)

def deleteCore (ids : List (Option Nat)) (t : Table) : Table × Nat :=
  let d := collectIds ids []
  ({ t with rows := removeIdx d t.rows 0 }, d.length)

def deleteImpl (cond : Row → Except Err Tern) (t : Table) : Except Err (Table × Nat) :=
  match filterView cond (withIdsFrom t.rows 0) with
  | .error e => .error e
  | .ok view => .ok (deleteCore (view.map Prod.fst) t)

/-! ## REPLACE -/

def keyOf (kidx : List Nat) (r : Row) : List Cell := kidx.map fun k => r[k]?.getD nullCell

/-- the first given record whose key is equivalent to the row's key (view.go:998-1006) -/
def firstMatch (keq : List Cell → List Cell → Bool) (kidx : List Nat) (row : Row) : List Row → Option (Nat × Row)
  | [] => none
  | g :: gs =>
    if keq (keyOf kidx row) (keyOf kidx g) then some (0, g)
    else (firstMatch keq kidx row gs).map fun p => (p.1 + 1, p.2)

/-- copy the update columns of `g` into `row` -/
def overwrite (uidx : List Nat) (row g : Row) : Row :=
  uidx.foldl (fun acc j => acc.set j (g[j]?.getD nullCell)) row

/-- the existing records, each rewritten from its first matching given record; second component:
    the given-record index of every match (one entry per matched existing record) -/
def replaceRows (keq : List Cell → List Cell → Bool) (kidx uidx : List Nat) (records : List Row) : List Row → List Row × List Nat
  | [] => ([], [])
  | r :: rs =>
    let rest := replaceRows keq kidx uidx records rs
    match firstMatch keq kidx r records with
    | none => (r :: rest.1, rest.2)
    | some (j, g) => (overwrite uidx r g :: rest.1, j :: rest.2)

/-- the first key column that is not among the given fields -/
def keyNotSet (fidx : List Nat) : List Nat → Bool
  | [] => false
  | k :: ks => if k ∈ fidx then keyNotSet fidx ks else true

/-- Replace → View.ReplaceValues → View.replace; count = matched existing records + appended records -/
def replaceImpl (keq : List Cell → List Cell → Bool) (fields keys : List String) (given : List (Except Err Row))
    (t : Table) : Except Err (Table × Nat) :=
  match convertList fields.length given with
  | .error e => .error e
  | .ok recordValues =>
    match fieldIndices t.header fields with
    | .error e => .error e
    | .ok fidx =>
      match fieldIndices t.header keys with
      | .error e => .error e
      | .ok kidx =>
        if keyNotSet fidx kidx then .error .keyNotSet
        else
          let uidx := fidx.filter fun i => i ∉ kidx
          let records := recordValues.map (buildRecord t.header.length fidx)
          let res := replaceRows keq kidx uidx records t.rows
          let inserts := removeIdx res.2 records 0
          .ok ({ t with rows := res.1 ++ inserts }, inserts.length + res.2.length)

/-! ## ALTER TABLE -/

inductive ColPos
  | first | last | before (c : String) | after (c : String)
  deriving Repr, Inhabited

/-- duplicate check of AddColumns: against the existing names and the earlier new names -/
def checkNewNames : List String → List String → Except Err Unit
  | _, [] => .ok ()
  | existing, n :: ns => if n ∈ existing then .error .dupField else checkNewNames (n :: existing) ns

/-- the default expressions of one record, evaluated on the old record -/
def evalDefaults (r : Row) : List (Option (Row → Except Err Cell)) → Except Err (List Cell)
  | [] => .ok []
  | d :: ds =>
    match (match d with | none => (Except.ok nullCell : Except Err Cell) | some e => e r) with
    | .error e => .error e
    | .ok v =>
      match evalDefaults r ds with
      | .error e => .error e
      | .ok vs => .ok (v :: vs)

/-- EvaluateSequentially over the records -/
def addToRows (pos : Nat) (defs : List (Option (Row → Except Err Cell))) : List Row → Except Err (List Row)
  | [] => .ok []
  | r :: rs =>
    match evalDefaults r defs with
    | .error e => .error e
    | .ok vs =>
      match addToRows pos defs rs with
      | .error e => .error e
      | .ok rs' => .ok (insertAt pos vs r :: rs')

def insertPos (h : List String) : ColPos → Except Err Nat
  | .first => .ok 0
  | .last => .ok h.length
  | .before c => colIndex h c
  | .after c => match colIndex h c with | .error e => .error e | .ok i => .ok (i + 1)

def addColumnsImpl (pos : ColPos) (cols : List (String × Option (Row → Except Err Cell))) (t : Table) :
    Except Err (Table × Nat) :=
  match insertPos t.header pos with
  | .error e => .error e
  | .ok p =>
    match checkNewNames t.header (cols.map Prod.fst) with
    | .error e => .error e
    | .ok _ =>
      match addToRows p (cols.map Prod.snd) t.rows with
      | .error e => .error e
      | .ok rows => .ok ({ header := insertAt p (cols.map Prod.fst) t.header, rows := rows }, cols.length)

def dedupIdx : List Nat → List Nat → List Nat
  | [], acc => acc
  | i :: is, acc => dedupIdx is (addId acc i)

def dropColumnsImpl (cols : List String) (t : Table) : Except Err (Table × Nat) :=
  match fieldIndices t.header cols with
  | .error e => .error e
  | .ok idx =>
    let d := dedupIdx idx []
    .ok ({ header := removeIdx d t.header 0, rows := t.rows.map fun r => removeIdx d r 0 }, d.length)

def renameColumnImpl (old new : String) (t : Table) : Except Err Table :=
  if new ∈ t.header then .error .dupField
  else match colIndex t.header old with
    | .error e => .error e
    | .ok i => .ok { t with header := t.header.set i new }

/-! ## the statement wrapper: copy from the view map, run the body, publish only on success -/

abbrev Tables := List (String × Table)

structure State where
  /-- CachedViews and TemporaryTables: what the following statements of the transaction see -/
  tables : Tables
  /-- UncommittedViews (by table name) -/
  marks : List String
  /-- the files on disk / the restore points of temporary tables -/
  committed : Tables
  deriving Inhabited

def lookupT (ts : Tables) (n : String) : Option Table :=
  match ts with
  | [] => none
  | e :: rest => if e.1 = n then some e.2 else lookupT rest n

/-- ViewMap.Get: a copy (a value) of the cached table -/
def getCopy (ts : Tables) (n : String) : Except Err Table :=
  match lookupT ts n with
  | none => .error .noTable
  | some t => .ok t

/-- CachedViews.Set / ReplaceTemporaryTable -/
def setTable (ts : Tables) (n : String) (t : Table) : Tables :=
  match ts with
  | [] => []
  | e :: rest => if e.1 = n then (n, t) :: rest else e :: setTable rest n t

def setOrAdd (ts : Tables) (n : String) (t : Table) : Tables :=
  match lookupT ts n with
  | none => ts ++ [(n, t)]
  | some _ => setTable ts n t

def addMark (marks : List String) (n : String) : List String := if n ∈ marks then marks else marks ++ [n]

/-- what a successful statement body hands over for publication -/
structure Out where
  name : String
  table : Table
  count : Nat
  mark : Bool
  /-- CREATE TABLE adds an entry instead of replacing one -/
  isNew : Bool := false

/-- one record of the joined view of a multi-table statement: per FROM table its (internal record id, record).
    The id is `none` on the NULL-padded side of an outer join (LoadView pads the whole record of the other
    table, its internal-id cell included: `View.InternalRecordId` then answers "internal record id is empty"). -/
abbrev JRow := List (Option Nat × Row)

def jctx (jr : JRow) : List Row := jr.map Prod.snd

/-- `View.InternalRecordId(ref, i)`: the id of the `p`-th FROM table in the joined record, if it has one -/
def jid (p : Nat) (jr : JRow) : Option Nat := (jr[p]?).bind Prod.fst

/-- cross join in FROM order (records of the first table vary slowest) -/
def crossJoin : List (List (Option Nat × Row)) → List JRow
  | [] => [[]]
  | t :: ts => t.flatMap fun x => (crossJoin ts).map fun jr => x :: jr

def idRows : List Row → Nat → List (Option Nat × Row)
  | [], _ => []
  | r :: rs, k => (some k, r) :: idRows rs (k + 1)

/-! ### outer joins in the FROM clause of UPDATE / DELETE (join.go OuterJoin, two tables)

  For RIGHT the code swaps the two views, so the preserved side is always the outer loop; FULL is LEFT followed by
  the right records no left record matched (Model/Rel.lean proves that every chunking over the workers gives this
  order: `outer_left_spec`, `outer_right_spec`, `outer_full_spec`).  A failing ON condition aborts. -/

inductive Dir | left | right | full
  deriving DecidableEq, Repr, Inhabited

/-- how the FROM tables are combined: `cross` = comma list / CROSS JOIN / INNER JOIN (the ON condition of an inner
    join filters the product exactly like WHERE and is handed over as part of the statement's condition);
    `outer dir on` = `A LEFT|RIGHT|FULL JOIN B ON on` over exactly two tables -/
inductive Join
  | cross
  | outer (dir : Dir) (on : List Row → Except Err Tern)
  /-- `A [LEFT|RIGHT|FULL] JOIN B USING (cols)` (`dir = none`: INNER) and, with `cols = none`, `A NATURAL … JOIN B` (the
      columns of A, in A's order, that B has too).  `eqv` = csvq's `=` on two cells.  The records that are joined are those
      of the ON join `A.c₁ = B.c₁ AND …`; what differs is the LAYOUT of the joined view (`joinedLayout`): the merged columns
      stand in front, both originals are dropped — the data-changing functions must not take a position in the joined view
      for a position in the table. -/
  | using (dir : Option Dir) (cols : Option (List String)) (eqv : Cell → Cell → Tern)

def nullRow (w : Nat) : Row := List.replicate w nullCell

/-- the records of the inner-loop view that the ON condition accepts for one outer-loop record -/
def partners (on : Row → Except Err Tern) : List (Option Nat × Row) → Except Err (List (Option Nat × Row))
  | [] => .ok []
  | j :: js =>
    match on j.2 with
    | .error e => .error e
    | .ok c =>
      match partners on js with
      | .error e => .error e
      | .ok ms => .ok (if isT c then j :: ms else ms)

/-- outer loop: every record once per partner, or once with the padded record `pad` when it has none;
    `mk o j` puts the two in FROM order -/
def outerLoop (on : Row → Row → Except Err Tern) (mk : (Option Nat × Row) → (Option Nat × Row) → JRow)
    (pad : Option Nat × Row) (inner : List (Option Nat × Row)) : List (Option Nat × Row) → Except Err (List JRow)
  | [] => .ok []
  | o :: os =>
    match partners (on o.2) inner with
    | .error e => .error e
    | .ok ms =>
      match outerLoop on mk pad inner os with
      | .error e => .error e
      | .ok rest => .ok ((if ms.isEmpty then [mk o pad] else ms.map (mk o)) ++ rest)

/-- the right records no left record matched (FULL): evaluated after the loop above, which has already seen
    every pair (a failing pair aborted there) -/
def unmatchedRight (on : Row → Row → Except Err Tern) (A : List (Option Nat × Row)) : List (Option Nat × Row) → List (Option Nat × Row)
  | [] => []
  | b :: bs =>
    if A.any (fun a => match on a.2 b.2 with | .ok c => isT c | .error _ => false) then unmatchedRight on A bs
    else b :: unmatchedRight on A bs

/-- inner join with a condition: the pairs of the cross join (left table varies slowest) the condition accepts -/
def innerLoop (on : Row → Row → Except Err Tern) (inner : List (Option Nat × Row)) : List (Option Nat × Row) → Except Err (List JRow)
  | [] => .ok []
  | o :: os =>
    match partners (on o.2) inner with
    | .error e => .error e
    | .ok ms =>
      match innerLoop on inner os with
      | .error e => .error e
      | .ok rest => .ok (ms.map (fun j => [o, j]) ++ rest)

/-- ParseJoinCondition over the USING list: a repeated name is refused, every name must be a column of both tables -/
def usingIdx (ha hb : List String) : List String → List String → Except Err (List (Nat × Nat))
  | _, [] => .ok []
  | seen, v :: vs =>
    if v ∈ seen then .error .dupField
    else match colIndex ha v with
      | .error e => .error e
      | .ok i =>
        match colIndex hb v with
        | .error e => .error e
        | .ok j =>
          match usingIdx ha hb (v :: seen) vs with
          | .error e => .error e
          | .ok r => .ok ((i, j) :: r)

/-- NATURAL: the columns of the left table, in its order, that the right table has too -/
def naturalCols (ha hb : List String) : List String := ha.filter fun c => c ∈ hb

/-- `A.c₁ = B.c₁ AND A.c₂ = B.c₂ …`: TRUE iff every comparison is TRUE -/
def usingOn (eqv : Cell → Cell → Tern) (idx : List (Nat × Nat)) : List Row → Except Err Tern
  | [ra, rb] => .ok (if idx.all (fun p => isT (eqv (ra[p.1]?.getD nullCell) (rb[p.2]?.getD nullCell))) then .T else .F)
  | _ => .error (.other 0)

/-- the name LoadView gives the internal-id column of every table -/
def idColumn : String := "@__internal_id"

/-- THE HEADER OF THE JOINED VIEW (view name, column) that LoadView builds for a data-changing statement: per table its
    internal-id column followed by its columns; joinViews then moves the merged columns of a USING / NATURAL join to the front
    (view name "", in USING order) and drops both originals (load_view.go joinViews, includeIndices / excludeIndices) -/
def joinedLayout (a b : String) (ha hb U : List String) : List (String × String) :=
  U.map (fun c => ("", c)) ++ ((a, idColumn) :: (ha.filter fun c => c ∉ U).map fun c => (a, c)) ++
    ((b, idColumn) :: (hb.filter fun c => c ∉ U).map fun c => (b, c))

def outerJoin (dir : Dir) (on : List Row → Except Err Tern) (wa wb : Nat) (A B : List (Option Nat × Row)) : Except Err (List JRow) :=
  let padA : Option Nat × Row := (none, nullRow wa)
  let padB : Option Nat × Row := (none, nullRow wb)
  match dir with
  | .left => outerLoop (fun a b => on [a, b]) (fun a b => [a, b]) padB B A
  | .right => outerLoop (fun b a => on [a, b]) (fun b a => [a, b]) padA A B
  | .full =>
    match outerLoop (fun a b => on [a, b]) (fun a b => [a, b]) padB B A with
    | .error e => .error e
    | .ok recs => .ok (recs ++ (unmatchedRight (fun a b => on [a, b]) A B).map fun b => [padA, b])

inductive Stmt
  | insert (tbl : String) (fields : Option (List String)) (src : Tables → List (Except Err Row))
  | replace (keq : List Cell → List Cell → Bool) (tbl : String) (fields : Option (List String)) (keys : List String)
      (src : Tables → List (Except Err Row))
  | update (tbl : String) (cond : Row → Except Err Tern) (sets : List (SetItem Row))
  | delete (tbl : String) (cond : Row → Except Err Tern)
  | updateMulti (targets froms : List String) (join : Join) (cond : List Row → Except Err Tern) (sets : List (String × SetItem (List Row)))
  | deleteMulti (targets froms : List String) (join : Join) (cond : List Row → Except Err Tern)
  | addCols (tbl : String) (pos : ColPos) (cols : List (String × Option (Row → Except Err Cell)))
  | dropCols (tbl : String) (cols : List String)
  | rename (tbl : String) (old new : String)
  /-- CREATE TABLE tbl (cols) [AS SELECT …]: `query` = the SELECT's field count and its records -/
  | create (tbl : String) (cols : List String) (query : Option (Nat × (Tables → List (Except Err Row))))

def getCopies (ts : Tables) : List String → Except Err (List Table)
  | [] => .ok []
  | n :: ns =>
    match getCopy ts n with
    | .error e => .error e
    | .ok t => match getCopies ts ns with | .error e => .error e | .ok rest => .ok (t :: rest)

/-- LoadView over the FROM clause: the joined records with the internal ids of every table -/
def joinRows (join : Join) (srcs : List Table) : Except Err (List JRow) :=
  match join with
  | .cross => .ok (crossJoin (srcs.map fun t => idRows t.rows 0))
  | .outer dir on =>
    match srcs with
    | [a, b] => outerJoin dir on a.header.length b.header.length (idRows a.rows 0) (idRows b.rows 0)
    | _ => .error (.other 0)
  | .using dir cols eqv =>
    match srcs with
    | [a, b] =>
      match usingIdx a.header b.header [] (cols.getD (naturalCols a.header b.header)) with
      | .error e => .error e
      | .ok [] => .error (.other 0)   -- (no common column: the join has no condition; not modelled)
      | .ok idx =>
        let on := usingOn eqv idx
        match dir with
        | none => innerLoop (fun ra rb => on [ra, rb]) (idRows b.rows 0) (idRows a.rows 0)
        | some d => outerJoin d on a.header.length b.header.length (idRows a.rows 0) (idRows b.rows 0)
    | _ => .error (.other 0)

/-- the filtered joined view of a multi-table statement -/
def joinedView (ts : Tables) (froms : List String) (join : Join) (cond : List Row → Except Err Tern) : Except Err (List (Option Nat × JRow)) :=
  match getCopies ts froms with
  | .error e => .error e
  | .ok srcs =>
    match joinRows join srcs with
    | .error e => .error e
    | .ok recs => filterView (fun jr => cond (jctx jr)) (recs.map fun jr => (none, jr))

/-- Update's loop is row-major: for every record of the filtered joined view, for every SET item in order —
    evaluate the value, find the item's table and column (FieldViewName), require the table to be an update
    target, take the record's internal id of that table, refuse a second write of the same (table, id, column).
    `scanSets` / `scanView` run exactly these checks in exactly this order (they decide WHICH error a failing
    statement reports); the new tables themselves are computed per target by `updateTargets`. -/
def scanSets (ts : Tables) (targets froms : List String) (jr : JRow) :
    List (String × SetItem (List Row)) → List (String × Nat × Nat) → Except Err (List (String × Nat × Nat))
  | [], touched => .ok touched
  | (tn, s) :: rest, touched =>
    match s.expr (jctx jr) with
    | .error e => .error e
    | .ok _ =>
      match firstIdx tn froms, lookupT ts tn with
      | some p, some t =>
        match colIndex t.header s.field with
        | .error e => .error e
        | .ok j =>
          if tn ∉ targets then .error .updFieldNotExist
          else match jid p jr with
            | none => .error .ambiguous
            | some i =>
              if (tn, i, j) ∈ touched then .error .ambiguous
              else scanSets ts targets froms jr rest ((tn, i, j) :: touched)
      | _, _ => .error .fieldNotExist

def scanView (ts : Tables) (targets froms : List String) (sets : List (String × SetItem (List Row))) :
    List JRow → List (String × Nat × Nat) → Except Err Unit
  | [], _ => .ok ()
  | jr :: rest, touched =>
    match scanSets ts targets froms jr sets touched with
    | .error e => .error e
    | .ok touched' => scanView ts targets froms sets rest touched'

def updateTargets (ts : Tables) (froms : List String) (view : List JRow) (sets : List (String × SetItem (List Row))) :
    List String → Except Err (List Out)
  | [] => .ok []
  | tn :: rest =>
    match getCopy ts tn with
    | .error e => .error e
    | .ok t =>
      match firstIdx tn froms with
      | none => .error .noTable
      | some p =>
        match updateCore (view.map fun jr => (jid p jr, jctx jr))
            ((sets.filter fun s => s.1 = tn).map Prod.snd) t with
        | .error e => .error e
        | .ok (t', n) =>
          match updateTargets ts froms view sets rest with
          | .error e => .error e
          | .ok outs => .ok ({ name := tn, table := t', count := n, mark := 0 < n } :: outs)

def deleteTargets (ts : Tables) (froms : List String) (view : List JRow) : List String → Except Err (List Out)
  | [] => .ok []
  | tn :: rest =>
    match getCopy ts tn with
    | .error e => .error e
    | .ok t =>
      match firstIdx tn froms with
      | none => .error .noTable
      | some p =>
        let r := deleteCore (view.map (jid p)) t
        match deleteTargets ts froms view rest with
        | .error e => .error e
        | .ok outs => .ok ({ name := tn, table := r.1, count := r.2, mark := 0 < r.2 } :: outs)

def allDistinct : List String → Bool
  | [] => true
  | n :: ns => !(ns.contains n) && allDistinct ns

/-- the records of a SELECT: the first failing evaluation aborts -/
def allOk : List (Except Err Row) → Except Err (List Row)
  | [] => .ok []
  | .error e :: _ => .error e
  | .ok r :: rest => match allOk rest with | .error e => .error e | .ok rs => .ok (r :: rs)

/-- the DML body: works on copies obtained from the view map, returns what is to be published -/
def body (ts : Tables) : Stmt → Except Err (List Out)
  | .insert tbl fields src =>
    match getCopy ts tbl with
    | .error e => .error e
    | .ok t =>
      match insertImpl (fields.getD t.header) (src ts) t with
      | .error e => .error e
      | .ok (t', n) => .ok [{ name := tbl, table := t', count := n, mark := 0 < n }]
  | .replace keq tbl fields keys src =>
    match getCopy ts tbl with
    | .error e => .error e
    | .ok t =>
      match replaceImpl keq (fields.getD t.header) keys (src ts) t with
      | .error e => .error e
      | .ok (t', n) => .ok [{ name := tbl, table := t', count := n, mark := 0 < n }]
  | .update tbl cond sets =>
    match getCopy ts tbl with
    | .error e => .error e
    | .ok t =>
      match updateImpl cond sets t with
      | .error e => .error e
      | .ok (t', n) => .ok [{ name := tbl, table := t', count := n, mark := 0 < n }]
  | .delete tbl cond =>
    match getCopy ts tbl with
    | .error e => .error e
    | .ok t =>
      match deleteImpl cond t with
      | .error e => .error e
      | .ok (t', n) => .ok [{ name := tbl, table := t', count := n, mark := 0 < n }]
  | .updateMulti targets froms join cond sets =>
    match joinedView ts froms join cond with
    | .error e => .error e
    | .ok view =>
      match scanView ts targets froms sets (view.map Prod.snd) [] with
      | .error e => .error e
      | .ok _ => updateTargets ts froms (view.map Prod.snd) sets targets
  | .deleteMulti targets froms join cond =>
    match joinedView ts froms join cond with
    | .error e => .error e
    | .ok view => deleteTargets ts froms (view.map Prod.snd) targets
  | .addCols tbl pos cols =>
    match getCopy ts tbl with
    | .error e => .error e
    | .ok t =>
      match addColumnsImpl pos cols t with
      | .error e => .error e
      | .ok (t', n) => .ok [{ name := tbl, table := t', count := n, mark := true }]
  | .dropCols tbl cols =>
    match getCopy ts tbl with
    | .error e => .error e
    | .ok t =>
      match dropColumnsImpl cols t with
      | .error e => .error e
      | .ok (t', n) => .ok [{ name := tbl, table := t', count := n, mark := true }]
  | .rename tbl old new =>
    match getCopy ts tbl with
    | .error e => .error e
    | .ok t =>
      match renameColumnImpl old new t with
      | .error e => .error e
      | .ok t' => .ok [{ name := tbl, table := t', count := 1, mark := true }]
  | .create tbl cols query =>
    match lookupT ts tbl with
    | some _ => .error .tableExists
    | none =>
      match query with
      | none =>
        if allDistinct cols then .ok [{ name := tbl, table := { header := cols, rows := [] }, count := 0, mark := true, isNew := true }]
        else .error .dupField
      | some (width, src) =>
        match allOk (src ts) with
        | .error e => .error e
        | .ok rows =>
          if width ≠ cols.length then .error .tableFieldLen
          else if allDistinct cols then
            .ok [{ name := tbl, table := { header := cols, rows := rows }, count := 0, mark := true, isNew := true }]
          else .error .dupField

inductive Result
  | ok (counts : List (String × Nat))
  | error (e : Err)
  deriving Repr, Inhabited

def publish (ts : Tables) : List Out → Tables
  | [] => ts
  | o :: os => publish (if o.isNew then ts ++ [(o.name, o.table)] else setTable ts o.name o.table) os

def markAll (marks : List String) : List Out → List String
  | [] => marks
  | o :: os => markAll (if o.mark then addMark marks o.name else marks) os

/-- one statement of a transaction: on an error nothing is published and nothing is marked -/
def stmtImpl (s : State) (st : Stmt) : State × Result :=
  match body s.tables st with
  | .error e => (s, .error e)
  | .ok outs =>
    ({ s with tables := publish s.tables outs, marks := markAll s.marks outs },
     .ok ((outs.filter fun o => !o.isNew).map fun o => (o.name, o.count)))

/-- where a cancellation (`ctx.Err() != nil`) is noticed.  Every context check of every DML function
    precedes the publication of its results: LoadView / Where / Evaluate / EvaluateSequentially / the
    GoroutineTaskManager loops run inside the body, and Delete checks once more between collecting the
    internal ids and its publication loop (query.go, "No table is stored after a cancellation"); the
    publication loops themselves (Insert, Update, Replace, Delete, ALTER) contain no check. -/
inductive CancelPoint
  /-- at one of the context checks while loading, filtering, evaluating -/
  | inBody
  /-- Delete's check after the body was computed, before the first table is stored -/
  | beforePublish

/-- a statement during which the context is cancelled -/
def stmtCancel (s : State) (st : Stmt) : CancelPoint → State × Result
  | .inBody => (s, .error .canceled)
  | .beforePublish =>
    match body s.tables st with
    | .error e => (s, .error e)
    | .ok _ => (s, .error .canceled)

/-- the publication loop of Delete BEFORE the repair 2dda37b: it checked the context before storing each
    table, so a cancellation noticed after `k` tables were stored returned an error with those tables replaced.
    Kept as a fact about the old code (Props/C08: `old_publication_loop_…`). -/
def stmtCancelOldLoop (s : State) (st : Stmt) (k : Nat) : State × Result :=
  match st with
  | .deleteMulti _ _ _ _ =>
    match body s.tables st with
    | .error e => (s, .error e)
    | .ok outs =>
      if k < outs.length then ({ s with tables := publish s.tables (outs.take k) }, .error .canceled)
      else stmtImpl s st
  | _ => stmtImpl s st

/-- COMMIT: every marked table is written (file) / gets a restore point (temporary table) -/
def commitTables (tables committed : Tables) : List String → Tables
  | [] => committed
  | n :: ns =>
    match lookupT tables n with
    | none => commitTables tables committed ns
    | some t => commitTables tables (setOrAdd committed n t) ns

def commit (s : State) : State :=
  { s with marks := [], committed := commitTables s.tables s.committed s.marks }

def removeTable (ts : Tables) (n : String) : Tables := ts.filter fun e => e.1 != n

/-- ROLLBACK: every marked table goes back to its committed state (file re-read / restore point of a temporary
    table / the session's copy of STDIN); a marked table without committed state was CREATEd in the transaction:
    its file is removed (lib/file/handler.go close: `openType == ForCreate` → os.Remove) and the table is gone -/
def rollbackTables (tables committed : Tables) : List String → Tables
  | [] => tables
  | n :: ns =>
    match lookupT committed n with
    | none => rollbackTables (removeTable tables n) committed ns
    | some t => rollbackTables (setTable tables n t) committed ns

def rollback (s : State) : State :=
  { s with marks := [], tables := rollbackTables s.tables s.committed s.marks }

/-- a history of statements, results dropped -/
def run (s : State) : List Stmt → State
  | [] => s
  | st :: rest => run (stmtImpl s st).1 rest

def Result.isError : Result → Bool
  | .error _ => true
  | .ok _ => false

/-! ## specifications, in the shape of the property -/

/-- INSERT: the cell of column `c` is the value given for the first field named `c`, NULL if none -/
def placeRow (header fields : List String) (vals : Row) : Row :=
  header.map fun c =>
    match firstIdx c fields with
    | none => nullCell
    | some k => vals[k]?.getD nullCell

/-- UPDATE: all SET values are computed from the OLD record `ctx`, then written into the named columns -/
def rewriteRow {ρ : Type} (h : List String) (sets : List (SetItem ρ)) (ctx : ρ) (row : Row) : Row :=
  sets.foldl (fun acc s =>
    match colIndex h s.field, s.expr ctx with
    | .ok j, .ok v => acc.set j v
    | _, _ => acc) row

def condT {ρ : Type} (cond : ρ → Except Err Tern) (r : ρ) : Bool :=
  match cond r with
  | .ok c => isT c
  | .error _ => false

def updateSpecRows (h : List String) (cond : Row → Except Err Tern) (sets : List (SetItem Row)) (rows : List Row) : List Row :=
  rows.map fun r => if condT cond r then rewriteRow h sets r r else r

def deleteSpecRows (cond : Row → Except Err Tern) (rows : List Row) : List Row :=
  rows.filter fun r => !condT cond r

/-- UPDATE over an arbitrary view: the records of the view, in order, rewrite the target record of their id -/
def updateViewRows {ρ : Type} (h : List String) (sets : List (SetItem ρ)) (view : List (Option Nat × ρ)) (rows : List Row) : List Row :=
  view.foldl (fun acc x =>
    match x.1 with
    | none => acc
    | some i => acc.modify i (rewriteRow h sets x.2)) rows

def okRows : List (Except Err Row) → List Row
  | [] => []
  | .ok r :: rest => r :: okRows rest
  | .error _ :: rest => okRows rest

end Csvq.Dml
