/-
  Csvq.Model.JsonStruct — the STRUCTURE MAPPING of the JSON / JSON Lines loaders and writers, in the shape
  of the Go code (core Lean only).  A decoded JSON value (`JS`, Csvq.Model.Json) becomes header + records,
  a table becomes a JSON value — no characters, no tokens.

  reader, JSON       lib/json/query.go `LoadTable` (with the empty query: `Extract` returns the data) +
                     lib/json/conversion.go `ConvertToTableValue`:
                       * the decoded value must be an Array ("json value does not exists for …" otherwise:
                         a single object, a scalar, the empty text are errors);
                       * loop 1 over ALL elements: an element that is no Object is an error ("rows loaded from
                         json must be objects"); the header is the list of member keys in order of first
                         appearance over all elements (`exists` = linear search in the header so far);
                       * loop 2: one record per element, one field per header column: `obj.Exists(column)` ?
                         `ConvertToValue(obj.Value(column))` (the FIRST member of that key) : NULL;
                       * `ConvertToValue`: Number → Float, String, Boolean, Null → NULL, an Array / Object →
                         the String of its compact text `Structure.Encode()` (Csvq.Model.Json.cellOfJS).
  reader, JSON Lines lib/query/load_view.go `loadViewFromJsonLinesFile` (empty query): one value per line; a
                     blank line (`nil`) is skipped; a value that is no Object is an error
                     (`NewJsonLinesStructureError`); `headerList` / `headerMap` grow by the keys of every
                     object in order of arrival, `objectList` collects the objects; after the last line every
                     object gives one record: `Exists(v)` ? `ConvertToValue(Value(v))` : NULL.
                     (The two goroutines are joined by one channel: the order is the order of the lines.)
  reader, `{}`       lib/json/query.go `Extract` with the query `{}` (TableExpr without fields; flag
                     `--json-query {}` / `JSON_TABLE('{}', …)`): a single Object is the one-element array of it,
                     an Array of objects is rebuilt with the union of the keys, each named by its ESCAPED key
                     (`a.b` → `a\.b`: `FieldLabel` / `EscapeIdentifier`; a missing member becomes an explicit
                     `null`), anything else is an error.
  writer             lib/json/conversion.go `ConvertTableValueToJsonStructure` = `ParsePathes` +
                     `ConvertRecordValueToJsonStructure` per record (Csvq.Model.JsonPath `parsePath`, `rowObjP`);
                     `encodeJsonLines` does the same record by record.
-/
import Csvq.Model.JsonPath
namespace Csvq.Json
open Csvq.Csv (Err DCell DTable)

/-! ## go-text/json `Object` -/

/-- `Object.Exists` -/
def objExists (k : List Char) : List (List Char × JS) → Bool
  | [] => false
  | (k', _) :: ms => if k' = k then true else objExists k ms

/-- `Object.Value`: the first member of that key, `none` = Go's `nil` -/
def objValue (k : List Char) : List (List Char × JS) → Option JS
  | [] => none
  | (k', v) :: ms => if k' = k then some v else objValue k ms

/-- `Object.Keys` -/
def objKeys (ms : List (List Char × JS)) : List (List Char) := ms.map (·.1)

/-! ## `ConvertToTableValue` -/

/-- the closure `exists` -/
def existsIn (s : List Char) : List (List Char) → Bool
  | [] => false
  | v :: vs => if s = v then true else existsIn s vs

/-- `for _, k := range keys { if !exists(k, header) { header = append(header, k) } }` -/
def collectKeys (header : List (List Char)) : List (List Char) → List (List Char)
  | [] => header
  | k :: ks => collectKeys (if existsIn k header then header else header ++ [k]) ks

/-- loop 1: `none` = an element that is no object -/
def collectHeader (header : List (List Char)) : List JS → Option (List (List Char))
  | [] => some header
  | .obj ms :: rest => collectHeader (collectKeys header (objKeys ms)) rest
  | _ :: _ => none

/-- one field: `if obj.Exists(column) { ConvertToValue(obj.Value(column)) } else { ConvertToValue(Null{}) }` -/
def fieldOf (canon : List Char → Option (List Char)) (ms : List (List Char × JS)) (column : List Char) : DCell :=
  if objExists column ms then cellOpt canon (objValue column ms) else cellOfJS canon .null

/-- loop 2, one element (`obj, _ := elem.(json.Object)`: the zero Object for anything else — not reached,
    loop 1 has returned) -/
def recordOf (canon : List Char → Option (List Char)) (header : List (List Char)) : JS → List DCell
  | .obj ms => header.map (fieldOf canon ms)
  | _ => header.map (fieldOf canon [])

def convertToTableValue (canon : List Char → Option (List Char)) (array : List JS) : Except Err DTable :=
  match collectHeader [] array with
  | none => .error .parse
  | some header => .ok ⟨header, array.map (recordOf canon header)⟩

/-- `LoadTable` with the empty query on the decoded value (`none` = the empty text, no value) -/
def loadTable (canon : List Char → Option (List Char)) : Option JS → Except Err DTable
  | some (.arr items) => convertToTableValue canon items
  | _ => .error .parse

/-! ## `loadViewFromJsonLinesFile` -/

/-- `headerList` (with `headerMap` = membership in it) and `objectList` -/
structure JlState where
  header : List (List Char)
  objs : List (List (List Char × JS))

/-- one line: `none` = a blank line -/
def jlStep (st : JlState) : Option JS → Except Err JlState
  | none => .ok st
  | some (.obj ms) => .ok ⟨collectKeys st.header (objKeys ms), st.objs ++ [ms]⟩
  | some _ => .error .parse

def jlRun (st : JlState) : List (Option JS) → Except Err JlState
  | [] => .ok st
  | l :: ls =>
    match jlStep st l with
    | .ok st' => jlRun st' ls
    | .error e => .error e

def loadJsonLines (canon : List Char → Option (List Char)) (lines : List (Option JS)) : Except Err DTable :=
  match jlRun ⟨[], []⟩ lines with
  | .ok st => .ok ⟨st.header, st.objs.map fun ms => st.header.map (fieldOf canon ms)⟩
  | .error e => .error e

/-! ## `Extract` with the query `{}` -/

/-- `Extract(Element{Label}, v)` without child: the member, `null` if there is none or `v` is no object -/
def extractElement (label : List Char) : JS → JS
  | .obj ms => if objExists label ms then (objValue label ms).getD .null else .null
  | _ => .null

/-- `EscapeIdentifier`: the path separator and the escape character get a backslash in front -/
def escapeIdent : List Char → List Char
  | [] => []
  | c :: cs => if c = '.' ∨ c = '\\' then '\\' :: c :: escapeIdent cs else c :: escapeIdent cs

/-- `Extract(TableExpr{Fields: nil}, data)`: the members of the rebuilt objects are named `FieldLabel()` = the escaped key
    (a single object is passed on as it is) -/
def extractTable : JS → Option JS
  | .obj ms => some (.arr [.obj ms])
  | .arr items =>
    match collectHeader [] items with
    | none => none
    | some fields => some (.arr (items.map fun v => .obj (fields.map fun f => (escapeIdent f, extractElement f v))))
  | _ => none

/-- `LoadTable` with the query `{}` -/
def loadTableQ (canon : List Char → Option (List Char)) : Option JS → Except Err DTable
  | some v =>
    match extractTable v with
    | some w => loadTable canon (some w)
    | none => .error .parse
  | none => .error .parse      -- `Extract` on nil data: neither Object nor Array

/-! ## the writers, as far as the structure -/

/-- `ConvertTableValueToJsonStructure`: `none` = refused -/
def tableStructure (tb : Table) : Option (List JS) :=
  match mapMOpt parsePath tb.header with
  | none => none
  | some ps => mapMOpt (rowObjP ps) tb.rows

end Csvq.Json
