/-
  Csvq.Model.Session — one csvq process (transaction) over table files and temporary tables, other
  processes committing in between.  Mirrors lib/query/transaction.go (Commit, Rollback,
  ReleaseResources), uncommitted_views.go, load_view.go cacheViewFromFile (cache, reload for update),
  reference_scope.go (temporary tables with restore points), processor.go Execute (auto-commit),
  cli/app.go (deferred AutoRollback).  Table contents are an arbitrary type `C`.
-/
namespace Csvq.Session

abbrev Path := Nat

structure Cached (C : Type) where
  content : C
  forUpdate : Bool     -- loaded under the exclusive lock (the file is locked until the transaction ends)
  deriving Repr

structure Temp (C : Type) where
  cur : C
  restore : C          -- contents at the most recent COMMIT (or at declaration)
  deriving Repr

structure State (C : Type) where
  disk : Path → Option C            -- table files as any process sees them
  cache : Path → Option (Cached C)  -- views loaded by this transaction
  created : Path → Bool             -- uncommitted: created by this transaction
  updated : Path → Bool             -- uncommitted: changed by this transaction
  temps : Path → Option (Temp C)
  tempDirty : Path → Bool           -- temporary table changed since the last commit / rollback

inductive Op (C : Type)
  | select (p : Path)                       -- plain SELECT: load without keeping a lock
  | selectForUpdate (p : Path)
  | dml (p : Path) (f : C → Option C)       -- INSERT / UPDATE / DELETE / ALTER: `none` = the statement fails
  | create (p : Path) (c : C)               -- CREATE TABLE
  | declareTemp (t : Path) (c : C)
  | dmlTemp (t : Path) (f : C → Option C)
  | commit
  | rollback
  | other (p : Path) (c : C)                -- another process commits `c` to file p (only possible while we hold no lock on p)

/-- the file is locked by this transaction (others can neither read nor write it) -/
def locked {C} (s : State C) (p : Path) : Bool :=
  s.created p || (match s.cache p with | some c => c.forUpdate | none => false)

def setFn {β} (f : Path → β) (p : Path) (b : β) : Path → β := fun q => if q = p then b else f q

/-- make sure p is in the cache; reload it under the lock when it is needed for update and was
    loaded by a plain SELECT before (the documented exception of C20).  `none`: file missing. -/
def load {C} (s : State C) (p : Path) (forUpdate : Bool) : Option (State C × C) :=
  match s.cache p with
  | some c =>
    if forUpdate && !c.forUpdate then
      match s.disk p with
      | some d => some ({ s with cache := setFn s.cache p (some ⟨d, true⟩) }, d)
      | none => none
    else some (s, c.content)
  | none =>
    match s.disk p with
    | some d => some ({ s with cache := setFn s.cache p (some ⟨d, forUpdate⟩) }, d)
    | none => none

def doCommit {C} (s : State C) : State C :=
  { disk := fun p => if s.created p || s.updated p then (s.cache p).map (·.content) else s.disk p
    cache := fun _ => none
    created := fun _ => false
    updated := fun _ => false
    temps := fun t => (s.temps t).map fun x => ⟨x.cur, x.cur⟩
    tempDirty := fun _ => false }

def doRollback {C} (s : State C) : State C :=
  { disk := fun p => if s.created p then none else s.disk p
    cache := fun _ => none
    created := fun _ => false
    updated := fun _ => false
    temps := fun t => (s.temps t).map fun x => if s.tempDirty t then ⟨x.restore, x.restore⟩ else x
    tempDirty := fun _ => false }

/-- result of a statement: what a SELECT shows / whether the statement failed -/
inductive Out (C : Type)
  | rows (c : C)
  | ok
  | failed
  deriving Repr

def step {C} (s : State C) : Op C → State C × Out C
  | .select p =>
    match load s p false with
    | some (s', c) => (s', .rows c)
    | none => (s, .failed)
  | .selectForUpdate p =>
    match load s p true with
    | some (s', c) => (s', .rows c)
    | none => (s, .failed)
  | .dml p f =>
    match load s p true with
    | some (s', c) =>
      match f c with
      | some c' =>
        ({ s' with cache := setFn s'.cache p (some ⟨c', true⟩),
                   updated := if s'.created p then s'.updated else setFn s'.updated p true }, .ok)
      | none => (s', .failed)      -- a failing statement publishes nothing (C08)
    | none => (s, .failed)
  | .create p c =>
    if (s.disk p).isSome || (s.cache p).isSome then (s, .failed)
    else ({ s with disk := setFn s.disk p (some c)   -- the (locked) file exists from now on
                   cache := setFn s.cache p (some ⟨c, true⟩), created := setFn s.created p true }, .ok)
  | .declareTemp t c =>
    if (s.temps t).isSome then (s, .failed)
    else ({ s with temps := setFn s.temps t (some ⟨c, c⟩) }, .ok)
  | .dmlTemp t f =>
    match s.temps t with
    | some x =>
      match f x.cur with
      | some c' => ({ s with temps := setFn s.temps t (some ⟨c', x.restore⟩), tempDirty := setFn s.tempDirty t true }, .ok)
      | none => (s, .failed)
    | none => (s, .failed)
  | .commit => (doCommit s, .ok)
  | .rollback => (doRollback s, .ok)
  | .other p c => if locked s p then (s, .failed) else ({ s with disk := setFn s.disk p (some c) }, .ok)

def runOps {C} (s : State C) (ops : List (Op C)) : State C := ops.foldl (fun s op => (step s op).1) s

/-- how the run ended -/
inductive Ending | normal | error | exit | interrupt
  deriving DecidableEq, Repr

/-- Processor.Execute auto-commits iff the procedure ended normally; every other ending goes through
    the deferred AutoRollback of cli/app.go -/
def finish {C} (s : State C) : Ending → State C
  | .normal => doCommit s
  | _ => doRollback s

def fresh {C} (disk : Path → Option C) : State C :=
  { disk := disk, cache := fun _ => none, created := fun _ => false, updated := fun _ => false,
    temps := fun _ => none, tempDirty := fun _ => false }

end Csvq.Session
