/-
  Csvq.Model.ParseTimeUser — value.StrToTime (lib/value/conv.go) WITH user-defined formats (--datetime-format /
  @@DATETIME_FORMAT): after trimming, the formats of the list are tried in the given order, the first one that
  parses the whole text wins; only then the built-in dispatch of Model/ParseTime.lean.  A format is turned into a
  Go layout by ConvertDatetimeFormat (%Y → 2006, %m → 01, …) and memoised in the process-wide DatetimeFormats
  cache (DatetimeFormatMap.Get): that cache is the ONLY state the conversion touches, and it is modelled here so
  that "the result is a function of (text, formats) only" is a theorem about a stateful function, not a tautology.
  Items modelled: %Y %y %m %c %d %e %b %H %i %s (a fraction after the seconds is accepted as Go does); literal text
  between them is punctuation / spaces.  Session zone UTC.
-/
import Csvq.Model.ParseTime
namespace Csvq
namespace PT

/-- the standard items a `%x` item of a csvq format becomes in the Go layout -/
def itemOf (c : Nat) : Option (List Std) :=
  if c = 89 then some [.longYear]            -- %Y  2006
  else if c = 121 then some [.year2]         -- %y  06
  else if c = 109 then some [.zeroMonth]     -- %m  01
  else if c = 99 then some [.numMonth]       -- %c  1
  else if c = 100 then some [.zeroDay]       -- %d  02
  else if c = 101 then some [.numDay]        -- %e  2
  else if c = 98 then some [.month3]         -- %b  Jan
  else if c = 72 then some [.hour]           -- %H  15
  else if c = 105 then some [.zeroMinute]    -- %i  04
  else if c = 115 then some [.zeroSecond, .frac9]  -- %s  05 (time.Parse takes a fraction that follows the seconds)
  else none

/-- a format as layout chunks: `pre` is the literal text collected since the last item -/
def layoutGo : Bytes → Bytes → Layout
  | [], pre => [(pre, none)]
  | 37 :: c :: rest, pre =>
    match itemOf c with
    | some (i :: more) => (pre, some i) :: (more.map fun j => (([] : Bytes), some j)) ++ layoutGo rest []
    | _ => layoutGo rest (pre ++ [c])
  | b :: rest, pre => layoutGo rest (pre ++ [b])

def layoutOf (f : Bytes) : Layout := layoutGo f []

/-- only formats made of the modelled items and of literal text that Go's layout scanner leaves alone -/
def supportedFormat : Bytes → Bool
  | [] => true
  | 37 :: c :: rest => (itemOf c).isSome && supportedFormat rest
  | b :: rest => (b = 32 || b = 44 || b = 45 || b = 46 || b = 47 || b = 58) && supportedFormat rest

/-- the formats in the given order, first match wins -/
def userFormats : List Bytes → Bytes → Option Int
  | [], _ => none
  | f :: fs, t =>
    match timeParse (layoutOf f) t with
    | some x => some x
    | none => userFormats fs t

/-- StrToTime(s, formats, UTC): a function of the text and the format list -/
def strToTimeUser (fmts : List Bytes) (s : Bytes) : Option Int :=
  let t := PF.trimSpace s
  match userFormats fmts t with
  | some x => some x
  | none => strToTimeTrimmed t

/-! ### the same with the process-wide memo cache of DatetimeFormatMap.Get threaded through -/

abbrev Cache := List (Bytes × Layout)

def Cache.find (c : Cache) (f : Bytes) : Option Layout :=
  match c with
  | [] => none
  | (k, v) :: rest => if k = f then some v else Cache.find rest f

/-- DatetimeFormatMap.Get: the stored layout, or convert and store -/
def Cache.get (c : Cache) (f : Bytes) : Layout × Cache :=
  match c.find f with
  | some l => (l, c)
  | none => (layoutOf f, (f, layoutOf f) :: c)

/-- what every reachable cache satisfies: an entry holds the conversion of its key -/
def Cache.Valid (c : Cache) : Prop := ∀ f l, c.find f = some l → l = layoutOf f

def userFormatsS (c : Cache) : List Bytes → Bytes → Option Int × Cache
  | [], _ => (none, c)
  | f :: fs, t =>
    match timeParse (c.get f).1 t with
    | some x => (some x, (c.get f).2)
    | none => userFormatsS (c.get f).2 fs t

def strToTimeS (c : Cache) (fmts : List Bytes) (s : Bytes) : Option Int × Cache :=
  let t := PF.trimSpace s
  match userFormatsS c fmts t with
  | (some x, c') => (some x, c')
  | (none, c') => (strToTimeTrimmed t, c')

/-- a column of texts converted one after the other in one process (any order the rows happen to be taken in) -/
def convertAll (c : Cache) (fmts : List Bytes) : List Bytes → List (Option Int) × Cache
  | [] => ([], c)
  | s :: rest =>
    let r := strToTimeS c fmts s
    let rs := convertAll r.2 fmts rest
    (r.1 :: rs.1, rs.2)

end PT
end Csvq
