/-
  Csvq.Model.Rel — the relational operators of SELECT, in the shape of the Go code
  (lib/query/view.go `filter`/`Fix`, join.go `CrossJoin`/`InnerJoin`/`OuterJoin`,
  load_view.go `joinViews` (USING / NATURAL merge), query.go `selectSetForRecursion`),
  and their specifications in the shape of property C03.

  A record is a list of cells; a cell carries the coercion profile of its value (Model/Basic.lean),
  the NULL cell is `profileOf .null`.  Every parallel operator works on *worker chunks*: the record
  range of the outer loop is cut into contiguous chunks, one per goroutine
  (`GoroutineTaskManager.RecordRange`), and the per-worker results are put together in worker order.
  Conditions are arbitrary functions `Row → Tern` here; the concrete condition language at the end
  of the file is used by the correspondence driver only.
-/
import Csvq.Model.Float
import Csvq.Model.Unicode
import Csvq.Model.Like
namespace Csvq.Rel
open Csvq

abbrev Row := List Profile

/-- the NULL cell -/
def nullP : Profile := profileOf .null

/-- `n` NULL cells -/
def nulls (n : Nat) : Row := List.replicate n nullP

abbrev Cond := Row → Tern

/-- `primary.Ternary() == ternary.TRUE` -/
def holds (c : Cond) (r : Row) : Bool :=
  match c r with
  | .T => true
  | _ => false

/-- `xs.mapM f` in `Option`, written by recursion (a `none` = the Go code would index out of range) -/
def mapOpt {α β} (f : α → Option β) : List α → Option (List β)
  | [] => some []
  | a :: as =>
    match f a, mapOpt f as with
    | some b, some bs => some (b :: bs)
    | _, _ => none

/-! ## WHERE / HAVING: `View.filter`

  `EvaluateSequentially` lets worker k store `results[i]` for the records i of its range; afterwards
  one sequential loop moves the kept records to the front. -/

/-- the compaction loop of `filter` -/
def compact : List Bool → List Row → List Row
  | true :: bs, r :: rs => r :: compact bs rs
  | false :: bs, _ :: rs => compact bs rs
  | _, _ => []

def filterImpl (chunks : List (List Row)) (p : Cond) : List Row :=
  compact (chunks.map (fun c => c.map (holds p))).flatten chunks.flatten

/-- a row is kept iff its condition is TRUE; order kept -/
def filterSpec (rows : List Row) (p : Cond) : List Row :=
  rows.filter (fun r => p r = .T)

/-! ## CROSS JOIN: `records[index*len(R)+i] = L[index] ++ R[i]`, slots filled by `Run` -/

def crossImpl (chunks : List (List Row)) (R : List Row) : List Row :=
  ((chunks.map (fun c => c.map (fun l => R.map (fun r => l ++ r)))).flatten).flatten

def crossSpec (L R : List Row) : List Row :=
  L.flatMap (fun l => R.map (fun r => l ++ r))

/-! ## INNER JOIN: every worker runs the nested loop over its chunk, appending to its own list;
    `MergeRecordSetList` concatenates the lists in worker order -/

/-- inner loop: `for j := range joinView` -/
def innerRow (c : Cond) (l : Row) : List Row → List Row
  | [] => []
  | r :: rs => if holds c (l ++ r) then (l ++ r) :: innerRow c l rs else innerRow c l rs

/-- `joinFn(thIdx)`: `for i := start; i < end` -/
def innerWorker (c : Cond) (R : List Row) : List Row → List Row
  | [] => []
  | l :: ls => innerRow c l R ++ innerWorker c R ls

def innerImpl (chunks : List (List Row)) (R : List Row) (c : Cond) : List Row :=
  (chunks.map (innerWorker c R)).flatten

def innerSpec (L R : List Row) (c : Cond) : List Row :=
  L.flatMap (fun l => (R.filter (fun r => c (l ++ r) = .T)).map (fun r => l ++ r))

/-! ## OUTER JOIN

  For RIGHT the code swaps the two views, so the preserved side is always the outer loop.
  `o` = record of the outer loop (preserved side), `j` = record of the inner loop. -/

inductive Dir | left | right | full
  deriving DecidableEq, Repr, Inhabited

/-- the merged record handed to the condition: always (left table ++ right table) -/
def mergeRec : Dir → Row → Row → Row
  | .right, o, j => j ++ o
  | _, o, j => o ++ j

/-- the record appended when the outer-loop record found no partner; `wj` = FieldLen of the inner-loop view -/
def padRec : Dir → Nat → Row → Row
  | .right, wj, o => nulls wj ++ o
  | _, wj, o => o ++ nulls wj

/-- `if direction == FULL && !joinViewMatches[j] { joinViewMatches[j] = true }` -/
def setFlag : Dir → Bool → Bool
  | .full, _ => true
  | _, f => f

/-- inner loop for one outer-loop record over the inner view with the worker's `joinViewMatches`
    flags attached: (records appended, flags afterwards, `match`) -/
def outerInner (dir : Dir) (c : Cond) (o : Row) : List (Row × Bool) → List Row × List (Row × Bool) × Bool
  | [] => ([], [], false)
  | (j, f) :: js =>
    let r := outerInner dir c o js
    if holds c (mergeRec dir o j) then (mergeRec dir o j :: r.1, (j, setFlag dir f) :: r.2.1, true)
    else (r.1, (j, f) :: r.2.1, r.2.2)

/-- `joinFn(thIdx)` of OuterJoin: (records of this worker, its `joinViewMatches`) -/
def outerWorker (dir : Dir) (c : Cond) (wj : Nat) : List Row → List (Row × Bool) → List Row × List (Row × Bool)
  | [], fl => ([], fl)
  | o :: os, fl =>
    let r := outerInner dir c o fl
    let rest := outerWorker dir c wj os r.2.1
    (r.1 ++ (if r.2.2 then [] else [padRec dir wj o]) ++ rest.1, rest.2)

/-- `for _, joinViewMatches := range joinViewMatchesList { if joinViewMatches[i] … }` for every i -/
def orFlags (n : Nat) (ls : List (List Bool)) : List Bool :=
  ls.foldl (fun acc l => List.zipWith (fun a b => a || b) acc l) (List.replicate n false)

/-- `appendIndices`: the inner-view records whose flag stayed false, in order -/
def unmatchedOther : List Row → List Bool → List Row
  | j :: js, false :: fs => j :: unmatchedOther js fs
  | _ :: js, true :: fs => unmatchedOther js fs
  | _, _ => []

/-- OuterJoin.  `chunks` cut the preserved side (for RIGHT: the right table), `other` is the inner-loop
    view, `wo` / `wj` are the header widths of the two (needed for NULL padding also when a view is empty). -/
def outerImpl (dir : Dir) (wo wj : Nat) (chunks : List (List Row)) (other : List Row) (c : Cond) : List Row :=
  let ws := chunks.map (fun ch => outerWorker dir c wj ch (other.map (fun j => (j, false))))
  let recs := (ws.map (fun w => w.1)).flatten
  match dir with
  | .full =>
    let flags := orFlags other.length (ws.map (fun w => w.2.map (fun p => p.2)))
    recs ++ (unmatchedOther other flags).map (fun j => nulls wo ++ j)
  | _ => recs

/-- LEFT: every left row once per partner, or once NULL-padded when it has none; left-major order -/
def leftSpec (wr : Nat) (L R : List Row) (c : Cond) : List Row :=
  L.flatMap (fun l =>
    let m := R.filter (fun r => c (l ++ r) = .T)
    if m.isEmpty then [l ++ nulls wr] else m.map (fun r => l ++ r))

/-- RIGHT: the same with the right table preserved; right-major order (the code loops over it) -/
def rightSpec (wl : Nat) (L R : List Row) (c : Cond) : List Row :=
  R.flatMap (fun r =>
    let m := L.filter (fun l => c (l ++ r) = .T)
    if m.isEmpty then [nulls wl ++ r] else m.map (fun l => l ++ r))

/-- FULL: LEFT, then the right rows without any partner, NULL-padded on the left -/
def fullSpec (wl wr : Nat) (L R : List Row) (c : Cond) : List Row :=
  leftSpec wr L R c ++
    (R.filter (fun r => L.all (fun l => !(decide (c (l ++ r) = .T))))).map (fun r => nulls wl ++ r)

/-! ## select list: `View.Fix` copies `record[j] = RecordSet[index][selectFields[j]]`, slot-wise -/

def pick (idxs : List Nat) (r : Row) : Option Row := mapOpt (fun i => r[i]?) idxs

def projectImpl (chunks : List (List Row)) (idxs : List Nat) : Option (List Row) :=
  (mapOpt (mapOpt (pick idxs)) chunks).map List.flatten

def projectSpec (rows : List Row) (idxs : List Nat) : Option (List Row) :=
  mapOpt (pick idxs) rows

/-! ## USING / NATURAL: `joinViews` after the join

  `pairs` = (include index, exclude index) into the joined record, in USING order.  The new record is
  the include columns first, then every column that is neither include nor exclude in header order;
  an include cell that is NULL is replaced by its exclude cell (`alternatives`, a Go map). -/

/-- `alternatives[idx]` (a Go map filled in USING order: the last assignment wins) -/
def altOf : List (Nat × Nat) → Nat → Option Nat
  | [], _ => none
  | (i, e) :: ps, idx =>
    match altOf ps idx with
    | some e' => some e'
    | none => if i = idx then some e else none

def includes (pairs : List (Nat × Nat)) : List Nat := pairs.map (fun p => p.1)
def excludes (pairs : List (Nat × Nat)) : List Nat := pairs.map (fun p => p.2)

/-- the columns that are neither include nor exclude, in header order -/
def restIndices (w : Nat) (pairs : List (Nat × Nat)) : List Nat :=
  (List.range w).filter (fun i => !((excludes pairs).contains i || (includes pairs).contains i))

def fieldIndices (w : Nat) (pairs : List (Nat × Nat)) : List Nat :=
  includes pairs ++ restIndices w pairs

def usingCell (pairs : List (Nat × Nat)) (r : Row) (idx : Nat) : Option Profile :=
  match r[idx]? with
  | none => none
  | some v =>
    if (includes pairs).contains idx && v.isNull then
      match altOf pairs idx with
      | some e => r[e]?
      | none => none
    else some v

def usingRow (w : Nat) (pairs : List (Nat × Nat)) (r : Row) : Option Row :=
  mapOpt (usingCell pairs r) (fieldIndices w pairs)

def usingImpl (w : Nat) (pairs : List (Nat × Nat)) (chunks : List (List Row)) : Option (List Row) :=
  (mapOpt (mapOpt (usingRow w pairs)) chunks).map List.flatten

/-- the merged column: the include cell, or the exclude cell when the include cell is NULL -/
def coalesceAt (r : Row) (p : Nat × Nat) : Option Profile :=
  match r[p.1]? with
  | none => none
  | some a => if a.isNull then r[p.2]? else some a

/-- merged columns once, first, coalesced; then the remaining columns of both sides in order -/
def usingSpecRow (w : Nat) (pairs : List (Nat × Nat)) (r : Row) : Option Row :=
  match mapOpt (coalesceAt r) pairs, pick (restIndices w pairs) r with
  | some m, some rest => some (m ++ rest)
  | _, _ => none

def usingSpec (w : Nat) (pairs : List (Nat × Nat)) (rows : List Row) : Option (List Row) :=
  mapOpt (usingSpecRow w pairs) rows

/-! ## recursive CTE with UNION ALL: `selectSetForRecursion`

  `step g` = the right-hand query evaluated with the recursive table bound to generation `g`
  (`RecursiveTmpView`).  Every call counts against `--limit-recursion` (`fuel`); `none` = limit exceeded. -/

def recLoop (step : List Row → List Row) : Nat → List Row → List Row → Option (List Row)
  | 0, _, _ => none
  | fuel + 1, acc, g =>
    let r := step g
    if r.isEmpty then some acc else recLoop step fuel (acc ++ r) r

def recursiveImpl (step : List Row → List Row) (fuel : Nat) (anchor : List Row) : Option (List Row) :=
  recLoop step fuel anchor anchor

/-- the k-th generation -/
def generation (step : List Row → List Row) (anchor : List Row) : Nat → List Row
  | 0 => anchor
  | k + 1 => step (generation step anchor k)

/-- generations 0..k concatenated -/
def generationsUpTo (step : List Row → List Row) (anchor : List Row) (k : Nat) : List Row :=
  ((List.range (k + 1)).map (generation step anchor)).flatten

/-! ## recursive CTE with UNION (distinct): `selectSetForRecursion` + `View.Union(all = false)`

  As above, but after every non-empty step the accumulated view is merged with the step's records and
  de-duplicated by comparison key (first occurrence kept).  The working table of the next step is the raw
  step result (NOT reduced by what is already known): on a cyclic graph the steps never become empty and
  the recursion ends in the limit error.  The anchor is de-duplicated only if a step produced records. -/

/-- keep the first record of every key; `seen` = keys already emitted -/
def dedupAux {κ : Type} [DecidableEq κ] (key : Row → κ) : List κ → List Row → List Row
  | _, [] => []
  | seen, x :: xs => if key x ∈ seen then dedupAux key seen xs else x :: dedupAux key (key x :: seen) xs

def dedupBy {κ : Type} [DecidableEq κ] (key : Row → κ) (rows : List Row) : List Row := dedupAux key [] rows

def recLoopU {κ : Type} [DecidableEq κ] (key : Row → κ) (step : List Row → List Row) :
    Nat → List Row → List Row → Option (List Row)
  | 0, _, _ => none
  | fuel + 1, acc, g =>
    let r := step g
    if r.isEmpty then some acc else recLoopU key step fuel (dedupBy key (acc ++ r)) r

def recursiveUnionImpl {κ : Type} [DecidableEq κ] (key : Row → κ) (step : List Row → List Row) (fuel : Nat)
    (anchor : List Row) : Option (List Row) :=
  recLoopU key step fuel anchor anchor

/-! ## LATERAL (`loadView`, parser.Join with a LATERAL right side)

  For every left record the sub-select is evaluated with that record in scope and joined to the one-row
  view holding the record (`joinViews`); `app l` = (header width of that join, its records).  The result
  header is assigned inside the per-record callback, only `if rIdx == 0` — with an empty left table the
  callback never runs and the header stays empty (width 0).  The records are put together in left order. -/

def lateralImpl (L : List Row) (app : Row → Nat × List Row) : Nat × List Row :=
  ((match L with
    | [] => 0
    | l :: _ => (app l).1),
   (L.map (fun l => (app l).2)).flatten)

/-- per-left-row application; the header is that of (left ++ sub-select) whatever the left table holds -/
def lateralSpec (w : Nat) (L : List Row) (app : Row → Nat × List Row) : Nat × List Row :=
  (w, L.flatMap (fun l => (app l).2))

/-! ## concrete condition language (correspondence driver only)

  Column references by (side, index): side 0 = the only / the left source, side 1 = the right source of
  a join; `lw` = width of the left source.  Evaluated with the C06 functions. -/

/-- outcome of a failed field resolution (`errFieldAmbiguous`, `errFieldNotExist`) -/
inductive ResErr | ambiguous | notExist | tooManyRecords | tooManyFields
  deriving Repr, DecidableEq, Inhabited

inductive Expr
  | col (side idx : Nat)
  | lit (p : Profile)
  | ref (view : Option String) (name : String)   -- a field reference by name, not yet resolved
  | bad (e : ResErr)                              -- a field reference whose resolution failed
  | scalar (s : Nat)                              -- scalar sub-query number s of the enclosing query
  | num (view : String) (number : Int)            -- a column number `t.2`, not yet resolved
  deriving Repr, Inhabited

inductive CondE
  | cmp (op : COp) (a b : Expr)
  | and (a b : CondE)
  | or (a b : CondE)
  | not (a : CondE)
  | isNull (neg : Bool) (a : Expr)
  | between (neg : Bool) (a lo hi : Expr)
  | inList (neg : Bool) (a : Expr) (l : List Profile)
  | truth (a : Expr)
  | like (neg : Bool) (a pat : Expr)               -- a [NOT] LIKE pat (Model/Like.lean: comparison.go Like)
  | exists (s : Nat)                               -- EXISTS (sub-query s)
  | inSub (neg : Bool) (a : Expr) (s : Nat)        -- a [NOT] IN (sub-query s)
  | anySub (op : COp) (a : Expr) (s : Nat)         -- a op ANY (sub-query s)
  | allSub (op : COp) (a : Expr) (s : Nat)         -- a op ALL (sub-query s)
  deriving Repr, Inhabited

def evalExpr (lw : Nat) (r : Row) : Expr → Profile
  | .col side idx => (r[if side = 0 then idx else lw + idx]?).getD nullP
  | .lit p => p
  | .ref _ _ => nullP
  | .bad _ => nullP
  | .scalar _ => nullP
  | .num _ _ => nullP

/-- a ternary result as a value (`value.NewTernary`) -/
def ternP (t : Tern) : Profile := profileOf (.tern t)

def evalCond (lw : Nat) (r : Row) : CondE → Tern
  | .cmp op a b => evalComparison op (evalExpr lw r a) (evalExpr lw r b)
  | .and a b => evalAnd (ternP (evalCond lw r a)) (ternP (evalCond lw r b))
  | .or a b => evalOr (ternP (evalCond lw r a)) (ternP (evalCond lw r b))
  | .not a => evalNot (ternP (evalCond lw r a))
  | .isNull neg a => evalIs neg (evalExpr lw r a) nullP
  | .between neg a lo hi => evalBetween neg (evalExpr lw r a) (evalExpr lw r lo) (evalExpr lw r hi)
  | .inList neg a l => evalIn neg (evalExpr lw r a) l
  | .truth a => (evalExpr lw r a).tern
  | .like neg a p => Like.evalLike neg (evalExpr lw r a) (evalExpr lw r p)
  | .exists _ => .U
  | .inSub _ _ _ => .U
  | .anySub _ _ _ => .U
  | .allSub _ _ _ => .U

/-! ## field resolution by name: `Header.FieldIndex` (header.go)

  A header field carries the view (table alias) it belongs to, its column name and `IsJoinColumn` (set on the
  merged column of a USING / NATURAL join while the join's own query is evaluated; `View.Fix` clears it when
  the result becomes a derived table / CTE / final result).  A qualified reference `v.c` must match view and
  column; an unqualified `c` matches by column, a join column wins at once, two matches are AMBIGUOUS.
  While a select list is evaluated the `AS` names of its earlier items count as further names of their columns. -/

structure HField where
  view : String
  name : String
  isJoin : Bool
  aliases : List String := []   -- `AS` names given by earlier items of the select list being evaluated
  number : Nat := 0             -- position of the column in its table (1-based; 0 = none: join column, computed)
  fromTable : Bool := true      -- IsFromTable: a column of a table (not the internal id, not a computed column)
  identifier : String := ""     -- formatted text of the expression a computed column stands for
  deriving Repr, DecidableEq, Inhabited

/-- the UTF-8 bytes of a text -/
def utf8 (s : String) : Bytes := s.toUTF8.toList.map UInt8.toNat

/-- `strings.EqualFold` (Model/Unicode.lean: rune by rune — equal, an ASCII case pair, or reached by walking the
    SimpleFold orbit of the toolchain's Unicode tables) -/
def eqFold (a b : String) : Bool := Uni.equalFold (utf8 a) (utf8 b)

/-- `strings.TrimSpace` (ASCII white space; the column texts of header and reference are trimmed before they are compared) -/
def trimSpace (s : String) : String :=
  String.ofList ((s.toList.dropWhile Char.isWhitespace).reverse.dropWhile Char.isWhitespace).reverse

/-- `strings.EqualFold(strings.TrimSpace(h[i].Column), column)` -/
def colEq (f : HField) (column : String) : Bool := eqFold (trimSpace f.name) column

/-- `name` is the trimmed column text of the reference -/
def fieldMatches (view : Option String) (name : String) (f : HField) : Bool :=
  match view with
  | some v => eqFold f.view v && colEq f name
  | none => colEq f name || f.aliases.any (fun a => eqFold name a)

/-- `isEqual && h[i].IsJoinColumn` of an unqualified reference: stop here -/
def joinWins (view : Option String) (name : String) (f : HField) : Bool :=
  view.isNone && colEq f name && f.isJoin

/-- the loop of `FieldIndex`: `i` = current position, `idx` = the match found so far -/
def fieldIndexGo (view : Option String) (name : String) : List HField → Nat → Option Nat → Except ResErr Nat
  | [], _, none => .error .notExist
  | [], _, some k => .ok k
  | f :: fs, i, idx =>
    if fieldMatches view name f then
      if joinWins view name f then .ok i      -- `idx = i; break`
      else match idx with
        | some _ => .error .ambiguous
        | none => fieldIndexGo view name fs (i + 1) (some i)
    else fieldIndexGo view name fs (i + 1) idx

def fieldIndex (h : List HField) (view : Option String) (name : String) : Except ResErr Nat :=
  fieldIndexGo view (trimSpace name) h 0 none

/-- `View.Fix` (labels = select labels) : the flags of the join are gone -/
def fixHeader (labels : List String) (h : List HField) : List HField :=
  List.zipWith (fun (f : HField) l => { view := f.view, name := l, isJoin := false, aliases := [] }) h labels

/-- `Header.Update(alias, nil)`: a derived table / CTE / aliased table is seen under its alias -/
def aliasHeader (alias : String) (h : List HField) : List HField :=
  h.map (fun f => { f with view := alias })

/-- `joinViews` on the header: the include columns first, as join columns without a view; then the rest -/
def usingHeader (w : Nat) (pairs : List (Nat × Nat)) (h : List HField) : List HField :=
  ((includes pairs).filterMap (fun i => (h[i]?).map (fun f => { view := "", name := f.name, isJoin := true }))) ++
    ((restIndices w pairs).filterMap (fun i => h[i]?))

/-! ### which object a FROM name denotes: `loadObject` (load_view.go)

  Order of the tests: the working view of the recursive CTE being evaluated, a common table expression
  (inline table) of this or an enclosing query, a temporary table of the session, a file. -/

inductive TKind | recursive | cte | temp | file
  deriving Repr, DecidableEq, Inhabited

def nameIn (names : List String) (n : String) : Bool := names.any (fun m => eqFold m n)

def tableKind (recName : Option String) (ctes temps : List String) (n : String) : TKind :=
  if (match recName with | some r => eqFold r n | none => false) then .recursive
  else if nameIn ctes n then .cte
  else if nameIn temps n then .temp
  else .file

/-! ### what a scope inherits: `createScope` / `CreateNode` / `CreateChild` (reference_scope.go)

  `loadObject` consults the scope it is called with.  Every query nested in another one runs in a scope DERIVED
  from the enclosing one: a sub-query evaluated for a record (WHERE / select list / LATERAL: `createScope`), a
  query or derived table of its own (`CreateNode`: a new, empty layer of common table expressions on top), a
  block (`CreateChild`).  All three copy `RecursiveTable`, `RecursiveTmpView` and `RecursiveCount` (and the
  file-path cache and the statement's time stamp); none copies `recursionRoot`, the mark `selectQuery` puts on the
  scope of the recursive table's own query - so only THAT query's set operator is run as the recursion, a set
  operator anywhere below (sub-queries, derived tables, a parenthesised right-hand side) is an ordinary one; `selectSetForRecursion` stores the records of the step just
  computed in `RecursiveTmpView` before the next step is evaluated.  So, inside the recursive member of
  `WITH RECURSIVE r`, the name `r` denotes the records of the previous iteration wherever it is written - a
  second time in the FROM list, in a derived table, in a sub-query evaluated per record at any depth - and no
  common table expression, temporary table or file called `r` is looked at.  Inside the anchor member
  `RecursiveTmpView` is still nil: there the name is what it was outside. -/

structure NameScope where
  recName : Option String          -- RecursiveTable.Name
  working : Option (List Row)      -- RecursiveTmpView: the records of the previous iteration
  ctes : List String               -- inline tables of all node layers, innermost first
  temps : List String              -- temporary tables of all blocks
  limitCount : Nat := 0            -- *RecursiveCount (shared)
  root : Bool := false             -- recursionRoot: this is the scope of the recursive table's OWN query

inductive ScopeStep
  | record                          -- createScope: one more record on the stack of outer records
  | node (defined : List String)    -- CreateNode, then the WITH clause of that query defines these names
  | child                           -- CreateChild

/-- the derived scope: the three recursion fields are inherited by every constructor, `recursionRoot` by none -/
def NameScope.derive (s : NameScope) : ScopeStep → NameScope
  | .record => { recName := s.recName, working := s.working, ctes := s.ctes, temps := s.temps, limitCount := s.limitCount, root := false }
  | .node defined => { recName := s.recName, working := s.working, ctes := defined ++ s.ctes, temps := s.temps, limitCount := s.limitCount, root := false }
  | .child => { recName := s.recName, working := s.working, ctes := [], temps := s.temps, limitCount := s.limitCount, root := false }

def NameScope.deriveAll (s : NameScope) (steps : List ScopeStep) : NameScope := steps.foldl NameScope.derive s

/-- the test of `loadObject`: the working view only when there is one -/
def NameScope.kindOf (s : NameScope) (n : String) : TKind :=
  tableKind (match s.working with | some _ => s.recName | none => none) s.ctes s.temps n

/-- what the name stands for: the previous iteration's records, or an object found by `tableKind` -/
inductive Denotation
  | previousIteration (rows : List Row)
  | object (k : TKind)

def NameScope.denotes (s : NameScope) (n : String) : Denotation :=
  match s.working, s.kindOf n with
  | some g, .recursive => .previousIteration g
  | _, k => .object k

/-- the scope of the recursive table's own query `anchor UNION [ALL] member` (`InlineTableMap.Set` derives a node
    and sets RecursiveTable; `selectQuery` derives the query's node and marks it as the recursion root;
    `selectSetForRecursion` stores the working view there) -/
def NameScope.forRecQuery (s : NameScope) (r : String) (working : Option (List Row)) : NameScope :=
  { ((s.derive (.node [])).derive (.node [])) with recName := some r, working := working, root := true }

/-- the scope of the k-th step: a node derived from the query's scope for the right-hand side -/
def NameScope.forStep (s : NameScope) (r : String) (g : List Row) : NameScope :=
  (s.forRecQuery r (some g)).derive (.node [])

/-- the scope of the anchor member (the left-hand side is evaluated in the query's own scope): RecursiveTable is
    set, RecursiveTmpView is not -/
def NameScope.forAnchor (s : NameScope) (r : String) : NameScope := s.forRecQuery r none

/-- `selectSet`: a set operator met in this scope is run as the recursion (anything else: an ordinary UNION /
    EXCEPT / INTERSECT of its two operands, each evaluated in the scope where it stands) -/
def NameScope.runsAsRecursion (s : NameScope) : Bool := s.recName.isSome && s.root

/-! #### a parenthesised right-hand side `anchor UNION ALL (m1 <op> m2)`

  The right-hand side is a query of its own (a node without the root mark): `m1` and `m2` are both evaluated
  with the working view of the step, their results combined by the ordinary operator, and THAT is the step. -/

def twoMemberStep (combine : List Row → List Row → List Row) (m1 m2 : List Row → List Row) : List Row → List Row :=
  fun g => combine (m1 g) (m2 g)

/-! ### conditions with field references by name; resolution errors surface only where the Go code evaluates

  `resolveCond` replaces every reference by its column (or by the error); `evalCondE` then evaluates with
  the short-circuits of eval.go: a comparison / BETWEEN whose left operand is NULL does not look at the other
  operands, BETWEEN whose lower test is FALSE does not look at the upper bound, AND / OR stop at FALSE / TRUE. -/

def resolveExpr (h : List HField) : Expr → Expr
  | .ref v n =>
    match fieldIndex h v n with
    | .ok i => .col 0 i
    | .error e => .bad e
  | e => e

def resolveCond (h : List HField) : CondE → CondE
  | .cmp op a b => .cmp op (resolveExpr h a) (resolveExpr h b)
  | .and a b => .and (resolveCond h a) (resolveCond h b)
  | .or a b => .or (resolveCond h a) (resolveCond h b)
  | .not a => .not (resolveCond h a)
  | .isNull neg a => .isNull neg (resolveExpr h a)
  | .between neg a lo hi => .between neg (resolveExpr h a) (resolveExpr h lo) (resolveExpr h hi)
  | .inList neg a l => .inList neg (resolveExpr h a) l
  | .truth a => .truth (resolveExpr h a)
  | .like neg a p => .like neg (resolveExpr h a) (resolveExpr h p)
  | .exists s => .exists s
  | .inSub neg a s => .inSub neg (resolveExpr h a) s
  | .anySub op a s => .anySub op (resolveExpr h a) s
  | .allSub op a s => .allSub op (resolveExpr h a) s

def exprPure : Expr → Bool
  | .col _ _ => true
  | .lit _ => true
  | _ => false

/-- no reference by name and no failed reference inside -/
def condPure : CondE → Bool
  | .cmp _ a b => exprPure a && exprPure b
  | .and a b => condPure a && condPure b
  | .or a b => condPure a && condPure b
  | .not a => condPure a
  | .isNull _ a => exprPure a
  | .between _ a lo hi => exprPure a && exprPure lo && exprPure hi
  | .inList _ a _ => exprPure a
  | .truth a => exprPure a
  | .like _ a p => exprPure a && exprPure p
  | _ => false

/-! ### sub-queries inside expressions (eval.go: evalSubqueryForValue, evalExists, evalSubqueryForArray)

  The sub-queries of a condition are numbered; `subs s` is the result of sub-query `s` for the record at hand
  (header width, records) - it is evaluated anew for every record, with the record in scope (correlation). -/

abbrev SubEnv := Nat → Except ResErr (Nat × List Row)

def noSubs : SubEnv := fun _ => .error .notExist

/-- scalar sub-query: more than one field / record is an error, no record is NULL -/
def scalarOf (res : Nat × List Row) : Except ResErr Profile :=
  if 1 < res.1 then .error .tooManyFields
  else match res.2 with
    | [] => .ok nullP
    | [r] => .ok ((r[0]?).getD nullP)
    | _ :: _ :: _ => .error .tooManyRecords

/-- the list a sub-query stands for in IN / ANY / ALL: its only column -/
def listOf (res : Nat × List Row) : Except ResErr (List Profile) :=
  if 1 < res.1 then .error .tooManyFields
  else .ok (res.2.map (fun r => (r[0]?).getD nullP))

def existsOf (res : Nat × List Row) : Tern := Tern.ofBool (!res.2.isEmpty)

def evalExprE (subs : SubEnv) (lw : Nat) (r : Row) : Expr → Except ResErr Profile
  | .ref _ _ => .error .notExist
  | .num _ _ => .error .notExist
  | .bad e => .error e
  | .scalar s =>
    match subs s with
    | .error e => .error e
    | .ok res => scalarOf res
  | e => .ok (evalExpr lw r e)

def evalCondE (subs : SubEnv) (lw : Nat) (r : Row) : CondE → Except ResErr Tern
  | .cmp op a b =>
    match evalExprE subs lw r a with
    | .error e => .error e
    | .ok x =>
      if x.isNull then .ok .U
      else match evalExprE subs lw r b with
        | .error e => .error e
        | .ok y => .ok (evalComparison op x y)
  | .and a b =>
    match evalCondE subs lw r a with
    | .error e => .error e
    | .ok x =>
      if (ternP x).tern = .F then .ok .F
      else match evalCondE subs lw r b with
        | .error e => .error e
        | .ok y => .ok (evalAnd (ternP x) (ternP y))
  | .or a b =>
    match evalCondE subs lw r a with
    | .error e => .error e
    | .ok x =>
      if (ternP x).tern = .T then .ok .T
      else match evalCondE subs lw r b with
        | .error e => .error e
        | .ok y => .ok (evalOr (ternP x) (ternP y))
  | .not a =>
    match evalCondE subs lw r a with
    | .error e => .error e
    | .ok x => .ok (evalNot (ternP x))
  | .isNull neg a =>
    match evalExprE subs lw r a with
    | .error e => .error e
    | .ok x => .ok (evalIs neg x nullP)
  | .between neg a lo hi =>
    match evalExprE subs lw r a with
    | .error e => .error e
    | .ok x =>
      if x.isNull then .ok .U
      else match evalExprE subs lw r lo with
        | .error e => .error e
        | .ok l =>
          if opGe x l = .F then .ok (evalBetween neg x l nullP)
          else match evalExprE subs lw r hi with
            | .error e => .error e
            | .ok u => .ok (evalBetween neg x l u)
  | .inList neg a l =>
    match evalExprE subs lw r a with
    | .error e => .error e
    | .ok x => .ok (evalIn neg x l)
  | .truth a =>
    match evalExprE subs lw r a with
    | .error e => .error e
    | .ok x => .ok x.tern
  | .like neg a p =>
    -- evalLike: both operands are evaluated (no short-circuit on a NULL left side)
    match evalExprE subs lw r a with
    | .error e => .error e
    | .ok x =>
      match evalExprE subs lw r p with
      | .error e => .error e
      | .ok y => .ok (Like.evalLike neg x y)
  | .exists s =>
    match subs s with
    | .error e => .error e
    | .ok res => .ok (existsOf res)
  | .inSub neg a s =>
    match evalExprE subs lw r a with
    | .error e => .error e
    | .ok x =>
      match subs s with
      | .error e => .error e
      | .ok res =>
        match listOf res with
        | .error e => .error e
        | .ok l => .ok (evalIn neg x l)
  | .anySub op a s =>
    match evalExprE subs lw r a with
    | .error e => .error e
    | .ok x =>
      match subs s with
      | .error e => .error e
      | .ok res =>
        match listOf res with
        | .error e => .error e
        | .ok l => .ok (evalAny op x l)
  | .allSub op a s =>
    match evalExprE subs lw r a with
    | .error e => .error e
    | .ok x =>
      match subs s with
      | .error e => .error e
      | .ok res =>
        match listOf res with
        | .error e => .error e
        | .ok l => .ok (evalAll op x l)

/-! ### correlation: the stack of outer records (`ReferenceScope.Records`, innermost first)

  A reference that the query's own header does not know is looked up in the record of the enclosing query,
  then in the next one …; AMBIGUOUS at any level ends the search with that error. -/

def resolveOuter (view : Option String) (name : String) : List (List HField × Row) → Except ResErr Profile
  | [] => .error .notExist
  | (h, r) :: rest =>
    match fieldIndex h view name with
    | .ok i => .ok ((r[i]?).getD nullP)
    | .error .notExist => resolveOuter view name rest
    | .error e => .error e

def resolveExprEnv (h : List HField) (outer : List (List HField × Row)) : Expr → Expr
  | .ref v n =>
    match fieldIndex h v n with
    | .ok i => .col 0 i
    | .error .notExist =>
      (match resolveOuter v n outer with
      | .ok p => .lit p
      | .error e => .bad e)
    | .error e => .bad e
  | e => e

def resolveCondEnv (h : List HField) (outer : List (List HField × Row)) : CondE → CondE
  | .cmp op a b => .cmp op (resolveExprEnv h outer a) (resolveExprEnv h outer b)
  | .and a b => .and (resolveCondEnv h outer a) (resolveCondEnv h outer b)
  | .or a b => .or (resolveCondEnv h outer a) (resolveCondEnv h outer b)
  | .not a => .not (resolveCondEnv h outer a)
  | .isNull neg a => .isNull neg (resolveExprEnv h outer a)
  | .between neg a lo hi => .between neg (resolveExprEnv h outer a) (resolveExprEnv h outer lo) (resolveExprEnv h outer hi)
  | .inList neg a l => .inList neg (resolveExprEnv h outer a) l
  | .truth a => .truth (resolveExprEnv h outer a)
  | .like neg a p => .like neg (resolveExprEnv h outer a) (resolveExprEnv h outer p)
  | .exists s => .exists s
  | .inSub neg a s => .inSub neg (resolveExprEnv h outer a) s
  | .anySub op a s => .anySub op (resolveExprEnv h outer a) s
  | .allSub op a s => .allSub op (resolveExprEnv h outer a) s

/-! ## set operators (view.go Union / Except / Intersect; records compared by their comparison key `key`)

  UNION ALL concatenates; UNION keeps the first record of every key of the concatenation; EXCEPT ALL keeps the left
  records whose key does not occur on the right (NOT a multiset difference), EXCEPT additionally keeps only the first
  of every key; INTERSECT [ALL] likewise with "occurs". -/

inductive SetOp | union | except | intersect
  deriving Repr, DecidableEq, Inhabited

def keyIn {κ : Type} [DecidableEq κ] (key : Row → κ) (B : List Row) (r : Row) : Bool := (B.map key).contains (key r)

def setOp {κ : Type} [DecidableEq κ] (key : Row → κ) (op : SetOp) (all : Bool) (A B : List Row) : List Row :=
  let raw := match op with
    | .union => A ++ B
    | .except => A.filter (fun r => !keyIn key B r)
    | .intersect => A.filter (fun r => keyIn key B r)
  if all then raw else dedupBy key raw

/-! ## select list with computed items: every item is evaluated on the record, independently of the other items

  (`View.Select` → `evalColumn` per item: a reference is looked up in the header, anything else is calculated
  for every record and appended as a new column; `Fix` then picks the columns in item order.) -/

inductive Item
  | col (i : Nat)
  | lit (p : Profile)
  | cond (c : CondE)                 -- a condition used as a value: its ternary result
  | case (c : CondE) (a b : Profile) -- CASE WHEN c THEN a ELSE b END
  deriving Repr, Inhabited

def evalItem (r : Row) : Item → Profile
  | .col i => (r[i]?).getD nullP
  | .lit p => p
  | .cond c => ternP (evalCond 0 r c)
  | .case c a b => match evalCond 0 r c with | .T => a | _ => b

def selectRows (items : List Item) (rows : List Row) : List Row :=
  rows.map (fun r => items.map (evalItem r))

/-! ## a correlated scalar sub-query in the select list, record by record -/

/-- `SELECT l.*, (SELECT r.j FROM R r WHERE c) FROM L l`: for every left record the scalar sub-query over its partners -/
def scalarPerRow (L R : List Row) (c : Cond) (j : Nat) : Except ResErr (List Row) :=
  match L with
  | [] => .ok []
  | l :: ls =>
    match scalarOf (1, (R.filter (fun r => c (l ++ r) = .T)).map (fun r => [(r[j]?).getD nullP])),
          scalarPerRow ls R c j with
    | .ok p, .ok rest => .ok ((l ++ [p]) :: rest)
    | .error e, _ => .error e
    | _, .error e => .error e

/-- `view.*`: the header fields of that view (exact spelling), in header order -/
def viewStarFields (h : List HField) (v : String) : List HField := h.filter (fun f => f.fromTable && f.view == v)

/-! ## the other lookups of header.go

  `FieldNumberIndex` (`t.2`: view name and 1-based column number; the first such field, no ambiguity test),
  `ContainsObject` for something that is not a reference (a computed column is found again by the formatted text
  of its expression, compared by `equalFieldIdentifiers`), `SearchIndex` (column number or field reference),
  `TableColumns` / the wildcard expansion of `View.Select`. -/

def numberMatches (view : String) (number : Int) (f : HField) : Bool :=
  eqFold f.view view && ((f.number : Int) == number)

def fieldNumberIndex (h : List HField) (view : String) (number : Int) : Except ResErr Nat :=
  if number < 1 then .error .notExist
  else match h.findIdx? (numberMatches view number) with
    | some k => .ok k
    | none => .error .notExist

def identMatches (eqId : String → String → Bool) (column : String) (f : HField) : Bool :=
  !(f.fromTable || f.identifier == "") && eqId f.identifier column

def containsIdent (eqId : String → String → Bool) (h : List HField) (column : String) : Option Nat :=
  h.findIdx? (identMatches eqId column)

/-- a reference as `SearchIndex` sees it -/
inductive FieldRef
  | byName (view : Option String) (name : String)
  | byNumber (view : String) (number : Int)
  deriving Repr, Inhabited

def searchIndex (h : List HField) : FieldRef → Except ResErr Nat
  | .byName v n => fieldIndex h v n
  | .byNumber v k => fieldNumberIndex h v k

/-- `equalFieldIdentifiers`: letter case is ignored except inside single-quoted string literals
    (back-quoted identifiers are skipped as a whole; a backslash protects the next character) -/
def eqIdentLoop : List Char → List Char → Char → Bool → Bool
  | a :: as, b :: bs, quote, escaped =>
    if quote == '\x00' then
      eqIdentLoop as bs (if a == '\'' || a == '`' then a else quote) escaped
    else if quote == '\'' && a != b then false
    else if escaped then eqIdentLoop as bs quote false
    else if a == '\\' then eqIdentLoop as bs quote true
    else if a == quote then eqIdentLoop as bs '\x00' escaped
    else eqIdentLoop as bs quote escaped
  | _, _, _, _ => true

def eqIdent (a b : String) : Bool :=
  if a == b then true
  else if !(eqFold a b) then false
  else if a.toList.length != b.toList.length then true
  else eqIdentLoop a.toList b.toList '\x00' false

/-- `*`: the columns of tables, in header order -/
def starFields (h : List HField) : List HField := h.filter (fun f => f.fromTable)

/-! ## USING / NATURAL: which columns are joined (`ParseJoinCondition`, join.go)

  NATURAL: every left column name (header order) that the right header resolves as an unqualified reference; an
  ambiguous right side is an error, an unknown name is skipped.  Then, for USING and NATURAL alike, every name is
  resolved as an unqualified reference on the left and on the right (first error wins). -/

def naturalNames (lh rh : List HField) : Except ResErr (List String) :=
  match lh with
  | [] => .ok []
  | f :: fs =>
    match fieldIndex rh none f.name with
    | .error .ambiguous => .error .ambiguous
    | .error _ => naturalNames fs rh
    | .ok _ =>
      match naturalNames fs rh with
      | .ok ns => .ok (f.name :: ns)
      | .error e => .error e

def usingPairs (lh rh : List HField) : List String → Except ResErr (List (Nat × Nat))
  | [] => .ok []
  | n :: ns =>
    match fieldIndex lh none n with
    | .error e => .error e
    | .ok li =>
      match fieldIndex rh none n with
      | .error e => .error e
      | .ok ri =>
        match usingPairs lh rh ns with
        | .ok ps => .ok ((li, ri) :: ps)
        | .error e => .error e

/-- a search loop `for i, f := range h { if p(f) { found = i; break } }`; `idx` = the value when nothing is found -/
def runLoopShape (p : HField → Bool) : List HField → Nat → Int → Int
  | [], _, idx => idx
  | f :: fs, i, idx => if p f then (i : Int) else runLoopShape p fs (i + 1) idx

end Csvq.Rel
