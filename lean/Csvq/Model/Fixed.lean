/-
  Csvq.Model.Fixed — fixed-length format, writer and reader at the character level (core Lean only).

  Positions are BYTE positions in the target encoding; the model takes the byte size of a character
  as a parameter `wd : Char → Nat` (go-text `RuneByteSize`: UTF-8 size / 2 or 4 for UTF-16 / 1 or 2
  for Shift_JIS).  The driver instantiates it with `Char.utf8Size`.

  Writer = lib/query/encode.go `encodeFixedLengthFormat` + go-text/fixedlen `Measure`,
           `Writer.Write`, `addField`:
           * explicit delimiter positions: every field padded with blanks to its width
             (left / centre / right by the alignment `ConvertFieldContents` reports), a field
             longer than its width is refused, positions that do not increase are refused;
           * automatic ("SPACES"): widths = the longest text of each column in bytes
             (`Measure`), positions = running sums, one blank inserted between columns
             (`InsertSpace`); a column of width 0 makes the positions invalid → refused.
  Reader = go-text/fixedlen `Reader.parseRecord` with EXPLICIT positions as a character-driven
           machine (pending-CR treatment as in Csvq.Model.Csv), then
           `loadViewFromFixedLengthTextFile` (header line, c1…cn, `__@i__` for empty names).
           The automatic detection of positions (`Delimiter.Delimit`, a heuristic over the blank
           columns of the whole file) is modelled in Csvq.Model.FixedAuto.
  `SingleLine` (delimiter positions `S[…]`: the records follow one another without line breaks), section
  "single-line files" at the end:
           * writer: `Writer.Write` with `SingleLine` writes no line break between records; `encodeFixedLengthFormat`
             never writes the header line of a single-line file; `Transaction.Commit` (created and updated files) and the
             processor's `--out` file write NO ending line break after a single-line file (a line break there IS a record);
           * reader: `parseRecord` with `SingleLine` returns the record as soon as its last field is complete (the
             "skip the rest of the line" loop is not run); a line break still ends a record early; the loader reads no
             header line (`c1…cn`) and refuses empty positions.
-/
import Csvq.Model.Csv
namespace Csvq.Fixed
open Csvq.Csv (LB Err DCell DTable endingChars nullCell autoNames autofill)

/-! ## texts -/

/-- `unicode.IsSpace` -/
def isSpace (c : Char) : Bool :=
  let n := c.toNat
  (9 ≤ n && n ≤ 13) || n = 0x20 || n = 0x85 || n = 0xA0 || n = 0x1680 || (0x2000 ≤ n && n ≤ 0x200A) ||
  n = 0x2028 || n = 0x2029 || n = 0x202F || n = 0x205F || n = 0x3000

def trimLeft : List Char → List Char
  | [] => []
  | c :: cs => if isSpace c then trimLeft cs else c :: cs

/-- `bytes.TrimSpace` -/
def trim (s : List Char) : List Char := (trimLeft (trimLeft s).reverse).reverse

def byteSize (wd : Char → Nat) : List Char → Nat
  | [] => 0
  | c :: cs => wd c + byteSize wd cs

/-! ## writer -/

inductive Align | left | center | right
  deriving DecidableEq, Repr

structure Field where
  contents : List Char
  align : Align
  deriving DecidableEq, Repr

inductive EncErr | dataEmpty | position | tooLong
  deriving DecidableEq, Repr

def pad (n : Nat) : List Char := List.replicate n ' '

/-- `Writer.addField` -/
def addField (wd : Char → Nat) (f : Field) (size : Nat) : Except EncErr (List Char) :=
  let sz := byteSize wd f.contents
  if size < sz then .error .tooLong
  else
    let padLen := size - sz
    match f.align with
    | .center => .ok (pad (padLen / 2) ++ f.contents ++ pad (padLen - padLen / 2))
    | .right => .ok (pad padLen ++ f.contents)
    | .left => .ok (f.contents ++ pad padLen)

/-- `Writer.Write`: the loop over the delimiter positions (a record is never shorter than the
    positions here; a missing field would be all blanks) -/
def writeFields (wd : Char → Nat) (insertSpace : Bool) : (first : Bool) → (start : Nat) → List Nat → List Field →
    Except EncErr (List Char)
  | _, _, [], _ => .ok []
  | first, start, e :: ps, fs =>
    if e ≤ start then .error .position
    else
      let sep := if insertSpace && !first then [' '] else []
      let fld : Except EncErr (List Char) := match fs with
        | [] => .ok (pad (e - start))
        | f :: _ => addField wd f (e - start)
      match fld with
      | .error err => .error err
      | .ok s =>
        match writeFields wd insertSpace false e ps fs.tail with
        | .error err => .error err
        | .ok rest => .ok (sep ++ s ++ rest)

def writeRecord (wd : Char → Nat) (insertSpace : Bool) (ps : List Nat) (fs : List Field) : Except EncErr (List Char) :=
  writeFields wd insertSpace true 0 ps fs

def writeMore (wd : Char → Nat) (insertSpace : Bool) (lb : LB) (ps : List Nat) :
    List (List Field) → Except EncErr (List Char)
  | [] => .ok []
  | r :: rs =>
    match writeRecord wd insertSpace ps r with
    | .error e => .error e
    | .ok s =>
      match writeMore wd insertSpace lb ps rs with
      | .error e => .error e
      | .ok rest => .ok (lb.chars ++ (s ++ rest))

def writeAll (wd : Char → Nat) (insertSpace : Bool) (lb : LB) (ps : List Nat) :
    List (List Field) → Except EncErr (List Char)
  | [] => .ok []
  | r :: rs =>
    match writeRecord wd insertSpace ps r with
    | .error e => .error e
    | .ok s =>
      match writeMore wd insertSpace lb ps rs with
      | .error e => .error e
      | .ok rest => .ok (s ++ rest)

structure Table where
  header : List (List Char)
  rows : List (List Field)
  deriving Repr

structure Opts where
  lb : LB := .lf
  withoutHeader : Bool := false
  withoutNull : Bool := false
  /-- `none` = automatic -/
  positions : Option (List Nat) := none
  ending : Option LB := none

def headerFields (h : List (List Char)) : List Field := h.map (⟨·, .left⟩)

/-- `Measure.Measure` over all records, `GeneratePositions` -/
def measure (wd : Char → Nat) (ncols : Nat) (recs : List (List Field)) : List Nat :=
  (List.range ncols).map fun j =>
    recs.foldl (fun m r => match r[j]? with
      | some f => Nat.max m (byteSize wd f.contents)
      | none => m) 0

def positionsOf : Nat → List Nat → List Nat
  | _, [] => []
  | pos, w :: ws => (pos + w) :: positionsOf (pos + w) ws

/-- `encodeFixedLengthFormat` -/
def encodeFixed (wd : Char → Nat) (o : Opts) (t : Table) : Except EncErr (List Char) :=
  let recs := if o.withoutHeader then t.rows else headerFields t.header :: t.rows
  match recs with
  | [] => .error .dataEmpty
  | recs =>
    match o.positions with
    | none => writeAll wd true o.lb (positionsOf 0 (measure wd t.header.length recs)) recs
    | some ps => writeAll wd false o.lb ps recs

def fileFixed (wd : Char → Nat) (o : Opts) (t : Table) : Except EncErr (List Char) :=
  match encodeFixed wd o t with
  | .ok cs => .ok (cs ++ endingChars o.ending)
  | .error e => .error e

/-! ## reader with explicit positions -/

/-- strictly increasing, first one positive -/
def validFrom : Nat → List Nat → Bool
  | _, [] => true
  | start, e :: ps => decide (start < e) && validFrom e ps

structure St where
  /-- delimiter positions not yet reached in the current record; `[]` = skipping the rest of the line -/
  cols : List Nat
  /-- `recordPos` -/
  pos : Nat := 0
  pcr : Bool := false
  buf : List Char := []
  fields : List (List Char) := []
  recs : List (List (List Char)) := []
  dlb : Option LB := none
  deriving Repr

/-- the record ends here: the current field is what has been read, the remaining ones are empty -/
def commit (ps : List Nat) (σ : St) : St :=
  let fs := match σ.cols with
    | [] => σ.fields.reverse
    | _ :: rest => σ.fields.reverse ++ (trim σ.buf.reverse :: List.replicate rest.length [])
  { σ with recs := fs :: σ.recs, cols := ps, pos := 0, buf := [], fields := [] }

def setDlb (σ : St) (lb : LB) : St :=
  match σ.dlb with
  | none => { σ with dlb := some lb }
  | some _ => σ

def onNl (ps : List Nat) (σ : St) (lb : LB) : St := commit ps (setDlb σ lb)

def stepMain (wd : Char → Nat) (ps : List Nat) (σ : St) (c : Char) : Except Err St :=
  if c = '\r' then .ok { σ with pcr := true }
  else if c = '\n' then .ok (onNl ps σ .lf)
  else
    match σ.cols with
    | [] => .ok { σ with pos := σ.pos + 1 }
    | e :: rest =>
      let pos' := σ.pos + wd c
      if e < pos' then .error .parse
      else if pos' = e then
        .ok { σ with pos := pos', buf := [], fields := trim (c :: σ.buf).reverse :: σ.fields, cols := rest }
      else .ok { σ with pos := pos', buf := c :: σ.buf }

def step (wd : Char → Nat) (ps : List Nat) (σ : St) (c : Char) : Except Err St :=
  if σ.pcr then
    if c = '\n' then .ok (onNl ps { σ with pcr := false } .crlf)
    else stepMain wd ps (onNl ps { σ with pcr := false } .cr) c
  else stepMain wd ps σ c

def run (wd : Char → Nat) (ps : List Nat) : St → List Char → Except Err St
  | σ, [] => .ok σ
  | σ, c :: cs =>
    match step wd ps σ c with
    | .ok σ' => run wd ps σ' cs
    | .error e => .error e

/-- end of input: nothing read of a new record (`recordPos < 1`) → done, else the record ends -/
def finish (ps : List Nat) (σ : St) : Except Err St :=
  if σ.pcr then .error .parse
  else if σ.pos = 0 then .ok σ
  else .ok (commit ps σ)

def readAll (wd : Char → Nat) (ps : List Nat) (inp : List Char) : Except Err St :=
  if validFrom 0 ps = false then
    -- "invalid delimiter position": reported when the offending column is reached
    match inp, ps with
    | [], e :: _ => if 0 < e then .ok { cols := ps } else .error .parse
    | _, _ => .error .parse
  else
    match run wd ps { cols := ps } inp with
    | .ok σ => finish ps σ
    | .error e => .error e

def cellOf (withoutNull : Bool) (s : List Char) : DCell :=
  match s with
  | [] => nullCell withoutNull
  | s => some s

def assemble (o : Opts) (n : Nat) (recs : List (List (List Char))) : DTable :=
  let hb : Option (List (List Char)) × List (List (List Char)) :=
    if o.withoutHeader then (none, recs)
    else match recs with
      | [] => (none, [])
      | h :: b => (some h, b)
  let header := match hb.1 with
    | none => autoNames n
    | some h => h
  ⟨autofill header, hb.2.map (·.map (cellOf o.withoutNull))⟩

/-- the loader, explicit positions `ps` -/
def decodeFixed (wd : Char → Nat) (o : Opts) (ps : List Nat) (inp : List Char) : Except Err DTable :=
  match readAll wd ps inp with
  | .error e => .error e
  | .ok σ => .ok (assemble o ps.length σ.recs.reverse)

def detectLB (wd : Char → Nat) (ps : List Nat) (inp : List Char) : Option LB :=
  match readAll wd ps inp with
  | .ok σ => σ.dlb
  | .error _ => none

/-! ## the identification the property allows: edge blanks are dropped, empty = NULL -/

def canonCell (o : Opts) (f : Field) : DCell := cellOf o.withoutNull (trim f.contents)

def canon (o : Opts) (t : Table) : DTable :=
  ⟨if o.withoutHeader then autoNames t.header.length else autofill (t.header.map trim),
   t.rows.map (·.map (canonCell o))⟩

/-! ## single-line files (`S[…]`) -/

/-- `Writer.Write` with `SingleLine`: record after record, nothing in between -/
def writeAllS (wd : Char → Nat) (ps : List Nat) : List (List Field) → Except EncErr (List Char)
  | [] => .ok []
  | r :: rs =>
    match writeRecord wd false ps r with
    | .error e => .error e
    | .ok s =>
      match writeAllS wd ps rs with
      | .error e => .error e
      | .ok rest => .ok (s ++ rest)

/-- `encodeFixedLengthFormat`, explicit positions + `SingleLine`: the header is never written; without a header
    AND without records there is nothing to write (`DataEmpty`) -/
def encodeFixedS (wd : Char → Nat) (o : Opts) (ps : List Nat) (t : Table) : Except EncErr (List Char) :=
  if o.withoutHeader && t.rows.isEmpty then .error .dataEmpty
  else writeAllS wd ps t.rows

/-- the ending line break `Transaction.Commit` / the processor (`--out`) put after a written file:
    none when stripped, none after a single-line fixed-length file -/
def endingAfter (singleLine strip : Bool) (lb : LB) : Option LB :=
  if strip || singleLine then none else some lb

/-- a committed single-line file -/
def fileFixedS (wd : Char → Nat) (o : Opts) (ps : List Nat) (strip : Bool) (t : Table) : Except EncErr (List Char) :=
  match encodeFixedS wd o ps t with
  | .ok cs => .ok (cs ++ endingChars (endingAfter true strip o.lb))
  | .error e => .error e

/-- `parseRecord` with `SingleLine`: when the field loop is complete the record is returned -/
def norm (ps : List Nat) (σ : St) : St :=
  match σ.cols with
  | [] => commit ps σ
  | _ :: _ => σ

def stepS (wd : Char → Nat) (ps : List Nat) (σ : St) (c : Char) : Except Err St :=
  match step wd ps σ c with
  | .ok σ' => .ok (norm ps σ')
  | .error e => .error e

def runS (wd : Char → Nat) (ps : List Nat) : St → List Char → Except Err St
  | σ, [] => .ok σ
  | σ, c :: cs =>
    match stepS wd ps σ c with
    | .ok σ' => runS wd ps σ' cs
    | .error e => .error e

def readAllS (wd : Char → Nat) (ps : List Nat) (inp : List Char) : Except Err St :=
  if validFrom 0 ps = false then
    match inp, ps with
    | [], e :: _ => if 0 < e then .ok { cols := ps } else .error .parse
    | _, _ => .error .parse
  else
    match runS wd ps { cols := ps } inp with
    | .ok σ => finish ps σ
    | .error e => .error e

/-- the loader on a single-line file: empty positions are refused, no header line is read -/
def decodeFixedS (wd : Char → Nat) (o : Opts) (ps : List Nat) (inp : List Char) : Except Err DTable :=
  match ps with
  | [] => .error .parse
  | _ =>
    match readAllS wd ps inp with
    | .error e => .error e
    | .ok σ => .ok (assemble { o with withoutHeader := true } ps.length σ.recs.reverse)

def detectLBS (wd : Char → Nat) (ps : List Nat) (inp : List Char) : Option LB :=
  match readAllS wd ps inp with
  | .ok σ => σ.dlb
  | .error _ => none

/-- what must come back from a single-line file: the columns are `c1…cn`, edge blanks dropped, empty = NULL -/
def canonS (o : Opts) (t : Table) : DTable :=
  ⟨autoNames t.header.length, t.rows.map (·.map (canonCell o))⟩

end Csvq.Fixed
