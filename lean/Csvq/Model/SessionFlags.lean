/-
  Csvq.Model.SessionFlags — the session machine of Model/Session.lean under the session's OUTPUT options
  (--quiet / @@QUIET, --stats, --color, --format of results, the three width options, --json-escape, --without-null): the
  options csvq's manual describes as deciding what is PRINTED.  A history is a list of statements of the machine and of
  flag steps (the flag on the command line = a flag step in front of the first statement; `SET @@FLAG TO v` = a flag
  step anywhere).  What a statement prints depends on the options (`notice`); what it does to the transaction does not —
  provided the code takes the restore points of temporary tables whatever the options are.  That proviso is the
  parameter `take`: Transaction.Commit calls ReferenceScope.StoreTemporaryTable (which takes the restore point of every
  changed temporary table and stores a changed STDIN table in the session) under the conditions REGENERATED into
  Gen.txEndCalls; `take flags = true` for all flags is what Props/C01Flags.gen_restore_points_taken_unconditionally
  establishes about the source.  Core Lean only.
-/
import Csvq.Model.Session
namespace Csvq.Session

/-- the session options that decide only what is printed -/
structure OutFlags where
  quiet : Bool := false
  stats : Bool := false
  color : Bool := false
  format : Nat := 0
  eastAsian : Bool := false
  countDiacritical : Bool := false
  countFormatCode : Bool := false
  jsonEscape : Nat := 0
  withoutNull : Bool := false
  deriving Repr, DecidableEq

/-- a statement of the session machine, or a step that changes the output options in any way -/
inductive FOp (C : Type)
  | op (o : Op C)
  | setFlag (f : OutFlags → OutFlags)

structure FState (C : Type) where
  st : State C
  flags : OutFlags

/-- Transaction.Commit in the shape of the code: files, cache and the uncommitted sets as `doCommit`; the restore points
    of the temporary tables are taken by ONE call, and `take` says whether that call is made -/
def doCommitTaking {C} (take : Bool) (s : State C) : State C :=
  { doCommit s with temps := fun t => (s.temps t).map fun x => if take then ⟨x.cur, x.cur⟩ else x }

/-- does the statement print its notice ("Commit: restore point of view … is created.", "Rollback: view … is restored.",
    "n records updated on …")?  Not under --quiet. -/
def notice {C} (fl : OutFlags) : Op C → Bool
  | .select _ | .selectForUpdate _ => false
  | _ => !fl.quiet

/-- one step: (state, result of the statement, whether a notice was printed).  `take flags` — is the call that takes the
    restore points reached under these options? -/
def fstepWith {C} (take : OutFlags → Bool) (s : FState C) : FOp C → FState C × Out C × Bool
  | .setFlag f => ({ s with flags := f s.flags }, .ok, false)
  | .op .commit => ({ s with st := doCommitTaking (take s.flags) s.st }, .ok, notice s.flags (.commit : Op C))
  | .op o => let r := step s.st o; ({ s with st := r.1 }, r.2, notice s.flags o)

def frunWith {C} (take : OutFlags → Bool) (s : FState C) (ops : List (FOp C)) : FState C :=
  ops.foldl (fun s op => (fstepWith take s op).1) s

/-- the code as it is: the restore points are taken whatever the options are -/
def fstep {C} (s : FState C) (op : FOp C) : FState C × Out C × Bool := fstepWith (fun _ => true) s op
def frun {C} (s : FState C) (ops : List (FOp C)) : FState C := frunWith (fun _ => true) s ops

/-- the same history with every flag step removed -/
def erase {C} : List (FOp C) → List (Op C)
  | [] => []
  | .op o :: rest => o :: erase rest
  | .setFlag _ :: rest => erase rest

end Csvq.Session
