/-
  Csvq.Model.ProcFrame — how one `csvq` run ends: Processor.execute's statement loop, Processor.Execute's
  auto-commit, and the deferred AutoRollback of lib/cli/app.go, over the session machine of
  Model/Session.lean.  The loop and the auto-commit condition themselves are TRANSLATED from
  lib/query/processor.go on every run (Gen/ProcFacts.lean); this file holds the types they are stated over
  and the hand-written reading (`Ending`, `Session.finish`) they are proved equal to in Props/C01Proc.lean.
-/
import Csvq.Model.Session
namespace Csvq.ProcFrame

/-- lib/query/processor.go: StatementFlow -/
inductive Flow
  | terminate | terminateWithError | exit | «break» | «continue» | «return»
  deriving DecidableEq, Repr

/-- the constant names, in the order of the constructors -/
def Flow.names : List String := ["Terminate", "TerminateWithError", "Exit", "Break", "Continue", "Return"]

open Csvq.Session

/-- the ending a run has, read off what Processor.execute returned: a procedure "ends normally" iff no error was
    returned and the flow is still Terminate; EXIT (flow Exit, or a forced-exit error for a non-zero code), an error,
    and a cancelled context (an error, too) are the other endings -/
def endingOf (errNil : Bool) (flow : Flow) (interrupted : Bool) : Ending :=
  if interrupted then .interrupt
  else if !errNil then .error
  else match flow with
    | .terminate => .normal
    | .exit => .exit
    | _ => .error          -- BREAK / CONTINUE / RETURN outside their construct, TerminateWithError

/-- the code's own sequence at the end of `csvq <procedure>`: Execute auto-commits when `commitCond` holds (the commit
    is C10's sequence; here its success), then the deferred function of lib/cli/app.go ALWAYS calls AutoRollback -/
def frameEnd {C} (commitCond : Bool) (s : State C) : State C :=
  doRollback (if commitCond then doCommit s else s)

/-! ### an internal failure: a statement panics on the frame's own goroutine -/

/-- what ExecuteStatement does to the frame that called it: it returns, or it panics -/
inductive Outcome (σ : Type)
  | done (s : σ) (flow : Flow) (errNil : Bool)
  | panic (s : σ)

def Outcome.state {σ : Type} : Outcome σ → σ
  | .done s _ _ => s
  | .panic s => s

/-- how Processor.execute hands its results to the caller.  `deferFn` is the deferred function (entered with the current
    values of the variables `flow`, `err`; its third argument: recover() returned a report).  With NAMED results the
    variables the deferred function assigns ARE the results.  With unnamed results they are locals: after a normal
    `return flow, err` the values are already fixed, and after a recovered panic Go returns the ZERO values — the
    first StatementFlow constant and a nil error.  Result: (state, flow, err == nil, err is the recovered Fatal Error). -/
def handBack {σ : Type} (named : Bool) (deferFn : Flow → Bool → Bool → Flow × Bool × Bool) (zero : Flow)
    (s : σ) (flow : Flow) (errNil panicked : Bool) : σ × Flow × Bool × Bool :=
  let r := deferFn flow errNil panicked
  if named then (s, r.1, r.2.1, r.2.2)
  else if panicked then (s, zero, true, false)
  else (s, flow, errNil, false)

/-- Processor.execute as a whole: the statement loop (the first two arguments are the variables `flow`, `err == nil`),
    a panic unwinding to the deferred function before `flow, err = …` is assigned -/
def executeWithRecover {σ τ : Type} (named : Bool) (deferFn : Flow → Bool → Bool → Flow × Bool × Bool) (zero : Flow)
    (run : σ → τ → Outcome σ) : Flow → Bool → σ → List τ → σ × Flow × Bool × Bool
  | flow, errNil, s, [] => handBack named deferFn zero s flow errNil false
  | flow, errNil, s, st :: rest =>
    match run s st with
    | .panic s' => handBack named deferFn zero s' flow errNil true
    | .done s' fl ok =>
      if !ok then handBack named deferFn zero s' fl ok false
      else if fl != Flow.terminate then handBack named deferFn zero s' fl ok false
      else executeWithRecover named deferFn zero run fl ok s' rest

end Csvq.ProcFrame
