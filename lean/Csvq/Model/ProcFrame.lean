/-
  Csvq.Model.ProcFrame — how one `csvq` run ends: Processor.execute's statement loop, Processor.Execute's
  auto-commit, and the deferred AutoRollback of lib/cli/app.go, over the session machine of
  Model/Session.lean.  The loop and the auto-commit condition themselves are TRANSLATED from
  lib/query/processor.go on every run (Gen/ProcFacts.lean); this file holds the types they are stated over
  and the hand-written reading (`Ending`, `Session.finish`) they are proved equal to in Props/C01Proc.lean.
-/
import Csvq.Model.Session
namespace Csvq.ProcFrame

/-- lib/query/processor.go: StatementFlow -/
inductive Flow
  | terminate | terminateWithError | exit | «break» | «continue» | «return»
  deriving DecidableEq, Repr

/-- the constant names, in the order of the constructors -/
def Flow.names : List String := ["Terminate", "TerminateWithError", "Exit", "Break", "Continue", "Return"]

open Csvq.Session

/-- the ending a run has, read off what Processor.execute returned: a procedure "ends normally" iff no error was
    returned and the flow is still Terminate; EXIT (flow Exit, or a forced-exit error for a non-zero code), an error,
    and a cancelled context (an error, too) are the other endings -/
def endingOf (errNil : Bool) (flow : Flow) (interrupted : Bool) : Ending :=
  if interrupted then .interrupt
  else if !errNil then .error
  else match flow with
    | .terminate => .normal
    | .exit => .exit
    | _ => .error          -- BREAK / CONTINUE / RETURN outside their construct, TerminateWithError

/-- the code's own sequence at the end of `csvq <procedure>`: Execute auto-commits when `commitCond` holds (the commit
    is C10's sequence; here its success), then the deferred function of lib/cli/app.go ALWAYS calls AutoRollback -/
def frameEnd {C} (commitCond : Bool) (s : State C) : State C :=
  doRollback (if commitCond then doCommit s else s)

end Csvq.ProcFrame
