/-
  Csvq.Model.ScopeKeys — WHAT COUNTS AS THE SAME NAME (property C15), a layer around Csvq.Model.Scope.

  Model/Scope.lean speaks of abstract names (`Nat`): two occurrences are the same object iff they carry the same
  number.  Here a name is the RAW TEXT written in the program, and every kind of object has a KEY FUNCTION that its
  per-block map applies to the text before it touches the map:

      lib/query/variable.go               VariableMap              the text as it is            (exact)
      lib/query/cursor.go                 CursorMap                strings.ToUpper              (upper)
      lib/query/user_defined_function.go  UserDefinedFunctionMap   strings.ToUpper
      lib/query/prepared_statement.go     PreparedStatementMap     strings.ToUpper
      lib/query/view_map.go               ViewMap                  the text as it is — the CALLERS in reference_scope.go
                                                                   hand in strings.ToUpper(name) / FileInfo.IdentifiedPath()

  `Names` is the table of the raw names of a program (number ↦ kind, text); `canon key T x` is the abstract name of
  `x`: the number of the FIRST entry of the table that has the same kind and the same key.  `Stmt.ren` puts the
  abstract names into a program; `runKeyed` is the existing interpreter on the result — so every theorem of
  Props/C15.lean (all names, all programs) applies to keyed programs by instantiation, and two raw names are one
  object exactly when their keys agree (`same_name_iff_same_key`, Props/C15Keys.lean).

  The key functions per map and per method are REGENERATED (Gen/ScopeKeys.lean, extract/scopefacts -keys); `genKey`
  reads them.  Core Lean + Model/Unicode (strings.ToUpper / ToLower from Go's tables).
-/
import Csvq.Model.Scope
import Csvq.Model.Unicode
import Csvq.Gen.ScopeKeys
namespace Csvq.Scope
open Csvq

/-- what a map does to a name before it uses it as a key -/
inductive KeyFn | exact | upper | lower
  deriving DecidableEq, Repr, Inhabited

def KeyFn.apply : KeyFn → Bytes → Bytes
  | .exact, s => s
  | .upper, s => Uni.strToUpper s
  | .lower, s => Uni.strToLower s

/-- the kinds of named objects: the four maps of a BlockScope and the transaction's prepared statements -/
inductive Kind | var | view | cursor | fn | stmt
  deriving DecidableEq, Repr, Inhabited

/-- the reference: variable names are case-sensitive, every identifier is not (the manual: "Identifiers are
    case-insensitive"; variables are `@` + text compared as written) -/
def refKey : Kind → KeyFn
  | .var => .exact
  | _ => .upper

/-- the shape of the seeded change C15-m26: variables keyed by strings.ToLower -/
def lowerVarKey : Kind → KeyFn
  | .var => .lower
  | _ => .upper

/-- every kind keyed by the text as written -/
def exactKey : Kind → KeyFn := fun _ => .exact

structure NameEnt where
  num : Nat
  kind : Kind
  raw : Bytes
  deriving DecidableEq, Repr, Inhabited

abbrev Names := List NameEnt

/-- two entries name the same object: same kind, same key -/
def sameObj (key : Kind → KeyFn) (a b : NameEnt) : Bool :=
  decide (a.kind = b.kind) && decide ((key a.kind).apply a.raw = (key b.kind).apply b.raw)

def Names.lookup (T : Names) (x : Nat) : Option NameEnt := T.find? (fun e => e.num == x)

/-- the abstract name of number `x`: the first entry of the table that names the same object; a number the table
    does not list stands for itself -/
def canon (key : Kind → KeyFn) (T : Names) (x : Nat) : Nat :=
  match T.lookup x with
  | none => x
  | some e =>
    match T.find? (sameObj key e) with
    | some e' => e'.num
    | none => x

/-- numbers are listed once -/
def Names.WF (T : Names) : Prop := (T.map NameEnt.num).Nodup

instance (T : Names) : Decidable T.WF := inferInstanceAs (Decidable (T.map NameEnt.num).Nodup)

/-! ## abstract names into a program -/

mutual
def Expr.ren (rv rf : Nat → Nat) : Expr → Expr
  | .lit v => .lit v
  | .var x => .var (rv x)
  | .bin op a b => .bin op (a.ren rv rf) (b.ren rv rf)
  | .call f args => .call (rf f) (renExprs rv rf args)
  | .acall f s0 args => .acall (rf f) s0 (renExprs rv rf args)
def renExprs (rv rf : Nat → Nat) : List Expr → List Expr
  | [] => []
  | e :: es => e.ren rv rf :: renExprs rv rf es
end

def Param.ren (rv rf : Nat → Nat) (p : Param) : Param :=
  ⟨rv p.name, match p.dflt with | none => none | some e => some (e.ren rv rf)⟩

mutual
def Stmt.ren (rv rf : Nat → Nat) : Stmt → Stmt
  | .decl x e => .decl (rv x) (e.ren rv rf)
  | .assign x e => .assign (rv x) (e.ren rv rf)
  | .dispose x => .dispose (rv x)
  | .print e => .print (e.ren rv rf)
  | .ifs br els => .ifs (renBranches rv rf br) (renStmts rv rf els)
  | .caseOf e br els => .caseOf (e.ren rv rf) (renBranches rv rf br) (renStmts rv rf els)
  | .raise f => .raise f
  | .while c body => .while (c.ren rv rf) (renStmts rv rf body)
  | .foreach x d vals body => .foreach (rv x) d vals (renStmts rv rf body)
  | .declT x => .declT (rv x)
  | .cursor op c x => .cursor op (rv c) (rv x)
  | .inline ss => .inline (renStmts rv rf ss)
  | .brk => .brk
  | .cont => .cont
  | .exit => .exit
  | .ret e => .ret (e.ren rv rf)
  | .declFn f ps body => .declFn (rf f) (ps.map (Param.ren rv rf)) (renStmts rv rf body)
  | .declAgg f c ps body => .declAgg (rf f) (rv c) (ps.map (Param.ren rv rf)) (renStmts rv rf body)
  | .disposeFn f => .disposeFn (rf f)
def renStmts (rv rf : Nat → Nat) : List Stmt → List Stmt
  | [] => []
  | s :: ss => s.ren rv rf :: renStmts rv rf ss
def renBranches (rv rf : Nat → Nat) : List (Expr × List Stmt) → List (Expr × List Stmt)
  | [] => []
  | (c, b) :: more => (c.ren rv rf, renStmts rv rf b) :: renBranches rv rf more
end

/-- a program over raw names: `Tv` lists the variables, temporary tables and cursors (they share the number space of
    Model/Scope's `vars`, in disjoint ranges), `Tf` the functions -/
structure KProg where
  Tv : Names
  Tf : Names
  prog : List Stmt
  deriving Repr, Inhabited

/-- the program with every number replaced by its abstract name under `key` -/
def KProg.resolve (key : Kind → KeyFn) (p : KProg) : List Stmt :=
  renStmts (canon key p.Tv) (canon key p.Tf) p.prog

/-- Processor.Execute on a new session, names decided by `key` -/
def runKeyed (key : Kind → KeyFn) (fuel : Nat) (p : KProg) : PRes :=
  executeI fuel (p.resolve key) none St.init

def execKeyed (key : Kind → KeyFn) (fuel : Nat) (p : KProg) : Obs :=
  execImpl fuel (p.resolve key)

/-! ## the regenerated key functions (Gen/ScopeKeys.lean) -/

def keyOfText : String → Option KeyFn
  | "raw" => some .exact
  | "upper(raw)" => some .upper
  | "lower(raw)" => some .lower
  | _ => none

def syncPrims : List String := ["SyncMap.store", "SyncMap.load", "SyncMap.delete", "SyncMap.exists"]

def mapTypeOf : Kind → String
  | .var => "VariableMap"
  | .view => "ViewMap"
  | .cursor => "CursorMap"
  | .fn => "UserDefinedFunctionMap"
  | .stmt => "PreparedStatementMap"

/-- REVIEWED EXCEPTION: VariableMap.LoadDirect upper-cases the name although no other method of the map does, so
    it cannot find a variable whose name has a lower-case letter.  Nothing calls it (`loadDirectCallers = []`,
    regenerated): see `gen_variable_loadDirect_unused` -/
def keyExceptions : List (String × String) := [("VariableMap", "LoadDirect")]

/-- the keys the methods of map type `t` hand to the primitives of SyncMap, exceptions left out -/
def primKeys (facts : List (String × String × String × String)) (t : String) : List (String × String) :=
  (facts.filter (fun r => r.1 == t && syncPrims.contains r.2.2.1 && !keyExceptions.contains (r.1, r.2.1))).map
    (fun r => (r.2.1, r.2.2.2))

/-- the ONE key function of a map: defined when every method applies the same one -/
def keyOfFacts (facts : List (String × String × String × String)) (t : String) : Option KeyFn :=
  match primKeys facts t with
  | [] => none
  | (_, k) :: rest => if rest.all (fun r => r.2 == k) then keyOfText k else none

def genKey (k : Kind) : Option KeyFn := keyOfFacts Gen.ScopeKeys.mapKeys (mapTypeOf k)

/-- the methods of `t` that call key-taking methods of `t`: they must hand the name on as it came, or — where the
    map's key is upper — upper-cased once more (CheckDuplicate; strings.ToUpper is idempotent) -/
def delegationsOK (facts : List (String × String × String × String)) (t : String) : Bool :=
  (facts.filter (fun r => r.1 == t && !syncPrims.contains r.2.2.1)).all
    (fun r => r.2.2.2 == "raw" || r.2.2.2 == "node:raw" || (r.2.2.2 == "upper(raw)" && keyOfFacts facts t == some .upper))

/-- the temporary-table map is keyed by its callers: the key expressions that are not the plain name -/
def viewKeyedBy : List (String × String × String) :=
  ((Gen.ScopeKeys.mapKeys.filter (fun r => r.1 == "ViewMap" && !syncPrims.contains r.2.2.1 && r.2.2.2 != "raw")).map
    (fun r => ("ViewMap." ++ r.2.1, r.2.2.1, r.2.2.2))) ++ Gen.ScopeKeys.viewCallers

/-- the key of a temporary table as the program sees it: upper — every caller that takes a NAME from the program
    upper-cases it (or leaves it to ViewMap.DisposeTemporaryTable, which does), every caller that takes a VIEW uses
    IdentifiedPath, which is strings.ToUpper of the path -/
def genViewCallerKey : Option KeyFn :=
  let named := Gen.ScopeKeys.viewCallers.filter (fun r => r.1 ∈ ["ReferenceScope.TemporaryTableExists", "ReferenceScope.GetTemporaryTable", "ReferenceScope.GetTemporaryTableWithInternalId"])
  match named with
  | [] => none
  | (_, _, k) :: rest => if rest.all (fun r => r.2.2 == k) && named.length == 3 then keyOfText k else none

end Csvq.Scope
