/-
  Csvq.Model.KeyOf — the comparison key of a VALUE, every conversion the model's own.

  `norm` (Model/Keys.lean) is SerializeKey's ladder over a coercion profile.  For the streams that carry the
  profile the real value.To* functions reported, the model only re-checks it (Proto.textProfileOK).  Here the
  profile of a text is COMPUTED: value.ToIntegerStrictly = option.TrimSpace + strconv.ParseInt(s, 10, 64)
  (PF.strToIntStrictB), value.ToFloat = option.TrimSpace + strconv.ParseFloat (PF.strToFloat), value.ToDatetime
  (PT.strToTime: session zone UTC, no custom formats), value.ToBoolean (strconv.ParseBool), and the text rung
  strings.ToUpper(option.TrimSpace(raw)) (Uni.strToUpper).  So the bucket of a spelling ('0042', ' +42 ',
  '000000000000000000000042', '4.2e1', '0x1.5p+5', '2012-02-03T00:00:00Z' …) is decided by the model alone; the
  op lines `c04.skey` / `c04.spell` carry raw values only.
-/
import Csvq.Model.CellText
import Csvq.Model.Unicode
import Csvq.Model.Group
namespace Csvq

/-- the coercion profile of a value: `profileOf` for the typed values, `profileOfText` for a String -/
def ownProfile (v : Val) : Profile :=
  match v with
  | .str b => profileOfText b (Uni.strToUpper (PF.trimSpace b))
  | .null => profileOf .null
  | .int i => profileOf (.int i)
  | .flt f => profileOf (.flt f)
  | .bool b => profileOf (.bool b)
  | .tern t => profileOf (.tern t)
  | .dt d => profileOf (.dt d)

/-- SerializeKey of a value -/
def keyOf (v : Val) : NKey := norm (ownProfile v)

/-- SerializeIdenticalKey of a value (--strict-equal) -/
def keyOfStrict (v : Val) : NKey :=
  match v with
  | .str b => normStrict v (PF.trimSpace b)
  | v => normStrict v []

/-- SerializeComparisonKeys of one value under the session's equality mode -/
def keyOfMode (strict : Bool) (v : Val) : NKey := if strict then keyOfStrict v else keyOf v

/-! ### spellings of an integer: blanks, sign, leading zeros, digits, blanks -/

/-- one way of writing an integer as text -/
structure IntSpelling where
  left : Bytes            -- blanks in front
  sign : Option Bool      -- none: no sign; some false: '+'; some true: '-'
  zeros : Nat             -- number of leading zeros
  digits : Bytes          -- the digit string proper (may itself begin with zeros)
  right : Bytes           -- blanks behind
  deriving Repr, DecidableEq

namespace IntSpelling

def signBytes : Option Bool → Bytes
  | none => []
  | some false => [43]
  | some true => [45]

/-- sign, zeros, digits -/
def core (s : IntSpelling) : Bytes := signBytes s.sign ++ (List.replicate s.zeros 48 ++ s.digits)

def text (s : IntSpelling) : Bytes := s.left ++ (s.core ++ s.right)

/-- the magnitude the digit string denotes -/
def mag (s : IntSpelling) : Option Nat := parseNat s.digits

/-- the integer the spelling denotes -/
def value (s : IntSpelling) : Option Int :=
  s.mag.map fun n => if s.sign = some true then -(n : Int) else (n : Int)

end IntSpelling

end Csvq
