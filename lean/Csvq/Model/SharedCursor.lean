/-
  Csvq.Model.SharedCursor — property C12: an object with HIDDEN mutable state used by several workers.  The model object
  is a file handle: one position, `seek` puts it to 0, `read` returns the element at the position and advances it
  (a bufio.Reader, a scanner, a hash, a random source differ in what the state is, not in the shape).  Core Lean only.
-/
namespace Csvq.Shapes

/-- what a worker does with the handle -/
inductive FStep
  | seek | read
  deriving DecidableEq, Repr

/-- one evaluation that loads a file: seek to the start, then `n` reads -/
def fileLoad (n : Nat) : List FStep := .seek :: List.replicate n .read

/-- ONE handle shared by all workers: state = (position, what every worker has read so far) -/
def curStep {α : Type} (file : List α) (s : Nat × (Nat → List (Option α))) (e : Nat × FStep) : Nat × (Nat → List (Option α)) :=
  match e.2 with
  | .seek => (0, s.2)
  | .read => (s.1 + 1, fun k => if k = e.1 then s.2 k ++ [file[s.1]?] else s.2 k)

def curRun {α : Type} (file : List α) (s : Nat × (Nat → List (Option α))) (tr : List (Nat × FStep)) : Nat × (Nat → List (Option α)) :=
  tr.foldl (curStep file) s

/-- what worker `k` has read through the shared handle after the trace -/
def sharedReads {α : Type} (file : List α) (tr : List (Nat × FStep)) (k : Nat) : List (Option α) :=
  (curRun file (0, fun _ => []) tr).2 k

/-- the same steps on a handle of the worker's own, from position `p` -/
def seqStep {α : Type} (file : List α) (s : Nat × List (Option α)) (c : FStep) : Nat × List (Option α) :=
  match c with
  | .seek => (0, s.2)
  | .read => (s.1 + 1, s.2 ++ [file[s.1]?])

def seqReads {α : Type} (file : List α) (l : List FStep) : List (Option α) := (l.foldl (seqStep file) (0, [])).2

end Csvq.Shapes
