/-
  Csvq.Model.Lateral — LATERAL joins in the shape of lib/query/load_view.go (`loadView`, `case parser.Join` with a
  LATERAL right-hand side) and eval.go (`EvaluateSequentially` / `evaluateSequentialRoutine`), and sub-queries whose
  select list is an aggregate without GROUP BY.

      view = loadView(join.Table)                                   -- the left side
      switch join.Direction.Token { case RIGHT, FULL: return IncorrectLateralUsage }
      var hfields Header;  resultSetList := make([]RecordSet, view.RecordLen())
      EvaluateSequentially(view, func(seqScope, rIdx) {             -- gm.Number workers, worker k handles the
          appliedView = Select(seqScope, subquery.Query)            --   records RecordRange(k) in order and stops
          appliedView.Header.Update(alias)                          --   at its first error
          calcView = {Header: view.Header, RecordSet: {view.RecordSet[rIdx]}}
          joinViews(calcView, appliedView, join)                    -- CROSS / INNER / OUTER on ONE left record
          if rIdx == 0 { hfields = calcView.Header }
          resultSetList[rIdx] = calcView.RecordSet })
      for i := range resultSetList { resultSet = append(resultSet, resultSetList[i]...) }
      view.Header = hfields;  view.RecordSet = resultSet

  `sub l` = what the sub-select yields with the left record `l` in scope: (header width, records) or an error.
  The worker chunks are contiguous pieces of the left record list in order (GoroutineTaskManager.RecordRange);
  `start` = number of records in the chunks before.  Core Lean only.
-/
import Csvq.Model.Rel
namespace Csvq.Rel
open Csvq

/-! ## the join written in the query (`parser.Join`) -/

/-- `join.JoinType.Token`: nothing written, CROSS, INNER, OUTER -/
inductive JType | absent | cross | inner | outer
  deriving DecidableEq, Repr, Inhabited

/-- `join.Direction.Token`: nothing written, LEFT, RIGHT, FULL -/
inductive JDir | absent | left | right | full
  deriving DecidableEq, Repr, Inhabited

/-- the three join functions of join.go -/
inductive JoinFn | cross | inner | outer
  deriving DecidableEq, Repr, Inhabited

/-- `joinViews`: `joinType := join.JoinType.Token; if join.JoinType.IsEmpty() { if join.Direction.IsEmpty() { INNER }
    else { OUTER } }` -/
def joinTypeOf : JType → JDir → JType
  | .absent, .absent => .inner
  | .absent, _ => .outer
  | t, _ => t

/-- `switch joinType { case CROSS: CrossJoin; case INNER: InnerJoin; case OUTER: OuterJoin }` (no case: nothing is
    done to the view) -/
def joinDispatchOf : JType → Option JoinFn
  | .cross => some .cross
  | .inner => some .inner
  | .outer => some .outer
  | .absent => none

/-- `OuterJoin`: `if direction == parser.TokenUndefined { direction = parser.LEFT }` -/
def outerDirOf : JDir → Dir
  | .right => .right
  | .full => .full
  | _ => .left

/-- `switch join.Direction.Token { case parser.RIGHT, parser.FULL: return nil, NewIncorrectLateralUsageError(t) }` -/
def lateralRejects : JDir → Bool
  | .right => true
  | .full => true
  | _ => false

/-- `LoadView`: `FROM t1, LATERAL (…)` becomes `parser.Join{Table: t1, JoinTable: …, JoinType: CROSS}` -/
def fromListJType : JType := .cross
def fromListJDir : JDir := .absent

structure LatJoin where
  jt : JType
  dir : JDir
  cond : Option Cond      -- `condition` of ParseJoinCondition (nil: no ON / USING, or NATURAL without a common column)

/-- the condition the join functions evaluate: `Evaluate(ctx, scope, nil)` is TRUE -/
def condOf : Option Cond → Cond
  | none => fun _ => .T
  | some c => c

/-! ## `joinViews(ctx, scope, calcView, appliedView, join)` for the one-record view of a left record

  `lw` = width of the left header, `s` = the applied sub-select.  One record on the outer loop: one worker. -/

def latJoinOne (J : LatJoin) (lw : Nat) (l : Row) (s : Nat × List Row) : Nat × List Row :=
  (lw + s.1,
   match joinDispatchOf (joinTypeOf J.jt J.dir) with
   | some .cross => crossImpl [[l]] s.2
   | some .inner =>
     (match J.cond with
      | none => crossImpl [[l]] s.2                        -- InnerJoin: `if condition == nil { return CrossJoin(…) }`
      | some c => innerImpl [[l]] s.2 c)
   | some .outer => outerImpl (outerDirOf J.dir) lw s.1 [[l]] s.2 (condOf J.cond)
   | none => [l])

/-! ## the per-record callback and the workers -/

/-- `xs.mapM f` in `Except`, written by recursion: the first error in list order -/
def mapE {ε α β} (f : α → Except ε β) : List α → Except ε (List β)
  | [] => .ok []
  | a :: as =>
    match f a with
    | .error e => .error e
    | .ok b =>
      match mapE f as with
      | .error e => .error e
      | .ok bs => .ok (b :: bs)

/-- the callback handed to `EvaluateSequentially`: (header of the joined one-record view, its records) -/
def latCallback {ε} (J : LatJoin) (lw : Nat) (sub : Row → Except ε (Nat × List Row)) (l : Row) :
    Except ε (Nat × List Row) :=
  match sub l with
  | .error e => .error e
  | .ok s => .ok (latJoinOne J lw l s)

/-- `evaluateSequentialRoutine` for one worker: the records of its range in order, `rIdx = start + i`; the first
    error ends it.  Result: `hfields` if this worker handled `rIdx == 0`, and the slots of `resultSetList` it filled
    (`η` = what a header is: its width in the theorems, the field list in the driver). -/
def latWorker {ε η} (fn : Row → Except ε (η × List Row)) : Nat → List Row → Except ε (Option η × List (List Row))
  | _, [] => .ok (none, [])
  | rIdx, l :: ls =>
    match fn l with
    | .error e => .error e
    | .ok (h, rows) =>
      match latWorker fn (rIdx + 1) ls with
      | .error e => .error e
      | .ok (h', slots) => .ok ((if rIdx = 0 then some h else h'), rows :: slots)

/-- all workers, in worker order (they do not see each other's results; an error of any worker fails the whole
    operation — the one of the first failing worker is reported here); the slots side by side are `resultSetList` -/
def latWorkers {ε η} (fn : Row → Except ε (η × List Row)) : Nat → List (List Row) → Except ε (Option η × List (List Row))
  | _, [] => .ok (none, [])
  | start, ch :: rest =>
    match latWorker fn start ch with
    | .error e => .error e
    | .ok (h, slots) =>
      match latWorkers fn (start + ch.length) rest with
      | .error e => .error e
      | .ok (h', slots') => .ok ((match h with | some x => some x | none => h'), slots ++ slots')

/-- the LATERAL branch after the direction test: `h0` = the zero value of `hfields` (no header at all) -/
def latRun {ε η} (h0 : η) (chunks : List (List Row)) (fn : Row → Except ε (η × List Row)) : Except ε (η × List Row) :=
  match latWorkers fn 0 chunks with
  | .error e => .error e
  | .ok (h, slots) => .ok ((match h with | some x => x | none => h0), slots.flatten)

/-- one record after the other, no workers: the specification of `latRun` -/
def latSeq {ε η} (h0 : η) (L : List Row) (fn : Row → Except ε (η × List Row)) : Except ε (η × List Row) :=
  match mapE fn L with
  | .error e => .error e
  | .ok ps => .ok ((match ps with | [] => h0 | p :: _ => p.1), (ps.map (fun p => p.2)).flatten)

inductive LatErr (ε : Type)
  | incorrectLateralUsage           -- RIGHT / FULL JOIN LATERAL
  | sub (e : ε)                      -- an error of the sub-select (or of the join) for some left record
  deriving Repr, DecidableEq

def liftErr {ε α} : Except ε α → Except (LatErr ε) α
  | .ok a => .ok a
  | .error e => .error (.sub e)

/-- the LATERAL branch of `loadView` as a whole; header = width (0 = `hfields` never assigned) -/
def latImpl {ε} (J : LatJoin) (lw : Nat) (chunks : List (List Row)) (sub : Row → Except ε (Nat × List Row)) :
    Except (LatErr ε) (Nat × List Row) :=
  if lateralRejects J.dir then .error .incorrectLateralUsage
  else liftErr (latRun 0 chunks (latCallback J lw sub))

/-! ## specification

  For every left record `l`, in order, the records of `join(l, sub l)`: the matching merges, and — for the outer
  form — `l` padded with NULLs exactly when no record of `sub l` satisfies the condition. -/

inductive LKind | inner | left
  deriving DecidableEq, Repr, Inhabited

def latKindOf (jt : JType) (dir : JDir) : LKind :=
  match joinTypeOf jt dir with
  | .outer => .left
  | _ => .inner

/-- CROSS has no condition; the others the written one (none = TRUE) -/
def latCondOf (J : LatJoin) : Cond :=
  match joinTypeOf J.jt J.dir with
  | .cross => fun _ => .T
  | _ => condOf J.cond

/-- what one left record contributes -/
def latBlock (k : LKind) (c : Cond) (l : Row) (s : Nat × List Row) : List Row :=
  match k with
  | .inner => (s.2.filter (fun r => c (l ++ r) = .T)).map (fun r => l ++ r)
  | .left =>
    if (s.2.filter (fun r => c (l ++ r) = .T)).isEmpty then [l ++ nulls s.1]
    else (s.2.filter (fun r => c (l ++ r) = .T)).map (fun r => l ++ r)

def latSpecRows (k : LKind) (c : Cond) (L : List Row) (sub : Row → Nat × List Row) : List Row :=
  L.flatMap (fun l => latBlock k c l (sub l))

/-- the header the property asks for: left columns, then the sub-select's (its width `w` does not depend on the
    record) — whatever the left table holds -/
def latSpec (k : LKind) (c : Cond) (lw w : Nat) (L : List Row) (sub : Row → Nat × List Row) : Nat × List Row :=
  (lw + w, latSpecRows k c L sub)

/-! ## a sub-query whose select list is an aggregate, without GROUP BY

  `SELECT AGG(x) FROM src WHERE c` groups all records that passed the WHERE into ONE group — also when there is
  none (view.go `group` with no keys: the placeholder record), so the result has exactly one record with one field:
  the aggregate of the (possibly empty) list of values. -/

def aggQuery (agg : List Profile → Profile) (arg : Row → Profile) (rows : List Row) : Nat × List Row :=
  (1, [[agg (rows.map arg)]])

end Csvq.Rel
