/-
  Csvq.Model.Analytic — analytic functions (`f(...) OVER (PARTITION BY … ORDER BY … ROWS …)`).
  Mirrors lib/query/analytic_function.go:

    Analyze            partition key per record, `partitions[key] = append(partitions[key], i)` in record
                       order (the view has already been ordered by the clause's ORDER BY, view.go
                       evalAnalyticFunction), every partition executed by some worker, the value of record
                       `idx` appended to `RecordSet[idx]`
    WindowFrameSet     the (Low, High, Records) triples
    windowValues       the cells handed to an aggregate
    RowNumber, Rank, DenseRank, CumeDist, PercentRank (perseCumulativeGroups), NTile,
    FirstValue / LastValue / NthValue (setNthValue), Lag / Lead (setLag), aggregates, LISTAGG / JSON_AGG

  Conventions
  * a record is its index in the (ordered) view; a partition is a `List Nat` of record indices;
  * `cells : Nat → Val` is the value of the function's first argument on a record (Evaluate is a
    function of the record; the valueCache of the Go code only memoises it);
  * `eqv idx c` is `sortValuesInEachRecord[idx].EquivalentTo(sortValuesInEachRecord[c])`; without an
    ORDER BY clause `sortValuesInEachRecord == nil` and the code treats no two records as equivalent:
    that case is `eqv = fun _ _ => false`;
  * what `Execute` returns (`map[int]value.Primary`) is an association list record ↦ value;
  * CUME_DIST / PERCENT_RANK are kept as exact fractions (numerator, denominator); the code's
    `float64(a) / float64(b)` of these integers is applied by the driver only.

  Second half: the SPECIFICATION — the textbook definition of every function as a function of
  (rows before the current row, current row, rows after it) inside the partition and of the row's frame.
-/
import Csvq.Model.Group
import Csvq.Model.Sort
namespace Csvq.Analytic
open Csvq
universe u

/-! ## the code -/

section partitions
variable {κ : Type u} [DecidableEq κ]

/-- Analyze, the loop over `partitionKeys`: key → record indices in record order, keys in order of
    first occurrence (`partitionMapKeys`).  Same loop as one worker of View.group. -/
def partitionsOf (keys : List κ) : List (κ × List Nat) := localGroups keys.zipIdx

end partitions

/-- `Partition.Reverse()` is `sort.Sort(sort.Reverse(sort.IntSlice(p)))`: it SORTS the record indices
    in descending order (for the ascending index lists Analyze builds this is the reversal). -/
def insertDesc (x : Nat) : List Nat → List Nat
  | [] => [x]
  | y :: ys => if y ≤ x then x :: y :: ys else y :: insertDesc x ys

def sortDesc (p : List Nat) : List Nat := p.foldl (fun acc x => insertDesc x acc) []

/-! ### window frames -/

inductive Bound
  | unboundedPreceding
  | preceding (n : Nat)
  | currentRow
  | following (n : Nat)
  | unboundedFollowing
  deriving DecidableEq, Repr, Inhabited

/-- the analytic clause as far as frames are concerned (parser.y: `windowing_clause`) -/
inductive Window
  | noOrder                      -- no ORDER BY (the grammar then allows no windowing clause)
  | orderOnly                    -- ORDER BY without a windowing clause
  | rows (lo : Bound)            -- ROWS lo
  | between (lo hi : Bound)      -- ROWS BETWEEN lo AND hi
  deriving DecidableEq, Repr, Inhabited

/-- `frameIndex` inside WindowFrameSet: a position from -1 (before the first row) to `length` (after the
    last row) — the code does not compute positions beyond these limits (an offset can be any integer) -/
def frameIndex (current length : Nat) : Bound → Int
  | .currentRow => (current : Int)
  | .unboundedPreceding => 0
  | .preceding n => if (current : Int) < (n : Int) then -1 else (current : Int) - (n : Int)
  | .unboundedFollowing => (length : Int) - 1
  | .following n => if (length : Int) - (current : Int) ≤ (n : Int) then (length : Int) else (current : Int) + (n : Int)

/-- the textbook position of a frame bound: `current ∓ n`, unclamped -/
def frameIndexPlain (current length : Nat) : Bound → Int
  | .currentRow => (current : Int)
  | .unboundedPreceding => 0
  | .preceding n => (current : Int) - (n : Int)
  | .unboundedFollowing => (length : Int) - 1
  | .following n => (current : Int) + (n : Int)

structure Frame where
  low : Int
  high : Int
  records : List Nat
  deriving Repr

def singleFrameSet (p : List Nat) : List Frame := [⟨0, (p.length : Int) - 1, p⟩]

def perRowFrames (p : List Nat) (lo hi : Nat → Int) : List Frame :=
  p.zipIdx.map fun r => ⟨lo r.2, hi r.2, [r.1]⟩

/-- WindowFrameSet -/
def windowFrameSet (p : List Nat) : Window → List Frame
  | .noOrder => singleFrameSet p
  | .orderOnly => perRowFrames p (fun c => frameIndex c p.length .unboundedPreceding) (fun c => (c : Int))
  | .rows lo => perRowFrames p (fun c => frameIndex c p.length lo) (fun c => (c : Int))
  | .between .unboundedPreceding .unboundedFollowing => singleFrameSet p
  | .between lo hi => perRowFrames p (fun c => frameIndex c p.length lo) (fun c => frameIndex c p.length hi)

/-- the records visited by `for i := Low; i <= High; i++ { if i < 0 || len(partition) <= i { continue }; … partition[i] … }`,
    in order: positions `max Low 0 … min High (len-1)` -/
def frameRecords (p : List Nat) (low high : Int) : List Nat :=
  (p.take (high + 1).toNat).drop low.toNat

def isNullV : Val → Bool
  | .null => true
  | _ => false

/-! ### FIRST_VALUE / LAST_VALUE / NTH_VALUE -/

/-- the inner loop of setNthValue over the visited records: `val` is overwritten by every visited
    cell, IGNORE NULLS `continue`s, `count == n` `break`s; what is left in `val` is the result -/
def scanNth (cells : Nat → Val) (ign : Bool) (n : Nat) : List Nat → Val → Nat → Val
  | [], val, _ => val
  | r :: rest, _, count =>
    if ign && isNullV (cells r) then scanNth cells ign n rest (cells r) count
    else if count + 1 = n then cells r
    else scanNth cells ign n rest (cells r) (count + 1)

def setNthValue (cells : Nat → Val) (ign : Bool) (n : Nat) (w : Window) (p : List Nat) : List (Nat × Val) :=
  (windowFrameSet p w).flatMap fun f =>
    f.records.map fun idx => (idx, scanNth cells ign n (frameRecords p f.low f.high) .null 0)

def firstValue (cells : Nat → Val) (ign : Bool) (w : Window) (p : List Nat) : List (Nat × Val) :=
  setNthValue cells ign 1 w p

/-- LastValue.Execute: `partition.Reverse()` and then the FIRST value — the frames are computed on
    the reversed partition with the unchanged clause -/
def lastValue (cells : Nat → Val) (ign : Bool) (w : Window) (p : List Nat) : List (Nat × Val) :=
  setNthValue cells ign 1 w (sortDesc p)

/-- NthValue.Execute; `none` = "the second argument must be greater than 0" -/
def nthValue (cells : Nat → Val) (ign : Bool) (n : Int) (w : Window) (p : List Nat) : Option (List (Nat × Val)) :=
  if n < 1 then none else some (setNthValue cells ign n.toNat w p)

/-! ### LAG / LEAD -/

def keepV (ign : Bool) (v : Val) : Bool := !(ign && isNullV v)

/-- `values` is kept newest first (`rev`); `lagIdx = len(values) - 1 - offset`, scanned downwards -/
def lagPick (ign : Bool) (dflt : Val) (offset : Int) (rev : List Val) : Val :=
  if offset < 0 then dflt
  else match (rev.drop offset.toNat).find? (keepV ign) with
    | some v => v
    | none => dflt

def lagLoop (cells : Nat → Val) (ign : Bool) (dflt : Val) (offset : Int) : List Nat → List Val → List (Nat × Val)
  | [], _ => []
  | idx :: rest, rev =>
    (idx, lagPick ign dflt offset (cells idx :: rev)) :: lagLoop cells ign dflt offset rest (cells idx :: rev)

def lag (cells : Nat → Val) (ign : Bool) (dflt : Val) (offset : Int) (p : List Nat) : List (Nat × Val) :=
  lagLoop cells ign dflt offset p []

/-- Lead.Execute: `partition.Reverse()` then setLag -/
def lead (cells : Nat → Val) (ign : Bool) (dflt : Val) (offset : Int) (p : List Nat) : List (Nat × Val) :=
  lagLoop cells ign dflt offset (sortDesc p) []

/-! ### ROW_NUMBER / RANK / DENSE_RANK / CUME_DIST / PERCENT_RANK -/

def rowNumberLoop : List Nat → Nat → List (Nat × Nat)
  | [], _ => []
  | idx :: rest, number => (idx, number + 1) :: rowNumberLoop rest (number + 1)

def rowNumber (p : List Nat) : List (Nat × Nat) := rowNumberLoop p 0

/-- `sortValues[idx].EquivalentTo(currentRank)`; `none` is the nil `currentRank` (EquivalentTo(nil) = false) -/
def sameRank (eqv : Nat → Nat → Bool) (idx : Nat) : Option Nat → Bool
  | none => false
  | some c => eqv idx c

def rankLoop (eqv : Nat → Nat → Bool) : List Nat → Nat → Nat → Option Nat → List (Nat × Nat)
  | [], _, _, _ => []
  | idx :: rest, number, rank, cur =>
    if sameRank eqv idx cur then (idx, rank) :: rankLoop eqv rest (number + 1) rank cur
    else (idx, number + 1) :: rankLoop eqv rest (number + 1) (number + 1) (some idx)

def rank (eqv : Nat → Nat → Bool) (p : List Nat) : List (Nat × Nat) := rankLoop eqv p 0 0 none

def denseLoop (eqv : Nat → Nat → Bool) : List Nat → Nat → Option Nat → List (Nat × Nat)
  | [], _, _ => []
  | idx :: rest, rank, cur =>
    if sameRank eqv idx cur then (idx, rank) :: denseLoop eqv rest rank cur
    else (idx, rank + 1) :: denseLoop eqv rest (rank + 1) (some idx)

def denseRank (eqv : Nat → Nat → Bool) (p : List Nat) : List (Nat × Nat) := denseLoop eqv p 0 none

/-- `groups[len(groups)-1] = append(groups[len(groups)-1], idx)` -/
def appendToLast (idx : Nat) : List (List Nat) → List (List Nat)
  | [] => [[idx]]
  | [g] => [g ++ [idx]]
  | g :: g' :: gs => g :: appendToLast idx (g' :: gs)

/-- perseCumulativeGroups -/
def cumGroups (eqv : Nat → Nat → Bool) : List Nat → Option Nat → List (List Nat) → List (List Nat)
  | [], _, groups => groups
  | idx :: rest, cur, groups =>
    if sameRank eqv idx cur then cumGroups eqv rest cur (appendToLast idx groups)
    else cumGroups eqv rest (some idx) (groups ++ [[idx]])

/-- exact fraction numerator / denominator -/
abbrev Frac := Nat × Nat

def cumeLoop (total : Nat) : List (List Nat) → Nat → List (Nat × Frac)
  | [], _ => []
  | g :: gs, cumulative =>
    g.map (fun idx => (idx, (cumulative + g.length, total))) ++ cumeLoop total gs (cumulative + g.length)

def cumeDist (eqv : Nat → Nat → Bool) (p : List Nat) : List (Nat × Frac) :=
  cumeLoop p.length (cumGroups eqv p none []) 0

/-- `denom = len(partition) - 1`; `dist = 1` unless `0 < denom` -/
def percentLoop (len : Nat) : List (List Nat) → Nat → List (Nat × Frac)
  | [], _ => []
  | g :: gs, cumulative =>
    g.map (fun idx => (idx, if 1 < len then (cumulative, len - 1) else (1, 1))) ++ percentLoop len gs (cumulative + g.length)

def percentRank (eqv : Nat → Nat → Bool) (p : List Nat) : List (Nat × Frac) :=
  percentLoop p.length (cumGroups eqv p none []) 0

/-! ### NTILE -/

def ntileLoop (perTile : Nat) : List Nat → Nat → Nat → Nat → List (Nat × Nat)
  | [], _, _, _ => []
  | idx :: rest, tile, count, mod =>
    if perTile + 1 < count + 1 then (idx, tile + 1) :: ntileLoop perTile rest (tile + 1) 1 mod
    else if perTile + 1 = count + 1 then
      (if 0 < mod then (idx, tile) :: ntileLoop perTile rest tile (count + 1) (mod - 1)
       else (idx, tile + 1) :: ntileLoop perTile rest (tile + 1) 1 mod)
    else (idx, tile) :: ntileLoop perTile rest tile (count + 1) mod

/-- `perTile`, `mod` as NTile.Execute computes them (`perTile < 1` ⇒ one row per tile) -/
def ntileParams (total tileNumber : Nat) : Nat × Nat :=
  if total / tileNumber < 1 then (1, 0) else (total / tileNumber, total % tileNumber)

/-- NTile.Execute; `none` = "the first argument must be greater than 0" -/
def ntile (tileNumber : Int) (p : List Nat) : Option (List (Nat × Nat)) :=
  if tileNumber < 1 then none
  else some (ntileLoop (ntileParams p.length tileNumber.toNat).1 p 1 0 (ntileParams p.length tileNumber.toNat).2)

/-! ### aggregates and user-defined aggregates with OVER; LISTAGG / JSON_AGG -/

/-- windowValues: the cells of the visited records.  `make([]value.Primary, 0, frame.High-frame.Low+1)`
    panics ("makeslice: cap out of range", surfacing as a Fatal Error) when `High < Low - 1`; `none` is
    that panic. -/
def windowValues (cells : Nat → Val) (p : List Nat) (f : Frame) : Option (List Val) :=
  if f.high - f.low + 1 < 0 then none else some ((frameRecords p f.low f.high).map cells)

/-- Analyze, the aggregate branch: the frames are processed in order; every frame's cells are handed
    to the aggregate (`agg idx values`: a built-in aggregate ignores `idx`, a user-defined one
    evaluates its extra arguments on the record; DISTINCT is part of `agg`) -/
def aggFrames {β : Type} (cells : Nat → Val) (agg : Nat → List Val → β) (p : List Nat) : List Frame → Option (List (Nat × β))
  | [] => some []
  | f :: fs =>
    match windowValues cells p f with
    | none => none
    | some values =>
      match aggFrames cells agg p fs with
      | none => none
      | some rest => some (f.records.map (fun idx => (idx, agg idx values)) ++ rest)

def aggOver {β : Type} (cells : Nat → Val) (agg : Nat → List Val → β) (w : Window) (p : List Nat) : Option (List (Nat × β)) :=
  aggFrames cells agg p (windowFrameSet p w)

/-- AnalyticListAgg / AnalyticJsonAgg: the cells of the whole partition, in partition order -/
def listAggOver {β : Type} (cells : Nat → Val) (agg : List Val → β) (p : List Nat) : List (Nat × β) :=
  p.map fun idx => (idx, agg (p.map cells))

/-- Analyze's rewrite of `COUNT(*)`: the header field is registered under the identifier of the call
    as written (`FormatFieldIdentifier(fn)` at the top of Analyze); the literal 1 that replaces `*` is
    written into a COPY of the argument list (since fix 02f8662 — before it the shared slice was
    overwritten and the select clause looked for `COUNT(1) OVER (…)`: pre-finding F8), so the caller's
    expression is unchanged when the select clause looks it up in the header. -/
inductive AggArg
  | allColumns
  | int1
  | field (c : Nat)
  deriving DecidableEq, Repr

structure AnalyzedArg where
  registered : AggArg     -- identifier under which the new column is registered
  evaluated : AggArg      -- what windowValues evaluates on every record of the frame
  callerHolds : AggArg    -- what the caller's expression holds after Analyze returned

def analyzeArg : AggArg → AnalyzedArg
  | .allColumns => ⟨.allColumns, .int1, .allColumns⟩
  | a => ⟨a, a, a⟩

/-- `view.Header.ContainsObject(expr)` in the select clause after Analyze; `false` would mean the
    expression is evaluated as an ordinary value ⇒ "analytic function count is only available in
    select clause or order by clause" -/
def selectFindsColumn (a : AggArg) : Bool :=
  decide ((analyzeArg a).registered = (analyzeArg a).callerHolds)

/-! ### the repaired variants

  Three functions of the code as first pinned departed from the specification (Props/C17.lean); they
  have been repaired in /repo.  `lastValueFixed` (setNthValue with `fromLast`: the frame of the
  unreversed partition scanned from `High` down), `nthValueFixed` (`if count < n { val = NULL }`) and
  `aggOverFixed` (capacity clamped at 0) model the code that exists now; the earlier definitions
  (`lastValue`, `nthValue`, `aggOver`) are kept, with their counterexamples, as the record of the
  defects.  The driver selects by `repoState`. -/

structure CodeState where
  lastValueMirrorsFrame : Bool      -- LAST_VALUE computes its frames on the reversed partition (pre-finding F14)
  nthValueLeaksLastVisited : Bool   -- NTH_VALUE returns the last visited cell when the frame is too short
  invertedFramePanics : Bool        -- windowValues' makeslice panics when High < Low - 1

/-- the state of /repo this model describes -/
def repoState : CodeState := { lastValueMirrorsFrame := false, nthValueLeaksLastVisited := false, invertedFramePanics := false }

/-- LAST_VALUE repaired: the frames of the partition as it stands, each scanned from its end -/
def lastValueFixed (cells : Nat → Val) (ign : Bool) (w : Window) (p : List Nat) : List (Nat × Val) :=
  (windowFrameSet p w).flatMap fun f =>
    f.records.map fun idx => (idx, scanNth cells ign 1 (frameRecords p f.low f.high).reverse .null 0)

/-- setNthValue's loop repaired: NULL unless the n-th counted cell is reached -/
def scanNthFixed (cells : Nat → Val) (ign : Bool) (n : Nat) : List Nat → Nat → Val
  | [], _ => .null
  | r :: rest, count =>
    if ign && isNullV (cells r) then scanNthFixed cells ign n rest count
    else if count + 1 = n then cells r
    else scanNthFixed cells ign n rest (count + 1)

def nthValueFixed (cells : Nat → Val) (ign : Bool) (n : Int) (w : Window) (p : List Nat) : Option (List (Nat × Val)) :=
  if n < 1 then none
  else some ((windowFrameSet p w).flatMap fun f =>
    f.records.map fun idx => (idx, scanNthFixed cells ign n.toNat (frameRecords p f.low f.high) 0))

/-- the aggregate branch repaired: an inverted frame is an empty frame -/
def aggOverFixed {β : Type} (cells : Nat → Val) (agg : Nat → List Val → β) (w : Window) (p : List Nat) : Option (List (Nat × β)) :=
  some ((windowFrameSet p w).flatMap fun f =>
    f.records.map fun idx => (idx, agg idx ((frameRecords p f.low f.high).map cells)))

def lastValueAt (st : CodeState) (cells : Nat → Val) (ign : Bool) (w : Window) (p : List Nat) : List (Nat × Val) :=
  if st.lastValueMirrorsFrame then lastValue cells ign w p else lastValueFixed cells ign w p

def nthValueAt (st : CodeState) (cells : Nat → Val) (ign : Bool) (n : Int) (w : Window) (p : List Nat) : Option (List (Nat × Val)) :=
  if st.nthValueLeaksLastVisited then nthValue cells ign n w p else nthValueFixed cells ign n w p

def aggOverAt {β : Type} (st : CodeState) (cells : Nat → Val) (agg : Nat → List Val → β) (w : Window) (p : List Nat) : Option (List (Nat × β)) :=
  if st.invertedFramePanics then aggOver cells agg w p else aggOverFixed cells agg w p

/-! ### Analyze: all partitions, result column -/

def assoc {β : Type} (i : Nat) : List (Nat × β) → Option β
  | [] => none
  | (j, v) :: rest => if j = i then some v else assoc i rest

section analyze
variable {κ : Type u} [DecidableEq κ] {β : Type}

/-- every worker executes a contiguous range of the partition list (`gm.RecordRange`); `split` is
    that cut.  The value of record `i` is the one its partition's `Execute` returned for it. -/
def analyzeWith (split : List (κ × List Nat) → List (List (κ × List Nat)))
    (exec : List Nat → List (Nat × β)) (keys : List κ) : List (Option β) :=
  let results := (split (partitionsOf keys)).flatMap fun chunk => chunk.flatMap fun part => exec part.2
  (List.range keys.length).map fun i => assoc i results

def analyze (exec : List Nat → List (Nat × β)) (keys : List κ) : List (Option β) :=
  analyzeWith (fun l => [l]) exec keys

end analyze

/-- `view.RecordSet[idx] = append(view.RecordSet[idx], NewCell(val))` -/
def appendColumn {γ : Type} (rows : List (List γ)) (col : List γ) : List (List γ) :=
  List.zipWith (fun r v => r ++ [v]) rows col

/-! ## the specification -/

/-- apply a per-row definition `f pre x post` (rows of the partition before the current row, the
    current row, the rows after it) to every row of `rest`, `pre` being the rows already passed -/
def perRow {β : Type} (f : List Nat → Nat → List Nat → β) : List Nat → List Nat → List (Nat × β)
  | _, [] => []
  | pre, x :: post => (x, f pre x post) :: perRow f (pre ++ [x]) post

/-- the frame of the row at position `k` of a partition of `len` rows, as positions `[lo, hi]` -/
def frameBounds (w : Window) (len k : Nat) : Int × Int :=
  match w with
  | .noOrder => (0, (len : Int) - 1)
  | .orderOnly => (0, (k : Int))
  | .rows lo => (frameIndex k len lo, (k : Int))
  | .between lo hi => (frameIndex k len lo, frameIndex k len hi)

/-- the rows of the frame of `x`, in partition order: positions `[lo, hi] ∩ [0, len)` -/
def frameRows (w : Window) (pre : List Nat) (x : Nat) (post : List Nat) : List Nat :=
  frameRecords (pre ++ x :: post)
    (frameBounds w (pre.length + 1 + post.length) pre.length).1
    (frameBounds w (pre.length + 1 + post.length) pre.length).2

/-- the frame's cells that count (all of them, or the non-NULL ones under IGNORE NULLS) -/
def keptCells (cells : Nat → Val) (ign : Bool) (rows : List Nat) : List Val :=
  (rows.map cells).filter (keepV ign)

def firstValueSpec (cells : Nat → Val) (ign : Bool) (w : Window) (pre : List Nat) (x : Nat) (post : List Nat) : Val :=
  (keptCells cells ign (frameRows w pre x post)).head?.getD .null

def lastValueSpec (cells : Nat → Val) (ign : Bool) (w : Window) (pre : List Nat) (x : Nat) (post : List Nat) : Val :=
  (keptCells cells ign (frameRows w pre x post)).getLast?.getD .null

/-- the n-th (1-based) counted cell of the frame, NULL if there are fewer -/
def nthValueSpec (cells : Nat → Val) (ign : Bool) (n : Nat) (w : Window) (pre : List Nat) (x : Nat) (post : List Nat) : Val :=
  ((keptCells cells ign (frameRows w pre x post))[n - 1]?).getD .null

/-- LAG(expr, offset, default): the cell `offset` rows before the current row; under IGNORE NULLS rows
    whose cell is NULL are skipped (further back); `default` if there is no such row.
    (A negative offset yields `default`.) -/
def lagSpec (cells : Nat → Val) (ign : Bool) (dflt : Val) (offset : Int) (pre : List Nat) (x : Nat) (_post : List Nat) : Val :=
  if offset < 0 then dflt
  else ((((pre ++ [x]).map cells).reverse.drop offset.toNat).find? (keepV ign)).getD dflt

/-- LEAD: the same towards the end of the partition -/
def leadSpec (cells : Nat → Val) (ign : Bool) (dflt : Val) (offset : Int) (_pre : List Nat) (x : Nat) (post : List Nat) : Val :=
  if offset < 0 then dflt
  else ((((x :: post).map cells).drop offset.toNat).find? (keepV ign)).getD dflt

/-- what RANK & co. need to know about the ORDER BY equivalence on a (sorted) partition: it is
    symmetric and transitive, and peers are adjacent — if `y` comes before `z` comes before `x` and
    `y`, `x` are peers, so are `y`, `z` (a list sorted by a comparison whose ties are `eqv` has this
    shape).  Without ORDER BY (`eqv = fun _ _ => false`) it holds trivially. -/
structure Peers (eqv : Nat → Nat → Bool) (p : List Nat) : Prop where
  symm : ∀ a b, eqv a b = true → eqv b a = true
  trans : ∀ a b c, eqv a b = true → eqv b c = true → eqv a c = true
  contig : ∀ y z x, [y, z, x].Sublist p → eqv y x = true → eqv y z = true

def rowNumberSpec (pre : List Nat) (_x : Nat) (_post : List Nat) : Nat := pre.length + 1

/-- RANK: one more than the number of preceding rows that are not peers of the current row -/
def rankSpec (eqv : Nat → Nat → Bool) (pre : List Nat) (x : Nat) (_post : List Nat) : Nat :=
  1 + (pre.filter fun j => !eqv j x).length

/-- number of peer classes met in `l` (a row opens a class if no earlier row is its peer) -/
def numClasses (eqv : Nat → Nat → Bool) : List Nat → List Nat → Nat
  | _, [] => 0
  | seen, y :: rest => (if seen.any (fun z => eqv y z) then 0 else 1) + numClasses eqv (seen ++ [y]) rest

/-- DENSE_RANK: number of distinct peer classes up to and including the current row -/
def denseRankSpec (eqv : Nat → Nat → Bool) (pre : List Nat) (x : Nat) (_post : List Nat) : Nat :=
  numClasses eqv [] (pre ++ [x])

/-- CUME_DIST: (rows preceding or peer of the current row) / (rows of the partition) -/
def cumeDistSpec (eqv : Nat → Nat → Bool) (pre : List Nat) (x : Nat) (post : List Nat) : Frac :=
  (pre.length + 1 + (post.filter fun j => eqv j x).length, pre.length + 1 + post.length)

/-- PERCENT_RANK: (rank − 1) / (rows − 1); csvq's convention for a single-row partition is 1 -/
def percentRankSpec (eqv : Nat → Nat → Bool) (pre : List Nat) (x : Nat) (post : List Nat) : Frac :=
  if 1 < pre.length + 1 + post.length then (rankSpec eqv pre x post - 1, pre.length + post.length) else (1, 1)

/-- NTILE(n): bucket `b` (0-based) holds `q + 1` rows if `b < r`, else `q`; it starts at row -/
def tileStart (q r b : Nat) : Nat := b * q + min b r

/-- aggregate OVER: the aggregate receives the cells of the frame's rows, in partition order -/
def aggSpec {β : Type} (cells : Nat → Val) (agg : Nat → List Val → β) (w : Window) (pre : List Nat) (x : Nat) (post : List Nat) : β :=
  agg x ((frameRows w pre x post).map cells)

/-- no row of a partition of `len` rows has a frame whose end lies more than one position before its start -/
def NoInvertedFrame (w : Window) (len : Nat) : Prop :=
  ∀ k, k < len → 0 ≤ (frameBounds w len k).2 - (frameBounds w len k).1 + 1

/-- what LAST_VALUE computes today: the frame mirrored around the current row -/
def flipBound : Bound → Bound
  | .unboundedPreceding => .unboundedFollowing
  | .preceding n => .following n
  | .currentRow => .currentRow
  | .following n => .preceding n
  | .unboundedFollowing => .unboundedPreceding

def mirror : Window → Window
  | .noOrder => .noOrder
  | .orderOnly => .between .currentRow .unboundedFollowing
  | .rows lo => .between .currentRow (flipBound lo)
  | .between lo hi => .between (flipBound hi) (flipBound lo)

/-! ## the registration tables (reviewed copies; Props/C17.lean proves the generated ones equal them) -/

/-- the AnalyticFunctions map -/
def registry : List (String × String) :=
  [("ROW_NUMBER", "RowNumber"), ("RANK", "Rank"), ("DENSE_RANK", "DenseRank"), ("CUME_DIST", "CumeDist"),
   ("PERCENT_RANK", "PercentRank"), ("NTILE", "NTile"), ("FIRST_VALUE", "FirstValue"), ("LAST_VALUE", "LastValue"),
   ("NTH_VALUE", "NthValue"), ("LAG", "Lag"), ("LEAD", "Lead"), ("LISTAGG", "AnalyticListAgg"), ("JSON_AGG", "AnalyticJsonAgg")]

/-- CheckArgsLen: [n] = exactly n arguments, [a, b] = between a and b -/
def argLens : List (String × List Nat) :=
  [("RowNumber", [0]), ("Rank", [0]), ("DenseRank", [0]), ("CumeDist", [0]), ("PercentRank", [0]), ("NTile", [1]),
   ("FirstValue", [1]), ("LastValue", [1]), ("NthValue", [2]), ("Lag", [1, 3]), ("Lead", [1, 3]),
   ("AnalyticListAgg", [1, 2]), ("AnalyticJsonAgg", [1])]

/-- which shared helper every Execute calls, with its constant arguments: FIRST_VALUE = setNthValue(1, from the
    first row), LAST_VALUE = setNthValue(1, from the last row), NTH_VALUE = setNthValue(n, from the first row),
    LAG = setLag, LEAD = setLag on the reversed partition -/
def delegations : List (String × List String) :=
  [("RowNumber", []), ("Rank", []), ("DenseRank", []), ("CumeDist", ["perseCumulativeGroups()"]),
   ("PercentRank", ["perseCumulativeGroups()"]), ("NTile", []), ("FirstValue", ["setNthValue(1, false)"]),
   ("LastValue", ["setNthValue(1, true)"]), ("NthValue", ["setNthValue(n, false)"]), ("Lag", ["setLag()"]),
   ("Lead", ["partition.Reverse()", "setLag()"]),
   ("AnalyticListAgg", ["Distinguish(values, scope.Tx.Flags)", "ListAgg(values, separator)"]),
   ("AnalyticJsonAgg", ["Distinguish(values, scope.Tx.Flags)", "JsonAgg(values)"])]

/-- the token class of a function name (lib/parser/scanner.go) -/
def keywordClasses : List (String × List String) :=
  [("aggregateFunctions", ["MIN", "MAX", "SUM", "AVG", "STDEV", "STDEVP", "VARP", "MEDIAN"]),
   ("listFunctions", ["LISTAGG", "JSON_AGG"]),
   ("analyticFunctions", ["ROW_NUMBER", "RANK", "DENSE_RANK", "CUME_DIST", "PERCENT_RANK", "NTILE"]),
   ("functionsNth", ["FIRST_VALUE", "LAST_VALUE", "NTH_VALUE"]),
   ("functionsWithIgnoreNulls", ["LAG", "LEAD"])]

def keywordTokens : List (String × String) :=
  [("aggregateFunctions", "AGGREGATE_FUNCTION"), ("listFunctions", "LIST_FUNCTION"), ("analyticFunctions", "ANALYTIC_FUNCTION"),
   ("functionsNth", "FUNCTION_NTH"), ("functionsWithIgnoreNulls", "FUNCTION_WITH_INS")]

/-- per token class: (may carry IGNORE NULLS, may carry a windowing clause) — read off the productions of
    `analytic_function` in parser.y.  User-defined aggregates (`identifier`), the aggregate functions, VAR and COUNT
    take a windowing clause; ROW_NUMBER … NTILE, LISTAGG / JSON_AGG, LAG / LEAD do not; only FIRST/LAST/NTH_VALUE and
    LAG / LEAD take IGNORE NULLS.  A windowing clause requires ORDER BY. -/
def clauseRights : List (String × Bool × Bool) :=
  [("identifier", false, true), ("AGGREGATE_FUNCTION", false, true), ("VAR", false, true), ("COUNT", false, true),
   ("LIST_FUNCTION", false, false), ("ANALYTIC_FUNCTION", false, false), ("FUNCTION_NTH", true, true),
   ("FUNCTION_WITH_INS", true, false)]

/-- the productions themselves -/
def grammarForms : List (String × List String) :=
  [("analytic_function", ["identifier '(' arguments ')' OVER '(' analytic_clause_with_windowing ')'", "identifier '(' distinct arguments ')' OVER '(' analytic_clause_with_windowing ')'", "AGGREGATE_FUNCTION '(' distinct arguments ')' OVER '(' analytic_clause_with_windowing ')'", "VAR '(' distinct arguments ')' OVER '(' analytic_clause_with_windowing ')'", "COUNT '(' distinct arguments ')' OVER '(' analytic_clause_with_windowing ')'", "COUNT '(' distinct wildcard ')' OVER '(' analytic_clause_with_windowing ')'", "LIST_FUNCTION '(' distinct arguments ')' OVER '(' analytic_clause ')'", "ANALYTIC_FUNCTION '(' arguments ')' OVER '(' analytic_clause ')'", "FUNCTION_NTH '(' arguments ')' OVER '(' analytic_clause_with_windowing ')'", "FUNCTION_NTH '(' arguments ')' IGNORE NULLS OVER '(' analytic_clause_with_windowing ')'", "FUNCTION_WITH_INS '(' arguments ')' OVER '(' analytic_clause ')'", "FUNCTION_WITH_INS '(' arguments ')' IGNORE NULLS OVER '(' analytic_clause ')'"]),
   ("analytic_clause", ["partition_clause order_by_clause"]),
   ("analytic_clause_with_windowing", ["analytic_clause", "partition_clause ORDER BY order_items windowing_clause"]),
   ("windowing_clause", ["ROWS window_position", "ROWS BETWEEN window_frame_low AND window_frame_high"]),
   ("window_position", ["UNBOUNDED PRECEDING", "INTEGER PRECEDING", "CURRENT ROW"]),
   ("window_relative_position", ["INTEGER PRECEDING", "INTEGER FOLLOWING", "CURRENT ROW"]),
   ("window_frame_low", ["UNBOUNDED PRECEDING", "window_relative_position"]),
   ("window_frame_high", ["UNBOUNDED FOLLOWING", "window_relative_position"])]

end Csvq.Analytic
