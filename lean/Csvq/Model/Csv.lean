/-
  Csvq.Model.Csv — CSV / TSV writer and reader at the character level (core Lean only).

  Text is `List Char` *after transcoding* (the transcoders of golang.org/x/text are a parameter of
  the property: `dec (enc s) = s`, see DESIGN.md C02); NULL is a distinguished cell value.

  Writer  = github.com/mithrandie/go-text/csv `Writer.Write` (quoting rule, delimiter between
            fields, line break *before* every record but the first) fed by
            lib/query/encode.go `encodeCSV` (which fields are marked `Quote`, header on/off,
            `DataEmpty` for a header-less empty table) and by `Transaction.Commit` /
            `Processor` (the line break appended after the encoded text unless
            --strip-ending-line-break).
  Reader  = go-text/csv `Reader.parseRecord` / `parseField` as ONE character-driven state
            machine (`step`, `finish`), followed by lib/query/load_view.go `loadViewFromCSVFile`
            (header line, c1…cn for header-less files, padding under --allow-uneven-fields).

  Two deliberate re-phrasings of the Go code, both observationally equal and both exercised by the
  correspondence streams of the C02 check:
  * Go peeks one rune after '\r' (`ReadRune`/`UnreadRune`).  The machine instead remembers a
    pending CR (`pcr`) and resolves it on the next character; a '\r' that is the very last
    character makes `UnreadRune` fail in Go ("bufio: invalid use of UnreadRune") = `finish` fails.
  * inside an open quoted field Go writes `lineBreak.Value()` for "\r\n", "\r", "\n", i.e. the
    characters it has just read; the machine appends the characters one by one (a '\r' at the
    very end of the input is an error either way: open quote).
  All reader errors are one constructor (the check compares "error or not", not messages).
-/
namespace Csvq.Csv

/-! ## line breaks -/

inductive LB | lf | crlf | cr
  deriving DecidableEq, Repr, Inhabited

def LB.chars : LB → List Char
  | .lf => ['\n']
  | .crlf => ['\r', '\n']
  | .cr => ['\r']

def endingChars : Option LB → List Char
  | none => []
  | some lb => lb.chars

/-! ## writer (go-text/csv/writer.go) -/

/-- csv.Field -/
structure Field where
  contents : List Char
  quote : Bool
  deriving DecidableEq, Repr

structure WOpts where
  delim : Char
  lb : LB
  /-- `true` = the code since /repo 3f80460 (`encodeCSV` requests quoting for a field containing CR
      or LF).  `false` = the writer before: only a delimiter or a quotation mark forces quoting.
      The harness probes the real writer and passes the rule it observes. -/
  quoteLB : Bool

/-- `Writer.includeDelimiterOrQuote` -/
def includesDelimOrQuote (d : Char) : List Char → Bool
  | [] => false
  | c :: cs => if c = d ∨ c = '"' then true else includesDelimOrQuote d cs

def includesLineBreak : List Char → Bool
  | [] => false
  | c :: cs => if c = '\r' ∨ c = '\n' then true else includesLineBreak cs

/-- the loop that doubles quotation marks -/
def escapeQuotes : List Char → List Char
  | [] => []
  | c :: cs => if c = '"' then '"' :: '"' :: escapeQuotes cs else c :: escapeQuotes cs

def mustQuote (w : WOpts) (f : Field) : Bool :=
  f.quote || includesDelimOrQuote w.delim f.contents || (w.quoteLB && includesLineBreak f.contents)

def writeField (w : WOpts) (f : Field) : List Char :=
  if mustQuote w f then '"' :: (escapeQuotes f.contents ++ ['"']) else f.contents

/-- fields after the first: each preceded by the delimiter (`if 0 < i`) -/
def writeRest (w : WOpts) : List Field → List Char
  | [] => []
  | f :: fs => w.delim :: (writeField w f ++ writeRest w fs)

def writeRecord (w : WOpts) : List Field → List Char
  | [] => []
  | f :: fs => writeField w f ++ writeRest w fs

/-- records after the first: each preceded by the line break (`if e.appended`) -/
def writeMore (w : WOpts) : List (List Field) → List Char
  | [] => []
  | r :: rs => w.lb.chars ++ (writeRecord w r ++ writeMore w rs)

def writeAll (w : WOpts) : List (List Field) → List Char
  | [] => []
  | r :: rs => writeRecord w r ++ writeMore w rs

/-! ## tables and `encodeCSV` (lib/query/encode.go) -/

/-- a cell as `ConvertFieldContents` sees it: NULL (and UNKNOWN) → empty text, no effect;
    `str` = String / Datetime (quoted under --enclose-all); `raw` = Integer / Float / Boolean /
    Ternary text (never marked for quoting). -/
inductive Cell
  | null
  | str (s : List Char)
  | raw (s : List Char)
  deriving DecidableEq, Repr

def Cell.text : Cell → List Char
  | .null => []
  | .str s => s
  | .raw s => s

structure Table where
  header : List (List Char)
  rows : List (List Cell)
  deriving Repr

/-- the settings a table is written and read back under -/
structure Opts where
  delim : Char := ','
  lb : LB := .lf
  encloseAll : Bool := false
  /-- export `WithoutHeader` = import `NoHeader` -/
  withoutHeader : Bool := false
  withoutNull : Bool := false
  allowUneven : Bool := false
  quoteLB : Bool := false
  /-- the line break written after the encoded text (`none` = --strip-ending-line-break, or the
      bare result of `EncodeView`) -/
  ending : Option LB := none

def Opts.w (o : Opts) : WOpts := ⟨o.delim, o.lb, o.quoteLB⟩

def cellField (o : Opts) : Cell → Field
  | .null => ⟨[], false⟩
  | .str s => ⟨s, o.encloseAll⟩
  | .raw s => ⟨s, false⟩

def headerField (o : Opts) (s : List Char) : Field := ⟨s, o.encloseAll⟩

inductive EncErr | dataEmpty
  deriving DecidableEq, Repr

/-- `encodeCSV`: the bytes handed to the writer (as characters), or `DataEmpty` -/
def encodeCsv (o : Opts) (t : Table) : Except EncErr (List Char) :=
  if o.withoutHeader then
    match t.rows with
    | [] => .error .dataEmpty
    | rows => .ok (writeAll o.w (rows.map (·.map (cellField o))))
  else
    .ok (writeAll o.w (t.header.map (headerField o) :: t.rows.map (·.map (cellField o))))

/-- what ends up in the file / on the result stream: the encoding plus the ending line break -/
def fileCsv (o : Opts) (t : Table) : Except EncErr (List Char) :=
  match encodeCsv o t with
  | .ok cs => .ok (cs ++ endingChars o.ending)
  | .error e => .error e

/-! ## reader (go-text/csv/reader.go) as a state machine -/

/-- where inside a field the reader is: unquoted; inside quotes; just after a quotation mark
    inside quotes (`escaped`) -/
inductive FS | unq | q | qe
  deriving DecidableEq, Repr, Inhabited

def FS.quoted : FS → Bool
  | .unq => false
  | .q => true
  | .qe => true

structure RawField where
  contents : List Char
  quoted : Bool
  deriving DecidableEq, Repr

structure St where
  fs : FS := .unq
  /-- a '\r' has been read outside quotes and the next character decides CRLF / CR -/
  pcr : Bool := false
  /-- contents of the current field, reversed -/
  buf : List Char := []
  /-- finished fields of the current record, reversed -/
  fields : List RawField := []
  /-- finished records, reversed -/
  recs : List (List RawField) := []
  /-- `Reader.FieldsPerRecord` (0 = not yet known) -/
  fpr : Nat := 0
  /-- `Reader.DetectedLineBreak` -/
  dlb : Option LB := none
  deriving Repr

structure ROpts where
  delim : Char
  allowUneven : Bool

inductive Err | parse
  deriving DecidableEq, Repr

def closeField (σ : St) : St :=
  { σ with fields := ⟨σ.buf.reverse, σ.fs.quoted⟩ :: σ.fields, buf := [], fs := .unq }

/-- a delimiter ends the field; the check at the top of the `parseRecord` loop follows -/
def onDelim (r : ROpts) (σ : St) : Except Err St :=
  let σ' := closeField σ
  if 0 < σ'.fpr ∧ σ'.fpr ≤ σ'.fields.length then
    if r.allowUneven then .ok { σ' with fpr := σ'.fields.length + 1 } else .error .parse
  else .ok σ'

def commitRecord (σ : St) : St :=
  { σ with recs := σ.fields.reverse :: σ.recs, fields := [] }

/-- end of line / end of input: an empty first field (quoted or not) with nothing before it is
    skipped (`if eol && fieldIndex < 1 && r.recordBuf.Len() < 1 { continue }`); otherwise the
    record is finished and `FieldsPerRecord` is set or checked -/
def endRecord (r : ROpts) (σ : St) : Except Err St :=
  match σ.fields, σ.buf with
  | [], [] => .ok { σ with fs := .unq }
  | _, _ =>
    let σ' := closeField σ
    if σ'.fpr < 1 then .ok (commitRecord { σ' with fpr := σ'.fields.length })
    else if σ'.fields.length < σ'.fpr ∧ r.allowUneven = false then .error .parse
    else .ok (commitRecord σ')

def setDlb (σ : St) (lb : LB) : St :=
  match σ.dlb with
  | none => { σ with dlb := some lb }
  | some _ => σ

def onNl (r : ROpts) (σ : St) (lb : LB) : Except Err St := endRecord r (setDlb σ lb)

/-- one character, no CR pending -/
def stepMain (r : ROpts) (σ : St) (c : Char) : Except Err St :=
  match σ.fs with
  | .q =>
    if c = '"' then .ok { σ with fs := .qe } else .ok { σ with buf := c :: σ.buf }
  | .qe =>
    if c = '\r' then .ok { σ with pcr := true }
    else if c = '\n' then onNl r σ .lf
    else if c = '"' then .ok { σ with fs := .q, buf := '"' :: σ.buf }
    else if c = r.delim then onDelim r σ
    else .error .parse
  | .unq =>
    if c = '\r' then .ok { σ with pcr := true }
    else if c = '\n' then onNl r σ .lf
    else if c = r.delim then onDelim r σ
    else if c = '"' then
      match σ.buf with
      | [] => .ok { σ with fs := .q }
      | _ :: _ => .ok { σ with buf := '"' :: σ.buf }
    else .ok { σ with buf := c :: σ.buf }

def step (r : ROpts) (σ : St) (c : Char) : Except Err St :=
  if σ.pcr then
    if c = '\n' then onNl r { σ with pcr := false } .crlf
    else
      match onNl r { σ with pcr := false } .cr with
      | .ok σ' => stepMain r σ' c
      | .error e => .error e
  else stepMain r σ c

def run (r : ROpts) : St → List Char → Except Err St
  | σ, [] => .ok σ
  | σ, c :: cs =>
    match step r σ c with
    | .ok σ' => run r σ' cs
    | .error e => .error e

/-- end of input -/
def finish (r : ROpts) (σ : St) : Except Err St :=
  if σ.pcr then .error .parse
  else
    match σ.fs with
    | .q => .error .parse
    | _ => endRecord r σ

/-- `ReadHeader` + `ReadAll`: all records of the input, and the final reader state -/
def readAll (r : ROpts) (inp : List Char) : Except Err St :=
  match run r {} inp with
  | .ok σ => finish r σ
  | .error e => .error e

/-! ## `loadViewFromCSVFile` -/

abbrev DCell := Option (List Char)

structure DTable where
  header : List (List Char)
  rows : List (List DCell)
  deriving DecidableEq, Repr

/-- `parseRecord`: an unquoted empty field is NULL, or empty text under `withoutNull` -/
def cellOf (withoutNull : Bool) (f : RawField) : DCell :=
  match f.contents, f.quoted with
  | [], false => if withoutNull then some [] else none
  | s, _ => some s

def digits (n : Nat) : List Char := Nat.toDigits 10 n

/-- c1 … cn -/
def autoNames (n : Nat) : List (List Char) :=
  (List.range n).map fun i => 'c' :: digits (i + 1)

/-- `NewHeaderWithAutofill`: empty names become `__@i__` -/
def autofillFrom : Nat → List (List Char) → List (List Char)
  | _, [] => []
  | i, h :: hs => (match h with
                   | [] => '_' :: '_' :: '@' :: (digits i ++ ['_', '_'])
                   | _ :: _ => h) :: autofillFrom (i + 1) hs

def autofill (h : List (List Char)) : List (List Char) := autofillFrom 1 h

def padTo {α} (n : Nat) (x : α) (l : List α) : List α := l ++ List.replicate (n - l.length) x

def nullCell (withoutNull : Bool) : DCell := if withoutNull then some [] else none

/-- header and records of the view, from the records the reader returned and its final
    `FieldsPerRecord` -/
def assemble (o : Opts) (recs : List (List RawField)) (fpr : Nat) : DTable :=
  let hb : Option (List (List Char)) × List (List RawField) :=
    if o.withoutHeader then (none, recs)
    else match recs with
      | [] => (none, [])
      | h :: b => (some (h.map (·.contents)), b)
  let header := match hb.1 with
    | none => autoNames fpr
    | some h => h
  let rows := hb.2.map (·.map (cellOf o.withoutNull))
  if o.allowUneven then
    ⟨autofill (padTo fpr [] header), rows.map (padTo fpr (nullCell o.withoutNull))⟩
  else
    ⟨header, rows⟩

/-- the loader: reader options are `o.delim`, `o.withoutHeader` (= NoHeader), `o.withoutNull`,
    `o.allowUneven` -/
def decodeCsv (o : Opts) (inp : List Char) : Except Err DTable :=
  match readAll ⟨o.delim, o.allowUneven⟩ inp with
  | .error e => .error e
  | .ok σ => .ok (assemble o σ.recs.reverse σ.fpr)

/-- `Reader.DetectedLineBreak` after reading everything (for the "keeps its line break" clause) -/
def detectLB (o : Opts) (inp : List Char) : Option LB :=
  match readAll ⟨o.delim, o.allowUneven⟩ inp with
  | .ok σ => σ.dlb
  | .error _ => none

/-! ## the identification the property allows -/

def canonCell (o : Opts) : Cell → DCell
  | .null => nullCell o.withoutNull
  | .str s =>
    match s, o.encloseAll with
    | [], false => nullCell o.withoutNull
    | s, _ => some s
  | .raw s =>
    match s with
    | [] => nullCell o.withoutNull
    | s => some s

def canon (o : Opts) (t : Table) : DTable :=
  ⟨if o.withoutHeader then autoNames t.header.length
   else if o.allowUneven then autofill t.header else t.header,
   t.rows.map (·.map (canonCell o))⟩

end Csvq.Csv
