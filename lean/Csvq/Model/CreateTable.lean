/-
  Csvq.Model.CreateTable — how the format and the attributes of a CREATED table are decided, how a later load decides
  the format of the same file, what ALTER TABLE … SET does to the attributes, and which bytes COMMIT writes for a
  created / an updated file.  In the shape of lib/query/file_info.go (NewFileInfoForCreate, SearchFilePath, the
  FileInfo.Set… methods) and of the two encoding loops of Transaction.Commit (lib/query/transaction.go).
  Core Lean only.  Extension texts are character lists (`String.toList` at the driver boundary).
-/
namespace Csvq.CreateTable

/-- option.Format (without AutoSelect, which is a request, not a format of a file) -/
inductive Format | csv | tsv | fixed | json | jsonl | ltsv | gfm | org | box | text
  deriving DecidableEq, Repr

def Format.eqb (a b : Format) : Bool := decide (a = b)

def Format.name : Format → String
  | .csv => "csv" | .tsv => "tsv" | .fixed => "fixed" | .json => "json" | .jsonl => "jsonl" | .ltsv => "ltsv"
  | .gfm => "gfm" | .org => "org" | .box => "box" | .text => "text"

def Format.ofName (s : String) : Option Format :=
  [Format.csv, .tsv, .fixed, .json, .jsonl, .ltsv, .gfm, .org, .box, .text].find? (fun f => f.name = s)

/-- option.ImportFormats: the formats csvq can load (GFM / ORG / BOX / TEXT are output-only renderings) -/
def Format.importable : Format → Bool
  | .csv | .tsv | .fixed | .json | .jsonl | .ltsv => true
  | _ => false

abbrev Ext := List Char

/-- ASCII lower-casing: what strings.ToLower does to a text whose lower-cased form is one of the extension constants
    (the only non-ASCII letters Go folds onto ASCII ones are U+0130 → i and U+212A → k, and no extension constant
    contains i or k) -/
def lowerChar (c : Char) : Char :=
  if 65 ≤ c.toNat ∧ c.toNat ≤ 90 then Char.ofNat (c.toNat + 32) else c

def upperChar (c : Char) : Char :=
  if 97 ≤ c.toNat ∧ c.toNat ≤ 122 then Char.ofNat (c.toNat - 32) else c

def asciiLower (e : Ext) : Ext := e.map lowerChar
def asciiUpper (e : Ext) : Ext := e.map upperChar

/-- filepath.Ext, scanning from the end: the suffix from the last dot of the last path element, "" if there is none -/
def extOfRev : List Char → List Char → Ext
  | [], _ => []
  | c :: rest, acc => if c = '/' then [] else if c = '.' then '.' :: acc else extOfRev rest (c :: acc)

def extOf (path : List Char) : Ext := extOfRev path.reverse []

abbrev Table := List (Ext × Format)

def look : Table → Ext → Option Format
  | [], _ => none
  | (k, f) :: t, e => if e = k then some f else look t e

/-- a decision from an extension text to a format: a table, and whether the text is folded to lower case first -/
structure Decision where
  folds : Bool
  table : Table
  deriving DecidableEq

def Decision.key (d : Decision) (e : Ext) : Ext := if d.folds then asciiLower e else e

def Decision.format (d : Decision) (dflt : Format) (e : Ext) : Format := (look d.table (d.key e)).getD dflt

/-! the documented decisions (docs: command.md, "Determination of file format": Creating / Loading) -/

def docCreate : Decision :=
  { folds := true
    table := [(['.', 't', 's', 'v'], .tsv), (['.', 'j', 's', 'o', 'n'], .json), (['.', 'j', 's', 'o', 'n', 'l'], .jsonl),
              (['.', 'l', 't', 's', 'v'], .ltsv), (['.', 'm', 'd'], .gfm), (['.', 'o', 'r', 'g'], .org)] }

def docCreateDefault : Format := .csv

def docLoad : Decision :=
  { folds := true
    table := [(['.', 'c', 's', 'v'], .csv), (['.', 't', 's', 'v'], .tsv), (['.', 'j', 's', 'o', 'n'], .json),
              (['.', 'j', 's', 'o', 'n', 'l'], .jsonl), (['.', 'l', 't', 's', 'v'], .ltsv)] }

/-- the format CREATE TABLE gives a new file of that path -/
def createFormat (path : List Char) : Format := docCreate.format docCreateDefault (extOf path)

/-- the format a load of the file of that path assumes (automatic selection; `dflt` = --import-format) -/
def loadFormat (path : List Char) (dflt : Format) : Format := docLoad.format dflt (extOf path)

/-! the agreement of two decisions, as a finite check (sound for every extension text: Lemmas/CreateTable) -/

/-- every importable format the create side gives an extension, the load side gives the same extension; every
    extension the load side knows, the create side decides the same way (by its table or by its default); both sides
    fold the letter case alike -/
def agreeCheck (c : Decision) (cd : Format) (l : Decision) : Bool :=
  (c.folds == l.folds) &&
  c.table.all (fun kf => !kf.2.importable || decide (look l.table kf.1 = some kf.2)) &&
  l.table.all (fun kf => decide (look c.table kf.1 = some kf.2) || (decide (look c.table kf.1 = none) && decide (kf.2 = cd)))

/-! Transaction.Commit: what is written after the encoded view -/

/-- the ending line break is appended unless the session strips it or the table is a single-line fixed-length file
    (which has no line structure: a line break at its end reads back as one more record) -/
def appendsTail (strip : Bool) (fmt : Format) (single : Bool) : Bool :=
  match strip, fmt, single with
  | true, _, _ => false
  | false, .fixed, true => false
  | false, _, _ => true

/-- the calls of one encoding loop of Transaction.Commit, in order (reviewed) -/
def loopCalls : List String :=
  ["tx.CachedViews.Get(fileInfo.IdentifiedPath())", "fileInfo.IdentifiedPath()", "view.FileInfo.Handler.FileForUpdate()",
   "fp.Truncate(0)", "fp.Seek(0, io.SeekStart)", "EncodeView(ctx, fp, view, fileInfo.ExportOptions(tx), tx.Palette)",
   "fileInfo.ExportOptions(tx)", "EncodeEndingLineBreak(fileInfo.LineBreak, fileInfo.Format, fileInfo.Encoding)", "fp.Write(lb)"]

/-! attributes of a table file and ALTER TABLE … SET -/

/-- the attributes of FileInfo that decide how the table is written (encodings / line breaks / escape types as the
    numbers of their Go constants; UTF8 = 1 in go-text, AUTO = 0) -/
structure Attrs where
  format : Format
  delimiter : Char
  positions : List Nat
  single : Bool
  encoding : Nat
  lineBreak : Nat
  noHeader : Bool
  encloseAll : Bool
  jsonEscape : Nat
  prettyPrint : Bool
  deriving DecidableEq, Repr

def utf8 : Nat := 1

/-- an ALTER TABLE … SET statement with its value already parsed (option.ParseDelimiter, ParseDelimiterPositions,
    ParseFormat — which may also change the escape type: JSONH / JSONA —, ParseEncoding, …) -/
inductive SetAttr
  | delimiter (c : Char)
  | positions (p : List Nat) (single : Bool)
  | format (f : Format) (esc : Nat)
  | encoding (e : Nat)
  | lineBreak (l : Nat)
  | header (b : Bool)
  | encloseAll (b : Bool)
  | jsonEscape (e : Nat)
  | prettyPrint (b : Bool)
  deriving Repr

/-- the FileInfo.Set… methods; `none`: the statement is refused (nothing would change, or the value is not allowed) -/
def applySet (a : Attrs) : SetAttr → Option Attrs
  | .delimiter c =>
    let f : Format := if c = '\t' then .tsv else .csv
    if a.delimiter = c ∧ a.format = f then none else some { a with delimiter := c, format := f }
  | .positions p s =>
    if a.positions = p ∧ a.single = s ∧ a.format = .fixed then none
    else some { a with format := .fixed, positions := p, single := s }
  | .format f esc =>
    if a.format = f ∧ a.jsonEscape = esc then none
    else some { a with format := f, jsonEscape := esc,
                       delimiter := (match f with | .tsv => '\t' | _ => a.delimiter),
                       encoding := (match f with | .json | .jsonl => utf8 | _ => a.encoding) }
  | .encoding e =>
    if e = 0 then none
    else if (a.format = .json ∨ a.format = .jsonl) ∧ e ≠ utf8 then none
    else if a.encoding = e then none else some { a with encoding := e }
  | .lineBreak l => if a.lineBreak = l then none else some { a with lineBreak := l }
  | .header b => if (!b) = a.noHeader then none else some { a with noHeader := !b }
  | .encloseAll b => if b = a.encloseAll then none else some { a with encloseAll := b }
  | .jsonEscape e => if e = a.jsonEscape then none else some { a with jsonEscape := e }
  | .prettyPrint b => if b = a.prettyPrint then none else some { a with prettyPrint := b }

/-- the setter of file_info.go a statement goes to -/
def SetAttr.setter : SetAttr → String
  | .delimiter _ => "SetDelimiter" | .positions _ _ => "SetDelimiterPositions" | .format _ _ => "SetFormat"
  | .encoding _ => "SetEncoding" | .lineBreak _ => "SetLineBreak" | .header _ => "SetNoHeader"
  | .encloseAll _ => "SetEncloseAll" | .jsonEscape _ => "SetJsonEscape" | .prettyPrint _ => "SetPrettyPrint"

/-- the setters that can change the format / the single-line mark (reviewed; regenerated: Gen.setterWrites) -/
def formatSetters : List String := ["SetDelimiter", "SetDelimiterPositions", "SetFormat"]
def singleLineSetters : List String := ["SetDelimiterPositions"]

/-- a failed statement leaves the attributes alone -/
def applySets (a : Attrs) : List SetAttr → Attrs
  | [] => a
  | s :: rest => applySets ((applySet a s).getD a) rest

/-! the bytes of a committed file -/

/-- the three functions between a view and a file: EncodeView under the table's attributes, EncodeEndingLineBreak,
    and the reader a load applies under the attributes it assumes -/
structure Codec (V B : Type) where
  enc : Attrs → V → List B
  lineBreak : Attrs → List B
  dec : Attrs → List B → Option V

/-- what one encoding loop of Transaction.Commit puts into the file: the encoded view, then the ending line break
    under the loop's condition `tail` -/
def commitBytes {V B : Type} (c : Codec V B) (tail : Bool → Format → Bool → Bool) (strip : Bool) (a : Attrs) (v : V) : List B :=
  c.enc a v ++ (if tail strip a.format a.single then c.lineBreak a else [])

/-- the codec's own contract (C02's clause, assumed here by name): a view written under attributes `a` with the ending
    line break where `appendsTail` puts it is read back under the same attributes as the same view -/
def Codec.RoundTrip {V B : Type} (c : Codec V B) (strip : Bool) : Prop :=
  ∀ a v, c.dec a (commitBytes c appendsTail strip a v) = some v

/-! ## the session's options (lib/option/flags.go: Flags.ExportOptions / Flags.ImportOptions) -/

/-- the option fields that reach a written file or decide how a file is read; numbers as in `Attrs` -/
structure Session where
  format : Format            -- @@FORMAT: the format of RESULTS (stdout / --out)
  delimiter : Char           -- @@WRITE_DELIMITER
  positions : List Nat       -- @@WRITE_DELIMITER_POSITIONS
  single : Bool
  encoding : Nat             -- @@WRITE_ENCODING
  lineBreak : Nat            -- @@LINE_BREAK
  withoutHeader : Bool       -- @@WITHOUT_HEADER
  encloseAll : Bool          -- @@ENCLOSE_ALL
  jsonEscape : Nat           -- @@JSON_ESCAPE
  prettyPrint : Bool         -- @@PRETTY_PRINT
  strip : Bool               -- @@STRIP_ENDING_LINE_BREAK
  importFormat : Format      -- @@IMPORT_FORMAT
  importDelimiter : Char     -- @@DELIMITER
  importEncoding : Nat       -- @@ENCODING
  noHeader : Bool            -- @@NO_HEADER
  deriving DecidableEq, Repr

/-- NewExportOptions / NewImportOptions -/
def Session.default : Session :=
  { format := .text, delimiter := ',', positions := [], single := false, encoding := utf8, lineBreak := 0,
    withoutHeader := false, encloseAll := false, jsonEscape := 0, prettyPrint := false, strip := false,
    importFormat := .csv, importDelimiter := ',', importEncoding := 0, noHeader := false }

/-- a command-line flag or a SET @@FLAG statement with its value parsed (ParseFormat may also name an escape type:
    JSONH / JSONA; `--out file` without `--format` sets the format of the file's extension) -/
inductive SetFlag
  | format (f : Format) (esc : Option Nat)
  | writeDelimiter (c : Char)
  | writePositions (p : List Nat) (single : Bool)
  | writeEncoding (e : Nat)
  | lineBreak (l : Nat)
  | withoutHeader (b : Bool)
  | encloseAll (b : Bool)
  | jsonEscape (e : Nat)
  | prettyPrint (b : Bool)
  | strip (b : Bool)
  | importFormat (f : Format)
  | delimiter (c : Char)
  | encoding (e : Nat)
  | noHeader (b : Bool)
  deriving Repr

/-- the setters of *Flags, in the shape of lib/option/flags.go -/
def Session.set (s : Session) : SetFlag → Session
  | .format f esc => { s with format := f, jsonEscape := esc.getD s.jsonEscape }
  | .writeDelimiter c => { s with delimiter := c }
  | .writePositions p b => { s with positions := p, single := b }
  | .writeEncoding e => { s with encoding := e }
  | .lineBreak l => { s with lineBreak := l }
  | .withoutHeader b => { s with withoutHeader := b }
  | .encloseAll b => { s with encloseAll := b }
  | .jsonEscape e => { s with jsonEscape := e }
  | .prettyPrint b => { s with prettyPrint := b }
  | .strip b => { s with strip := b }
  | .importFormat f => { s with importFormat := f }
  | .delimiter c => { s with importDelimiter := c }
  | .encoding e => { s with importEncoding := e }
  | .noHeader b => { s with noHeader := b }

def Session.run (s : Session) (h : List SetFlag) : Session := h.foldl Session.set s

/-- the method of *Flags a step goes through, and the option fields it assigns (reviewed; regenerated: Gen.optionWrites) -/
def SetFlag.setter : SetFlag → String
  | .format _ _ => "option.Flags.SetFormat" | .writeDelimiter _ => "option.Flags.SetWriteDelimiter"
  | .writePositions _ _ => "option.Flags.SetWriteDelimiterPositions" | .writeEncoding _ => "option.Flags.SetWriteEncoding"
  | .lineBreak _ => "option.Flags.SetLineBreak" | .withoutHeader _ => "option.Flags.SetWithoutHeader"
  | .encloseAll _ => "option.Flags.SetEncloseAll" | .jsonEscape _ => "option.Flags.SetJsonEscape"
  | .prettyPrint _ => "option.Flags.SetPrettyPrint" | .strip _ => "option.Flags.SetStripEndingLineBreak"
  | .importFormat _ => "option.Flags.SetImportFormat" | .delimiter _ => "option.Flags.SetDelimiter"
  | .encoding _ => "option.Flags.SetEncoding" | .noHeader _ => "option.Flags.SetNoHeader"

def SetFlag.writes : SetFlag → List String
  | .format _ _ => ["ExportOptions.Format", "ExportOptions.JsonEscape"]
  | .writeDelimiter _ => ["ExportOptions.Delimiter"]
  | .writePositions _ _ => ["ExportOptions.DelimiterPositions", "ExportOptions.SingleLine"]
  | .writeEncoding _ => ["ExportOptions.Encoding"]
  | .lineBreak _ => ["ExportOptions.LineBreak"]
  | .withoutHeader _ => ["ExportOptions.WithoutHeader"]
  | .encloseAll _ => ["ExportOptions.EncloseAll"]
  | .jsonEscape _ => ["ExportOptions.JsonEscape"]
  | .prettyPrint _ => ["ExportOptions.PrettyPrint"]
  | .strip _ => ["ExportOptions.StripEndingLineBreak"]
  | .importFormat _ => ["ImportOptions.Format"]
  | .delimiter _ => ["ImportOptions.Delimiter"]
  | .encoding _ => ["ImportOptions.Encoding"]
  | .noHeader _ => ["ImportOptions.NoHeader"]

/-- the options the manual names for a created table (CreateTable reads exactly these: Gen.createdAttrSources) -/
structure OwnOptions where
  delimiter : Char
  encoding : Nat
  lineBreak : Nat
  withoutHeader : Bool
  encloseAll : Bool
  prettyPrint : Bool
  deriving DecidableEq, Repr

def ownFields : List String :=
  ["ExportOptions.Delimiter", "ExportOptions.Encoding", "ExportOptions.LineBreak", "ExportOptions.WithoutHeader",
   "ExportOptions.EncloseAll", "ExportOptions.PrettyPrint"]

def Session.own (s : Session) : OwnOptions :=
  ⟨s.delimiter, s.encoding, s.lineBreak, s.withoutHeader, s.encloseAll, s.prettyPrint⟩

/-- what a step does to the six options, and to nothing else of them -/
def SetFlag.actOwn : SetFlag → OwnOptions → OwnOptions
  | .writeDelimiter c, o => { o with delimiter := c }
  | .writeEncoding e, o => { o with encoding := e }
  | .lineBreak l, o => { o with lineBreak := l }
  | .withoutHeader b, o => { o with withoutHeader := b }
  | .encloseAll b, o => { o with encloseAll := b }
  | .prettyPrint b, o => { o with prettyPrint := b }
  | _, o => o

def SetFlag.isOwn : SetFlag → Bool
  | .writeDelimiter _ | .writeEncoding _ | .lineBreak _ | .withoutHeader _ | .encloseAll _ | .prettyPrint _ => true
  | _ => false

/-- CreateTable + NewFileInfoForCreate: the attributes of a new table of that path in a session -/
def createAttrsOf (o : OwnOptions) (path : List Char) : Attrs :=
  let f := createFormat path
  { format := f
    delimiter := (match f with | .tsv => '\t' | _ => o.delimiter)
    positions := [], single := false
    encoding := (match f with | .json | .jsonl => utf8 | _ => o.encoding)
    lineBreak := o.lineBreak, noHeader := o.withoutHeader, encloseAll := o.encloseAll, jsonEscape := 0,
    prettyPrint := o.prettyPrint }

def createAttrs (s : Session) (path : List Char) : Attrs := createAttrsOf s.own path

/-- the last value a history SETs the write delimiter to (`d` if it never does) -/
def lastWriteDelimiter : List SetFlag → Char → Char
  | [], d => d
  | .writeDelimiter c :: rest, _ => lastWriteDelimiter rest c
  | _ :: rest, d => lastWriteDelimiter rest d

end Csvq.CreateTable
