/-
  Csvq.Model.RecChain — `WITH RECURSIVE r AS (a <op1> b <op2> c …)`: a chain of set operators in the recursive table's
  own query (query.go `selectSet` / `selectSetForRecursion`).

  The parser nests the chain to the left: `(a op1 b) op2 c`.  `selectSet` evaluates the left-hand side in the SAME
  scope — the recursion root — so `a op1 b` is itself run as a recursion (anchor `a`, member `b`); its finished result
  is the anchor of the next recursion (member `c`, `RecursiveTmpView` reset to nil first).  `RecursiveCount` lives in
  that scope and is never reset: all members together may call `selectSetForRecursion` at most `--limit-recursion`
  times.  `merge` = what the operator does with the accumulated view and a non-empty step (`++` for UNION ALL, the
  de-duplicated concatenation for UNION).  Core Lean only.
-/
import Csvq.Model.Rel
namespace Csvq.Rel
open Csvq

/-- `selectSetForRecursion` for one member, returning also how many calls are left -/
def recLoopF (merge : List Row → List Row → List Row) (step : List Row → List Row) :
    Nat → List Row → List Row → Option (List Row × Nat)
  | 0, _, _ => none
  | fuel + 1, acc, g =>
    let r := step g
    if r.isEmpty then some (acc, fuel) else recLoopF merge step fuel (merge acc r) r

structure RecMember where
  merge : List Row → List Row → List Row
  step : List Row → List Row

/-- the members of the chain from left to right, the call budget handed on -/
def recChainImpl : List RecMember → Nat → List Row → Option (List Row × Nat)
  | [], fuel, a => some (a, fuel)
  | m :: ms, fuel, a =>
    match recLoopF m.merge m.step fuel a a with
    | none => none
    | some (out, fuel') => recChainImpl ms fuel' out

def mergeAll : List Row → List Row → List Row := fun acc r => acc ++ r
def mergeDistinct {κ : Type} [DecidableEq κ] (key : Row → κ) : List Row → List Row → List Row :=
  fun acc r => dedupBy key (acc ++ r)

end Csvq.Rel
