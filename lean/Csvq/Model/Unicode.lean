/-
  Csvq.Model.Unicode — the Unicode classes and case mappings csvq's text handling goes through, computed from
  the tables of Go's package unicode (Gen/UnicodeTables.lean, regenerated from the toolchain on every run):

    unicode.IsLetter / IsDigit / IsSpace            membership in Letter / Nd / White_Space (lo, hi, stride)
    unicode.ToUpper / ToLower (unicode.To)          CaseRanges with the UpperLower marker, ASCII fast path
    unicode.SimpleFold                              asciiFold, caseOrbit, else ToLower / ToUpper
    utf8.DecodeRuneInString / AppendRune            one U+FFFD of width 1 per invalid byte
    strings.ToUpper (strings.Map)                   every decoded rune mapped and encoded again
    strings.EqualFold                               rune by rune: equal, ASCII case pair, or reached by walking
                                                    the SimpleFold orbit upwards from the smaller rune

  Runes are `Nat`s.  Validated against the real functions by the correspondence stream (ops c06.uclass, c06.upper)
  and by `textProfileOK`, which recomputes the upper-cased trimmed text of every text profile of every stream.
-/
import Csvq.Model.Basic
import Csvq.Gen.UnicodeTables
namespace Csvq
namespace Uni
open Csvq.Gen.Uni

/-- membership in a range table (sorted: the search stops at the first range that begins above r) -/
def inRanges : List (Nat × Nat × Nat) → Nat → Bool
  | [], _ => false
  | (lo, hi, st) :: rest, r =>
    if r < lo then false else if r ≤ hi then (r - lo) % st == 0 else inRanges rest r

def isLetter (r : Nat) : Bool := inRanges letter r
def isDigit (r : Nat) : Bool := inRanges digit r
def isSpace (r : Nat) : Bool := inRanges whiteSpace r

/-- the binary search of unicode.to over CaseRanges (as its decision tree, Gen/UnicodeTables.lean): the entry
    that contains r — (lo, Δupper, Δlower, Δtitle), a Δ being (0, m) = +m, (1, m) = −m, (2, _) = UpperLower -/
def lookupCase : CaseTree → Nat → Option (Nat × (Nat × Nat) × (Nat × Nat) × (Nat × Nat))
  | .leaf, _ => none
  | .node l lo hi up low title rt, r =>
    if r < lo then lookupCase l r else if hi < r then lookupCase rt r else some (lo, up, low, title)

/-- `r + delta`, or inside an alternating Upper/Lower run: even offsets are upper case, odd offsets lower case -/
def applyDelta (lo c : Nat) (d : Nat × Nat) (r : Nat) : Nat :=
  if d.1 = 2 then lo + ((r - lo) / 2 * 2 + c % 2) else if d.1 = 1 then r - d.2 else r + d.2

/-- unicode.To(case, r): case 0 = UpperCase, 1 = LowerCase, 2 = TitleCase -/
def toCase (c : Nat) (r : Nat) : Nat :=
  match lookupCase caseTree r with
  | none => r
  | some (lo, up, low, title) => applyDelta lo c (if c = 0 then up else if c = 1 then low else title) r

def toUpper (r : Nat) : Nat :=
  if r ≤ 127 then (if 97 ≤ r ∧ r ≤ 122 then r - 32 else r) else toCase 0 r

def toLower (r : Nat) : Nat :=
  if r ≤ 127 then (if 65 ≤ r ∧ r ≤ 90 then r + 32 else r) else toCase 1 r

def orbitLookup : List (Nat × Nat) → Nat → Option Nat
  | [], _ => none
  | (a, b) :: rest, r => if a = r then some b else orbitLookup rest r

/-- unicode.SimpleFold -/
def simpleFold (r : Nat) : Nat :=
  if r > maxRune then r
  else if r < 128 then asciiFold.getD r r
  else match orbitLookup caseOrbit r with
    | some t => t
    | none => if toLower r ≠ r then toLower r else toUpper r

/-! ### UTF-8 as Go reads and writes it -/

def isCont (b : Nat) : Bool := 0x80 ≤ b && b ≤ 0xBF

/-- utf8.DecodeRuneInString on a non-empty text: (rune, width); an invalid or truncated sequence is U+FFFD, width 1 -/
def decodeRune : Bytes → Nat × Nat
  | [] => (replacementChar, 0)
  | b0 :: rest =>
    if b0 < 0x80 then (b0, 1)
    else if 0xC2 ≤ b0 ∧ b0 ≤ 0xDF then
      match rest with
      | b1 :: _ => if isCont b1 then ((b0 - 0xC0) * 64 + (b1 - 0x80), 2) else (replacementChar, 1)
      | [] => (replacementChar, 1)
    else if 0xE0 ≤ b0 ∧ b0 ≤ 0xEF then
      let lo := if b0 = 0xE0 then 0xA0 else 0x80
      let hi := if b0 = 0xED then 0x9F else 0xBF
      match rest with
      | b1 :: b2 :: _ =>
        if lo ≤ b1 ∧ b1 ≤ hi ∧ isCont b2 then ((b0 - 0xE0) * 4096 + (b1 - 0x80) * 64 + (b2 - 0x80), 3) else (replacementChar, 1)
      | _ => (replacementChar, 1)
    else if 0xF0 ≤ b0 ∧ b0 ≤ 0xF4 then
      let lo := if b0 = 0xF0 then 0x90 else 0x80
      let hi := if b0 = 0xF4 then 0x8F else 0xBF
      match rest with
      | b1 :: b2 :: b3 :: _ =>
        if lo ≤ b1 ∧ b1 ≤ hi ∧ isCont b2 ∧ isCont b3 then
          ((b0 - 0xF0) * 262144 + (b1 - 0x80) * 4096 + (b2 - 0x80) * 64 + (b3 - 0x80), 4)
        else (replacementChar, 1)
      | _ => (replacementChar, 1)
    else (replacementChar, 1)

/-- `for _, c := range s`: the runes of a text -/
def decodeRunesF : Nat → Bytes → List Nat
  | 0, _ => []
  | _, [] => []
  | n + 1, b :: bs =>
    let d := decodeRune (b :: bs)
    d.1 :: decodeRunesF n ((b :: bs).drop d.2)

def decodeRunes (s : Bytes) : List Nat := decodeRunesF s.length s

/-- utf8.AppendRune: surrogates and values above MaxRune are written as U+FFFD -/
def encodeRune (r : Nat) : Bytes :=
  if r < 0x80 then [r]
  else if r < 0x800 then [0xC0 + r / 64, 0x80 + r % 64]
  else if (0xD800 ≤ r ∧ r ≤ 0xDFFF) ∨ r > maxRune then [0xEF, 0xBF, 0xBD]
  else if r < 0x10000 then [0xE0 + r / 4096, 0x80 + r / 64 % 64, 0x80 + r % 64]
  else [0xF0 + r / 262144, 0x80 + r / 4096 % 64, 0x80 + r / 64 % 64, 0x80 + r % 64]

def encodeRunes : List Nat → Bytes
  | [] => []
  | r :: rs => encodeRune r ++ encodeRunes rs

/-- strings.ToUpper -/
def strToUpper (s : Bytes) : Bytes := encodeRunes ((decodeRunes s).map toUpper)

/-- strings.ToLower -/
def strToLower (s : Bytes) : Bytes := encodeRunes ((decodeRunes s).map toLower)

/-! ### strings.EqualFold -/

/-- walk the orbit of `lo` upwards: `r := SimpleFold(lo); for r != lo && r < hi { r = SimpleFold(r) }; r == hi` -/
def foldWalk : Nat → Nat → Nat → Nat → Bool
  | 0, _, hi, r => r == hi
  | n + 1, lo, hi, r => if r ≠ lo ∧ r < hi then foldWalk n lo hi (simpleFold r) else r == hi

/-- two runes are equal under simple case folding, as EqualFold decides it -/
def runeFoldEq (a b : Nat) : Bool :=
  if a = b then true
  else
    let lo := if a < b then a else b
    let hi := if a < b then b else a
    if hi < 128 then decide (65 ≤ lo ∧ lo ≤ 90 ∧ hi = lo + 32)
    else foldWalk 8 lo hi (simpleFold lo)

def runesFoldEq : List Nat → List Nat → Bool
  | [], [] => true
  | a :: as, b :: bs => runeFoldEq a b && runesFoldEq as bs
  | _, _ => false

/-- strings.EqualFold: its byte-wise ASCII phase and its rune-wise phase decide the same thing, rune by rune -/
def equalFold (s t : Bytes) : Bool := runesFoldEq (decodeRunes s) (decodeRunes t)

/-! ### facts about the tables, evaluated on every run (driver op `c06.utables`)

  Everything outside `foldDom` is a fixed point of SimpleFold, ToUpper and ToLower (proved: Lemmas/Unicode.lean),
  so a statement about all runes reduces to a check of the ≈ 3000 runes of `foldDom`.  The kernel needs minutes
  for that many table look-ups; the check is therefore run by the compiled driver against the regenerated
  tables on every run, and the theorems of Props/C06Text.lean that need it carry `tablesOK = true` as a hypothesis. -/

/-- the runes covered by a CaseRange -/
def treeDom : CaseTree → List Nat
  | .leaf => []
  | .node l lo hi _ _ _ r => treeDom l ++ (List.range' lo (hi + 1 - lo) ++ treeDom r)

/-- every rune that SimpleFold, ToUpper or ToLower may change -/
def foldDom : List Nat := List.range 128 ++ (caseOrbit.map Prod.fst ++ treeDom caseTree)

/-- r, SimpleFold r, SimpleFold² r, SimpleFold³ r -/
def orbit4 (r : Nat) : List Nat :=
  [r, simpleFold r, simpleFold (simpleFold r), simpleFold (simpleFold (simpleFold r))]

/-- the orbit of `a` is closed under SimpleFold, leads back to `a` from each of its members, and EqualFold's
    walk accepts every pair of its members -/
def goodB (a : Nat) : Bool :=
  (orbit4 a).all (fun x => (orbit4 a).contains (simpleFold x))
    && (orbit4 a).all (fun x => (orbit4 x).contains a)
    && (orbit4 a).all (fun x => (orbit4 a).all (fun y => runeFoldEq x y))

/-- the runes with a member of their fold orbit whose upper case is another one's:
    K k K(elvin), ß ẞ, Å å Å(ngström), Ω ω Ω(ohm), Θ θ ϑ ϴ -/
def foldUpperExc : List Nat := [75, 107, 8490, 223, 7838, 197, 229, 8491, 937, 969, 8486, 920, 952, 977, 1012]

/-- ToUpper is idempotent; the upper case of a rune is in its fold orbit (except for ı, whose upper case I folds
    with i only); all members of a fold orbit have the same upper case (except for the orbits listed above) -/
def upperB (a : Nat) : Bool :=
  toUpper (toUpper a) == toUpper a
    && (a == 305 || (orbit4 a).contains (toUpper a))
    && (foldUpperExc.contains a || (orbit4 a).all (fun x => toUpper x == toUpper a))

def tablesOK : Bool := foldDom.all (fun a => goodB a && upperB a)

end Uni
end Csvq
