/-
  Csvq.Model.AnalyticFlags — the SESSION FLAGS as a dimension of analytic evaluation.

  `--strict-equal` (@@STRICT_EQUAL, option.Flags.StrictEqual) reaches analytic evaluation in three places:

    1. utils.go Distinguish — the DISTINCT option of every aggregate with OVER (windowValues: built-in aggregates
       and user-defined aggregates; AnalyticListAgg / AnalyticJsonAgg): the comparison key of a value is written by
       SerializeComparisonKeys, which DISPATCHES on the flag: SerializeIdenticalKey (type + exact text, trimmed)
       when it is set, SerializeKey (the C04 normalisation ladder `norm`) otherwise;
    2. sort_value.go NewSortValue — under the flag every sort value carries `SerializedKey`
       (SerializeIdenticalKey of the cell); SortValues.Serialize (the PARTITION BY key) writes that key instead of
       the normalised one, so partitions are classes of IDENTICAL values;
    3. SortValue.EquivalentTo — under the flag `bytes.Equal` of the two serialised keys: the peers of RANK,
       DENSE_RANK, CUME_DIST, PERCENT_RANK are rows with IDENTICAL ORDER BY values.

  The aggregates themselves are C04's (Model/Aggregate.lean, in the shape of aggregate_function.go): COUNT, SUM,
  AVG, MIN, MAX, MEDIAN, LISTAGG and — new inside the analytic model — VAR / VARP / STDEV / STDEVP (math.Pow(x, 2)
  and a correctly rounded math.Sqrt on exact binary64).

  Core Lean only.
-/
import Csvq.Model.AnalyticFull
import Csvq.Model.Aggregate
import Csvq.Model.CellText
import Csvq.Model.Unicode
namespace Csvq.Analytic
open Csvq

/-- the session flags that reach analytic evaluation (option.Flags) -/
structure Flags where
  strictEqual : Bool
  deriving DecidableEq, Repr, Inhabited

def Flags.loose : Flags := ⟨false⟩
def Flags.strict : Flags := ⟨true⟩

/-- option.TrimSpace of a text value (serializeCaseSensitiveString trims, it does not change the letter case) -/
def trimOf : Val → Bytes
  | .str s => PF.trimSpace s
  | _ => []

/-- SerializeIdenticalKey: the type of the value and its exact content -/
def strictKey (p : Profile) : NKey := normStrict p.raw (trimOf p.raw)

/-- SerializeComparisonKeys on one value: `if flags.StrictEqual { SerializeIdenticalKey } else { SerializeKey }` -/
def cmpKey (fl : Flags) (p : Profile) : NKey :=
  if fl.strictEqual then strictKey p else norm p

/-- the coercion profile of a cell as the model's own conversions compute it (Model/ParseFloat, ParseTime,
    Unicode; session zone UTC, no custom datetime format) — `Proto.textProfileOK` checks every text profile of the
    stream against exactly these functions -/
def cellProfile : Val → Profile
  | .str s => profileOfText s (Uni.strToUpper (PF.trimSpace s))
  | v => profileOf v

/-- utils.go Distinguish: `values[key] = i` for the first value of every key, the keys in order of first
    appearance, the result `list[values[key]]` in that order -/
def distinguishF (fl : Flags) (cells : List Profile) : List Profile :=
  (keepFirst (cells.map fun p => (cmpKey fl p, p))).map Prod.snd

/-! ## the analytic path -/

/-- windowValues: the cells of the frame's records (positions outside the partition are skipped), then
    `if expr.IsDistinct() { values = Distinguish(values, scope.Tx.Flags) }` -/
def windowCells (fl : Flags) (distinct : Bool) (prof : Nat → Profile) (p : List Nat) (low high : Int) : List Profile :=
  if distinct then distinguishF fl ((frameRecords p low high).map prof) else (frameRecords p low high).map prof

/-- Analyze, the aggregate branch under the session flags: every frame's values are handed to the aggregate
    (`A idx values`: a built-in aggregate ignores `idx`; a user-defined aggregate evaluates its further arguments
    on the record) -/
def aggOverF {β : Type} (fl : Flags) (distinct : Bool) (prof : Nat → Profile) (A : Nat → List Profile → β)
    (w : Window) (p : List Nat) : List (Nat × β) :=
  (windowFrameSet p w).flatMap fun f =>
    f.records.map fun idx => (idx, A idx (windowCells fl distinct prof p f.low f.high))

/-- AnalyticListAgg / AnalyticJsonAgg under the session flags: the cells of the whole partition in partition order,
    the DISTINCT gate, one value for every record -/
def listAggOverF {β : Type} (fl : Flags) (distinct : Bool) (prof : Nat → Profile) (agg : List Profile → β)
    (p : List Nat) : List (Nat × β) :=
  p.map fun idx => (idx, agg (if distinct then distinguishF fl (p.map prof) else p.map prof))

/-! ## the specification of DISTINCT -/

/-- the first occurrence of every key class: a cell is kept iff no cell BEFORE it (`pre`: the cells already
    passed) has its key -/
def firstsFrom {α κ : Type} [DecidableEq κ] (key : α → κ) : List α → List α → List α
  | _, [] => []
  | pre, x :: xs =>
    if pre.any (fun y => key y = key x) then firstsFrom key (pre ++ [x]) xs
    else x :: firstsFrom key (pre ++ [x]) xs

/-- the cells of the row's frame the aggregate works on -/
def frameCellsSpec (fl : Flags) (distinct : Bool) (prof : Nat → Profile) (w : Window)
    (pre : List Nat) (x : Nat) (post : List Nat) : List Profile :=
  if distinct then firstsFrom (cmpKey fl) [] ((frameRows w pre x post).map prof) else (frameRows w pre x post).map prof

/-! ## partitions and peers under the flags -/

/-- a record as the analytic clause sees it, with the RAW ORDER BY values next to their sort values (NewSortValue
    keeps SerializeIdenticalKey of the raw value under --strict-equal) -/
structure FRow where
  id : Nat
  part : List Profile      -- PARTITION BY values
  sortRaw : List Profile   -- ORDER BY values
  sort : List SortVal      -- NewSortValue of each (type ladder; what the loose mode compares)
  arg : Profile
  deriving Repr

/-- SortValues.Serialize of the PARTITION BY values: the identical keys under the flag, the normalised ones otherwise -/
def partKeyF (fl : Flags) (r : FRow) : List NKey := r.part.map (cmpKey fl)

/-- SortValues.EquivalentTo: under the flag bytes.Equal of the identical keys of every item, else the type ladder -/
def rowPeersF (fl : Flags) (a b : FRow) : Bool :=
  if fl.strictEqual then decide (a.sortRaw.map strictKey = b.sortRaw.map strictKey) else rowsEquiv a.sort b.sort

/-- `sortValuesInEachRecord[i].EquivalentTo(sortValuesInEachRecord[j])`; nil without ORDER BY -/
def peersF (fl : Flags) (hasOrder : Bool) (view : List FRow) (i j : Nat) : Bool :=
  match view[i]?, view[j]? with
  | some a, some b => hasOrder && rowPeersF fl a b
  | _, _ => false

/-- Analyze over an (already ordered) view under the flags -/
def analyzeF {β : Type} (fl : Flags) (exec : List Nat → List (Nat × β)) (view : List FRow) : List (Option β) :=
  analyze exec (view.map (partKeyF fl))

/-! ## VAR / VARP / STDEV / STDEVP (and every other C04 aggregate) as analytic functions -/

/-- the built-in aggregates by name (aggregate_function.go AggregateFunctions), on C04's model -/
def builtinAgg (kt : KeyText) (sep : Bytes) : String → Option (List Profile → Agg.Res)
  | "COUNT" => some fun l => .int (Agg.count l)
  | "MAX" => some fun l => match Agg.maxAgg l with | some p => .cell p | none => .null
  | "MIN" => some fun l => match Agg.minAgg l with | some p => .cell p | none => .null
  | "SUM" => some Agg.sum
  | "AVG" => some Agg.avg
  | "STDEV" => some Agg.stdev
  | "STDEVP" => some Agg.stdevp
  | "VAR" => some Agg.var
  | "VARP" => some Agg.varp
  | "MEDIAN" => some Agg.median
  | "LISTAGG" => some (Agg.listAgg kt sep)
  | _ => none

def varOver (fl : Flags) (distinct isP : Bool) (prof : Nat → Profile) (w : Window) (p : List Nat) : List (Nat × Agg.Res) :=
  aggOverF fl distinct prof (fun _ l => if isP then Agg.varp l else Agg.var l) w p

def stdevOver (fl : Flags) (distinct isP : Bool) (prof : Nat → Profile) (w : Window) (p : List Nat) : List (Nat × Agg.Res) :=
  aggOverF fl distinct prof (fun _ l => if isP then Agg.stdevp l else Agg.stdev l) w p

end Csvq.Analytic
