/-
  Csvq.Model.Ltsv — LTSV writer and reader at the character level (core Lean only).

  Writer = lib/query/encode.go `encodeLTSV` + go-text/ltsv `NewWriter` / `Writer.Write`:
           `label:value` fields joined by TAB, records joined by the line break; a label outside
           `LabelTable` or a value character outside `FieldValueTable` is refused (an error), as is
           a table without records (`DataEmpty`).
  Reader = go-text/ltsv `Reader.Read` / `parseField` as one character-driven machine (same
           pending-CR treatment as Csvq.Model.Csv), then `loadViewFromLTSVFile` (header = labels in
           order of first appearance, short records padded).

  Three behaviours of the dependency's reader are modelled as they are (and make the round trip
  fail, see Csvq.Props.C02):
    * every ':' is dropped, also inside a value (F13);
    * a line consisting of ONE field is skipped like an empty line (`if eol && fieldNum < 1`),
      and a last record of one field without line break is dropped at end of input;
    * a '\r' as very last character makes `UnreadRune` fail.
-/
import Csvq.Model.Csv
namespace Csvq.Ltsv
open Csvq.Csv (LB Cell Table DCell DTable Err endingChars nullCell)

/-! ## writer -/

/-- `LabelTable`: - . 0-9 A-Z _ a-z -/
def labelChar (c : Char) : Bool :=
  c = '-' || c = '.' || ('0' ≤ c && c ≤ '9') || ('A' ≤ c && c ≤ 'Z') || c = '_' || ('a' ≤ c && c ≤ 'z')

/-- `FieldValueTable`: U+0001-0008, 000B, 000C, 000E-FFFF, 10000-FFFFF -/
def valueChar (c : Char) : Bool :=
  let n := c.toNat
  (1 ≤ n && n ≤ 8) || n = 0x0B || n = 0x0C || (0x0E ≤ n && n ≤ 0xFFFF) || (0x10000 ≤ n && n ≤ 0xFFFFF)

def writeField (label value : List Char) : List Char := label ++ ':' :: value

/-- fields after the first: each preceded by TAB -/
def writeRest : List (List Char) → List (List Char) → List Char
  | l :: ls, v :: vs => '\t' :: (writeField l v ++ writeRest ls vs)
  | _, _ => []

def writeRecord : List (List Char) → List (List Char) → List Char
  | l :: ls, v :: vs => writeField l v ++ writeRest ls vs
  | _, _ => []

def writeMore (lb : LB) (labels : List (List Char)) : List (List (List Char)) → List Char
  | [] => []
  | r :: rs => lb.chars ++ (writeRecord labels r ++ writeMore lb labels rs)

def writeAll (lb : LB) (labels : List (List Char)) : List (List (List Char)) → List Char
  | [] => []
  | r :: rs => writeRecord labels r ++ writeMore lb labels rs

structure Opts where
  lb : LB := .lf
  withoutNull : Bool := false
  ending : Option LB := none

inductive EncErr | dataEmpty | label | value | fieldLength
  deriving DecidableEq, Repr

/-- `encodeLTSV` -/
def encodeLtsv (o : Opts) (t : Table) : Except EncErr (List Char) :=
  match t.rows with
  | [] => .error .dataEmpty
  | rows =>
    if t.header.all (·.all labelChar) = false then .error .label
    else if rows.all (fun r => r.length = t.header.length) = false then .error .fieldLength
    else if rows.all (fun r => r.all (fun c => c.text.all valueChar)) = false then .error .value
    else .ok (writeAll o.lb t.header (rows.map (·.map Cell.text)))

def fileLtsv (o : Opts) (t : Table) : Except EncErr (List Char) :=
  match encodeLtsv o t with
  | .ok cs => .ok (cs ++ endingChars o.ending)
  | .error e => .error e

/-! ## reader -/

abbrev KV := List Char × List Char

structure St where
  /-- `readingKey` -/
  rk : Bool := true
  pcr : Bool := false
  key : List Char := []
  val : List Char := []
  /-- fields of the current record, latest first -/
  fields : List KV := []
  /-- `Reader.Header`, latest label first -/
  header : List (List Char) := []
  /-- finished records (latest first), each with its latest field first -/
  recs : List (List KV) := []
  dlb : Option LB := none
  deriving Repr

/-- "missing field separator" -/
def fieldErr (σ : St) : Bool :=
  match σ.key with
  | [] => false
  | _ :: _ => σ.rk

def addLabel (h : List (List Char)) (k : List Char) : List (List Char) :=
  if h.contains k then h else k :: h

def pushField (σ : St) : St :=
  { σ with fields := (σ.key.reverse, σ.val.reverse) :: σ.fields,
           header := addLabel σ.header σ.key.reverse, key := [], val := [], rk := true }

def onTab (σ : St) : Except Err St :=
  if fieldErr σ then .error .parse else .ok (pushField σ)

/-- end of a line or of the input: a line of at most one field is skipped -/
def endRecord (σ : St) : Except Err St :=
  if fieldErr σ then .error .parse
  else
    match σ.fields with
    | [] => .ok { σ with key := [], val := [], rk := true }
    | _ :: _ =>
      let σ' := pushField σ
      .ok { σ' with recs := σ'.fields :: σ'.recs, fields := [] }

def setDlb (σ : St) (lb : LB) : St :=
  match σ.dlb with
  | none => { σ with dlb := some lb }
  | some _ => σ

def onNl (σ : St) (lb : LB) : Except Err St := endRecord (setDlb σ lb)

def stepMain (σ : St) (c : Char) : Except Err St :=
  if c = '\r' then .ok { σ with pcr := true }
  else if c = '\n' then onNl σ .lf
  else if c = '\t' then onTab σ
  else if c = ':' then .ok { σ with rk := false }
  else if σ.rk then .ok { σ with key := c :: σ.key }
  else .ok { σ with val := c :: σ.val }

def step (σ : St) (c : Char) : Except Err St :=
  if σ.pcr then
    if c = '\n' then onNl { σ with pcr := false } .crlf
    else
      match onNl { σ with pcr := false } .cr with
      | .ok σ' => stepMain σ' c
      | .error e => .error e
  else stepMain σ c

def run : St → List Char → Except Err St
  | σ, [] => .ok σ
  | σ, c :: cs =>
    match step σ c with
    | .ok σ' => run σ' cs
    | .error e => .error e

def finish (σ : St) : Except Err St :=
  if σ.pcr then .error .parse else endRecord σ

def readAll (inp : List Char) : Except Err St :=
  match run {} inp with
  | .ok σ => finish σ
  | .error e => .error e

/-- the value a record holds for a label: the latest field with that label; absent or empty text is
    NULL (empty text under `withoutNull`) -/
def lookup (withoutNull : Bool) (rec : List KV) (k : List Char) : DCell :=
  match rec.find? (fun kv => kv.1 = k) with
  | none => nullCell withoutNull
  | some kv =>
    match kv.2 with
    | [] => nullCell withoutNull
    | v => some v

def assemble (withoutNull : Bool) (header : List (List Char)) (recs : List (List KV)) : DTable :=
  ⟨header, recs.map fun rec => header.map (lookup withoutNull rec)⟩

def decodeLtsv (o : Opts) (inp : List Char) : Except Err DTable :=
  match readAll inp with
  | .error e => .error e
  | .ok σ => .ok (assemble o.withoutNull σ.header.reverse σ.recs.reverse)

def detectLB (inp : List Char) : Option LB :=
  match readAll inp with
  | .ok σ => σ.dlb
  | .error _ => none

/-! ## the identification the property allows: empty text and NULL have one spelling -/

def canonCell (o : Opts) (c : Cell) : DCell :=
  match c.text with
  | [] => nullCell o.withoutNull
  | s => some s

def canon (o : Opts) (t : Table) : DTable :=
  ⟨t.header, t.rows.map (·.map (canonCell o))⟩

end Csvq.Ltsv
