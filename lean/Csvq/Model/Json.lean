/-
  Csvq.Model.Json — JSON and JSON Lines as csvq writes and reads them (core Lean only).

  (a) values ↔ JSON structures     lib/json/conversion.go `ParseValueToStructure`, `ConvertToValue`
  (b) string escaping              go-text/json `Escape`, `EscapeWithHexDigits`, `EscapeAll`,
                                   `EncodeRune`, `Unescape` — on lists of characters (code points)
  (c) tables ↔ texts               writer: `ConvertTableValueToJsonStructure` (FLAT column names:
                                   no '.', no '\\' — one member per column) + go-text/json
                                   `Encoder.Encode` (compact and pretty) / `encodeJsonLines`;
                                   reader: go-text/json `Scanner.Scan` (characters → tokens) +
                                   the grammar of parser.y (tokens → structure, recursive descent
                                   instead of the generated LALR tables: same language, the grammar
                                   is unambiguous) + `ConvertToTableValue` / `loadViewFromJsonLinesFile`.

  Numbers are opaque atoms.  A number token keeps its literal; what csvq makes of it
  (`strconv.ParseFloat` then `FormatFloat(f, 'f', -1, 64)` when it is shown or written again) is a
  parameter `canon : literal → Option text` (`none` = ParseFloat reports an error), supplied by the
  harness for every literal that occurs.  Integer and Float cells enter the writer as the decimal
  text go-text's `Integer.Encode` / `formatFloat` produce (NaN and ±Inf are written `null`).

  Modelled as they are (they make the round trip fail, see Csvq.Props.C02):
    * `Scanner.scanString` takes every backslash that is followed by a quotation mark for an escaped
      quotation mark, also the second backslash of `\\` — a string that ends in a backslash is not
      terminated where it should be;
    * `Encoder.encodeStructure` writes a String whose text parses as a JSON array or object not as a
      string but as that array / object (recursively), re-encoded;
    * `Integer.Encode` goes through float64.
  Column names as paths into nested objects (`a.b`): Csvq.Model.JsonPath; transcoding: Csvq.Model.Encoding.
  Not modelled: the escape type detected by `Unescape`, colours, code points U+E002…U+E007 outside strings
  (goyacc's private token numbers).
-/
import Csvq.Model.Csv
namespace Csvq.Json
open Csvq.Csv (LB Err DCell DTable endingChars)

/-! ## (b) escaping -/

inductive Esc | backslash | hex | all
  deriving DecidableEq, Repr

def hexDigit (n : Nat) : Char :=
  if n < 10 then Char.ofNat (48 + n) else Char.ofNat (87 + n)

/-- four lower-case hexadecimal digits -/
def hex4 (n : Nat) : List Char :=
  [hexDigit (n / 4096 % 16), hexDigit (n / 256 % 16), hexDigit (n / 16 % 16), hexDigit (n % 16)]

/-- `EncodeRune`: `\uXXXX`, a surrogate pair above U+FFFF -/
def encodeRune (c : Char) : List Char :=
  let n := c.toNat
  if 65536 ≤ n then
    '\\' :: 'u' :: (hex4 ((n - 65536) / 1024 + 55296) ++ '\\' :: 'u' :: hex4 ((n - 65536) % 1024 + 56320))
  else '\\' :: 'u' :: hex4 n

/-- one character under `Escape` -/
def escBackslash (c : Char) : List Char :=
  if c = '\\' ∨ c = '"' ∨ c = '/' then ['\\', c]
  else if c = '\x08' then ['\\', 'b']
  else if c = '\x0c' then ['\\', 'f']
  else if c = '\n' then ['\\', 'n']
  else if c = '\r' then ['\\', 'r']
  else if c = '\t' then ['\\', 't']
  else if c.toNat ≤ 31 then encodeRune c
  else [c]

/-- one character under `EscapeWithHexDigits` -/
def escHex (c : Char) : List Char :=
  if c = '\\' ∨ c = '"' ∨ c = '/' ∨ c = '\x08' ∨ c = '\x0c' ∨ c = '\n' ∨ c = '\r' ∨ c = '\t' then encodeRune c
  else if c.toNat ≤ 31 then encodeRune c
  else [c]

def escChar : Esc → Char → List Char
  | .backslash => escBackslash
  | .hex => escHex
  | .all => encodeRune

def escape (t : Esc) : List Char → List Char
  | [] => []
  | c :: cs => escChar t c ++ escape t cs

def hexVal (c : Char) : Option Nat :=
  let n := c.toNat
  if 48 ≤ n ∧ n ≤ 57 then some (n - 48)
  else if 97 ≤ n ∧ n ≤ 102 then some (n - 87)
  else if 65 ≤ n ∧ n ≤ 70 then some (n - 55)
  else none

/-- `readHexDigits`: four ASCII hexadecimal digits -/
def readHex4 : List Char → Option (Nat × List Char)
  | a :: b :: c :: d :: rest =>
    match hexVal a, hexVal b, hexVal c, hexVal d with
    | some x, some y, some z, some w => some (x * 4096 + y * 256 + z * 16 + w, rest)
    | _, _, _, _ => none
  | _ => none

def isHighSurrogate (n : Nat) : Bool := 0xD800 ≤ n && n ≤ 0xDBFF
def isLowSurrogate (n : Nat) : Bool := 0xDC00 ≤ n && n ≤ 0xDFFF

/-- `buf.WriteRune`: a lone surrogate becomes U+FFFD -/
def runeOf (n : Nat) : Char :=
  if isHighSurrogate n || isLowSurrogate n then Char.ofNat 0xFFFD else Char.ofNat n

/-- `Unescape` (one step per unit of fuel; `unescape` gives it enough) -/
def unescapeF : Nat → List Char → List Char
  | 0, _ => []
  | _, [] => []
  | _, ['\\'] => ['\\']
  | n + 1, '\\' :: c :: rest =>
    if c = '"' ∨ c = '\\' ∨ c = '/' then c :: unescapeF n rest
    else if c = 'b' then '\x08' :: unescapeF n rest
    else if c = 'f' then '\x0c' :: unescapeF n rest
    else if c = 'n' then '\n' :: unescapeF n rest
    else if c = 'r' then '\r' :: unescapeF n rest
    else if c = 't' then '\t' :: unescapeF n rest
    else if c = 'u' then
      match readHex4 rest with
      | none => 'u' :: unescapeF n rest
      | some (hi, rest') =>
        if isHighSurrogate hi then
          match rest' with
          | '\\' :: 'u' :: r2 =>
            match readHex4 r2 with
            | some (lo, r3) =>
              if isLowSurrogate lo then runeOf (65536 + (hi - 55296) * 1024 + (lo - 56320)) :: unescapeF n r3
              else runeOf hi :: unescapeF n rest'
            | none => runeOf hi :: unescapeF n rest'
          | _ => runeOf hi :: unescapeF n rest'
        else runeOf hi :: unescapeF n rest'
    else c :: unescapeF n rest
  | n + 1, c :: rest => c :: unescapeF n rest

def unescape (s : List Char) : List Char := unescapeF (s.length + 1) s

/-! ## (a) values and structures -/

/-- a csvq value as far as JSON can tell values apart; numbers are their decimal texts -/
inductive JVal
  | null
  | str (s : List Char)
  | int (a : List Char)
  | flt (a : List Char)
  /-- NaN, +Inf, -Inf -/
  | nonfinite
  | bool (b : Bool)
  /-- TRUE / FALSE / UNKNOWN (`none`) -/
  | tern (t : Option Bool)
  /-- a datetime, as its RFC 3339 text -/
  | dt (s : List Char)
  deriving DecidableEq, Repr

inductive JS
  | null
  | bool (b : Bool)
  | str (s : List Char)
  /-- a number: its literal / decimal text -/
  | num (a : List Char)
  | arr (items : List JS)
  | obj (members : List (List Char × JS))
  deriving Repr

/-- `ParseValueToStructure` (a non-finite Float is a `Number` that the encoder writes as `null`) -/
def toStructure : JVal → JS
  | .null => .null
  | .str s => .str s
  | .int a => .num a
  | .flt a => .num a
  | .nonfinite => .null
  | .bool b => .bool b
  | .tern none => .null
  | .tern (some b) => .bool b
  | .dt s => .str s

/-! ## (c) reading: characters → tokens -/

inductive Tok
  | lbrace | rbrace | lbrack | rbrack | colon | comma
  | str (s : List Char)
  | num (lit : List Char)
  | tru | fls | nul
  deriving DecidableEq, Repr

def isWs (c : Char) : Bool := c = ' ' || c = '\t' || c = '\n' || c = '\r'
def isDigit (c : Char) : Bool := '0' ≤ c && c ≤ '9'
def isLowerAscii (c : Char) : Bool := 'a' ≤ c && c ≤ 'z'

/-- put `u` in front of what the scanner finds -/
def pre (u : List Char) : Option (List Char × List Char) → Option (List Char × List Char)
  | some (s, r) => some (u ++ s, r)
  | none => none

/-- `Scanner.scanString` after the opening quotation mark: the raw contents and the rest.  A backslash
    directly in front of a quotation mark makes the scanner step over that quotation mark (`afterBs`:
    the previous character was a backslash that did not itself get stepped over). -/
def scanStrAux : Bool → List Char → Option (List Char × List Char)
  | _, [] => none
  | afterBs, c :: rest =>
    if c = '"' then
      if afterBs then pre [c] (scanStrAux false rest) else some ([], rest)
    else pre [c] (scanStrAux (decide (c = '\\')) rest)

def scanStr (inp : List Char) : Option (List Char × List Char) := scanStrAux false inp

def takeDigits : List Char → List Char × List Char
  | [] => ([], [])
  | c :: cs => if isDigit c then let (d, r) := takeDigits cs; (c :: d, r) else ([], c :: cs)

/-- `scanNumber` from the first digit on: integer part -/
def scanInt : List Char → Option (List Char × List Char)
  | [] => none
  | c :: cs =>
    if c = '0' then some (['0'], cs)
    else if isDigit c then let (d, r) := takeDigits cs; some (c :: d, r)
    else none

def scanFrac (inp : List Char) : Option (List Char × List Char) :=
  match inp with
  | c :: cs =>
    if c = '.' then
      match takeDigits cs with
      | ([], _) => none
      | (d, r) => some ('.' :: d, r)
    else some ([], inp)
  | [] => some ([], [])

def scanExp (inp : List Char) : Option (List Char × List Char) :=
  match inp with
  | e :: cs =>
    if e = 'e' ∨ e = 'E' then
      let (sign, cs') : List Char × List Char := match cs with
        | s :: r => if s = '+' ∨ s = '-' then ([s], r) else ([], cs)
        | [] => ([], [])
      match takeDigits cs' with
      | ([], _) => none
      | (d, r) => some (e :: (sign ++ d), r)
    else some ([], inp)
  | [] => some ([], [])

/-- `Scanner.scanNumber`: the literal and the rest, `none` = "invalid number" -/
def scanNumber (inp : List Char) : Option (List Char × List Char) :=
  let (neg, inp') : List Char × List Char := match inp with
    | c :: r => if c = '-' then (['-'], r) else ([], inp)
    | [] => ([], [])
  match scanInt inp' with
  | none => none
  | some (i, r1) =>
    match scanFrac r1 with
    | none => none
    | some (f, r2) =>
      match scanExp r2 with
      | none => none
      | some (e, r3) => some (neg ++ i ++ f ++ e, r3)

def takeLower : List Char → List Char × List Char
  | [] => ([], [])
  | c :: cs => if isLowerAscii c then let (d, r) := takeLower cs; (c :: d, r) else ([], c :: cs)

/-- `Scanner.Scan` until the end; any lexical error, and any character that is no token, ends in an
    error (the parser would report it).  `canon lit = none`: `ParseFloat` fails on the literal. -/
def lexF (canon : List Char → Option (List Char)) : Nat → List Char → Except Err (List Tok)
  | 0, _ => .error .parse
  | _, [] => .ok []
  | n + 1, c :: cs =>
    let cont (t : Tok) (rest : List Char) : Except Err (List Tok) :=
      match lexF canon n rest with
      | .ok ts => .ok (t :: ts)
      | .error e => .error e
    if isWs c then lexF canon n cs
    else if c = '{' then cont .lbrace cs
    else if c = '}' then cont .rbrace cs
    else if c = '[' then cont .lbrack cs
    else if c = ']' then cont .rbrack cs
    else if c = ':' then cont .colon cs
    else if c = ',' then cont .comma cs
    else if c = '"' then
      match scanStr cs with
      | none => .error .parse
      | some (raw, rest) => cont (.str (unescape raw)) rest
    else if isDigit c ∨ c = '-' then
      match scanNumber (c :: cs) with
      | none => .error .parse
      | some (lit, rest) =>
        match canon lit with
        | none => .error .parse
        | some _ => cont (.num lit) rest
    else if isLowerAscii c then
      let (w, rest) := takeLower (c :: cs)
      if w = ['t', 'r', 'u', 'e'] then cont .tru rest
      else if w = ['f', 'a', 'l', 's', 'e'] then cont .fls rest
      else if w = ['n', 'u', 'l', 'l'] then cont .nul rest
      else .error .parse
    else .error .parse

def lex (canon : List Char → Option (List Char)) (inp : List Char) : Except Err (List Tok) :=
  lexF canon (inp.length + 1) inp

/-! ## tokens → structure (the grammar of parser.y; trailing commas are part of it) -/

mutual
def pValue : Nat → List Tok → Option (JS × List Tok)
  | 0, _ => none
  | n + 1, .lbrace :: ts =>
    match pMembers n ts with
    | some (ms, r) => some (.obj ms, r)
    | none => none
  | n + 1, .lbrack :: ts =>
    match pItems n ts with
    | some (is, r) => some (.arr is, r)
    | none => none
  | _ + 1, .str s :: ts => some (.str s, ts)
  | _ + 1, .num a :: ts => some (.num a, ts)
  | _ + 1, .tru :: ts => some (.bool true, ts)
  | _ + 1, .fls :: ts => some (.bool false, ts)
  | _ + 1, .nul :: ts => some (.null, ts)
  | _ + 1, _ => none

/-- `object_members '}'` -/
def pMembers : Nat → List Tok → Option (List (List Char × JS) × List Tok)
  | 0, _ => none
  | _ + 1, .rbrace :: ts => some ([], ts)
  | n + 1, .str k :: .colon :: ts =>
    match pValue n ts with
    | some (v, .rbrace :: r) => some ([(k, v)], r)
    | some (v, .comma :: r) =>
      match pMembers n r with
      | some (ms, r') => some ((k, v) :: ms, r')
      | none => none
    | _ => none
  | _ + 1, _ => none

/-- `array_items ']'` -/
def pItems : Nat → List Tok → Option (List JS × List Tok)
  | 0, _ => none
  | _ + 1, .rbrack :: ts => some ([], ts)
  | n + 1, ts =>
    match pValue n ts with
    | some (v, .rbrack :: r) => some ([v], r)
    | some (v, .comma :: r) =>
      match pItems n r with
      | some (is, r') => some (v :: is, r')
      | none => none
    | _ => none
end

/-- `ParseJson`: `ok none` = the empty text (no structure) -/
def parseToks (ts : List Tok) : Except Err (Option JS) :=
  match ts with
  | [] => .ok none
  | _ =>
    match pValue (ts.length + 1) ts with
    | some (v, []) => .ok (some v)
    | _ => .error .parse

def decode (canon : List Char → Option (List Char)) (inp : List Char) : Except Err (Option JS) :=
  match lex canon inp with
  | .ok ts => parseToks ts
  | .error e => .error e

/-! ## structure → text -/

def quote (t : Esc) (s : List Char) : List Char := '"' :: (escape t s ++ ['"'])

def joinWith (sep : List Char) : List (List Char) → List Char
  | [] => []
  | [x] => x
  | x :: xs => x ++ sep ++ joinWith sep xs

def numText (canon : List Char → Option (List Char)) (a : List Char) : List Char :=
  match canon a with
  | some t => t
  | none => a

mutual
/-- `Structure.Encode()` (always `Escape`) and the compact `Encoder.encodeStructure` without the
    string-embedding step (which `normalize` performs beforehand) -/
def encS (t : Esc) (canon : List Char → Option (List Char)) : JS → List Char
  | .null => ['n', 'u', 'l', 'l']
  | .bool true => ['t', 'r', 'u', 'e']
  | .bool false => ['f', 'a', 'l', 's', 'e']
  | .str s => quote t s
  | .num a => numText canon a
  | .arr is => '[' :: (encItems t canon is ++ [']'])
  | .obj ms => '{' :: (encMembers t canon ms ++ ['}'])

def encItems (t : Esc) (canon : List Char → Option (List Char)) : List JS → List Char
  | [] => []
  | [x] => encS t canon x
  | x :: xs => encS t canon x ++ ',' :: encItems t canon xs

def encMembers (t : Esc) (canon : List Char → Option (List Char)) : List (List Char × JS) → List Char
  | [] => []
  | [(k, v)] => quote t k ++ ':' :: encS t canon v
  | (k, v) :: ms => quote t k ++ ':' :: encS t canon v ++ ',' :: encMembers t canon ms
end

def isComplex : JS → Bool
  | .arr _ => true
  | .obj _ => true
  | _ => false

mutual
/-- what `Encoder.encodeStructure` does with String values: a text that decodes to an array or an
    object is replaced by that structure, recursively (fuel: the nesting is bounded by the text) -/
def normalize (canon : List Char → Option (List Char)) : Nat → JS → JS
  | 0, j => j
  | n + 1, .str s =>
    match s with
    | [] => .str s
    | _ =>
      match decode canon s with
      | .ok (some j) => if isComplex j then normalize canon n j else .str s
      | _ => .str s
  | n + 1, .arr is => .arr (normItems canon n is)
  | n + 1, .obj ms => .obj (normMembers canon n ms)
  | _ + 1, j => j

def normItems (canon : List Char → Option (List Char)) : Nat → List JS → List JS
  | 0, l => l
  | _, [] => []
  | n + 1, x :: xs => normalize canon n x :: normItems canon n xs

def normMembers (canon : List Char → Option (List Char)) : Nat → List (List Char × JS) → List (List Char × JS)
  | 0, l => l
  | _, [] => []
  | n + 1, (k, v) :: ms => (k, normalize canon n v) :: normMembers canon n ms
end

/-- `Encoder.Encode`, compact -/
def encode (t : Esc) (canon : List Char → Option (List Char)) (j : JS) : List Char :=
  encS t canon (normalize canon ((encS t canon j).length + 2) j)

/-- pretty printing (`IndentSpaces` = 2): not part of the theorems, compared with the real encoder -/
def indent (d : Nat) : List Char := List.replicate (2 * d) ' '

mutual
def prettyS (t : Esc) (canon : List Char → Option (List Char)) (lb : List Char) : Nat → JS → List Char
  | d, .arr is =>
    match is with
    | [] => ['[', ']']
    | _ => '[' :: lb ++ prettyItems t canon lb (d + 1) is ++ lb ++ indent d ++ [']']
  | d, .obj ms => '{' :: lb ++ prettyMembers t canon lb (d + 1) ms ++ lb ++ indent d ++ ['}']
  | _, j => encS t canon j

def prettyItems (t : Esc) (canon : List Char → Option (List Char)) (lb : List Char) : Nat → List JS → List Char
  | _, [] => []
  | d, [x] => indent d ++ prettyS t canon lb d x
  | d, x :: xs => indent d ++ prettyS t canon lb d x ++ ',' :: lb ++ prettyItems t canon lb d xs

def prettyMembers (t : Esc) (canon : List Char → Option (List Char)) (lb : List Char) : Nat → List (List Char × JS) → List Char
  | _, [] => []
  | d, [(k, v)] => indent d ++ quote t k ++ ':' :: ' ' :: prettyS t canon lb d v
  | d, (k, v) :: ms => indent d ++ quote t k ++ ':' :: ' ' :: prettyS t canon lb d v ++ ',' :: lb ++ prettyMembers t canon lb d ms
end

def encodePretty (t : Esc) (canon : List Char → Option (List Char)) (lb : LB) (j : JS) : List Char :=
  prettyS t canon lb.chars 0 (normalize canon ((encS t canon j).length + 2) j)

/-! ## structure → tokens (what the compact encoder writes, token by token) -/

mutual
def toksS : JS → List Tok
  | .null => [.nul]
  | .bool true => [.tru]
  | .bool false => [.fls]
  | .str s => [.str s]
  | .num a => [.num a]
  | .arr is => .lbrack :: (toksItems is ++ [.rbrack])
  | .obj ms => .lbrace :: (toksMembers ms ++ [.rbrace])

def toksItems : List JS → List Tok
  | [] => []
  | [x] => toksS x
  | x :: xs => toksS x ++ .comma :: toksItems xs

def toksMembers : List (List Char × JS) → List Tok
  | [] => []
  | [(k, v)] => .str k :: .colon :: toksS v
  | (k, v) :: ms => .str k :: .colon :: toksS v ++ .comma :: toksMembers ms
end

def isScalar : JS → Bool
  | .arr _ => false
  | .obj _ => false
  | _ => true

/-- `ConvertToValue`: a nested array / object becomes its compact text -/
def toValue (canon : List Char → Option (List Char)) : JS → JVal
  | .null => .null
  | .bool b => .bool b
  | .str s => .str s
  | .num a => .flt (numText canon a)
  | j => .str (encS .backslash canon j)

/-! ## tables -/

structure Table where
  header : List (List Char)
  rows : List (List JVal)
  deriving Repr

def rowObj (header : List (List Char)) (row : List JVal) : JS :=
  .obj (header.zip (row.map toStructure))

/-- `encodeJson`: an array of one object per record -/
def encodeJson (t : Esc) (canon : List Char → Option (List Char)) (pretty : Option LB) (tb : Table) : List Char :=
  let j := JS.arr (tb.rows.map (rowObj tb.header))
  match pretty with
  | none => encode t canon j
  | some lb => encodePretty t canon lb j

/-- `encodeJsonLines`: one object per record, the line break after every record -/
def encodeJsonl (t : Esc) (canon : List Char → Option (List Char)) (lb : LB) (tb : Table) : List Char :=
  (tb.rows.map fun r => encode t canon (rowObj tb.header r) ++ lb.chars).flatten

/-- `ConvertToValue` + what the cell shows: NULL, or a text -/
def cellOfJS (canon : List Char → Option (List Char)) : JS → DCell
  | .null => none
  | .bool true => some ['t', 'r', 'u', 'e']
  | .bool false => some ['f', 'a', 'l', 's', 'e']
  | .str s => some s
  | .num a => some (numText canon a)
  | j => some (encS .backslash canon j)

def addKeys (h : List (List Char)) : List (List Char × JS) → List (List Char)
  | [] => h
  | (k, _) :: ms => addKeys (if h.contains k then h else h ++ [k]) ms

def lookupKey (k : List Char) : List (List Char × JS) → Option JS
  | [] => none
  | (k', v) :: ms => if k' = k then some v else lookupKey k ms

def membersOf : JS → Option (List (List Char × JS))
  | .obj ms => some ms
  | _ => none

/-- `ConvertToTableValue` / the tail of `loadViewFromJsonLinesFile`: the header is the union of the
    keys in order of first appearance; a missing key is NULL -/
def cellOpt (canon : List Char → Option (List Char)) : Option JS → DCell
  | some v => cellOfJS canon v
  | none => none

def tableOf (canon : List Char → Option (List Char)) (objs : List (List (List Char × JS))) : DTable :=
  let header := objs.foldl addKeys []
  ⟨header, objs.map fun ms => header.map fun k => cellOpt canon (lookupKey k ms)⟩

/-- the JSON loader (empty query) on tokens: the text must be an array of objects -/
def decodeJsonToks (canon : List Char → Option (List Char)) (ts : List Tok) : Except Err DTable :=
  match parseToks ts with
  | .ok (some (.arr is)) =>
    match is.mapM membersOf with
    | some objs => .ok (tableOf canon objs)
    | none => .error .parse
  | _ => .error .parse

def decodeJson (canon : List Char → Option (List Char)) (inp : List Char) : Except Err DTable :=
  match lex canon inp with
  | .ok ts => decodeJsonToks canon ts
  | .error e => .error e

/-- `ReadString('\n')`: lines, each with its terminating LF -/
def splitLines : List Char → List Char → List (List Char)
  | acc, [] => match acc with
    | [] => []
    | _ => [acc.reverse]
  | acc, c :: cs => if c = '\n' then (c :: acc).reverse :: splitLines [] cs else splitLines (c :: acc) cs

/-- one object per line, blank lines (no token) skipped -/
def objsOfLines : List (List Tok) → Except Err (List (List (List Char × JS)))
  | [] => .ok []
  | l :: ls =>
    match parseToks l with
    | .error e => .error e
    | .ok none => objsOfLines ls
    | .ok (some (.obj ms)) =>
      match objsOfLines ls with
      | .ok os => .ok (ms :: os)
      | .error e => .error e
    | .ok (some _) => .error .parse

/-- the JSON Lines loader on the token lists of the lines -/
def decodeJsonlToks (canon : List Char → Option (List Char)) (lines : List (List Tok)) : Except Err DTable :=
  match objsOfLines lines with
  | .ok objs => .ok (tableOf canon objs)
  | .error e => .error e

def lexLines (canon : List Char → Option (List Char)) : List (List Char) → Except Err (List (List Tok))
  | [] => .ok []
  | l :: ls =>
    match lex canon l with
    | .error e => .error e
    | .ok ts =>
      match lexLines canon ls with
      | .ok tss => .ok (ts :: tss)
      | .error e => .error e

/-- the JSON Lines loader: a line that does not lex or parse ends the load with an error (the lines
    are read one after the other; an error in a later line is an error all the same) -/
def decodeJsonl (canon : List Char → Option (List Char)) (inp : List Char) : Except Err DTable :=
  match lexLines canon (splitLines [] inp) with
  | .ok tss => decodeJsonlToks canon tss
  | .error e => .error e

/-! ## the line break of a JSON / JSON Lines file -/

/-- specification of `jsonLineBreakDetector` (lib/query/load_view.go), on bytes: the first CR LF, LF or CR
    outside strings, "" when there is none; `inString`, `escaped` = where the scan stands.  The detector
    itself is regenerated from /repo (Csvq.Gen.EncFacts) and proved equal to this for all byte strings. -/
def firstBreak : Bool → Bool → List Nat → String
  | _, _, [] => ""
  | true, true, _ :: cs => firstBreak true false cs
  | true, false, c :: cs =>
    if c = 92 then firstBreak true true cs
    else if c = 34 then firstBreak false false cs
    else firstBreak true false cs
  | false, _, c :: cs =>
    if c = 34 then firstBreak true false cs
    else if c = 10 then "LF"
    else if c = 13 then
      match cs with
      | 10 :: _ => "CRLF"
      | _ => "CR"
    else firstBreak false false cs

/-! ## what the property expects back -/

def canonVal : JVal → DCell
  | .null => none
  | .str s => some s
  | .int a => some a
  | .flt a => some a
  | .nonfinite => none
  | .bool true => some ['t', 'r', 'u', 'e']
  | .bool false => some ['f', 'a', 'l', 's', 'e']
  | .tern none => none
  | .tern (some true) => some ['t', 'r', 'u', 'e']
  | .tern (some false) => some ['f', 'a', 'l', 's', 'e']
  | .dt s => some s

def canonTable (tb : Table) : DTable := ⟨tb.header, tb.rows.map (·.map canonVal)⟩

end Csvq.Json
