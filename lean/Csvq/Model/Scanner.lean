/-
  Csvq.Model.Scanner — lib/parser/scanner.go (`Scanner.Scan` and everything it calls) as a total
  function on `List Char` (core Lean only).

  * The scanner state is the Go struct: remaining source (`src[srcPos:]`), `line`, `char`, and the
    placeholder counters.  `next` / `peek` are the only functions that touch it, as in the Go code
    (`checkNewLine`: CR, LF and CR LF each count as one line break and reset `char`).
  * Every Go `for` loop is a structurally recursive function on a fuel argument which the caller sets
    to the number of remaining runes; each iteration consumes at least one rune, so the fuel is never
    the reason a loop stops (`Csvq.C18.scan_total` proves this for the token loop).
  * `unicode.IsLetter` / `unicode.IsDigit` are *parameters* (`Classes`): the theorems hold for every
    classification; the driver instantiates them for ASCII plus a fixed pool of non-ASCII runes and the
    harness only sends runes from that pool.  `unicode.IsSpace` is the fixed White_Space set.
  * `strconv.ParseInt` / `ParseFloat` on the digit strings `scanNumber` builds are modelled exactly
    (range check by integer arithmetic).
-/
import Csvq.Model.Escape
import Csvq.Model.Unicode
namespace Csvq.Scan
open Csvq.Esc

/-! ## rune classes -/

structure Classes where
  isLetter : Char → Bool
  isDigit : Char → Bool

/-- the ASCII part of the unicode tables (used by the examples) -/
def asciiClasses : Classes where
  isLetter c := ('a' ≤ c && c ≤ 'z') || ('A' ≤ c && c ≤ 'Z')
  isDigit c := '0' ≤ c && c ≤ '9'

/-- unicode.IsLetter / unicode.IsDigit of the toolchain's Unicode tables (Model/Unicode.lean, Gen/UnicodeTables.lean) -/
def unicodeClasses : Classes where
  isLetter c := Uni.isLetter c.toNat
  isDigit c := Uni.isDigit c.toNat

/-- unicode.IsSpace (the White_Space property; identical in every Unicode version Go has shipped) -/
def isSpace (c : Char) : Bool :=
  let n := c.toNat
  (9 ≤ n && n ≤ 13) || n = 0x20 || n = 0x85 || n = 0xA0 || n = 0x1680 || (0x2000 ≤ n && n ≤ 0x200A) ||
  n = 0x2028 || n = 0x2029 || n = 0x202F || n = 0x205F || n = 0x3000

def isDecimal (c : Char) : Bool := '0' ≤ c && c ≤ '9'

def isIdentRune (cls : Classes) (c : Char) : Bool := c = '_' || cls.isLetter c || cls.isDigit c

def isOperatorRune (c : Char) : Bool :=
  c = '=' || c = '>' || c = '<' || c = '!' || c = '|' || c = ':'

def notInUrl (c : Char) : Bool :=
  c = '{' || c = '}' || c = '|' || c = '\\' || c = '^' || c = '[' || c = ']' || c = '`'

/-! ## keyword tables (yyToknames[SELECT..JSON_OBJECT] and the function-name lists of scanner.go) -/

def keywords : List String := [
  "SELECT", "FROM", "UPDATE", "SET", "UNSET", "DELETE", "WHERE", "INSERT", "INTO", "VALUES", "REPLACE", "AS", "DUAL",
  "STDIN", "RECURSIVE", "CREATE", "ADD", "DROP", "ALTER", "TABLE", "FIRST", "LAST", "AFTER", "BEFORE", "DEFAULT",
  "RENAME", "TO", "VIEW", "ORDER", "GROUP", "HAVING", "BY", "ASC", "DESC", "LIMIT", "OFFSET", "PERCENT", "JOIN", "INNER",
  "OUTER", "LEFT", "RIGHT", "FULL", "CROSS", "ON", "USING", "NATURAL", "LATERAL", "UNION", "INTERSECT", "EXCEPT", "ALL",
  "ANY", "EXISTS", "IN", "AND", "OR", "NOT", "BETWEEN", "LIKE", "IS", "NULL", "DISTINCT", "WITH", "RANGE", "UNBOUNDED",
  "PRECEDING", "FOLLOWING", "CURRENT", "ROW", "CASE", "IF", "ELSEIF", "WHILE", "WHEN", "THEN", "ELSE", "DO", "END",
  "DECLARE", "CURSOR", "FOR", "FETCH", "OPEN", "CLOSE", "DISPOSE", "PREPARE", "NEXT", "PRIOR", "ABSOLUTE", "RELATIVE",
  "SEPARATOR", "PARTITION", "OVER", "COMMIT", "ROLLBACK", "CONTINUE", "BREAK", "EXIT", "ECHO", "PRINT", "PRINTF",
  "SOURCE", "EXECUTE", "CHDIR", "PWD", "RELOAD", "REMOVE", "SYNTAX", "TRIGGER", "FUNCTION", "AGGREGATE", "BEGIN",
  "RETURN", "IGNORE", "WITHIN", "VAR", "SHOW", "TIES", "NULLS", "ROWS", "ONLY", "CSV", "JSON", "JSONL", "FIXED", "LTSV",
  "CSV_INLINE", "JSON_INLINE", "JSON_TABLE", "JSON_ROW", "SUBSTRING", "COUNT", "JSON_OBJECT"]

def aggregateFunctions : List String := ["MIN", "MAX", "SUM", "AVG", "STDEV", "STDEVP", "VARP", "MEDIAN"]
def listFunctions : List String := ["LISTAGG", "JSON_AGG"]
def analyticFunctions : List String := ["ROW_NUMBER", "RANK", "DENSE_RANK", "CUME_DIST", "PERCENT_RANK", "NTILE"]
def functionsNth : List String := ["FIRST_VALUE", "LAST_VALUE", "NTH_VALUE"]
def functionsWithIgnoreNulls : List String := ["LAG", "LEAD"]

def asciiLower (c : Char) : Char := if 'A' ≤ c ∧ c ≤ 'Z' then Char.ofNat (c.toNat + 32) else c

/-- one rune of `strings.EqualFold(t, c)` for an upper-case ASCII `t` (simple case folding: the only
    non-ASCII runes that fold to ASCII letters are U+017F → s and U+212A → k) -/
def foldMatch (t c : Char) : Bool :=
  c = t || c = asciiLower t || (t = 'S' && c = 'ſ') || (t = 'K' && c = 'K')

def equalFold : List Char → List Char → Bool
  | [], [] => true
  | t :: ts, c :: cs => foldMatch t c && equalFold ts cs
  | _, _ => false

/-- one rune of `strings.ToUpper(c) == t` for an upper-case ASCII `t` (the only non-ASCII runes whose
    upper case is an ASCII letter are U+0131 → I and U+017F → S) -/
def upperMatch (t c : Char) : Bool :=
  c = t || c = asciiLower t || (t = 'I' && c = 'ı') || (t = 'S' && c = 'ſ')

def upperEq : List Char → List Char → Bool
  | [], [] => true
  | t :: ts, c :: cs => upperMatch t c && upperEq ts cs
  | _, _ => false

/-- `ternary.ConvertFromString(literal)` succeeds (the numeric forms "1", "0", "-1" cannot be identifiers) -/
def isTernaryWord (lit : List Char) : Bool :=
  upperEq "TRUE".toList lit || upperEq "FALSE".toList lit || upperEq "UNKNOWN".toList lit

def findFold (tbl : List String) (lit : List Char) : Option String :=
  tbl.find? fun k => equalFold k.toList lit

/-! ## tokens -/

inductive Kind
  | eof | uncategorized
  | rune (c : Char)          -- `token := ch`: the rune itself is the token code
  | identifier | string | integer | float | ternary | variable | flag | envVar | runtimeInfo
  | externalCommand | placeholder | constant | tableFunction | url
  | keyword (name : String)
  | aggregateFunction | listFunction | analyticFunction | functionNth | functionWithIns
  | comparisonOp | stringOp | substitutionOp
  deriving DecidableEq, Repr

inductive ErrKind
  | literalNotTerminated | invalidVariableSymbol | invalidConstantSyntax | numberConversion
  deriving DecidableEq, Repr

structure Tok where
  kind : Kind
  lit : List Char
  quoted : Bool := false
  holderOrdinal : Nat := 0
  line : Nat
  col : Nat
  deriving DecidableEq, Repr

structure Mode where
  forPrepared : Bool
  ansiQuotes : Bool

/-! ## scanner state, `peek`, `next` -/

structure St where
  rest : List Char      -- src[srcPos:]
  line : Nat
  col : Nat             -- Go field `char`
  deriving Repr

structure Holders where
  ordinal : Nat := 0
  names : List (List Char) := []
  number : Nat := 0

def St.init (src : List Char) : St := { rest := src, line := 1, col := 0 }

/-- `peek()`; `none` is EOF -/
def peek (st : St) : Option Char := st.rest.head?

/-- `peekFurtherAhead(n)`, n ≥ 1 -/
def peekAhead (st : St) (n : Nat) : Option Char := (st.rest.drop (n - 1)).head?

/-- `peekNextLetter(n)`: skip white space from the n-th rune ahead (raw source runes, no line accounting) -/
def peekNextLetter (st : St) (n : Nat) : Option Char := ((st.rest.drop (n - 1)).dropWhile isSpace).head?

/-- `next()` with `checkNewLine`: returns the rune (LF for CR LF) and the new state; EOF leaves the state unchanged -/
def next (st : St) : Option Char × St :=
  match st.rest with
  | [] => (none, st)
  | c :: tl =>
    if c = '\r' then
      match tl with
      | '\n' :: tl' => (some '\n', { rest := tl', line := st.line + 1, col := 0 })
      | _ => (some '\r', { rest := tl, line := st.line + 1, col := 0 })
    else if c = '\n' then (some '\n', { rest := tl, line := st.line + 1, col := 0 })
    else (some c, { rest := tl, line := st.line, col := st.col + 1 })

def peekIs (st : St) (p : Char → Bool) : Bool :=
  match peek st with
  | some c => p c
  | none => false

/-! ## the loops -/

/-- `for p(s.peek()) { s.literal.WriteRune(s.next()) }` -/
def whileNext (p : Char → Bool) : Nat → St → List Char × St
  | 0, st => ([], st)
  | n + 1, st =>
    if peekIs st p then
      match next st with
      | (some c, st1) => let (cs, st2) := whileNext p n st1; (c :: cs, st2)
      | (none, _) => ([], st)
    else ([], st)

/-- `for unicode.IsSpace(s.peek()) { s.next() }` -/
def skipSpaces (st : St) : St := (whileNext isSpace st.rest.length st).2

/-- `scanString(quote)` after the opening quote: (raw literal, terminated?, state) -/
def scanStringLoop (quote : Char) : Nat → St → List Char × Bool × St
  | 0, st => ([], false, st)
  | n + 1, st =>
    match next st with
    | (none, _) => ([], false, st)                       -- "literal not terminated"
    | (some ch, st1) =>
      if ch = quote ∧ peek st1 ≠ some quote then ([], true, st1)   -- break
      else
        -- doubled quote: literal.WriteRune(ch); ch = s.next()
        let (w1, ch, st2) : List Char × Char × St :=
          if ch = quote then
            match next st1 with
            | (some c2, st2) => ([ch], c2, st2)
            | (none, _) => ([ch], ch, st1)
          else ([], ch, st1)
        -- backslash before a backslash or the quote: both runes are kept
        let (w2, ch, st3) : List Char × Char × St :=
          if ch = '\\' ∧ (peek st2 = some '\\' ∨ peek st2 = some quote) then
            match next st2 with
            | (some c3, st3) => ([ch], c3, st3)
            | (none, _) => ([ch], ch, st2)
          else ([], ch, st2)
        let (more, term, stf) := scanStringLoop quote n st3
        (w1 ++ w2 ++ ch :: more, term, stf)

def scanString (quote : Char) (st : St) : List Char × Bool × St := scanStringLoop quote st.rest.length st

/-- `scanIdentifier(head)` -/
def scanIdentifier (cls : Classes) (head : Char) (st : St) : List Char × St :=
  let (cs, st1) := whileNext (isIdentRune cls) st.rest.length st
  (head :: cs, st1)

/-- `scanOperator(head)` -/
def scanOperator (head : Char) (st : St) : List Char × St :=
  let (cs, st1) := whileNext isOperatorRune st.rest.length st
  (head :: cs, st1)

/-- `scanUrl()`: appended runes -/
def scanUrl (st : St) : List Char × St :=
  whileNext (fun c => !isSpace c && !notInUrl c) st.rest.length st

/-- `scanComment()` after `/*` -/
def scanComment : Nat → St → St
  | 0, st => st
  | n + 1, st =>
    match next st with
    | (none, _) => st
    | (some ch, st1) =>
      if ch = '*' ∧ peek st1 = some '/' then (next st1).2
      else scanComment n st1

/-- `scanLineComment()` after `--` -/
def scanLineComment (st : St) : St :=
  (whileNext (fun c => !(c = '\r' || c = '\n')) st.rest.length st).2

/-- `scanExternalCommandQuotedString(quote)` -/
def extQuoted (quote : Char) : Nat → St → List Char × St
  | 0, st => ([], st)
  | n + 1, st =>
    match peek st, next st with
    | some ch, (some w, st1) =>
      if ch = quote then ([w], st1)
      else if ch = '\\' ∧ (peek st1 = some '\\' ∨ peek st1 = some quote) then
        match next st1 with
        | (some w2, st2) => let (cs, st3) := extQuoted quote n st2; (w :: w2 :: cs, st3)
        | (none, _) => ([w], st1)
      else let (cs, st3) := extQuoted quote n st1; (w :: cs, st3)
    | _, _ => ([], st)

/-- `scanExternalCommandCSVQExpression()` -/
def extExpr : Nat → St → List Char × St
  | 0, st => ([], st)
  | n + 1, st =>
    match peek st, next st with
    | some ch, (some w, st1) =>
      if ch = '}' then ([w], st1)
      else if ch = '\\' ∧ (peek st1 = some '\\' ∨ peek st1 = some '{' ∨ peek st1 = some '}') then
        match next st1 with
        | (some w2, st2) => let (cs, st3) := extExpr n st2; (w :: w2 :: cs, st3)
        | (none, _) => ([w], st1)
      else let (cs, st3) := extExpr n st1; (w :: cs, st3)
    | _, _ => ([], st)

/-- `scanExternalCommand()` -/
def extCommand : Nat → St → List Char × St
  | 0, st => ([], st)
  | n + 1, st =>
    match peek st, next st with
    | some ch, (some w, st1) =>
      if ch = ';' then ([], st)
      else if ch = '"' ∨ ch = '\'' ∨ ch = '`' then
        let (q, st2) := extQuoted ch st1.rest.length st1
        let (cs, st3) := extCommand n st2
        (w :: q ++ cs, st3)
      else if ch = '$' ∧ peek st1 = some '{' then
        match next st1 with
        | (some w2, st2) =>
          let (e, st3) := extExpr st2.rest.length st2
          let (cs, st4) := extCommand n st3
          (w :: w2 :: e ++ cs, st4)
        | (none, _) => ([w], st1)
      else let (cs, st3) := extCommand n st1; (w :: cs, st3)
    | _, _ => ([], st)

/-! ## scanNumber -/

def digitsVal (ds : List Char) : Nat := ds.foldl (fun acc c => acc * 10 + (c.toNat - '0'.toNat)) 0

/-- `strconv.ParseFloat(lit, 64)` returns no error for a literal `int[.frac][e[sign]exp]` built by
    `scanNumber`: the exponent, if present, has digits, and the value does not round to +Inf
    (i.e. is below 2^1024 − 2^970, the midpoint between MaxFloat64 and 2^1024). -/
def parseFloatOk (intPart frac : List Char) (hasExp : Bool) (expNeg : Bool) (expDigits : List Char) : Bool :=
  if hasExp && expDigits.isEmpty then false
  else
    let mant := digitsVal (intPart ++ frac)
    let e := digitsVal expDigits
    let limit := 2 ^ 1024 - 2 ^ 970
    if mant = 0 then true
    else if e > 100000 then expNeg          -- beyond any literal the harness sends; avoids 10^e
    else
      let e10 : Int := (if expNeg then -(e : Int) else (e : Int)) - (frac.length : Int)
      if e10 ≥ 0 then decide (mant * 10 ^ e10.toNat < limit)
      else decide (mant < limit * 10 ^ (-e10).toNat)

/-- `if s.peek() == '.' { … }`: (present?, fraction digits, state) -/
def scanFrac (st1 : St) : Bool × List Char × St :=
  if peek st1 = some '.' then
    let st' := (next st1).2
    let r := whileNext isDecimal st'.rest.length st'
    (true, r.1, r.2)
  else (false, [], st1)

/-- `if s.peek() == 'e' || s.peek() == 'E' { … }`: (present?, the e/E rune, sign, exponent digits, state) -/
def scanExp (st2 : St) : Bool × List Char × List Char × List Char × St :=
  match peek st2 with
  | some c =>
    if c = 'e' ∨ c = 'E' then
      let st' := (next st2).2
      let sg : List Char × St :=
        match peek st' with
        | some s => if s = '+' ∨ s = '-' then ([s], (next st').2) else ([], st')
        | none => ([], st')
      let r := whileNext isDecimal sg.2.rest.length sg.2
      (true, [c], sg.1, r.1, r.2)
    else (false, [], [], [], st2)
  | none => (false, [], [], [], st2)

/-- `scanNumber(head)`: (kind, literal, conversion error?, state) -/
def scanNumber (head : Char) (st : St) : Kind × List Char × Bool × St :=
  let r1 := whileNext isDecimal st.rest.length st
  let intPart := head :: r1.1
  let fr := scanFrac r1.2
  let ex := scanExp fr.2.2
  let hasDot := fr.1
  let frac := fr.2.1
  let hasExp := ex.1
  let sign := ex.2.2.1
  let expDigits := ex.2.2.2.1
  let st3 := ex.2.2.2.2
  let lit := intPart ++ (if hasDot then '.' :: frac else []) ++ ex.2.1 ++ sign ++ expDigits
  let isFloatSyntax := hasDot || hasExp
  -- numType == INTEGER and strconv.ParseInt succeeds
  if !isFloatSyntax && decide (digitsVal intPart ≤ 9223372036854775807) then (.integer, lit, false, st3)
  else if parseFloatOk intPart frac hasExp (sign = ['-']) expDigits then (.float, lit, false, st3)
  else (.float, lit, true, st3)

/-! ## one call of `Scan()` up to the point where it returns a token or skips a comment -/

inductive Step
  | tok (t : Tok) (err : Option ErrKind) (st : St) (h : Holders)
  | comment (st : St)

def operatorKind (head : Char) (lit : List Char) : Kind :=
  if lit = ">".toList ∨ lit = "<".toList ∨ lit = ">=".toList ∨ lit = "<=".toList ∨ lit = "<>".toList ∨
     lit = "!=".toList ∨ lit = "==".toList then .comparisonOp
  else if lit = "||".toList then .stringOp
  else if lit = ":=".toList then .substitutionOp
  else if 1 < lit.length then .uncategorized
  else .rune head

/-- classification of an identifier-shaped literal before the URL / constant / table-function look-ahead -/
def wordKind (lit : List Char) : Option Kind :=
  if isTernaryWord lit then some .ternary
  else match findFold keywords lit with
    | some k => some (.keyword k)
    | none =>
      if (findFold aggregateFunctions lit).isSome then some .aggregateFunction
      else if (findFold listFunctions lit).isSome then some .listFunction
      else if (findFold analyticFunctions lit).isSome then some .analyticFunction
      else if (findFold functionsNth lit).isSome then some .functionNth
      else if (findFold functionsWithIgnoreNulls lit).isSome then some .functionWithIns
      else none

/-- `case ':'` of the prepared-statement prefix: a named placeholder -/
def stepNamedPlaceholder (cls : Classes) (ch : Char) (st : St) (h : Holders) (line col : Nat) : Step :=
  let (name, st1) := scanIdentifier cls ch st
  let h' : Holders :=
    if h.names.contains name then { h with ordinal := h.ordinal + 1 }
    else { ordinal := h.ordinal + 1, names := h.names ++ [name], number := h.number + 1 }
  .tok { kind := .placeholder, lit := name, holderOrdinal := h.ordinal + 1, line := line, col := col } none st1 h'

/-- `case s.isDecimal(ch)` -/
def stepNumber (ch : Char) (st : St) (h : Holders) (line col : Nat) : Step :=
  let (k, lit, bad, st1) := scanNumber ch st
  .tok { kind := k, lit := lit, line := line, col := col } (if bad then some .numberConversion else none) st1 h

/-- `case s.isIdentRune(ch)`: keyword, function class, table function, constant, URL or identifier -/
def stepWord (cls : Classes) (ch : Char) (st : St) (h : Holders) (line col : Nat) : Step :=
  let (lit, st1) := scanIdentifier cls ch st
  match wordKind lit with
  | some k => .tok { kind := k, lit := lit, line := line, col := col } none st1 h
  | none =>
    if cls.isLetter ch ∧ peek st1 = some ':' then
      if peekAhead st1 2 = some ':' then
        if peekNextLetter st1 3 = some '(' then
          let st2 := (next (next st1).2).2
          .tok { kind := .tableFunction, lit := lit, line := line, col := col } none st2 h
        else
          let st2 := (next (next st1).2).2
          let lit2 := lit ++ [':', ':']
          -- scanConstant()
          if peekIs st2 (isIdentRune cls) then
            let (cs, st3) := whileNext (isIdentRune cls) st2.rest.length st2
            .tok { kind := .constant, lit := lit2 ++ cs, line := line, col := col } none st3 h
          else
            .tok { kind := .uncategorized, lit := lit2, line := line, col := col } (some .invalidConstantSyntax) st2 h
      else
        let st2 := (next st1).2
        let (cs, st3) := scanUrl st2
        .tok { kind := .url, lit := lit ++ ':' :: cs, line := line, col := col } none st3 h
    else .tok { kind := .identifier, lit := lit, line := line, col := col } none st1 h

/-- `case s.isOperatorRune(ch)` -/
def stepOperator (ch : Char) (st : St) (h : Holders) (line col : Nat) : Step :=
  let (lit, st1) := scanOperator ch st
  .tok { kind := operatorKind ch lit, lit := lit, line := line, col := col } none st1 h

/-- `switch s.peek()` after `@`: `@%` environment variable, `@#` runtime information, `@@` flag, else variable -/
def variableKind (st : St) : Kind × St :=
  match peek st with
  | some c =>
    if c = '%' then (.envVar, (next st).2)
    else if c = '#' then (.runtimeInfo, (next st).2)
    else if c = '@' then (.flag, (next st).2)
    else (.variable, st)
  | none => (.variable, st)

def isEnvVar : Kind → Bool
  | .envVar => true
  | _ => false

/-- `case ch == VariableSign` -/
def stepVariable (cls : Classes) (st : St) (h : Holders) (line col : Nat) : Step :=
  let ks := variableKind st
  if isEnvVar ks.1 ∧ peek ks.2 = some '`' then
    let r := scanString '`' (next ks.2).2
    let lit := unescapeIdentifier r.1 '`'
    -- `if len(literal) < 1 { err = "invalid variable symbol" }` overwrites a "literal not terminated"
    let err : Option ErrKind :=
      if lit.isEmpty then some .invalidVariableSymbol
      else if r.2.1 then none else some .literalNotTerminated
    .tok { kind := ks.1, lit := lit, quoted := true, line := line, col := col } err r.2.2 h
  else if peekIs ks.2 (isIdentRune cls) then
    match next ks.2 with
    | (some hd, st2) =>
      let r := scanIdentifier cls hd st2
      .tok { kind := ks.1, lit := r.1, line := line, col := col } none r.2 h
    | (none, _) => .tok { kind := ks.1, lit := [], line := line, col := col } (some .invalidVariableSymbol) ks.2 h
  else .tok { kind := ks.1, lit := [], line := line, col := col } (some .invalidVariableSymbol) ks.2 h

/-- `case ch == ExternalCommandSign` -/
def stepExternal (st : St) (h : Holders) (line col : Nat) : Step :=
  let (lit, st1) := extCommand st.rest.length st
  .tok { kind := .externalCommand, lit := lit, line := line, col := col } none st1 h

/-- the `default:` case for `'…'` (and `"…"` without ANSI_QUOTES): a string literal -/
def stepString (ch : Char) (st : St) (h : Holders) (line col : Nat) : Step :=
  let (raw, term, st1) := scanString ch st
  .tok { kind := .string, lit := unescapeString raw ch, line := line, col := col }
    (if term then none else some .literalNotTerminated) st1 h

/-- the `default:` case for `` `…` `` (and `"…"` with ANSI_QUOTES): a quoted identifier -/
def stepQuotedIdent (ch : Char) (st : St) (h : Holders) (line col : Nat) : Step :=
  let (raw, term, st1) := scanString ch st
  .tok { kind := .identifier, lit := unescapeIdentifier raw ch, quoted := true, line := line, col := col }
    (if term then none else some .literalNotTerminated) st1 h

/-- the body of `Scan()` after `ch := s.next()` returned a rune: the prepared-statement prefix and the big `switch` -/
def dispatch (cls : Classes) (m : Mode) (ch : Char) (st : St) (h : Holders) : Step :=
  let line := st.line
  let col := st.col
  if m.forPrepared ∧ ch = '?' then
    .tok { kind := .placeholder, lit := [ch], holderOrdinal := h.ordinal + 1, line := line, col := col } none st
      { h with ordinal := h.ordinal + 1, number := h.number + 1 }
  else if m.forPrepared ∧ ch = ':' ∧ peekIs st (isIdentRune cls) then stepNamedPlaceholder cls ch st h line col
  else if isDecimal ch then stepNumber ch st h line col
  else if isIdentRune cls ch then stepWord cls ch st h line col
  else if isOperatorRune ch then stepOperator ch st h line col
  else if ch = '@' then stepVariable cls st h line col
  else if ch = '$' then stepExternal st h line col
  else if ch = '/' ∧ peek st = some '*' then .comment (scanComment st.rest.length (next st).2)
  else if ch = '-' ∧ peek st = some '-' then .comment (scanLineComment (next st).2)
  else if ch = '\'' ∨ (!m.ansiQuotes ∧ ch = '"') then stepString ch st h line col
  else if ch = '`' ∨ (m.ansiQuotes ∧ ch = '"') then stepQuotedIdent ch st h line col
  -- `else if unicode.MaxASCII < ch { token = Uncategorized }`: only an ASCII character stands for itself
  else if 127 < ch.toNat then .tok { kind := .uncategorized, lit := [ch], line := line, col := col } none st h
  else .tok { kind := .rune ch, lit := [ch], line := line, col := col } none st h

/-- `Scan()`: skip white space, read one rune, dispatch -/
def scanStep (cls : Classes) (m : Mode) (st0 : St) (h : Holders) : Step :=
  let stS := skipSpaces st0
  match next stS with
  | (none, _) => .tok { kind := .eof, lit := ['\uFFFD'], line := stS.line, col := stS.col } none stS h
  | (some ch, st) => dispatch cls m ch st h

/-! ## the token loop -/

structure Result where
  toks : List Tok
  err : Option ErrKind        -- error reported together with the last token of `toks`
  holderNumber : Nat
  exhausted : Bool            -- the fuel ran out (proved impossible: `Csvq.C18.scan_total`)
  deriving Repr

def isEof : Kind → Bool
  | .eof => true
  | _ => false

/-- repeated `Scan()` until EOF or the first scanner error -/
def scanAll (cls : Classes) (m : Mode) : Nat → St → Holders → Result
  | 0, _, h => { toks := [], err := none, holderNumber := h.number, exhausted := true }
  | n + 1, st, h =>
    match scanStep cls m st h with
    | .comment st' => scanAll cls m n st' h
    | .tok t e st' h' =>
      match e with
      | some k => { toks := [t], err := some k, holderNumber := h'.number, exhausted := false }
      | none =>
        if isEof t.kind then { toks := [t], err := none, holderNumber := h'.number, exhausted := false }
        else
          let r := scanAll cls m n st' h'
          { r with toks := t :: r.toks }

def scan (cls : Classes) (m : Mode) (src : List Char) : Result :=
  scanAll cls m (src.length + 1) (St.init src) {}

end Csvq.Scan
