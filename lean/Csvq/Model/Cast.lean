/-
  Csvq.Model.Cast — the casting functions INTEGER(), FLOAT(), BOOLEAN(), TERNARY() of
  lib/query/function.go (value.ToInteger / ToFloat / ToBoolean plus the Datetime cases).
-/
import Csvq.Model.Float
namespace Csvq

/-- Go's `int64(f)` on amd64: truncation toward zero; a value outside the int64 range gives MinInt64 -/
def truncToInt64 (f : FVal) : Option Int :=
  match f with
  | .nan | .pinf | .ninf => none
  | .negz => some 0
  | .fin n =>
    let t := Int.tdiv n (FVal.unit : Int)
    if minI64 ≤ t ∧ t ≤ maxI64 then some t else some minI64

/-- INTEGER(x): value.ToInteger, Datetime → Unix seconds -/
def castInteger (p : Profile) : Val :=
  match p.raw with
  | .int i => .int i
  | .flt f => (match truncToInt64 f with | some i => .int i | none => .null)
  | .str _ =>
    (match p.int? with
     | some i => .int i
     | none => match p.flt? with
       | some f => (match truncToInt64 f with
                    | some i => .int i
                    | none => .int minI64)      -- int64(NaN / ±Inf) on amd64
       | none => .null)
  | .dt ns => .int (ns / 1000000000)            -- time.Time.Unix(): floor
  | _ => .null

/-- FLOAT(x): value.ToFloat, Datetime → seconds with the fraction added in float arithmetic -/
def castFloat (p : Profile) : Val :=
  match p.raw with
  | .dt ns =>
    let sec := ns / 1000000000
    let nsec := ns % 1000000000
    let f := FVal.ofInt sec
    if nsec > 0 then .flt (FVal.add f (FVal.div (FVal.ofInt nsec) (FVal.ofInt 1000000000))) else .flt f
  | _ => match p.flt? with
    | some f => .flt f
    | none => .null

/-- BOOLEAN(x): value.ToBoolean -/
def castBoolean (p : Profile) : Val :=
  match p.bool? with
  | some b => .bool b
  | none => .null

/-- TERNARY(x) -/
def castTernary (p : Profile) : Val := .tern p.tern

end Csvq
