/-
  Csvq.Model.ParseFloat — what value.ToFloat / value.ToInteger / value.ToIntegerStrictly make of a
  *text*, for every byte string: option.TrimSpace (the first-or-last-byte guard, then
  strings.TrimSpace with the Unicode White_Space runes in UTF-8), strconv.ParseInt(s, 10, 64) and
  strconv.ParseFloat(s, 64) — special values, decimal and hexadecimal mantissas, exponents with the
  clamp of readFloat, underscores (underscoreOK), correct rounding to binary64 (round to nearest
  even on the exact rational, `FVal.roundMag`), overflow = range error = NULL, underflow = ±0.
  Validated against the real functions by the correspondence stream (op `c06.sflt`).
-/
import Csvq.Model.Text
import Csvq.Model.Float
namespace Csvq
namespace PF

/-! ### option.TrimSpace on arbitrary bytes -/

/-- unicode.IsSpace(rune(b)) for a single byte read as a Latin-1 rune (the guard of option.TrimSpace) -/
def byteIsSpace (b : Nat) : Bool := isAsciiSpace b || b = 0x85 || b = 0xA0

/-- length of a White_Space rune at the head of the text (Go's UTF-8 decoding), 0 if there is none -/
def spaceLenHead : Bytes → Nat
  | b :: rest =>
    if isAsciiSpace b then 1
    else match b, rest with
      | 0xC2, c :: _ => if c = 0x85 || c = 0xA0 then 2 else 0
      | 0xE1, 0x9A :: 0x80 :: _ => 3
      | 0xE2, 0x80 :: c :: _ => if (0x80 ≤ c && c ≤ 0x8A) || c = 0xA8 || c = 0xA9 || c = 0xAF then 3 else 0
      | 0xE2, 0x81 :: 0x9F :: _ => 3
      | 0xE3, 0x80 :: 0x80 :: _ => 3
      | _, _ => 0
  | [] => 0

/-- the same at the end of the text, on the reversed bytes (utf8.DecodeLastRune) -/
def spaceLenLast : Bytes → Nat
  | b :: rest =>
    if isAsciiSpace b then 1
    else match rest with
      | 0xC2 :: _ => if b = 0x85 || b = 0xA0 then 2 else 0
      | 0x9A :: 0xE1 :: _ => if b = 0x80 then 3 else 0
      | 0x80 :: 0xE2 :: _ => if (0x80 ≤ b && b ≤ 0x8A) || b = 0xA8 || b = 0xA9 || b = 0xAF then 3 else 0
      | 0x81 :: 0xE2 :: _ => if b = 0x9F then 3 else 0
      | 0x80 :: 0xE3 :: _ => if b = 0x80 then 3 else 0
      | _ => 0
  | [] => 0

def trimLeft : Nat → Bytes → Bytes
  | 0, s => s
  | fuel + 1, s => match spaceLenHead s with
    | 0 => s
    | k => trimLeft fuel (s.drop k)

/-- works on the reversed text -/
def trimRightRev : Nat → Bytes → Bytes
  | 0, s => s
  | fuel + 1, s => match spaceLenLast s with
    | 0 => s
    | k => trimRightRev fuel (s.drop k)

/-- strings.TrimSpace -/
def goTrimSpace (s : Bytes) : Bytes :=
  let l := trimLeft s.length s
  (trimRightRev l.length l.reverse).reverse

/-- option.TrimSpace: only a text whose first or last BYTE is a space rune is trimmed at all -/
def trimSpace (s : Bytes) : Bytes :=
  match s, s.getLast? with
  | b :: _, some e => if byteIsSpace b || byteIsSpace e then goTrimSpace s else s
  | _, _ => s

/-! ### strconv.ParseFloat(s, 64) -/

def lowerB (b : Nat) : Nat := if 65 ≤ b ∧ b ≤ 90 then b + 32 else b

def isDigit (b : Nat) : Bool := 48 ≤ b && b ≤ 57
def isHexLetter (b : Nat) : Bool := 97 ≤ lowerB b && lowerB b ≤ 102

/-- commonPrefixLenIgnoreCase(s, prefix), `prefix` in lower case -/
def commonPrefixLen : Bytes → Bytes → Nat
  | c :: s, p :: ps => if lowerB c = p then commonPrefixLen s ps + 1 else 0
  | _, _ => 0

def sInfinity : Bytes := [105, 110, 102, 105, 110, 105, 116, 121]
def sNan : Bytes := [110, 97, 110]

/-- special(): (value, bytes consumed) -/
def special (s : Bytes) : Option (FVal × Nat) :=
  let inf (neg : Bool) (nsign : Nat) (t : Bytes) : Option (FVal × Nat) :=
    let n := commonPrefixLen t sInfinity
    let n := if 3 < n ∧ n < 8 then 3 else n
    if n = 3 ∨ n = 8 then some (if neg then .ninf else .pinf, nsign + n) else none
  match s with
  | [] => none
  | 43 :: t => inf false 1 t
  | 45 :: t => inf true 1 t
  | c :: t =>
    if c = 105 ∨ c = 73 then inf false 0 (c :: t)
    else if c = 110 ∨ c = 78 then (if commonPrefixLen (c :: t) sNan = 3 then some (.nan, 3) else none)
    else none

/-- state of readFloat's mantissa loop; `mant` is the exact value of ALL significant digits -/
structure Scan where
  mant : Nat := 0
  nd : Nat := 0
  dp : Int := 0
  sawdot : Bool := false
  sawdigits : Bool := false
  underscores : Bool := false
  deriving Repr, DecidableEq

/-- the digit loop of readFloat; returns the state and the unread rest -/
def scanMant (hex : Bool) : Bytes → Scan → Scan × Bytes
  | [], st => (st, [])
  | c :: cs, st =>
    if c = 95 then scanMant hex cs { st with underscores := true }
    else if c = 46 then
      (if st.sawdot then (st, c :: cs) else scanMant hex cs { st with sawdot := true, dp := st.nd })
    else if isDigit c then
      (if c = 48 ∧ st.nd = 0 then scanMant hex cs { st with sawdigits := true, dp := st.dp - 1 }
       else scanMant hex cs { st with sawdigits := true, nd := st.nd + 1,
                                        mant := st.mant * (if hex then 16 else 10) + (c - 48) })
    else if hex ∧ isHexLetter c then
      scanMant hex cs { st with sawdigits := true, nd := st.nd + 1, mant := st.mant * 16 + (lowerB c - 87) }
    else (st, c :: cs)

/-- the exponent digits: `e` stops growing once it has reached 10000; returns (e, underscores seen, rest) -/
def scanExp : Bytes → Nat → Bool → Nat × Bool × Bytes
  | [], e, u => (e, u, [])
  | c :: cs, e, u =>
    if c = 95 then scanExp cs e true
    else if isDigit c then scanExp cs (if e < 10000 then e * 10 + (c - 48) else e) u
    else (e, u, c :: cs)

/-- underscoreOK -/
def underscoreOKLoop (hex : Bool) : Bytes → Nat → Bool
  -- saw: 0 = '^', 1 = '0', 2 = '_', 3 = '!'
  | [], saw => saw != 2
  | c :: cs, saw =>
    if isDigit c || (hex && isHexLetter c) then underscoreOKLoop hex cs 1
    else if c = 95 then (if saw != 1 then false else underscoreOKLoop hex cs 2)
    else if saw = 2 then false
    else underscoreOKLoop hex cs 3

def underscoreOK (s : Bytes) : Bool :=
  let s := match s with
    | 45 :: t => t
    | 43 :: t => t
    | _ => s
  match s with
  | 48 :: p :: t =>
    if lowerB p = 98 ∨ lowerB p = 111 ∨ lowerB p = 120 then underscoreOKLoop (lowerB p = 120) t 1
    else underscoreOKLoop false s 0
  | _ => underscoreOKLoop false s 0

/-- the syntactic result of readFloat on the whole text: sign, base 16?, exact mantissa, number of
    significant digits, position of the point (in digits; in bits for base 16) -/
structure Parsed where
  neg : Bool
  hex : Bool
  mant : Nat
  nd : Nat
  dp : Int
  deriving Repr, DecidableEq

/-- the optional sign -/
def stripSign (s : Bytes) : Bool × Bytes :=
  match s with
  | 43 :: t => (false, t)
  | 45 :: t => (true, t)
  | _ => (false, s)

/-- the base prefix `0x` / `0X`, only when at least one more byte follows -/
def stripHex (t : Bytes) : Bool × Bytes :=
  match t with
  | 48 :: x :: y :: r => if lowerB x = 120 then (true, y :: r) else (false, t)
  | _ => (false, t)

/-- readFloat after sign and base prefix (`s` is the whole text, for underscoreOK) -/
def readBody (s : Bytes) (neg hex : Bool) (t : Bytes) : Option Parsed :=
  let (st, rest) := scanMant hex t {}
  if !st.sawdigits then none
  else
    let dp : Int := if st.sawdot then st.dp else st.nd
    let dp := if hex then dp * 4 else dp
    let expChar : Nat := if hex then 112 else 101
    match rest with
    | c :: r =>
      if lowerB c = expChar then
        let (esign, r) : Int × Bytes := match r with
          | 43 :: r' => (1, r')
          | 45 :: r' => (-1, r')
          | _ => (1, r)
        match r with
        | d :: _ =>
          if !isDigit d then none
          else
            let (e, u, rest') := scanExp r 0 false
            if !rest'.isEmpty then none
            else if (st.underscores || u) && !underscoreOK s then none
            else some { neg := neg, hex := hex, mant := st.mant, nd := st.nd, dp := dp + (e : Int) * esign }
        | [] => none
      else none
    | [] =>
      if hex then none
      else if st.underscores && !underscoreOK s then none
      else some { neg := neg, hex := hex, mant := st.mant, nd := st.nd, dp := dp }

/-- readFloat + "the whole text was consumed" -/
def readFloat (s : Bytes) : Option Parsed :=
  let (neg, t) := stripSign s
  let (hex, t) := stripHex t
  readBody s neg hex t

/-- the correctly rounded binary64 value of a parsed number; `none` = overflow (strconv's range error) -/
def Parsed.value (p : Parsed) : Option FVal :=
  if p.mant = 0 then some (FVal.signed p.neg (some 0))
  else if p.hex then
    -- value = mant · 2^(dp - 4·nd)
    let sh : Int := p.dp - 4 * (p.nd : Int)
    let top : Int := (Nat.log2 p.mant + 1 : Nat) + sh
    if top > 1030 then none
    else if top < -1080 then some (FVal.signed p.neg (some 0))
    else
      let e : Int := sh + 1074
      let mag := if e ≥ 0 then FVal.roundMag (p.mant * 2 ^ e.toNat) 1 else FVal.roundMag p.mant (2 ^ (-e).toNat)
      match mag with
      | none => none
      | some n => some (FVal.signed p.neg (some n))
  else
    -- value = mant · 10^(dp - nd)
    if p.dp > 310 then none
    else if p.dp < -330 then some (FVal.signed p.neg (some 0))
    else
      let e : Int := p.dp - (p.nd : Int)
      let mag := if e ≥ 0 then FVal.roundMag (p.mant * 10 ^ e.toNat * FVal.unit) 1
                 else FVal.roundMag (p.mant * FVal.unit) (10 ^ (-e).toNat)
      match mag with
      | none => none
      | some n => some (FVal.signed p.neg (some n))

/-- strconv.ParseFloat(s, 64) with err == nil -/
def parseFloat (s : Bytes) : Option FVal :=
  match special s with
  | some (v, n) => if n = s.length then some v else none
  | none => match readFloat s with
    | some p => p.value
    | none => none

/-- value.ToFloat on a text -/
def strToFloat (s : Bytes) : Option FVal := parseFloat (trimSpace s)

/-- value.ToIntegerStrictly on a text (any bytes) -/
def strToIntStrictB (s : Bytes) : Option Int := parseIntStrict (trimSpace s)

/-- String.Ternary() on a text (any bytes) -/
def strTernaryB (s : Bytes) : Tern :=
  match parseBoolStrict (trimSpace s) with
  | some true => .T
  | some false => .F
  | none => .U

end PF
end Csvq
