/-
  Csvq.Model.ParseTime — value.StrToTime (lib/value/conv.go) with no custom formats, session zone UTC and
  process zone UTC: the dispatch on the text's shape and Go's time.Parse for the layouts it tries
  (2006-01-02, 2006-1-2, 2006/01/02 …, with time of day, fraction, `Z07:00`, `-0700`, `MST`; RFC 3339;
  RFC 822 / RFC 822Z).  `time.Parse` is modelled as an interpreter of a layout given as chunks
  (literal prefix, standard item), following time/format.go: skip (a layout space matches any run of
  spaces), getnum, atoi of the year (a sign is accepted in a two-digit year), month names matched without
  regard to case, fractions of any length cut to nanoseconds, comma or period, the zone forms, range checks,
  validation of the day of the month.  A zone abbreviation other than UTC that the process zone does not know
  is a fabricated zone: the reading is taken as UTC (Go's documented behaviour).
  Validated against the real function by the correspondence stream (op `c06.sdt`, `textProfileOK`).
-/
import Csvq.Model.ParseFloat
namespace Csvq
namespace PT

inductive Std
  | longYear | year2 | zeroMonth | numMonth | month3 | zeroDay | numDay
  | hour | zeroMinute | zeroSecond | frac9 | isoColonTZ | numTZ | tz
  deriving DecidableEq, Repr

inductive Zone
  | none
  | utc
  | offset (sec : Int)
  | name (n : Bytes)
  deriving DecidableEq, Repr

structure Acc where
  year : Int := 0
  month : Int := -1
  day : Int := -1
  hour : Nat := 0
  min : Nat := 0
  sec : Nat := 0
  nsec : Nat := 0
  z : Zone := .none
  deriving Repr, DecidableEq

def isDig (b : Nat) : Bool := 48 ≤ b && b ≤ 57

def cutspace (s : Bytes) : Bytes := s.dropWhile (· == 32)

/-- skip(value, prefix) -/
def skip : Nat → Bytes → Bytes → Option Bytes
  | 0, _, _ => none
  | _ + 1, value, [] => some value
  | fuel + 1, value, 32 :: pre =>
    match value with
    | v :: _ => if v ≠ 32 then none else skip fuel (cutspace value) (cutspace pre)
    | [] => skip fuel [] (cutspace pre)
  | fuel + 1, value, p :: pre =>
    match value with
    | v :: vs => if v = p then skip fuel vs pre else none
    | [] => none

/-- getnum(s, fixed) -/
def getnum (s : Bytes) (fixed : Bool) : Option (Nat × Bytes) :=
  match s with
  | a :: rest =>
    if !isDig a then none
    else match rest with
      | b :: rest' => if isDig b then some ((a - 48) * 10 + (b - 48), rest') else (if fixed then none else some (a - 48, rest))
      | [] => if fixed then none else some (a - 48, [])
  | [] => none

/-- atoi of a digit string that must be consumed completely; the empty string gives 0 with an error in Go
    (leadingInt consumes nothing, the remainder is empty, q = 0): atoi("") = 0, nil -/
def allDigitsVal : Bytes → Nat → Option Nat
  | [], acc => some acc
  | b :: bs, acc => if isDig b then allDigitsVal bs (acc * 10 + (b - 48)) else none

def atoi (s : Bytes) : Option Int :=
  match s with
  | 45 :: t => (allDigitsVal t 0).map fun n => -(n : Int)
  | 43 :: t => (allDigitsVal t 0).map fun n => (n : Int)
  | _ => (allDigitsVal s 0).map fun n => (n : Int)

def monthNames : List Bytes :=
  [[74, 97, 110], [70, 101, 98], [77, 97, 114], [65, 112, 114], [77, 97, 121], [74, 117, 110],
   [74, 117, 108], [65, 117, 103], [83, 101, 112], [79, 99, 116], [78, 111, 118], [68, 101, 99]]

/-- match(s1, s2): equal, or equal after setting the lower-case bit, for letters only -/
def matchCI : Bytes → Bytes → Bool
  | [], [] => true
  | c1 :: s1, c2 :: s2 =>
    if c1 = c2 then matchCI s1 s2
    else
      let d1 := c1 ||| 32
      let d2 := c2 ||| 32
      if d1 ≠ d2 || d1 < 97 || d1 > 122 then false else matchCI s1 s2
  | _, _ => false

def lookupMonth (val : Bytes) : Option (Nat × Bytes) :=
  let rec go : List Bytes → Nat → Option (Nat × Bytes)
    | [], _ => none
    | v :: tab, i => if val.length ≥ v.length && matchCI (val.take v.length) v then some (i + 1, val.drop v.length) else go tab (i + 1)
  go monthNames 0

def commaOrPeriod (b : Nat) : Bool := b = 46 || b = 44

/-- leadingInt restricted to what parseSignedOffset needs: the value of the leading digits (none on
    overflow of int64 arithmetic in Go: more than 18 digits are cut off here as an error like there) -/
def leadingDigits (s : Bytes) : Bytes := s.takeWhile isDig

def parseSignedOffset (value : Bytes) : Nat :=
  match value with
  | sign :: rest =>
    if sign ≠ 45 ∧ sign ≠ 43 then 0
    else
      let ds := leadingDigits rest
      if ds.isEmpty then 0
      else match allDigitsVal ds 0 with
        | some x => if x > 23 then 0 else 1 + ds.length
        | none => 0
  | [] => 0

/-- parseTimeZone: length of the zone abbreviation at the head, `none` if there is none -/
def parseTimeZone (value : Bytes) : Option Nat :=
  if value.length < 3 then none
  else if value.take 4 = [67, 104, 83, 84] ∨ value.take 4 = [77, 101, 83, 84] then some 4
  else if value.take 3 = [71, 77, 84] then
    (if value.length = 3 then some 3 else some (3 + parseSignedOffset (value.drop 3)))
  else match value with
    | c :: _ =>
      if c = 43 ∨ c = 45 then
        (let n := parseSignedOffset value; if n > 0 then some n else none)
      else
        let nUpper := ((value.take 6).takeWhile (fun c => 65 ≤ c && c ≤ 90)).length
        if nUpper = 5 then (if value.getD 4 0 = 84 then some 5 else none)
        else if nUpper = 4 then (if value.getD 3 0 = 84 ∨ value.take 4 = [87, 73, 84, 65] then some 4 else none)
        else if nUpper = 3 then some 3
        else none
    | [] => none

/-- one standard item -/
def stdStep (std : Std) (value : Bytes) (a : Acc) : Option (Acc × Bytes) :=
  match std with
  | .longYear =>
    if value.length < 4 then none
    else match value with
      | c :: _ => if !isDig c then none else
          (match atoi (value.take 4) with
           | some y => some ({ a with year := y }, value.drop 4)
           | none => none)
      | [] => none
  | .year2 =>
    if value.length < 2 then none
    else match atoi (value.take 2) with
      | some y => some ({ a with year := if y ≥ 69 then y + 1900 else y + 2000 }, value.drop 2)
      | none => none
  | .zeroMonth | .numMonth =>
    match getnum value (std == .zeroMonth) with
    | some (m, rest) => if m = 0 ∨ 12 < m then none else some ({ a with month := m }, rest)
    | none => none
  | .month3 =>
    match lookupMonth value with
    | some (m, rest) => some ({ a with month := m }, rest)
    | none => none
  | .zeroDay | .numDay =>
    match getnum value (std == .zeroDay) with
    | some (d, rest) => some ({ a with day := d }, rest)
    | none => none
  | .hour =>
    match getnum value false with
    | some (h, rest) => if 24 ≤ h then none else some ({ a with hour := h }, rest)
    | none => none
  | .zeroMinute =>
    match getnum value true with
    | some (m, rest) => if 60 ≤ m then none else some ({ a with min := m }, rest)
    | none => none
  | .zeroSecond =>
    match getnum value true with
    | some (s, rest) => if 60 ≤ s then none else some ({ a with sec := s }, rest)
    | none => none
  | .frac9 =>
    match value with
    | p :: d :: _ =>
      if !commaOrPeriod p || !isDig d then some (a, value)
      else
        let ds := (value.drop 1).takeWhile isDig
        let used := ds.take 9
        match allDigitsVal used 0 with
        | some n => some ({ a with nsec := n * 10 ^ (9 - used.length) }, value.drop (1 + ds.length))
        | none => none
    | _ => some (a, value)
  | .isoColonTZ | .numTZ =>
    match (if std == .isoColonTZ then value else []) with
    | 90 :: _ => some ({ a with z := .utc }, value.drop 1)
    | _ =>
      let colon := std == .isoColonTZ
      let need := if colon then 6 else 5
      if value.length < need then none
      else if colon && value.getD 3 0 ≠ 58 then none
      else
        let sign := value.getD 0 0
        let hh := (value.drop 1).take 2
        let mm := if colon then (value.drop 4).take 2 else (value.drop 3).take 2
        match getnum hh true, getnum mm true with
        | some (hr, _), some (mi, _) =>
          if hr > 24 ∨ mi > 60 then none
          else
            let off : Int := ((hr * 60 + mi) * 60 : Nat)
            if sign = 43 then some ({ a with z := .offset off }, value.drop need)
            else if sign = 45 then some ({ a with z := .offset (-off) }, value.drop need)
            else none
        | _, _ => none
  | .tz =>
    if value.take 3 = [85, 84, 67] then some ({ a with z := .utc }, value.drop 3)
    else match parseTimeZone value with
      | some n => some ({ a with z := .name (value.take n) }, value.drop n)
      | none => none

abbrev Layout := List (Bytes × Option Std)

/-- the chunk loop of time.parse -/
def runLayout : Layout → Bytes → Acc → Option Acc
  | [], value, a => if value.isEmpty then some a else none
  | (pre, std) :: rest, value, a =>
    match skip (pre.length + value.length + 2) value pre with
    | none => none
    | some value =>
      match std with
      | none => if value.isEmpty then some a else none
      | some st =>
        match stdStep st value a with
        | some (a', value') => runLayout rest value' a'
        | none => none

def isLeap (y : Int) : Bool := y % 4 = 0 && (y % 100 ≠ 0 || y % 400 = 0)

def daysIn (m : Int) (y : Int) : Int :=
  if m = 2 then (if isLeap y then 29 else 28)
  else if m = 4 ∨ m = 6 ∨ m = 9 ∨ m = 11 then 30 else 31

/-- days from 1970-01-01 to the given civil date (proleptic Gregorian calendar) -/
def daysFromCivil (y m d : Int) : Int :=
  let y' := if m ≤ 2 then y - 1 else y
  let era := y' / 400          -- floor: Lean's `/` on Int rounds down for a positive divisor
  let yoe := y' - era * 400
  let mp := (m + 9) % 12
  let doy := (153 * mp + 2) / 5 + d - 1
  let doe := yoe * 365 + yoe / 4 - yoe / 100 + doy
  era * 146097 + doe - 719468

/-- the instant, in nanoseconds since the Unix epoch (default location UTC, process zone UTC) -/
def Acc.instant (a : Acc) : Option Int :=
  let month := if a.month < 0 then 1 else a.month
  let day := if a.day < 0 then 1 else a.day
  if day < 1 ∨ day > daysIn month a.year then none
  else
    let secs : Int := daysFromCivil a.year month day * 86400 + (a.hour * 3600 + a.min * 60 + a.sec : Nat)
    let secs := match a.z with
      | .offset o => secs - o
      | _ => secs
    some (secs * 1000000000 + a.nsec)

def timeParse (l : Layout) (s : Bytes) : Option Int :=
  match runLayout l s {} with
  | some a => a.instant
  | none => none

/-! ### the layouts StrToTime tries -/

def dash : Bytes := [45]
def slash : Bytes := [47]
def colon : Bytes := [58]
def sp : Bytes := [32]

def dateL (sep : Bytes) (zero : Bool) : Layout :=
  [([], some .longYear), (sep, some (if zero then .zeroMonth else .numMonth)), (sep, some (if zero then .zeroDay else .numDay))]

def clockL (pre : Bytes) : Layout :=
  [(pre, some .hour), (colon, some .zeroMinute), (colon, some .zeroSecond), ([], some .frac9)]

def endL : Layout := [([], none)]

def lDate (sep : Bytes) (zero : Bool) : Layout := dateL sep zero ++ endL
def lDateTime (sep : Bytes) (zero : Bool) (pre : Bytes) : Layout := dateL sep zero ++ clockL pre ++ endL
def lDateTimeZ (sep : Bytes) (zero : Bool) (z : Std) : Layout := dateL sep zero ++ clockL sp ++ [(sp, some z)] ++ endL
def lRFC3339Nano : Layout := dateL dash true ++ clockL [84] ++ [([], some .isoColonTZ)] ++ endL
def lRFC822 (z : Std) : Layout :=
  [([], some .zeroDay), (sp, some .month3), (sp, some .year2), (sp, some .hour), (colon, some .zeroMinute), (sp, some z)] ++ endL

def firstSome : List (Option Int) → Option Int
  | [] => none
  | some x :: _ => some x
  | none :: rest => firstSome rest

/-- the space / other branch after a full date: zone-less, then `Z07:00`, `-0700`, `MST` -/
def withZones (sep : Bytes) (zero : Bool) (s : Bytes) : Option Int :=
  firstSome [timeParse (lDateTime sep zero sp) s, timeParse (lDateTimeZ sep zero .isoColonTZ) s,
             timeParse (lDateTimeZ sep zero .numTZ) s, timeParse (lDateTimeZ sep zero .tz) s]

/-- StrToTime(s, nil, UTC) on the trimmed text -/
def strToTimeTrimmed (s : Bytes) : Option Int :=
  if s.length < 8 then none
  else if !isDig (s.getD 0 0) then none
  else
    let c4 := s.getD 4 0
    let c10 := s.getD 10 0
    if c4 = 45 then
      if s.length < 10 then timeParse (lDate dash false) s
      else if s.length = 10 then timeParse (lDate dash true) s
      else if c10 = 84 then
        (let c6 := s.getD (s.length - 6) 0
         if c6 = 43 ∨ c6 = 45 ∨ s.getD (s.length - 1) 0 = 90 then timeParse lRFC3339Nano s
         else timeParse (lDateTime dash true [84]) s)
      else if c10 = 32 then withZones dash true s
      else withZones dash false s
    else if c4 = 47 then
      if s.length < 10 then timeParse (lDate slash false) s
      else if s.length = 10 then timeParse (lDate slash true) s
      else if c10 = 32 then withZones slash true s
      else withZones slash false s
    else firstSome [timeParse (lRFC822 .tz) s, timeParse (lRFC822 .numTZ) s]

/-- value.ToDatetime on a text (no custom formats, UTC) -/
def strToTime (s : Bytes) : Option Int := strToTimeTrimmed (PF.trimSpace s)

end PT
end Csvq
