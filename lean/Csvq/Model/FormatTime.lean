/-
  Csvq.Model.FormatTime — how csvq PRINTS a datetime: time.Time.Format(time.RFC3339Nano)
  ("2006-01-02T15:04:05.999999999Z07:00"), used by the encoders' datetime cells (ConvertFieldContents),
  STRING(datetime), the %s placeholder, JSON output and — inside quotes — Datetime.String().
  The inverse direction is Model/ParseTime.lean (value.StrToTime).

  An instant is an `Int` of nanoseconds since the Unix epoch (as in `Val.dt`); the zone the time.Time carries
  enters as its offset `off` in seconds east of UTC at that instant (csvq keeps the location a datetime was
  parsed with or the session zone; only the offset reaches the text).  Following time/format_rfc3339.go:
  civil date and clock of the local seconds (proleptic Gregorian calendar, `civilFromDays`), appendInt with
  width 4 / 2 (a sign and more digits outside 0..9999 / 0..99), the fraction with trailing zeros trimmed and
  left out when it is zero, `Z` when the offset is 0, otherwise ±hh:mm of the offset truncated to minutes
  (the seconds of an offset such as a local mean time are dropped).
  Validated against the real function by the correspondence stream (op `c06.tfmt`).
-/
import Csvq.Model.ParseTime
import Csvq.Model.FormatFloat
namespace Csvq
namespace FT

/-- the civil date (year, month, day) of the day number z0 (days since 1970-01-01), proleptic Gregorian.
    Counted from 0000-03-01: 400-year cycles of 146097 days, in a cycle centuries of 36524 days (the fourth one
    a day longer), in a century four-year blocks of 1461 days, in a block years of 365 days (the fourth one a day
    longer) — the stages of Go's absDate, with the year beginning in March so that the leap day comes last. -/
def civilFromDays (z0 : Int) : Int × Int × Int :=
  let z := z0 + 719468
  let era := z / 146097
  let doe := z - era * 146097
  let c := doe / 36524 - doe / 36524 / 4
  let r1 := doe - 36524 * c
  let q := r1 / 1461
  let r2 := r1 - 1461 * q
  let a := r2 / 365 - r2 / 365 / 4
  let doy := r2 - 365 * a
  let yoe := 100 * c + 4 * q + a
  let mp := (5 * doy + 2) / 153
  let d := doy - (153 * mp + 2) / 5 + 1
  let m := if mp < 10 then mp + 3 else mp - 9
  (yoe + era * 400 + (if m ≤ 2 then 1 else 0), m, d)

/-- appendInt(b, x, w) for x ≥ 0: at least `w` digits -/
def pad (w n : Nat) : Bytes := if n < 10 ^ w then FF.padDigits w n [] else FF.decNat n

/-- appendInt(b, year, 4) -/
def yearText (y : Int) : Bytes := if y < 0 then 45 :: pad 4 y.natAbs else pad 4 y.natAbs

/-- the `w` digits of v without trailing zeros -/
def fracDigits : Nat → Nat → Bytes
  | 0, _ => []
  | w + 1, v => if v % 10 = 0 then fracDigits w (v / 10) else FF.padDigits (w + 1) v []

/-- appendNano for `.999999999` -/
def fracText (nsec : Nat) : Bytes := if nsec = 0 then [] else 46 :: fracDigits 9 nsec

/-- `Z07:00`: `Z` for the offset 0, else sign, hours and minutes of the offset truncated to whole minutes
    (Go: zone := offset / 60, rounding toward zero; negative iff off ≤ -60) -/
def zoneText (off : Int) : Bytes :=
  if off = 0 then [90]
  else
    let a := off.natAbs / 60
    (if off ≤ -60 then 45 else 43) :: (pad 2 (a / 60) ++ 58 :: pad 2 (a % 60))

/-- t.Format(time.RFC3339Nano) of the instant `ns` in a zone whose offset at that instant is `off` seconds -/
def fmtTime (ns off : Int) : Bytes :=
  let sec := ns / 1000000000
  let nsec := (ns % 1000000000).toNat
  let loc := sec + off
  let days := loc / 86400
  let sod := (loc % 86400).toNat
  let ymd := civilFromDays days
  yearText ymd.1 ++ 45 :: (pad 2 ymd.2.1.toNat ++ 45 :: (pad 2 ymd.2.2.toNat ++ 84 :: (pad 2 (sod / 3600)
    ++ 58 :: (pad 2 (sod / 60 % 60) ++ 58 :: (pad 2 (sod % 60) ++ (fracText nsec ++ zoneText off))))))

/-- the local calendar year the text begins with -/
def localYear (ns off : Int) : Int := (civilFromDays ((ns / 1000000000 + off) / 86400)).1

/-- Datetime.String(): the same text inside option.QuoteString's single quotes (the text contains none) -/
def dtString (ns off : Int) : Bytes := 39 :: (fmtTime ns off ++ [39])

/-! ### DATETIME_FORMAT: csvq's % verbs → a Go layout (value.ConvertDatetimeFormat), on runes -/

/-- the Go layout text a verb stands for -/
def verbLayout : Nat → Option (List Nat)
  | 97 => some [77, 111, 110]   -- %a → Mon
  | 98 => some [74, 97, 110]   -- %b → Jan
  | 99 => some [49]   -- %c → 1
  | 100 => some [48, 50]   -- %d → 02
  | 69 => some [95, 50]   -- %E → _2
  | 101 => some [50]   -- %e → 2
  | 70 => some [46, 57, 57, 57, 57, 57, 57]   -- %F → .999999
  | 102 => some [46, 48, 48, 48, 48, 48, 48]   -- %f → .000000
  | 72 => some [49, 53]   -- %H → 15
  | 104 => some [48, 51]   -- %h → 03
  | 105 => some [48, 52]   -- %i → 04
  | 108 => some [51]   -- %l → 3
  | 77 => some [74, 97, 110, 117, 97, 114, 121]   -- %M → January
  | 109 => some [48, 49]   -- %m → 01
  | 78 => some [46, 57, 57, 57, 57, 57, 57, 57, 57, 57]   -- %N → .999999999
  | 110 => some [46, 48, 48, 48, 48, 48, 48, 48, 48, 48]   -- %n → .000000000
  | 112 => some [80, 77]   -- %p → PM
  | 114 => some [48, 51, 58, 48, 52, 58, 48, 53, 32, 80, 77]   -- %r → 03:04:05 PM
  | 115 => some [48, 53]   -- %s → 05
  | 84 => some [49, 53, 58, 48, 52, 58, 48, 53]   -- %T → 15:04:05
  | 87 => some [77, 111, 110, 100, 97, 121]   -- %W → Monday
  | 89 => some [50, 48, 48, 54]   -- %Y → 2006
  | 121 => some [48, 54]   -- %y → 06
  | 90 => some [90, 48, 55, 58, 48, 48]   -- %Z → Z07:00
  | 122 => some [77, 83, 84]   -- %z → MST
  | _ => none

/-- ConvertDatetimeFormat: `esc` = the previous rune was an unconsumed '%'.  Everything that is not a verb is
    copied as it is — also text that Go's time.Format reads as a reference item (`2006`, `15`, `Jan`, `PM` …);
    a '%' at the very end is dropped. -/
def convertFormat : Bool → List Nat → List Nat
  | _, [] => []
  | false, r :: rs => if r = 37 then convertFormat true rs else r :: convertFormat false rs
  | true, r :: rs => (match verbLayout r with | some l => l | none => [r]) ++ convertFormat false rs

end FT
end Csvq
