/-
  Csvq.Model.CellText — a value written into a cell of a table file and read again.

  `cellText` is query.ConvertFieldContents (lib/query/encode.go), the text every encoder (CSV, TSV, LTSV,
  fixed-length, the text tables) puts into a cell, case by case: a String as it is, an Integer through
  value.Int64ToStr, a Float through value.Float64ToStr(f, useScientificNotation), a Boolean through
  strconv.FormatBool, a Ternary as `true` / `false` / nothing (in a text table: TRUE / FALSE / UNKNOWN), a
  Datetime through Format(time.RFC3339Nano), NULL as nothing (in a text table: NULL).  Quoting and escaping
  belong to the format writers (Model/Csv.lean …); only the text matters here.

  `profileOfText` is the coercion profile the String cell holding that text gets when the file is read again:
  what value.ToIntegerStrictly / ToFloat / ToDatetime / ToBoolean / Ternary make of it (Model/ParseFloat.lean,
  Model/ParseTime.lean: session zone UTC, no custom datetime formats).  `u` is the upper-cased trimmed text
  (strings.ToUpper is not modelled; the theorems hold for every `u`).
-/
import Csvq.Model.FormatFloat
import Csvq.Model.FormatTime
namespace Csvq

def sTrue : Bytes := [116, 114, 117, 101]
def sFalse : Bytes := [102, 97, 108, 115, 101]

/-- ConvertFieldContents(v, forTextTable, useScientificNotation): the text.  `off` is the offset (seconds east of
    UTC) of the zone a Datetime value carries, at that instant. -/
def cellText (v : Val) (forTextTable sci : Bool) (off : Int) : Bytes :=
  match v with
  | .str s => s
  | .int i => decText i
  | .flt f => if sci then FF.fmtG f else FF.fmtF f
  | .bool b => if b then sTrue else sFalse
  | .tern t =>
    if forTextTable then (match t with
      | .T => [84, 82, 85, 69] | .F => [70, 65, 76, 83, 69] | .U => [85, 78, 75, 78, 79, 87, 78])
    else (match t with
      | .T => sTrue | .F => sFalse | .U => [])
  | .dt ns => FT.fmtTime ns off
  | .null => if forTextTable then [78, 85, 76, 76] else []

/-- the profile of a String cell with the text `t` -/
def profileOfText (t u : Bytes) : Profile :=
  { raw := .str t, int? := PF.strToIntStrictB t, flt? := PF.strToFloat t, dt? := PT.strToTime t,
    bool? := (match PF.strTernaryB t with | .U => none | .T => some true | .F => some false),
    strU? := some u, tern := PF.strTernaryB t }

/-- strings.ToUpper on ASCII text (what the driver uses for the cell texts of non-string values) -/
def asciiUpper (b : Nat) : Nat := if 97 ≤ b ∧ b ≤ 122 then b - 32 else b

end Csvq
