/-
  Csvq.Model.LalrTables — the tables regenerated from lib/parser/parser.go (Csvq/Gen/LalrTables.lean) in the form
  the driver model reads.  Core Lean only.
-/
import Csvq.Model.Lalr
import Csvq.Gen.LalrTables
namespace Csvq.Lalr
open Csvq.Gen.Lalr

/-- the regenerated tables, packed -/
def genP : PTables where
  exca := ⟨yyExcaBits, yyExcaSize⟩
  act := ⟨yyActBits, yyActSize⟩
  pact := ⟨yyPactBits, yyPactSize⟩
  pgo := ⟨yyPgoBits, yyPgoSize⟩
  r1 := ⟨yyR1Bits, yyR1Size⟩
  r2 := ⟨yyR2Bits, yyR2Size⟩
  chk := ⟨yyChkBits, yyChkSize⟩
  dflt := ⟨yyDefBits, yyDefSize⟩
  tok1 := ⟨yyTok1Bits, yyTok1Size⟩
  tok2 := ⟨yyTok2Bits, yyTok2Size⟩
  tok3 := ⟨yyTok3Bits, yyTok3Size⟩
  last := yyLast
  priv := yyPrivate
  flag := yyFlag
  eofCode := yyEofCode
  errCode := yyErrCode
  unknownChar := unknownCharacter
  -- scanner.go: `const ( EOF = -(iota + 1); Uncategorized )` (text pinned by Ref.scannerConstText)
  scanEOF := -1
  scanUncategorized := -2

/-- the regenerated tables as arrays (what the compiled driver reads) -/
def genT : Tables := genP.toTables

/-- the fuel the driver gives the loop for `n` tokens: more than the loop can use (theorems
    `Csvq.C18.lalr_terminates`, `lalr_driver_fuel_enough`), so that running out of it would be a disagreement -/
def driverFuel (n : Nat) : Nat := (measureBound + 1) * n + 2 * measureBound + 3

end Csvq.Lalr
