/-
  Csvq.Model.Lock — the inter-process locking protocol of lib/file (control_file.go, handler.go):
  `.P.lock` (O_EXCL create), `.P.<rand>.rlock`, any number of processes, one system call per step.

  Writer  (NewHandlerForUpdate → TryCreateLockFile … commit/close):
     wCheck    stat .lock / glob .rlock      busy → retry, free → wCreate
     wCreate   open(.lock, O_CREAT|O_EXCL)   exists → retry, else own the lock → wRecheck
     wRecheck  glob .rlock again             some → wRelease, none → wHold
     wRelease  close+unlink own .lock        → wCheck (retry)
     wHold     …the table is held for update (open, temp file, encode, rename)… → wUnlock
     wUnlock   unlink own .lock              → done
  Reader  (NewHandlerForRead → TryCreateRLockFile … close):
     rCheck        stat .lock                exists → retry, else → rCreateLock
     rCreateLock   open(.lock, O_EXCL)       exists → retry, else own the lock → rCreateRLock
     rCreateRLock  open(.rlock, O_EXCL)      → rReleaseLock
     rReleaseLock  unlink own .lock          → rRead
     rRead         …reading…                 → rRemoveRLock
     rRemoveRLock  unlink own .rlock         → done
  A process waiting in wCheck / rCheck may give up (lock timeout) without touching anything.
-/
namespace Csvq.Lock

abbrev Pid := Nat

inductive PC
  | idle
  | wCheck | wCreate | wRecheck | wRelease | wHold | wUnlock
  | rCheck | rCreateLock | rCreateRLock | rReleaseLock | rRead | rRemoveRLock
  | done
  deriving DecidableEq, Repr

structure State where
  pc : Pid → PC
  lockOwner : Option Pid      -- creator of the existing `.lock` file, if it exists
  rlock : Pid → Bool          -- does the `.rlock` file created by this process exist

def init : State := { pc := fun _ => .idle, lockOwner := none, rlock := fun _ => false }

def setPc (s : State) (p : Pid) (c : PC) : State :=
  { s with pc := fun q => if q = p then c else s.pc q }

/-- one system call of process `p` (the reference protocol = the code as it stands) -/
inductive Step : State → State → Prop
  | startW (s p) (h : s.pc p = .idle) : Step s (setPc s p .wCheck)
  | startR (s p) (h : s.pc p = .idle) : Step s (setPc s p .rCheck)
  | wCheckBusy (s p) (h : s.pc p = .wCheck) (b : s.lockOwner.isSome ∨ ∃ q, s.rlock q = true) : Step s s
  | wCheckFree (s p) (h : s.pc p = .wCheck) (b : s.lockOwner = none ∧ ∀ q, s.rlock q = false) :
      Step s (setPc s p .wCreate)
  | wTimeout (s p) (h : s.pc p = .wCheck) : Step s (setPc s p .done)
  | wCreateFail (s p) (h : s.pc p = .wCreate) (b : s.lockOwner.isSome) : Step s (setPc s p .wCheck)
  | wCreateOk (s p) (h : s.pc p = .wCreate) (b : s.lockOwner = none) :
      Step s { setPc s p .wRecheck with lockOwner := some p }
  | wRecheckBusy (s p) (h : s.pc p = .wRecheck) (b : ∃ q, s.rlock q = true) : Step s (setPc s p .wRelease)
  | wRecheckFree (s p) (h : s.pc p = .wRecheck) (b : ∀ q, s.rlock q = false) : Step s (setPc s p .wHold)
  | wRelease (s p) (h : s.pc p = .wRelease) : Step s { setPc s p .wCheck with lockOwner := none }
  | wFinish (s p) (h : s.pc p = .wHold) : Step s (setPc s p .wUnlock)
  | wUnlock (s p) (h : s.pc p = .wUnlock) : Step s { setPc s p .done with lockOwner := none }
  | rCheckBusy (s p) (h : s.pc p = .rCheck) (b : s.lockOwner.isSome) : Step s s
  | rCheckFree (s p) (h : s.pc p = .rCheck) (b : s.lockOwner = none) : Step s (setPc s p .rCreateLock)
  | rTimeout (s p) (h : s.pc p = .rCheck) : Step s (setPc s p .done)
  | rCreateLockFail (s p) (h : s.pc p = .rCreateLock) (b : s.lockOwner.isSome) : Step s (setPc s p .rCheck)
  | rCreateLockOk (s p) (h : s.pc p = .rCreateLock) (b : s.lockOwner = none) :
      Step s { setPc s p .rCreateRLock with lockOwner := some p }
  | rCreateRLock (s p) (h : s.pc p = .rCreateRLock) :
      Step s { setPc s p .rReleaseLock with rlock := fun q => if q = p then true else s.rlock q }
  | rReleaseLock (s p) (h : s.pc p = .rReleaseLock) : Step s { setPc s p .rRead with lockOwner := none }
  | rFinish (s p) (h : s.pc p = .rRead) : Step s (setPc s p .rRemoveRLock)
  | rRemoveRLock (s p) (h : s.pc p = .rRemoveRLock) :
      Step s { setPc s p .done with rlock := fun q => if q = p then false else s.rlock q }

inductive Reachable : State → Prop
  | init : Reachable init
  | step (s t) : Reachable s → Step s t → Reachable t

/-- `p` holds the table for update -/
def writer (s : State) (p : Pid) : Prop := s.pc p = .wHold
/-- `p` is reading the table -/
def reader (s : State) (p : Pid) : Prop := s.pc p = .rRead

/-- the process owns (created and has not yet removed) the `.lock` file -/
def ownsLockPc : PC → Bool
  | .wRecheck | .wRelease | .wHold | .wUnlock | .rCreateRLock | .rReleaseLock => true
  | _ => false

/-- the process's `.rlock` file exists -/
def hasRLockPc : PC → Bool
  | .rReleaseLock | .rRead | .rRemoveRLock => true
  | _ => false

/-! ### protocol variants for the failing-schedule search (executable, finitely many processes).
    `Flags` are regenerated from the source by extract/fsproto. -/

structure Flags where
  lockExclusive : Bool      -- `.lock` is created with O_EXCL (file.Create)
  writerRechecks : Bool     -- TryCreateLockFile looks for `.rlock` files again after creating `.lock`
  writerChecksFirst : Bool  -- TryCreateLockFile tests LockExists || RLockExists before creating
  readerTakesLock : Bool    -- TryCreateRLockFile creates `.lock` before the `.rlock` file
  readerReleasesLock : Bool -- … and removes it afterwards
  deriving DecidableEq, Repr

def refFlags : Flags :=
  { lockExclusive := true, writerRechecks := true, writerChecksFirst := true,
    readerTakesLock := true, readerReleasesLock := true }

structure XState where
  pcs : List PC
  lockOwner : Option Nat
  rlocks : List Bool
  deriving DecidableEq, Repr

def XState.anyRLock (s : XState) : Bool := s.rlocks.any id

def xset {α} (l : List α) (i : Nat) (a : α) : List α := l.set i a

/-- executable successor states of process `i` under protocol `fl` -/
def xsteps (fl : Flags) (s : XState) (i : Nat) : List XState :=
  let setpc (c : PC) : XState := { s with pcs := xset s.pcs i c }
  match s.pcs[i]? with
  | none => []
  | some pc =>
    match pc with
    | .idle => [setpc .wCheck, setpc .rCheck]
    | .wCheck =>
      if fl.writerChecksFirst && (s.lockOwner.isSome || s.anyRLock) then [setpc .done] else [setpc .wCreate]
    | .wCreate =>
      if fl.lockExclusive && s.lockOwner.isSome then [setpc .wCheck]
      else [{ setpc .wRecheck with lockOwner := some i }]
    | .wRecheck =>
      if fl.writerRechecks && s.anyRLock then [setpc .wRelease] else [setpc .wHold]
    | .wRelease => [{ setpc .wCheck with lockOwner := none }]
    | .wHold => [setpc .wUnlock]
    | .wUnlock => [{ setpc .done with lockOwner := none }]
    | .rCheck => if s.lockOwner.isSome then [setpc .done] else [setpc .rCreateLock]
    | .rCreateLock =>
      if !fl.readerTakesLock then [setpc .rCreateRLock]
      else if fl.lockExclusive && s.lockOwner.isSome then [setpc .rCheck]
      else [{ setpc .rCreateRLock with lockOwner := some i }]
    | .rCreateRLock => [{ setpc .rReleaseLock with rlocks := xset s.rlocks i true }]
    | .rReleaseLock =>
      if fl.readerTakesLock && fl.readerReleasesLock then [{ setpc .rRead with lockOwner := none }]
      else [setpc .rRead]
    | .rRead => [setpc .rRemoveRLock]
    | .rRemoveRLock => [{ setpc .done with rlocks := xset s.rlocks i false }]
    | .done => []

def xbad (s : XState) : Bool :=
  let holds := (s.pcs.filter (· == .wHold)).length
  let reads := (s.pcs.filter (· == .rRead)).length
  holds ≥ 2 || (holds ≥ 1 && reads ≥ 1)

end Csvq.Lock
