/-
  Size sites (property C19): shapes of the facts that extract/errfacts (sizefacts.go) regenerates into
  Csvq/Gen/SizeFacts.lean, the evaluator of the integer IR over valuations, and the uniform tactic that proves one
  obligation for ALL valuations.  Core Lean only.

  A size site is an operand that makes the Go runtime panic when it is out of range: the count of strings.Repeat /
  bytes.Repeat, the length and capacity of make([]T, n, c), an index with arithmetic in it, the bounds of a slice expression.
  One `SizeSite` = one obligation (`goal`) of one site with the facts (`conds`) that hold whenever control reaches it —
  enclosing conditions, negated conditions of the early returns above it, definitions of the local variables involved, joins of
  branches as disjunctions, recorded facts such as 0 ≤ len.  Variables are numbered per obligation; `ρ : Nat → Int` is a valuation.
-/
namespace Csvq.SizeFacts

/-- integer expressions: constants, variables, +, −, constant · expression, unary − -/
inductive SExpr where
  | c (k : Int)
  | v (i : Nat)
  | add (a b : SExpr)
  | sub (a b : SExpr)
  | mul (k : Int) (a : SExpr)
  | neg (a : SExpr)
deriving Repr, DecidableEq, Inhabited

/-- conditions: comparisons of expressions, ∧, ∨ (`tt` = no information) -/
inductive SCond where
  | tt
  | le (a b : SExpr)
  | lt (a b : SExpr)
  | eq (a b : SExpr)
  | ne (a b : SExpr)
  | and (p q : SCond)
  | or (p q : SCond)
deriving Repr, DecidableEq, Inhabited

def SExpr.eval (ρ : Nat → Int) : SExpr → Int
  | .c k => k
  | .v i => ρ i
  | .add a b => a.eval ρ + b.eval ρ
  | .sub a b => a.eval ρ - b.eval ρ
  | .mul k a => k * a.eval ρ
  | .neg a => - a.eval ρ

def SCond.holds (ρ : Nat → Int) : SCond → Prop
  | .tt => True
  | .le a b => a.eval ρ ≤ b.eval ρ
  | .lt a b => a.eval ρ < b.eval ρ
  | .eq a b => a.eval ρ = b.eval ρ
  | .ne a b => a.eval ρ ≠ b.eval ρ
  | .and p q => p.holds ρ ∧ q.holds ρ
  | .or p q => p.holds ρ ∨ q.holds ρ

/-- the same, executable (the counterexample search of the driver; `check_iff_holds` in Csvq/Lemmas/SizeFacts.lean) -/
def SCond.check (ρ : Nat → Int) : SCond → Bool
  | .tt => true
  | .le a b => decide (a.eval ρ ≤ b.eval ρ)
  | .lt a b => decide (a.eval ρ < b.eval ρ)
  | .eq a b => decide (a.eval ρ = b.eval ρ)
  | .ne a b => !decide (a.eval ρ = b.eval ρ)
  | .and p q => p.check ρ && q.check ρ
  | .or p q => p.check ρ || q.check ρ

def holdsAll (ρ : Nat → Int) : List SCond → Prop
  | [] => True
  | c :: cs => c.holds ρ ∧ holdsAll ρ cs

def checkAll (ρ : Nat → Int) (cs : List SCond) : Bool := cs.all (·.check ρ)

/-- one obligation of one size site -/
structure SizeSite where
  file : String
  fn : String
  /-- repeat | make | index | slice -/
  kind : String
  /-- the site as source text -/
  expr : String
  /-- count | len | cap | low | high | order | max -/
  what : String
  nvars : Nat
  conds : List SCond
  goal : SCond
deriving Repr, Inhabited

/-- the obligation: for EVERY valuation of the variables that satisfies the facts, the goal holds -/
def SizeSite.safe (s : SizeSite) : Prop := ∀ ρ : Nat → Int, holdsAll ρ s.conds → s.goal.holds ρ

/-- what the uniform tactic found for an obligation: a proof, or nothing -/
inductive Proved (p : Prop) where
  | yes (h : p)
  | no

def Proved.isYes {p : Prop} : Proved p → Bool
  | .yes _ => true
  | .no => false

structure SizeEntry where
  site : SizeSite
  proof : Proved site.safe

/-- one `for` statement (range loops aside): candidate measures read off its exit conditions, each with the numbers of the
    obligations (entries of `Gen.Loop.loopEntries`) of its back edges: "under the facts of this path of ONE iteration,
    measure' < measure and 0 ≤ measure" -/
structure LoopSite where
  file : String
  fn : String
  /-- the header as source text -/
  header : String
  /-- number of back edges (end of the body, every `continue`); 0 = the body always leaves the loop -/
  edges : Nat
  cands : List (String × List Nat)
deriving Repr, Inhabited

/-- a measure is good when every one of its back-edge obligations holds for ALL valuations -/
def LoopSite.candidateGood (entries : List SizeEntry) (c : String × List Nat) : Prop :=
  ∀ i ∈ c.2, ∃ e, entries[i]? = some e ∧ e.site.safe

/-- the loop has a measure that is non-negative at the start of every iteration and decreases along every back edge — so no
    execution goes through the loop head infinitely often; a loop without a back edge needs none -/
def LoopSite.terminates (entries : List SizeEntry) (l : LoopSite) : Prop :=
  l.edges = 0 ∨ ∃ c ∈ l.cands, LoopSite.candidateGood entries c

/-- the same, decided from what the tactic recorded -/
def LoopSite.proved (entries : List SizeEntry) (l : LoopSite) : Bool :=
  l.edges == 0 || l.cands.any (fun c => c.2.all (fun i => match entries[i]? with | some e => e.proof.isYes | none => false))

/-- `size_decide s`: unfold the site `s` and the evaluator down to linear integer arithmetic over the atoms `ρ i`, then `omega`
    (a decision procedure: the proof it builds is checked by the kernel and holds for ALL valuations); when that fails the
    obligation is recorded as not proved — never as proved. -/
syntax "size_decide " ident : tactic
macro_rules
  | `(tactic| size_decide $s:ident) => `(tactic| first
      | exact Proved.yes (by
          intro ρ
          simp only [$s:ident, SizeSite.safe, holdsAll, SCond.holds, SExpr.eval]
          omega)
      | exact Proved.yes (by
          intro ρ
          simp only [$s:ident, SizeSite.safe, holdsAll, SCond.holds, SExpr.eval]
          intros
          trivial)
      | exact Proved.no)

/-! ## the search for a valuation that violates an obligation (driver) -/

def valuation (l : List Int) : Nat → Int := fun i => l.getD i 0

/-- `true` = the valuation satisfies every fact and violates the goal -/
def SizeSite.violatedBy (s : SizeSite) (l : List Int) : Bool :=
  checkAll (valuation l) s.conds && !s.goal.check (valuation l)

/-- depth-first over the candidate values, variable by variable -/
def searchFrom (s : SizeSite) (cands : List Int) : Nat → List Int → Option (List Int)
  | 0, acc => if s.violatedBy acc.reverse then some acc.reverse else none
  | n + 1, acc => cands.firstM (fun k => searchFrom s cands n (k :: acc))

/-- a violating valuation with small values, if the boxes tried hold one (exhaustive: only for few variables) -/
def SizeSite.boxCounterexample (s : SizeSite) : Option (List Int) :=
  let boxes : List (List Int) := [[0, 1, 2], [0, 1, 2, 3, -1], [0, 1, 2, 3, 4, 5, -1, -2], [0, 1, 2, 3, 4, 5, 6, 7, 8, 10, 12, -1, -2, -3]]
  boxes.firstM (fun b => if b.length ^ s.nvars ≤ 3000000 then searchFrom s b s.nvars [] else none)

/-- number of leading variables an expression / a condition needs: it can be evaluated once variables 0 … bound − 1 have values -/
def SExpr.bound : SExpr → Nat
  | .c _ => 0
  | .v i => i + 1
  | .add a b => max a.bound b.bound
  | .sub a b => max a.bound b.bound
  | .mul _ a => a.bound
  | .neg a => a.bound

def SCond.bound : SCond → Nat
  | .tt => 0
  | .le a b => max a.bound b.bound
  | .lt a b => max a.bound b.bound
  | .eq a b => max a.bound b.bound
  | .ne a b => max a.bound b.bound
  | .and p q => max p.bound q.bound
  | .or p q => max p.bound q.bound

/-- depth-first with pruning, for obligations with many variables (the extractor numbers the variables in the order the walk
    defined them, so a fact `x' = x + 1` can be checked as soon as x' gets its value): a partial valuation is given up as soon as a
    fact all of whose variables have values is false; `fuel` bounds the number of nodes visited -/
def prunedFrom (s : SizeSite) (cands : List Int) : Nat → List Int → Nat → Option (List Int) × Nat
  | _, _, 0 => (none, 0)
  | 0, acc, fuel + 1 => (if s.violatedBy acc.reverse then some acc.reverse else none, fuel)
  | n + 1, acc, fuel + 1 =>
    cands.foldl (fun (r : Option (List Int) × Nat) k =>
      match r with
      | (some l, f) => (some l, f)
      | (none, f) =>
        let acc' := k :: acc
        if s.conds.all (fun c => decide (c.bound > acc'.length) || c.check (valuation acc'.reverse)) then prunedFrom s cands n acc' f
        else (none, f - 1)) (none, fuel)

/-- the pruned search over three boxes; its answer is checked once more against the whole obligation -/
def SizeSite.prunedCounterexample (s : SizeSite) : Option (List Int) :=
  let boxes : List (List Int) := [[0, 1, 2, 3, -1], [0, 1, 2, 3, 4, 5, -1, -2], [0, 1, 2, 3, 4, 5, 6, 7, 8, 10, 12, -1, -2, -3]]
  boxes.firstM (fun b =>
    match (prunedFrom s b s.nvars [] 300000).1 with
    | some l => if s.violatedBy l then some l else none
    | none => none)

/-- a violating valuation with small values: exhaustive boxes first, then the pruned search -/
def SizeSite.counterexample (s : SizeSite) : Option (List Int) :=
  match s.boxCounterexample with
  | some l => some l
  | none => s.prunedCounterexample

end Csvq.SizeFacts
