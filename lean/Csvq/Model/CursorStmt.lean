/-
  Csvq.Model.CursorStmt — cursors declared FOR a prepared statement, inside the model (core Lean only).

  Shape of the Go code:
  * lib/query/prepared_statement.go  `ReplaceValues{Values, Names}`, `NewReplaceValues(replace)`: the values of a
                                     USING list in order, and the map name → index of the values spelled `v AS name`
                                     (a later entry of the same name overwrites the earlier one)
  * lib/query/processor.go           `ContextForPreparedStatement(ctx, values)` = `context.WithValue(ctx, key, values)`:
                                     ONE key, so the contexts of nested EXECUTE … USING form a STACK of frames and
                                     `ctx.Value(key)` is the innermost one.  Called at two sites: `EXECUTE p USING …`
                                     (the statements of p run in the new context) and `Cursor.Open` for a cursor FOR a
                                     prepared statement (the cursor's SELECT is evaluated in the new context).  Both
                                     wrap UNCONDITIONALLY — an empty USING list is an EMPTY frame, not "no frame".
  * lib/query/eval.go                `evalPlaceholder`: no frame → "replace value is not specified"; `:name` → the index
                                     the frame's map gives, missing → error; `?` → index Ordinal − 1, beyond the values
                                     → error; ONLY the innermost frame is consulted.
  * lib/query/cursor.go              `Cursor.Open`: pseudo / already-open guards, then the evaluation; only a successful
                                     evaluation assigns view / index / fetched.

  The cursor's statement is `SELECT id, v FROM t WHERE cond` with `cond` built from `id > ?`, `id < ?`, `id > :name`,
  `id < :name`, `id > n` and AND (csvq evaluates the right operand of AND only when the left one is not FALSE; integers
  only, so no UNKNOWN arises).  The WHERE clause is evaluated once per row of the table, in table order: a placeholder
  is READ only when a row reaches it — over an empty table nothing is read and the OPEN succeeds whatever the frame.

  USING values are integer literals here (csvq keeps the value EXPRESSIONS in the frame and evaluates them at every read
  in the context of the reader; the correspondence stream uses literals only — see findings_inbox/using-placeholder-recursion).
-/
import Csvq.Model.Cursor
namespace Csvq.CursorStmt
open Csvq Csvq.Cursor

/-- parser.Placeholder: `?` (Ordinal ≥ 1, numbered by the parser within one prepared statement) or `:name` -/
inductive Holder
  | pos (ordinal : Nat)
  | named (name : String)
  deriving DecidableEq, Repr, Inhabited

/-- parser.ReplaceValue: one item of a USING list — the value and the name behind AS ("" : none) -/
structure RV where
  value : Int
  name : String
  deriving DecidableEq, Repr, Inhabited

/-- prepared_statement.go `ReplaceValues`; the Go map as an association list whose FIRST match is the entry the map
    holds (the last one written) -/
structure Frame where
  values : List Int
  names : List (String × Nat)
  deriving DecidableEq, Repr, Inhabited

/-- the loop of `NewReplaceValues`: `if 0 < len(name) { names[name] = i }; values = append(values, value)` -/
def newFrameFrom (i : Nat) (vals : List Int) (names : List (String × Nat)) : List RV → Frame
  | [] => ⟨vals.reverse, names⟩
  | r :: rest =>
    newFrameFrom (i + 1) (r.value :: vals) (if r.name.length > 0 then (r.name, i) :: names else names) rest

def newReplaceValues (l : List RV) : Frame := newFrameFrom 0 [] [] l

/-- the replace-value context: innermost frame first (`context.WithValue` chain under the one key) -/
abbrev Ctx := List Frame

/-- processor.go `ContextForPreparedStatement` -/
def ctxForPrepared (ctx : Ctx) (f : Frame) : Ctx := f :: ctx

/-- `ctx.Value(StatementReplaceValuesContextKey)` -/
def ctxValue (ctx : Ctx) : Option Frame := ctx.head?

def assoc (l : List (String × Nat)) (k : String) : Option Nat :=
  match l with
  | [] => none
  | (k', v) :: t => if k' = k then some v else assoc t k

/-- eval.go `evalPlaceholder` (`none`: StatementReplaceValueNotSpecifiedError, 13803) -/
def evalPlaceholder (ctx : Ctx) (h : Holder) : Option Int :=
  match ctxValue ctx with
  | none => none
  | some f =>
    match h with
    | .named n =>
      match assoc f.names n with
      | none => none
      | some i => f.values[i]?
    | .pos ord =>
      -- idx = Ordinal − 1 (the parser numbers from 1; ordinal 0 would be index −1: Go panics, the parser never builds it)
      match ord with
      | 0 => none
      | i + 1 => f.values[i]?

/-- the WHERE clause of the cursor's statement -/
inductive Cond
  | gtH (h : Holder)       -- id > ?   /  id > :name
  | ltH (h : Holder)       -- id < ?   /  id < :name
  | gtC (n : Int)          -- id > n
  | and (a b : Cond)       -- a AND b
  deriving DecidableEq, Repr, Inhabited

/-- one evaluation of the WHERE clause for a row with this id; `lk`: what reading a placeholder gives -/
def evalCond (lk : Holder → Option Int) (id : Int) : Cond → Option Bool
  | .gtH h => (lk h).map (fun v => decide (v < id))
  | .ltH h => (lk h).map (fun v => decide (id < v))
  | .gtC n => some (decide (n < id))
  | .and a b =>
    match evalCond lk id a with
    | none => none
    | some false => some false
    | some true => evalCond lk id b

/-- a row of the table: its id and the token of the row handed out by the cursor -/
abbrev Row := Int × String

/-- `SELECT … FROM t WHERE cond`: the rows in table order; the first failing read ends the evaluation -/
def selectRows (lk : Holder → Option Int) (c : Cond) : List Row → Option (List String)
  | [] => some []
  | (id, tok) :: rest =>
    match evalCond lk id c with
    | none => none
    | some keep =>
      match selectRows lk c rest with
      | none => none
      | some out => some (if keep then tok :: out else out)

/-- result of a statement of this file: a result of Model/Cursor, or the evaluation error of the cursor's statement -/
inductive ORes
  | res (r : Res String)
  | notSpecified           -- ErrorStatementReplaceValueNotSpecified 13803
  deriving Repr

def ORes.isErr : ORes → Bool
  | .res (.err _) => true
  | .notSpecified => true
  | _ => false

/-- `OPEN n [USING using]` of a cursor declared FOR the statement with WHERE clause `c`, executed in context `ctx`
    (whatever EXECUTE … USING frames surround the OPEN), `table`: the rows of t now.
    Cursor.Open: the guards, then `Select(ContextForPreparedStatement(ctx, NewReplaceValues(values)), …)`, and only
    after a successful evaluation the assignment. -/
def openStmt (ctx : Ctx) (s : Scope String) (n : String) (c : Cond) (table : List Row) (us : List RV) :
    Scope String × ORes :=
  match lookup s (key n) with
  | none => (s, .res (.err .undeclared))
  | some (.opened _ _ _) => (s, .res (.err .alreadyOpen))
  | some .closed =>
    match selectRows (evalPlaceholder (ctxForPrepared ctx (newReplaceValues us))) c table with
    | none => (s, .notSpecified)
    | some rows => (update s (key n) (.opened rows (-1) false), .res .ok)

/-- the same on a block stack: the first block that knows the name (reference_scope.go OpenCursor) -/
def openStmtS (ctx : Ctx) (st : Stack String) (n : String) (c : Cond) (table : List Row) (us : List RV) :
    Stack String × ORes :=
  match st with
  | [] => ([], .res (.err .undeclared))
  | b :: rest =>
    match lookup b (key n) with
    | some _ => let r := openStmt ctx b n c table us; (r.1 :: rest, r.2)
    | none => let r := openStmtS ctx rest n c table us; (b :: r.1, r.2)

/-! ## programs: OPEN nested in EXECUTE … USING, in functions, in SOURCE — to any depth

  processor.go: `EXECUTE p USING …` runs the statements of p in `ContextForPreparedStatement(ctx, NewReplaceValues(…))`
  with the SAME reference scope (no child block); a user-defined function called from a statement runs its body in a
  child block with the caller's context; `SOURCE file` runs the file's statements with the same scope and context.
  An error ends the whole program (as in `Cursor.runOps`). -/

inductive Prog
  | done
  | openC (n : String) (c : Cond) (us : List RV) (rest : Prog)   -- OPEN n [USING …] of a cursor FOR a statement
  | act (o : Op String) (rest : Prog)                                 -- any other cursor statement
  | exec (us : List RV) (body rest : Prog)                         -- EXECUTE p [USING …]; p's statements: body
  | call (body rest : Prog)                                           -- a statement that calls a function with this body
  | source (body rest : Prog)                                         -- SOURCE file; the file's statements: body
  deriving Repr, Inhabited

/-- run a program; results in order up to and including the first error; `true`: an error ended it -/
def runP (table : List Row) (ctx : Ctx) (st : Stack String) : Prog → Stack String × List ORes × Bool
  | .done => (st, [], false)
  | .openC n c us rest =>
    match openStmtS ctx st n c table us with
    | (st', .res .ok) =>
      let rr := runP table ctx st' rest
      (rr.1, .res .ok :: rr.2.1, rr.2.2)
    | (st', r) => (st', [r], true)
  | .act o rest =>
    match stepS st o with
    | (st', .err e) => (st', [.res (.err e)], true)
    | (st', r) =>
      let rr := runP table ctx st' rest
      (rr.1, .res r :: rr.2.1, rr.2.2)
  | .exec us body rest =>
    match runP table (ctxForPrepared ctx (newReplaceValues us)) st body with
    | (st', rs, true) => (st', rs, true)
    | (st', rs, false) =>
      let rr := runP table ctx st' rest
      (rr.1, rs ++ rr.2.1, rr.2.2)
  | .call body rest =>
    match runP table ctx ([] :: st) body with
    | (st', rs, true) => (st'.tail, rs, true)
    | (st', rs, false) =>
      let rr := runP table ctx st'.tail rest
      (rr.1, rs ++ rr.2.1, rr.2.2)
  | .source body rest =>
    match runP table ctx st body with
    | (st', rs, true) => (st', rs, true)
    | (st', rs, false) =>
      let rr := runP table ctx st' rest
      (rr.1, rs ++ rr.2.1, rr.2.2)

/-! ## what a statement reads: the specification side -/

/-- the WHERE clause with every placeholder replaced by the value the cursor's OWN frame gives (`none`: unbound) -/
def ownLookup (us : List RV) : Holder → Option Int := evalPlaceholder [newReplaceValues us]

/-- evaluating the clause for this id reads a placeholder the lookup cannot answer -/
def Cond.stuck (lk : Holder → Option Int) (id : Int) (c : Cond) : Bool := (evalCond lk id c).isNone

/-- the evaluation over the table reads a placeholder the lookup cannot answer -/
def stuckOn (lk : Holder → Option Int) (c : Cond) (table : List Row) : Bool := table.any (fun r => c.stuck lk r.1)

/-- with NO replace value at all: does the evaluation for this id reach a placeholder? (purely syntactic walk:
    a comparison with a placeholder is reached unless an AND to its left is already FALSE) -/
def Cond.reaches (id : Int) : Cond → Bool
  | .gtH _ => true
  | .ltH _ => true
  | .gtC _ => false
  | .and a b => a.reaches id || (decide (evalCond (fun _ => none) id a = some true) && b.reaches id)

def reachesPlaceholder (c : Cond) (table : List Row) : Bool := table.any (fun r => c.reaches r.1)

/-! ## the body of ContextForPreparedStatement as regenerated code (Gen/CursorPrepCtx.lean)

  extract/cursorfetch (mode prepctx) translates the statements of the function into this IR; `interpCtxFn` executes
  them on the model's context.  A guard that returns the context unchanged for an empty USING list (seeded change
  C16-m25) is a different function: `C16Stmt.gen_prepared_context_always_shadows` fails. -/

inductive CtxExpr
  | ctx                                             -- `ctx`
  | withValue (parent key value : String)           -- `context.WithValue(parent, key, value)`
  | other (src : String)
  deriving DecidableEq, Repr

inductive CtxCond
  | valuesEmpty                                     -- `len(values.Values) < 1`, `== 0`, `0 == len(…)`, `values == nil` …
  | valuesNonEmpty                                  -- `len(values.Values) > 0`, `0 < len(…)`, `!= 0`
  | other (src : String)
  deriving DecidableEq, Repr

inductive CtxStmt
  | ret (e : CtxExpr)
  | ifRet (c : CtxCond) (e : CtxExpr)               -- `if c { return e }`
  | other (src : String)
  deriving DecidableEq, Repr

def interpCtxExpr (ctx : Ctx) (f : Frame) : CtxExpr → Option Ctx
  | .ctx => some ctx
  | .withValue p k v =>
    if p = "ctx" ∧ k = "StatementReplaceValuesContextKey" ∧ v = "values" then some (f :: ctx) else none
  | .other _ => none

def interpCtxCond (f : Frame) : CtxCond → Option Bool
  | .valuesEmpty => some (decide (f.values.length < 1))
  | .valuesNonEmpty => some (decide (0 < f.values.length))
  | .other _ => none

/-- run the statements of `ContextForPreparedStatement(ctx, values)`; `none`: outside the reviewed subset, or the
    function falls off its end -/
def interpCtxFn : List CtxStmt → Ctx → Frame → Option Ctx
  | [], _, _ => none
  | .ret e :: _, ctx, f => interpCtxExpr ctx f e
  | .ifRet c e :: rest, ctx, f =>
    match interpCtxCond f c with
    | none => none
    | some true => interpCtxExpr ctx f e
    | some false => interpCtxFn rest ctx f
  | .other _ :: _, _, _ => none

/-- does the statement list contain a conditional return or anything unreviewed? (`false`: a plain `return`) -/
def ctxFnIsPlainWrap (l : List CtxStmt) : Bool :=
  match l with
  | [.ret (.withValue "ctx" "StatementReplaceValuesContextKey" "values")] => true
  | _ => false

end Csvq.CursorStmt
