/-
  Csvq.Model.CursorStmt — cursors declared FOR a prepared statement, inside the model (core Lean only).

  Shape of the Go code:
  * lib/query/prepared_statement.go  `ReplaceValues{Values, Names}`, `NewReplaceValues(replace)`: the values of a
                                     USING list in order, and the map name → index of the values spelled `v AS name`
                                     (a later entry of the same name overwrites the earlier one)
  * lib/query/processor.go           `ContextForPreparedStatement(ctx, values)` = `context.WithValue(ctx, key, values)`:
                                     ONE key, so the contexts of nested EXECUTE … USING form a STACK of frames and
                                     `ctx.Value(key)` is the innermost one.  Called at two sites: `EXECUTE p USING …`
                                     (the statements of p run in the new context) and `Cursor.Open` for a cursor FOR a
                                     prepared statement (the cursor's SELECT is evaluated in the new context).  Both
                                     wrap UNCONDITIONALLY — an empty USING list is an EMPTY frame, not "no frame".
  * lib/query/eval.go                `evalPlaceholder`: no frame → "replace value is not specified"; `:name` → the index
                                     the frame's map gives, missing → error; `?` → index Ordinal − 1, beyond the values
                                     → error; ONLY the innermost frame is consulted.
  * lib/query/cursor.go              `Cursor.Open`: pseudo / already-open guards, then the evaluation; only a successful
                                     evaluation assigns view / index / fetched.

  The cursor's statement is `SELECT id, v FROM t WHERE cond` with `cond` built from `id > ?`, `id < ?`, `id > :name`,
  `id < :name`, `id > n` and AND (csvq evaluates the right operand of AND only when the left one is not FALSE; integers
  only, so no UNKNOWN arises).  The WHERE clause is evaluated once per row of the table, in table order: a placeholder
  is READ only when a row reaches it — over an empty table nothing is read and the OPEN succeeds whatever the frame.

  USING values are EXPRESSIONS (literal, placeholder, placeholder + constant): csvq keeps them in the frame and evaluates
  them at every read, since /repo 6dd3cc3 (finding F118) in the context the list was WRITTEN in (`values.Outer`), so a
  placeholder in a USING list is one of the surrounding statement.
-/
import Csvq.Model.Cursor
namespace Csvq.CursorStmt
open Csvq Csvq.Cursor

/-- parser.Placeholder: `?` (Ordinal ≥ 1: its position among ALL placeholders, named ones included, of the text of
    one prepared statement — lib/parser/scanner.go) or `:name` -/
inductive Holder
  | pos (ordinal : Nat)
  | named (name : String)
  deriving DecidableEq, Repr, Inhabited

/-- a value expression of a USING list: a literal, a placeholder — one of the statement the list is WRITTEN in —, or
    such an expression plus a constant (`? + k`) -/
inductive VExpr
  | lit (n : Int)
  | ph (h : Holder)
  | plus (e : VExpr) (k : Int)
  deriving DecidableEq, Repr, Inhabited

instance {n : Nat} : OfNat VExpr n := ⟨.lit n⟩

def VExpr.size : VExpr → Nat
  | .lit _ => 1
  | .ph _ => 1
  | .plus e _ => e.size + 1

/-- no placeholder in it -/
def VExpr.closed : VExpr → Bool
  | .lit _ => true
  | .ph _ => false
  | .plus e _ => e.closed

/-- parser.ReplaceValue: one item of a USING list — the value expression and the name behind AS ("" : none) -/
structure RV where
  value : VExpr
  name : String
  deriving DecidableEq, Repr, Inhabited

/-- prepared_statement.go `ReplaceValues{Values, Names}` (the value EXPRESSIONS, as csvq keeps them); the Go map as
    an association list whose FIRST match is the entry the map holds (the last one written).  The third field,
    `Outer`, is the `below` of `Ctx.push`. -/
structure Frame where
  values : List VExpr
  names : List (String × Nat)
  deriving DecidableEq, Repr, Inhabited

/-- the loop of `NewReplaceValues`: `if 0 < len(name) { names[name] = i }; values = append(values, value)` -/
def newFrameFrom (i : Nat) (vals : List VExpr) (names : List (String × Nat)) : List RV → Frame
  | [] => ⟨vals.reverse, names⟩
  | r :: rest =>
    newFrameFrom (i + 1) (r.value :: vals) (if r.name.length > 0 then (r.name, i) :: names else names) rest

def newReplaceValues (l : List RV) : Frame := newFrameFrom 0 [] [] l

/-- the replace-value context (`context.WithValue` chain under the one key): the innermost frame, whether the frame
    RECORDS the context it was written in (`values.Outer = ctx`, /repo 6dd3cc3), and the context it was pushed on —
    which is that recorded context: ContextForPreparedStatement assigns and wraps the same `ctx`. -/
inductive Ctx
  | empty
  | push (f : Frame) (recorded : Bool) (below : Ctx)
  deriving DecidableEq, Repr, Inhabited

/-- processor.go `ContextForPreparedStatement`: `values.Outer = ctx; return context.WithValue(ctx, key, values)` -/
def ctxForPrepared (ctx : Ctx) (f : Frame) : Ctx := .push f true ctx

/-- number of frames -/
def Ctx.depth : Ctx → Nat
  | .empty => 0
  | .push _ _ below => below.depth + 1

/-- every frame records where it was written -/
def Ctx.allRecorded : Ctx → Bool
  | .empty => true
  | .push _ r below => r && below.allRecorded

def assoc (l : List (String × Nat)) (k : String) : Option Nat :=
  match l with
  | [] => none
  | (k', v) :: t => if k' = k then some v else assoc t k

/-- the index part of eval.go `evalPlaceholder`: `:name` → the index the frame's map gives; `?` → Ordinal − 1 (the
    parser numbers from 1; ordinal 0 would be index −1: the parser never builds it); `none`: not specified -/
def frameIndex (f : Frame) (h : Holder) : Option VExpr :=
  match h with
  | .named n =>
    match assoc f.names n with
    | none => none
    | some i => f.values[i]?
  | .pos ord =>
    match ord with
    | 0 => none
    | i + 1 => f.values[i]?

/-- `Evaluate(c, scope, e)` for a value expression, `lk` being what reading a placeholder in c gives -/
def evalWith (lk : Holder → Option Int) : VExpr → Option Int
  | .lit n => some n
  | .ph h => lk h
  | .plus e k => (evalWith lk e).map (· + k)

/-- eval.go `evalPlaceholder` as it is since /repo 6dd3cc3 (`none`: StatementReplaceValueNotSpecifiedError, 13803):
    the innermost frame gives the value EXPRESSION, which is evaluated in the context the frame was written in —
    strictly shorter than the reader's, so this is a structural recursion over the context.  The reader's own frame is
    never consulted for the expression. -/
def evalPlaceholder : Ctx → Holder → Option Int
  | .empty, _ => none
  | .push f _ below, h =>
    match frameIndex f h with
    | none => none
    | some e => evalWith (evalPlaceholder below) e

/-! ### the same with the shape of the Go code, fuel instead of the Go stack

  `evalV fuel c e` is `Evaluate(c, scope, e)` with at most `fuel` nested calls.  A frame that does NOT record its
  context (`Outer == nil`: the code before 6dd3cc3) has its expressions evaluated in the READER's context `c` itself:
  `USING ?` then reads itself.  `C16Stmt.placeholder_eval_terminates`: over recorded frames `size e + weight c` calls
  always suffice and the answer is `evalWith (evalPlaceholder c) e`; `C16Stmt.old_lazy_evaluation_loops`: for the
  unrecorded frame of `USING ?` no fuel suffices. -/

inductive PV
  | val (n : Int)
  | notSpecified
  | diverged               -- the fuel is used up (Go: the stack grows until the runtime gives up)
  deriving DecidableEq, Repr, Inhabited

def PV.ofOption : Option Int → PV
  | some n => .val n
  | none => .notSpecified

def evalV : Nat → Ctx → VExpr → PV
  | 0, _, _ => .diverged
  | _ + 1, _, .lit n => .val n
  | fuel + 1, c, .plus e k =>
    match evalV fuel c e with
    | .val n => .val (n + k)
    | r => r
  | fuel + 1, c, .ph h =>
    match c with
    | .empty => .notSpecified
    | .push f recorded below =>
      match frameIndex f h with
      | none => .notSpecified
      | some e => evalV fuel (if recorded then below else c) e

def maxSize : List VExpr → Nat
  | [] => 0
  | e :: rest => max e.size (maxSize rest)

/-- the measure: the largest expression of every frame, summed along the chain of recorded contexts -/
def Ctx.weight : Ctx → Nat
  | .empty => 0
  | .push f _ below => maxSize f.values + below.weight

/-- the WHERE clause of the cursor's statement -/
inductive Cond
  | gtH (h : Holder)       -- id > ?   /  id > :name
  | ltH (h : Holder)       -- id < ?   /  id < :name
  | gtC (n : Int)          -- id > n
  | and (a b : Cond)       -- a AND b
  deriving DecidableEq, Repr, Inhabited

/-- one evaluation of the WHERE clause for a row with this id; `lk`: what reading a placeholder gives -/
def evalCond (lk : Holder → Option Int) (id : Int) : Cond → Option Bool
  | .gtH h => (lk h).map (fun v => decide (v < id))
  | .ltH h => (lk h).map (fun v => decide (id < v))
  | .gtC n => some (decide (n < id))
  | .and a b =>
    match evalCond lk id a with
    | none => none
    | some false => some false
    | some true => evalCond lk id b

/-- a row of the table: its id and the token of the row handed out by the cursor -/
abbrev Row := Int × String

/-- `SELECT … FROM t WHERE cond`: the rows in table order; the first failing read ends the evaluation -/
def selectRows (lk : Holder → Option Int) (c : Cond) : List Row → Option (List String)
  | [] => some []
  | (id, tok) :: rest =>
    match evalCond lk id c with
    | none => none
    | some keep =>
      match selectRows lk c rest with
      | none => none
      | some out => some (if keep then tok :: out else out)

def closedList (us : List RV) : Bool := us.all (·.value.closed)

/-- result of a statement of this file: a result of Model/Cursor, or the evaluation error of the cursor's statement -/
inductive ORes
  | res (r : Res String)
  | notSpecified           -- ErrorStatementReplaceValueNotSpecified 13803
  deriving Repr

def ORes.isErr : ORes → Bool
  | .res (.err _) => true
  | .notSpecified => true
  | _ => false

/-- `OPEN n [USING using]` of a cursor declared FOR the statement with WHERE clause `c`, executed in context `ctx`
    (whatever EXECUTE … USING frames surround the OPEN), `table`: the rows of t now.
    Cursor.Open: the guards, then `Select(ContextForPreparedStatement(ctx, NewReplaceValues(values)), …)`, and only
    after a successful evaluation the assignment. -/
def openStmt (ctx : Ctx) (s : Scope String) (n : String) (c : Cond) (table : List Row) (us : List RV) :
    Scope String × ORes :=
  match lookup s (key n) with
  | none => (s, .res (.err .undeclared))
  | some (.opened _ _ _) => (s, .res (.err .alreadyOpen))
  | some .closed =>
    match selectRows (evalPlaceholder (ctxForPrepared ctx (newReplaceValues us))) c table with
    | none => (s, .notSpecified)
    | some rows => (update s (key n) (.opened rows (-1) false), .res .ok)

/-- the same on a block stack: the first block that knows the name (reference_scope.go OpenCursor) -/
def openStmtS (ctx : Ctx) (st : Stack String) (n : String) (c : Cond) (table : List Row) (us : List RV) :
    Stack String × ORes :=
  match st with
  | [] => ([], .res (.err .undeclared))
  | b :: rest =>
    match lookup b (key n) with
    | some _ => let r := openStmt ctx b n c table us; (r.1 :: rest, r.2)
    | none => let r := openStmtS ctx rest n c table us; (b :: r.1, r.2)

/-! ## programs: OPEN nested in EXECUTE … USING, in functions, in SOURCE — to any depth

  processor.go: `EXECUTE p USING …` runs the statements of p in `ContextForPreparedStatement(ctx, NewReplaceValues(…))`
  with the SAME reference scope (no child block); a user-defined function called from a statement runs its body in a
  child block with the caller's context; `SOURCE file` runs the file's statements with the same scope and context.
  An error ends the whole program (as in `Cursor.runOps`). -/

inductive Prog
  | done
  | openC (n : String) (c : Cond) (us : List RV) (rest : Prog)   -- OPEN n [USING …] of a cursor FOR a statement
  | act (o : Op String) (rest : Prog)                                 -- any other cursor statement
  | exec (us : List RV) (body rest : Prog)                         -- EXECUTE p [USING …]; p's statements: body
  | call (body rest : Prog)                                           -- a statement that calls a function with this body
  | source (body rest : Prog)                                         -- SOURCE file; the file's statements: body
  deriving Repr, Inhabited

/-- no placeholder in any USING list of the program -/
def Prog.closed : Prog → Bool
  | .done => true
  | .openC _ _ us rest => closedList us && rest.closed
  | .act _ rest => rest.closed
  | .exec us body rest => closedList us && body.closed && rest.closed
  | .call body rest => body.closed && rest.closed
  | .source body rest => body.closed && rest.closed

/-- run a program; results in order up to and including the first error; `true`: an error ended it -/
def runP (table : List Row) (ctx : Ctx) (st : Stack String) : Prog → Stack String × List ORes × Bool
  | .done => (st, [], false)
  | .openC n c us rest =>
    match openStmtS ctx st n c table us with
    | (st', .res .ok) =>
      let rr := runP table ctx st' rest
      (rr.1, .res .ok :: rr.2.1, rr.2.2)
    | (st', r) => (st', [r], true)
  | .act o rest =>
    match stepS st o with
    | (st', .err e) => (st', [.res (.err e)], true)
    | (st', r) =>
      let rr := runP table ctx st' rest
      (rr.1, .res r :: rr.2.1, rr.2.2)
  | .exec us body rest =>
    match runP table (ctxForPrepared ctx (newReplaceValues us)) st body with
    | (st', rs, true) => (st', rs, true)
    | (st', rs, false) =>
      let rr := runP table ctx st' rest
      (rr.1, rs ++ rr.2.1, rr.2.2)
  | .call body rest =>
    match runP table ctx ([] :: st) body with
    | (st', rs, true) => (st'.tail, rs, true)
    | (st', rs, false) =>
      let rr := runP table ctx st'.tail rest
      (rr.1, rs ++ rr.2.1, rr.2.2)
  | .source body rest =>
    match runP table ctx st body with
    | (st', rs, true) => (st', rs, true)
    | (st', rs, false) =>
      let rr := runP table ctx st' rest
      (rr.1, rs ++ rr.2.1, rr.2.2)

/-! ## what a statement reads: the specification side -/

/-- what the cursor's statement reads: the expression the OPEN's OWN list gives, evaluated with `outer` — what reading a
    placeholder gives in the context of the statement that CONTAINS the OPEN (`none`: unbound) -/
def ownLookup (outer : Holder → Option Int) (us : List RV) : Holder → Option Int :=
  fun h => (frameIndex (newReplaceValues us) h).bind (evalWith outer)


/-- evaluating the clause for this id reads a placeholder the lookup cannot answer -/
def Cond.stuck (lk : Holder → Option Int) (id : Int) (c : Cond) : Bool := (evalCond lk id c).isNone

/-- the evaluation over the table reads a placeholder the lookup cannot answer -/
def stuckOn (lk : Holder → Option Int) (c : Cond) (table : List Row) : Bool := table.any (fun r => c.stuck lk r.1)

/-- with NO replace value at all: does the evaluation for this id reach a placeholder? (purely syntactic walk:
    a comparison with a placeholder is reached unless an AND to its left is already FALSE) -/
def Cond.reaches (id : Int) : Cond → Bool
  | .gtH _ => true
  | .ltH _ => true
  | .gtC _ => false
  | .and a b => a.reaches id || (decide (evalCond (fun _ => none) id a = some true) && b.reaches id)

def reachesPlaceholder (c : Cond) (table : List Row) : Bool := table.any (fun r => c.reaches r.1)

/-! ## the body of ContextForPreparedStatement as regenerated code (Gen/CursorPrepCtx.lean)

  extract/cursorfetch (mode prepctx) translates the statements of the function into this IR; `interpCtxFn` executes
  them on the model's context.  A guard that returns the context unchanged for an empty USING list (seeded change
  C16-m25) is a different function: `C16Stmt.gen_prepared_context_always_shadows` fails. -/

inductive CtxExpr
  | ctx                                             -- `ctx`
  | withValue (parent key value : String)           -- `context.WithValue(parent, key, value)`
  | other (src : String)
  deriving DecidableEq, Repr

inductive CtxCond
  | valuesEmpty                                     -- `len(values.Values) < 1`, `== 0`, `0 == len(…)`, `values == nil` …
  | valuesNonEmpty                                  -- `len(values.Values) > 0`, `0 < len(…)`, `!= 0`
  | other (src : String)
  deriving DecidableEq, Repr

inductive CtxStmt
  | ret (e : CtxExpr)
  | ifRet (c : CtxCond) (e : CtxExpr)               -- `if c { return e }`
  | setOuter (rhs : String)                         -- `values.Outer = rhs`
  | other (src : String)
  deriving DecidableEq, Repr

def interpCtxExpr (ctx : Ctx) (f : Frame) (recorded : Bool) : CtxExpr → Option Ctx
  | .ctx => some ctx
  | .withValue p k v =>
    if p = "ctx" ∧ k = "StatementReplaceValuesContextKey" ∧ v = "values" then some (.push f recorded ctx) else none
  | .other _ => none

def interpCtxCond (f : Frame) : CtxCond → Option Bool
  | .valuesEmpty => some (decide (f.values.length < 1))
  | .valuesNonEmpty => some (decide (0 < f.values.length))
  | .other _ => none

/-- run the statements of `ContextForPreparedStatement(ctx, values)`; `recorded`: `values.Outer = ctx` was executed;
    `none`: outside the reviewed subset, or the function falls off its end -/
def interpCtxFnFrom (recorded : Bool) : List CtxStmt → Ctx → Frame → Option Ctx
  | [], _, _ => none
  | .ret e :: _, ctx, f => interpCtxExpr ctx f recorded e
  | .ifRet c e :: rest, ctx, f =>
    match interpCtxCond f c with
    | none => none
    | some true => interpCtxExpr ctx f recorded e
    | some false => interpCtxFnFrom recorded rest ctx f
  | .setOuter rhs :: rest, ctx, f => if rhs = "ctx" then interpCtxFnFrom true rest ctx f else none
  | .other _ :: _, _, _ => none

def interpCtxFn (l : List CtxStmt) (ctx : Ctx) (f : Frame) : Option Ctx := interpCtxFnFrom false l ctx f

/-- is the statement list the unconditional record-and-wrap? -/
def ctxFnIsPlainWrap (l : List CtxStmt) : Bool :=
  match l with
  | [.setOuter "ctx", .ret (.withValue "ctx" "StatementReplaceValuesContextKey" "values")] => true
  | _ => false

end Csvq.CursorStmt
