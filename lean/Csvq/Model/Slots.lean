/-
  Goroutine-slot bookkeeping of lib/query/goroutine_manager.go as a state machine over the definitions
  regenerated from the source (`Csvq.Gen.assignRoutineNumber`, `release`, `taskDone`,
  `taskManagerFields`, `managerInit`).  Core Lean only.

  The shared `GoroutineManager.Count` is the number of goroutine slots currently borrowed by all live
  task managers; a task manager created while others are running gets fewer workers.  The worker number
  of a query therefore depends on what else is running — on the schedule — which is why C12's theorems
  quantify over every worker number.  What the bookkeeping itself must guarantee is proved in Props.C12:
  the number is at least 1 and at most the --cpu value, the count is exactly the sum of the live
  managers' outstanding slots (never negative, nothing leaks).
-/
import Csvq.Gen.RoutineNumber
namespace Csvq.Slots
open Csvq.Gen

/-- the shared count and, per task manager created so far, its `grCount` (slots still to give back) -/
structure St where
  count : Int
  mgrs  : List Int
deriving Repr, DecidableEq

def init : St := { count := managerInit.1, mgrs := [] }

inductive Op
  | new (recordLen minReq cpu : Int)   -- NewGoroutineTaskManager(recordLen, minReq, cpu)
  | done (k : Nat)                     -- one worker of manager `k` calls Done
deriving Repr, DecidableEq

/-- the worker number a `new` would get in state `s` -/
def numberIn (s : St) (recordLen minReq cpu : Int) : Int :=
  (assignRoutineNumber recordLen minReq cpu s.count managerInit.2).1

def step (s : St) : Op → St
  | .new recordLen minReq cpu =>
    let r := assignRoutineNumber recordLen minReq cpu s.count managerInit.2
    { count := r.2, mgrs := s.mgrs ++ [(taskManagerFields r.1 recordLen).2.1] }
  | .done k =>
    match s.mgrs[k]? with
    | none => s
    | some g =>
      let r := taskDone g s.count
      { count := r.2, mgrs := s.mgrs.set k r.1 }

def run (s : St) (ops : List Op) : St := ops.foldl step s

def sum : List Int → Int
  | [] => 0
  | x :: xs => x + sum xs

/-- every `new` of the history is given a --cpu value of at least 1 (what `Flags.SetCPU` guarantees) -/
def CpuOk : List Op → Prop
  | [] => True
  | .new _ _ cpu :: ops => 1 ≤ cpu ∧ CpuOk ops
  | .done _ :: ops => CpuOk ops

def Inv (s : St) : Prop := s.count = sum s.mgrs ∧ ∀ g ∈ s.mgrs, 0 ≤ g

end Csvq.Slots
