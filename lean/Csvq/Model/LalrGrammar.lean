/-
  Csvq.Model.LalrGrammar — the typing of the semantic values regenerated from parser.y and the type-checked
  lib/parser (Csvq/Gen/LalrActions.lean) in the form Csvq/Model/LalrTypes.lean reads.  Core Lean only.
-/
import Csvq.Model.LalrTypes
import Csvq.Gen.LalrActions
namespace Csvq.Lalr
open Csvq.Gen.Lalr

/-- the regenerated typing of the semantic values -/
def genG : Grammar where
  prods := mkProds 0 prodLhs prodRhs prodSources prodAsserts
  types := typesOfSymbol
  tokTag := tokenTag

end Csvq.Lalr
