/-
  Csvq.Model.Skeleton — decidable checks over the structured effect lists that extract/dmlfacts regenerates from
  lib/query/query.go and processor.go on every run (Csvq/Gen/DmlFacts.lean).  Tokens: `if(cond){ … }`, `else{ … }`,
  `loop(x){ … }`, `switch{ case{ … } }`, `return`, `defer:x`, and effect names; a block ends with its matching `}`.
  Core Lean only; everything here is evaluated by `decide` in Props/C05 and Props/C08.
-/
namespace Csvq.Skeleton

def hasPrefix (p t : String) : Bool := p.toList.isPrefixOf t.toList
def isOpen (t : String) : Bool := t.toList.getLast? == some '{'
def isPublish (t : String) : Bool := hasPrefix "publish_" t
def isMark (t : String) : Bool := hasPrefix "mark_" t
def isLoop (t : String) : Bool := hasPrefix "loop" t && isOpen t

/-- `RestoreHeaderReferences` = `Header.Update(name, nil)` cannot fail (theorem `gen_restore_header_infallible`
    over the regenerated Header.Update): its error branch is dropped before the order checks -/
def stripRestore : List String → List String
  | a :: "if(err){" :: "return" :: "}" :: rest =>
    if hasPrefix "restore_header(" a then a :: stripRestore rest else a :: stripRestore ("if(err){" :: "return" :: "}" :: rest)
  | a :: rest => a :: stripRestore rest
  | [] => []

def firstIdx (p : String → Bool) : List String → Nat → Option Nat
  | [], _ => none
  | t :: ts, i => if p t then some i else firstIdx p ts (i + 1)

/-- index of the innermost `loop…{` that is still open at position `i` -/
def enclosingLoop (l : List String) (i : Nat) : Option Nat :=
  let rec go : List String → Nat → List (Nat × Bool) → Option Nat
    | [], _, _ => none
    | t :: ts, k, stack =>
      if k = i then (stack.find? (·.2)).map (·.1)
      else if t = "}" then go ts (k + 1) stack.tail
      else if isOpen t then go ts (k + 1) ((k, isLoop t) :: stack)
      else go ts (k + 1) stack
  go l 0 []

/-- "publish after success": the function does publish, and from the first publish on — and, when that publish sits in
    a loop, from the start of that loop on — nothing can return except the final `return`: no fallible step can follow
    the replacement of a cached / temporary table, not even in a later iteration -/
def publishAfterSuccess (l : List String) : Bool :=
  let l' := stripRestore l
  match firstIdx isPublish l' 0 with
  | none => false
  | some i =>
    let start := (enclosingLoop l' i).getD i
    l'.getLast? == some "return" && !((l'.drop start).dropLast.contains "return")

/-- every `return` after `acquire` (its own failure branch excepted), other than the final one, is directly preceded
    by `release` -/
def releasedOnEveryError (acquire release : String) (l : List String) : Bool :=
  match firstIdx (· == acquire) l 0 with
  | none => false
  | some i =>
    -- skip the acquire's own `if(err){ return }`
    let rest := match l.drop (i + 1) with
      | "if(err){" :: "return" :: "}" :: r => r
      | r => r
    let rec go : List String → Bool
      | [] => true
      | [_] => true
      | a :: b :: r => (if b == "return" && !r.isEmpty then a == release else true) && go (b :: r)
    go rest

/-- every mark token is directly guarded by `guard` -/
def marksGuardedBy (guard : String) : List String → Bool
  | a :: b :: r => (if isMark b then a == guard else true) && marksGuardedBy guard (b :: r)
  | [a] => !isMark a
  | [] => true

/-- the arguments of all publish tokens -/
def publishArgs (l : List String) : List String :=
  (l.filter isPublish).map fun t => String.ofList ((t.toList.dropWhile (· != '(')).drop 1).dropLast

/-- the tokens that write into a view -/
def writes (l : List String) : List String :=
  l.filter fun t => hasPrefix "write_" t || hasPrefix "set_records(" t || hasPrefix "set_header(" t

end Csvq.Skeleton
