/-
  Csvq.Model.JsonPath — column names as paths into nested JSON objects (core Lean only).

  Writer side, lib/json: `PathScanner.Scan` + path_parser.y (`a.b.c` → segments; `\.` and `\\` are escapes
  inside a segment — but not when the backslash is the FIRST character of a segment: `Scan` takes the first
  character unconditionally), `ConvertRecordValueToJsonStructure` / `addPathValueToRowStructure`
  (segments → nested objects, one record at a time):
    * a leaf is appended to its object without looking whether the key is there already;
    * an inner segment is looked up (first member of that name), created if missing, and must be an object
      ("… cannot be a member of a value that is not an object" otherwise);
    * an empty segment (`a..b`, `.a`, `a.`) is a syntax error; the empty name is the path with the one
      segment "".
  Reader side: `ConvertToTableValue` does NOT flatten — the columns of a loaded table are the top-level keys,
  a nested object is a cell holding its compact JSON text (Csvq.Model.Json.tableOf).  What the nested
  record still carries is described by `flatten` (all paths to values that are not objects, in member
  order) and `getPath`.
-/
import Csvq.Model.Json
namespace Csvq.Json

/-! ## column name → segments -/

/-- `unescapeObjectMember` -/
def unescSeg : List Char → List Char
  | [] => []
  | c :: rest =>
    if c = '\\' then
      match rest with
      | [] => ['\\']
      | d :: r => if d = '.' ∨ d = '\\' then d :: unescSeg r else '\\' :: d :: unescSeg r
    else c :: unescSeg rest

/-- the loop of `scanObjectMember`: the raw rest of the segment, and what follows it -/
def scanSegTail : List Char → List Char × List Char
  | [] => ([], [])
  | c :: rest =>
    if c = '.' then ([], c :: rest)
    else if c = '\\' then
      match rest with
      | [] => ([c], [])
      | d :: r => let p := scanSegTail r; (c :: d :: p.1, p.2)
    else let p := scanSegTail rest; (c :: p.1, p.2)

/-- `object_member : OBJECT_PATH | OBJECT_PATH '.' object_member` -/
def parseMember : Nat → List Char → Option (List (List Char))
  | 0, _ => none
  | _, [] => none
  | n + 1, c :: rest =>
    if c = '.' then none
    else
      let p := scanSegTail rest
      let seg := unescSeg (c :: p.1)
      match p.2 with
      | [] => some [seg]
      | _ :: after =>
        match parseMember n after with
        | some segs => some (seg :: segs)
        | none => none

/-- `Path.Parse`: `none` = syntax error -/
def parsePath (s : List Char) : Option (List (List Char)) :=
  match s with
  | [] => some [[]]
  | _ => parseMember (s.length + 1) s

/-! ## segments → nested objects -/

def updateFirst (k : List Char) (v : JS) : List (List Char × JS) → List (List Char × JS)
  | [] => []
  | (k', v') :: ms => if k' = k then (k', v) :: ms else (k', v') :: updateFirst k v ms

/-- the parent as an object: nothing yet = the empty object, anything else than an object = error -/
def parentMembers : Option JS → Option (List (List Char × JS))
  | none => some []
  | some (.obj ms) => some ms
  | some _ => none

/-- `addPathValueToRowStructure` -/
def addPath (v : JS) : List (List Char) → Option JS → Option JS
  | [], _ => none
  | [k], parent =>
    match parentMembers parent with
    | none => none
    | some ms =>
      match lookupKey k ms with
      | some (.obj _) => none      -- the name already is an object with members (an earlier, longer path): refused
      | _ => some (.obj (ms ++ [(k, v)]))
  | k :: rest, parent =>
    match parentMembers parent with
    | none => none
    | some ms =>
      match addPath v rest (lookupKey k ms) with
      | none => none
      | some sub =>
        some (.obj (if (lookupKey k ms).isSome then updateFirst k sub ms else ms ++ [(k, sub)]))

/-- `ConvertRecordValueToJsonStructure` (at least one column) -/
def buildRow : List (List (List Char)) → List JS → List (List Char × JS) → Option (List (List Char × JS))
  | [], [], ms => some ms
  | p :: ps, v :: vs, ms =>
    match addPath v p (some (.obj ms)) with
    | some (.obj ms') => buildRow ps vs ms'
    | _ => none
  | _, _, _ => none

def rowObjP (paths : List (List (List Char))) (row : List JVal) : Option JS :=
  (buildRow paths (row.map toStructure) []).map JS.obj

def mapMOpt {α β : Type} (f : α → Option β) : List α → Option (List β)
  | [] => some []
  | x :: xs =>
    match f x, mapMOpt f xs with
    | some y, some ys => some (y :: ys)
    | _, _ => none

/-- `encodeJson` with column names as paths; `none` = refused -/
def encodeJsonP (t : Esc) (canon : List Char → Option (List Char)) (pretty : Option Csv.LB) (tb : Table) :
    Option (List Char) :=
  match mapMOpt parsePath tb.header with
  | none => none
  | some ps =>
    match mapMOpt (rowObjP ps) tb.rows with
    | none => none
    | some objs =>
      match pretty with
      | none => some (encode t canon (.arr objs))
      | some lb => some (encodePretty t canon lb (.arr objs))

/-- `encodeJsonLines` with column names as paths -/
def encodeJsonlP (t : Esc) (canon : List Char → Option (List Char)) (lb : Csv.LB) (tb : Table) :
    Option (List Char) :=
  match mapMOpt parsePath tb.header with
  | none => none
  | some ps =>
    match mapMOpt (rowObjP ps) tb.rows with
    | none => none
    | some objs => some ((objs.map fun j => encode t canon j ++ lb.chars).flatten)

/-! ## what a nested record carries -/

/-- follow a path through objects (first member of each name) -/
def getPath : List (List Char) → List (List Char × JS) → Option JS
  | [], _ => none
  | [k], ms => lookupKey k ms
  | k :: rest, ms =>
    match lookupKey k ms with
    | some (.obj sub) => getPath rest sub
    | _ => none

mutual
/-- all paths to values that are not objects, in member order -/
def flattenMembers : List (List Char × JS) → List (List (List Char) × JS)
  | [] => []
  | (k, v) :: ms => (flattenVal v).map (fun p => (k :: p.1, p.2)) ++ flattenMembers ms

/-- below one member: an object contributes its own paths, anything else is a leaf -/
def flattenVal : JS → List (List (List Char) × JS)
  | .obj ms => flattenMembers ms
  | v => [([], v)]
end

/-! ## which lists of column names the writers must spell, which they must refuse

  "Refuse or spell": a list of column names can be carried by nested JSON objects exactly when every name is a
  path (no empty segment) and no path is a prefix of another one (in particular no two are equal) — then every
  value has its own place in the record (`json_paths_roundtrip`).  Every other list — a name that is a prefix
  path of another, IN EITHER ORDER, duplicates, empty segments — has no lossless spelling and must be refused.
  The driver op `c02.jspell` answers with this decision; the implementation's answer is what the real encoder did. -/

def unrelatedB (p q : List (List Char)) : Bool := !(p.isPrefixOf q) && !(q.isPrefixOf p)

def pairwiseUnrelatedB : List (List (List Char)) → Bool
  | [] => true
  | p :: ps => ps.all (unrelatedB p) && pairwiseUnrelatedB ps

/-- `true` = the writers must spell the list, `false` = they must refuse it -/
def pathsSpellable (names : List (List Char)) : Bool :=
  match mapMOpt parsePath names with
  | none => false
  | some ps => pairwiseUnrelatedB ps

end Csvq.Json
