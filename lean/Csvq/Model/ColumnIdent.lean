/-
  Csvq.Model.ColumnIdent — the IDENTITY OF RESULT COLUMNS: lib/query/header.go `equalFieldIdentifiers`, the text
  comparison behind Header.ContainsObject.  View.evalAnalyticFunction asks `view.Header.ContainsObject(expr)` before it
  evaluates an analytic function: if a field whose identifier "equals" FormatFieldIdentifier(expr) (the printed
  expression, `e.String()`) exists, the function is NOT evaluated again and the select clause reads that field.
  So two analytic functions of one query share a result column exactly when this comparison says so.

  The comparison, in the shape of the code:
      a == b → true;  !strings.EqualFold(a, b) → false;  rune counts differ → true (not reachable: EqualFold is
      rune-wise);  then a scanner over the runes of `a` with the state (quote, escaped):
          switch {
          case quote == 0:                          an opening ' or ` sets quote
          case quote == '\'' && ra[i] != rb[i]:     return false            -- inside a string literal: exact
          case escaped:                             escaped = false
          case ra[i] == '\\':                       escaped = true
          case ra[i] == quote:                      quote = 0
          }
  The texts it is applied to are printed expressions: pieces outside quotes (keywords, names, operators, numbers,
  blanks), string literals printed by option.QuoteString (`'` + EscapeString + `'`: a quote as \' , a backslash as \\,
  control characters as \a … \v — never a doubled quote) and quoted identifiers printed by option.QuoteIdentifier
  (backquotes, the backquote as \`).  The escapers are C18's model (Model/Escape.lean).

  Runes are `Char` (what `[]rune` of a Go string holds); simple case folding is a parameter `feq` of the theorems
  (the driver uses Model/Unicode.lean `runeFoldEq`).  Core Lean only.
-/
import Csvq.Model.Escape
namespace Csvq.ColIdent
open Csvq.Esc

/-- the scanner's state: `quote` (none = 0) and `escaped` -/
structure St where
  quote : Option Char
  escaped : Bool
  deriving DecidableEq, Repr

def St.init : St := ⟨none, false⟩

/-- one round of the loop: the FIRST case of the switch that applies; `none` = `return false` -/
def step (st : St) (x y : Char) : Option St :=
  match st.quote with
  | none => if x = '\'' ∨ x = '`' then some ⟨some x, st.escaped⟩ else some st
  | some q =>
    if q = '\'' ∧ x ≠ y then none
    else if st.escaped then some ⟨some q, false⟩
    else if x = '\\' then some ⟨some q, true⟩
    else if x = q then some ⟨none, st.escaped⟩
    else some st

/-- `for i := range ra { … }` (the rune counts are equal when the loop is reached) -/
def scan : St → List Char → List Char → Bool
  | _, [], _ => true
  | _, _ :: _, [] => true
  | st, x :: a, y :: b =>
    match step st x y with
    | none => false
    | some st' => scan st' a b

/-- strings.EqualFold, rune by rune -/
def foldEq (feq : Char → Char → Bool) : List Char → List Char → Bool
  | [], [] => true
  | x :: a, y :: b => feq x y && foldEq feq a b
  | _, _ => false

/-- header.go equalFieldIdentifiers -/
def equalFieldIdentifiers (feq : Char → Char → Bool) (a b : List Char) : Bool :=
  if a = b then true
  else if !foldEq feq a b then false
  else if a.length ≠ b.length then true
  else scan St.init a b

/-- the order of the cases of the scanner's switch (reviewed copy; Props/C17Ident.lean proves the generated one equal) -/
def scannerCases : List String :=
  ["quote == 0", "quote == '\\'' && ra[i] != rb[i]", "escaped", "ra[i] == '\\\\'", "ra[i] == quote"]

/-! ## the grammar of printed expressions and the specification -/

/-- a piece of a printed expression -/
inductive Seg
  | plain (s : List Char)   -- outside quotes: no ' and no ` in it
  | str (s : List Char)     -- a string (or datetime) literal with the content `s`, printed by QuoteString
  | ident (s : List Char)   -- a quoted identifier with the name `s`, printed by QuoteIdentifier
  deriving DecidableEq, Repr

def Seg.render : Seg → List Char
  | .plain s => s
  | .str s => quoteString s
  | .ident s => quoteIdentifier s

/-- per printed rune: must it be EXACTLY equal (inside a string literal: its content and its closing quote)? -/
def Seg.mark : Seg → List Bool
  | .plain s => s.map fun _ => false
  | .str s => false :: ((escapeString s).map fun _ => true) ++ [true]
  | .ident s => (quoteIdentifier s).map fun _ => false

def Seg.OK : Seg → Prop
  | .plain s => ∀ c ∈ s, c ≠ '\'' ∧ c ≠ '`'
  | _ => True

def render (l : List Seg) : List Char := l.flatMap Seg.render
def marks (l : List Seg) : List Bool := l.flatMap Seg.mark

/-- "equal up to letter case outside string literals": rune by rune, exactly equal where the mark says so,
    equal under case folding elsewhere; same number of runes -/
def sameUpTo (feq : Char → Char → Bool) : List Char → List Bool → List Char → Bool
  | [], [], [] => true
  | x :: a, e :: m, y :: b => (if e then decide (x = y) else feq x y) && sameUpTo feq a m b
  | _, _, _ => false

/-- the specification: the printed expression `render A` and the text `b` denote the same result column -/
def sameColumn (feq : Char → Char → Bool) (A : List Seg) (b : List Char) : Bool :=
  sameUpTo feq (render A) (marks A) b

/-- the marked positions agree exactly -/
def checks : List Bool → List Char → List Char → Bool
  | e :: m, x :: a, y :: b => (if e then decide (x = y) else true) && checks m a b
  | _, _, _ => true

/-! ## the seeded shape: the backslash case in front of the escaped case -/

def stepSwapped (st : St) (x y : Char) : Option St :=
  match st.quote with
  | none => if x = '\'' ∨ x = '`' then some ⟨some x, st.escaped⟩ else some st
  | some q =>
    if q = '\'' ∧ x ≠ y then none
    else if x = '\\' then some ⟨some q, true⟩
    else if st.escaped then some ⟨some q, false⟩
    else if x = q then some ⟨none, st.escaped⟩
    else some st

def scanSwapped : St → List Char → List Char → Bool
  | _, [], _ => true
  | _, _ :: _, [] => true
  | st, x :: a, y :: b =>
    match stepSwapped st x y with
    | none => false
    | some st' => scanSwapped st' a b

def equalFieldIdentifiersSwapped (feq : Char → Char → Bool) (a b : List Char) : Bool :=
  if a = b then true
  else if !foldEq feq a b then false
  else if a.length ≠ b.length then true
  else scanSwapped St.init a b

/-- ASCII case folding (for the concrete witnesses) -/
def asciiFold (x y : Char) : Bool :=
  x = y || (x.isAlpha && y.isAlpha && x.toLower = y.toLower)

/-! ## parsing a text back into pieces (driver: is the printer's output inside the grammar?) -/

/-- split a printed text into pieces: outside quotes up to the next ' or `; inside up to the closing quote, a
    backslash taking the next rune with it.  `none` = a quote that is never closed. -/
def splitQuoted (q : Char) : Nat → List Char → List Char → Option (List Char × List Char)
  | 0, _, _ => none
  | _ + 1, [], _ => none
  | n + 1, c :: rest, acc =>
    if c = '\\' then
      match rest with
      | d :: rest' => splitQuoted q n rest' (d :: c :: acc)
      | [] => none
    else if c = q then some (acc.reverse, rest)
    else splitQuoted q n rest (c :: acc)

/-- the raw (still escaped) pieces: (kind, text) with kind 0 = outside, 1 = '…', 2 = `…` -/
def pieces : Nat → List Char → List Char → Option (List (Nat × List Char))
  | 0, _, _ => none
  | _ + 1, [], acc => some (if acc.isEmpty then [] else [(0, acc.reverse)])
  | n + 1, c :: rest, acc =>
    if c = '\'' ∨ c = '`' then
      match splitQuoted c (rest.length + 1) rest [] with
      | none => none
      | some (body, rest') =>
        match pieces n rest' [] with
        | none => none
        | some more => some ((if acc.isEmpty then [] else [(0, acc.reverse)]) ++ (if c = '\'' then 1 else 2, body) :: more)
    else pieces n rest (c :: acc)

end Csvq.ColIdent
