/-
  Csvq.Model.Encoding — character encodings as csvq uses them through go-text `GetTransformWriter` /
  `GetTransformDecoder` (core Lean only).  Texts are lists of characters (Unicode scalar values), files are
  lists of bytes (`Nat`, < 256).

  * `Codec`: an abstract encoder / decoder pair.  `enc s = none`: the encoding cannot spell `s` (the writer
    refuses: golang.org/x/text reports "rune not supported by encoding"); `dec b = none`: the decoder
    reports an error.  `Codec.Sound`: whatever is written decodes to the text that was written.  The
    round-trip theorems of Csvq.Props.C02 are stated over any sound codec; Shift_JIS stays such an
    abstract pair (the tables of x/text/encoding/japanese are not modelled).
  * real models:
      UTF-8            golang.org/x/text/encoding/unicode `UTF8` — decoder: every maximal well-formed beginning
                       of an ill-formed sequence becomes one U+FFFD (the W3C way, as `utf8Decoder.Transform`);
      UTF-8 with BOM   writer `UTF8MEncoder` (EF BB BF first), decoder `BOMOverride(UTF8)`: a UTF-8 BOM is
                       dropped, a UTF-16 BOM switches to that UTF-16 decoder (after a UTF-8 BOM the real
                       transformer copies the bytes unchecked; the model decodes them like UTF-8 — the same
                       for every well-formed text);
      UTF-16 BE / LE   `unicode.UTF16(endianness, policy)`: code units, surrogate pairs; writer policy
                       ExpectBOM writes FE FF / FF FE first, IgnoreBOM nothing; decoder policies IgnoreBOM
                       (UTF16BE, UTF16LE: a BOM is the character U+FEFF), ExpectBOM (UTF16BEM, UTF16LEM:
                       "missing byte order mark" when absent), UseBOM (UTF16: the BOM decides, big endian
                       without); a surrogate that is not the first half of a pair, and a trailing single
                       byte, become U+FFFD — exactly as `utf16Decoder.Transform` of x/text v0.8.0 does it
                       (a surrogate followed by a second-half surrogate always takes both units).
-/
namespace Csvq.Enc

structure Codec where
  enc : List Char → Option (List Nat)
  dec : List Nat → Option (List Char)

def Codec.Sound (C : Codec) : Prop := ∀ s b, C.enc s = some b → C.dec b = some s

/-- a codec that spells character by character -/
def encChars (f : Char → Option (List Nat)) : List Char → Option (List Nat)
  | [] => some []
  | c :: cs =>
    match f c, encChars f cs with
    | some a, some b => some (a ++ b)
    | _, _ => none

def repl : Char := Char.ofNat 0xFFFD

/-! ## UTF-8 -/

def utf8Bytes (c : Char) : List Nat :=
  let n := c.toNat
  if n < 0x80 then [n]
  else if n < 0x800 then [0xC0 + n / 64, 0x80 + n % 64]
  else if n < 0x10000 then [0xE0 + n / 4096, 0x80 + n / 64 % 64, 0x80 + n % 64]
  else [0xF0 + n / 262144, 0x80 + n / 4096 % 64, 0x80 + n / 64 % 64, 0x80 + n % 64]

def encodeUtf8 : List Char → List Nat
  | [] => []
  | c :: cs => utf8Bytes c ++ encodeUtf8 cs

def isCont (b : Nat) : Bool := 0x80 ≤ b && b ≤ 0xBF

/-- one step of `utf8Decoder.Transform` at end of input: the character and the number of bytes taken; an
    ill-formed or truncated sequence is ONE U+FFFD for its maximal well-formed beginning (1 to 3 bytes) -/
def decodeRune : List Nat → Char × Nat
  | [] => (repl, 0)
  | b0 :: rest =>
    if b0 < 0x80 then (Char.ofNat b0, 1)
    else if 0xC2 ≤ b0 ∧ b0 ≤ 0xDF then
      match rest with
      | b1 :: _ => if isCont b1 then (Char.ofNat ((b0 - 0xC0) * 64 + (b1 - 0x80)), 2) else (repl, 1)
      | [] => (repl, 1)
    else if 0xE0 ≤ b0 ∧ b0 ≤ 0xEF then
      let lo := if b0 = 0xE0 then 0xA0 else 0x80
      let hi := if b0 = 0xED then 0x9F else 0xBF
      match rest with
      | b1 :: r2 =>
        if lo ≤ b1 ∧ b1 ≤ hi then
          match r2 with
          | b2 :: _ =>
            if isCont b2 then (Char.ofNat ((b0 - 0xE0) * 4096 + (b1 - 0x80) * 64 + (b2 - 0x80)), 3) else (repl, 2)
          | [] => (repl, 2)
        else (repl, 1)
      | [] => (repl, 1)
    else if 0xF0 ≤ b0 ∧ b0 ≤ 0xF4 then
      let lo := if b0 = 0xF0 then 0x90 else 0x80
      let hi := if b0 = 0xF4 then 0x8F else 0xBF
      match rest with
      | b1 :: r2 =>
        if lo ≤ b1 ∧ b1 ≤ hi then
          match r2 with
          | b2 :: r3 =>
            if isCont b2 then
              match r3 with
              | b3 :: _ =>
                if isCont b3 then
                  (Char.ofNat ((b0 - 0xF0) * 262144 + (b1 - 0x80) * 4096 + (b2 - 0x80) * 64 + (b3 - 0x80)), 4)
                else (repl, 3)
              | [] => (repl, 3)
            else (repl, 2)
          | [] => (repl, 2)
        else (repl, 1)
      | [] => (repl, 1)
    else (repl, 1)

/-- the UTF-8 decoder (one character per unit of fuel) -/
def decodeUtf8F : Nat → List Nat → List Char
  | 0, _ => []
  | _, [] => []
  | n + 1, b :: bs =>
    let (c, k) := decodeRune (b :: bs)
    c :: decodeUtf8F n ((b :: bs).drop k)

def decodeUtf8 (b : List Nat) : List Char := decodeUtf8F b.length b

/-! ## UTF-16 -/

inductive Endian | big | little
  deriving DecidableEq, Repr

/-- `utf16.EncodeRune` -/
def utf16Units (c : Char) : List Nat :=
  let n := c.toNat
  if n < 0x10000 then [n] else [0xD800 + (n - 0x10000) / 1024, 0xDC00 + (n - 0x10000) % 1024]

def unitBytes (e : Endian) (u : Nat) : List Nat :=
  match e with
  | .big => [u / 256, u % 256]
  | .little => [u % 256, u / 256]

def unitsBytes (e : Endian) : List Nat → List Nat
  | [] => []
  | u :: us => unitBytes e u ++ unitsBytes e us

def encodeUtf16 (e : Endian) : List Char → List Nat
  | [] => []
  | c :: cs => unitsBytes e (utf16Units c) ++ encodeUtf16 e cs

def bom16 (e : Endian) : List Nat := unitBytes e 0xFEFF

def unitOf (e : Endian) (a b : Nat) : Nat :=
  match e with
  | .big => a * 256 + b
  | .little => b * 256 + a

def isSurrogate (u : Nat) : Bool := 0xD800 ≤ u && u ≤ 0xDFFF
def isHigh (u : Nat) : Bool := 0xD800 ≤ u && u ≤ 0xDBFF
def isLow (u : Nat) : Bool := 0xDC00 ≤ u && u ≤ 0xDFFF

/-- the loop of `utf16Decoder.Transform` at end of input -/
def decodeUtf16F (e : Endian) : Nat → List Nat → List Char
  | 0, _ => []
  | _, [] => []
  | _, [_] => [repl]
  | n + 1, a :: b :: rest =>
    let u := unitOf e a b
    if isSurrogate u then
      match rest with
      | a2 :: b2 :: rest2 =>
        let x := unitOf e a2 b2
        if isLow x then
          (if isHigh u then Char.ofNat (0x10000 + (u - 0xD800) * 1024 + (x - 0xDC00)) else repl)
            :: decodeUtf16F e n rest2
        else repl :: decodeUtf16F e n rest
      | _ => repl :: decodeUtf16F e n rest
    else Char.ofNat u :: decodeUtf16F e n rest

inductive BomPolicy | ignore | use | expect
  deriving DecidableEq, Repr

/-- a UTF-16 byte order mark in front: the byte order it names and what follows -/
def takeBom16 (b : List Nat) : Option (Endian × List Nat) :=
  match b with
  | x :: y :: rest =>
    if x = 0xFE ∧ y = 0xFF then some (.big, rest)
    else if x = 0xFF ∧ y = 0xFE then some (.little, rest)
    else none
  | _ => none

/-- `utf16Decoder`: the byte order mark according to the policy, then the units -/
def decodeUtf16 (e : Endian) (p : BomPolicy) (b : List Nat) : Option (List Char) :=
  match p with
  | .ignore => some (decodeUtf16F e b.length b)
  | .use =>
    match takeBom16 b with
    | some (e', rest) => some (decodeUtf16F e' rest.length rest)
    | none => some (decodeUtf16F e b.length b)
  | .expect =>
    match takeBom16 b with
    | some (e', rest) => some (decodeUtf16F e' rest.length rest)
    | none => none

/-! ## the encodings of go-text -/

inductive Encoding | utf8 | utf8m | utf16 | utf16be | utf16le | utf16bem | utf16lem
  deriving DecidableEq, Repr

def bom8 : List Nat := [0xEF, 0xBB, 0xBF]

/-- `GetTransformWriter` -/
def encode : Encoding → List Char → List Nat
  | .utf8, s => encodeUtf8 s
  | .utf8m, s => bom8 ++ encodeUtf8 s
  | .utf16, s => encodeUtf16 .big s
  | .utf16be, s => encodeUtf16 .big s
  | .utf16le, s => encodeUtf16 .little s
  | .utf16bem, s => bom16 .big ++ encodeUtf16 .big s
  | .utf16lem, s => bom16 .little ++ encodeUtf16 .little s

/-- `GetTransformDecoder` -/
def decode : Encoding → List Nat → Option (List Char)
  | .utf8, b => some (decodeUtf8 b)
  | .utf8m, b =>
    match takeBom16 b with
    | some (e', rest) => some (decodeUtf16F e' rest.length rest)
    | none =>
      match b with
      | x :: y :: z :: rest => if x = 0xEF ∧ y = 0xBB ∧ z = 0xBF then some (decodeUtf8 rest) else some (decodeUtf8 b)
      | _ => some (decodeUtf8 b)
  | .utf16, b => decodeUtf16 .big .use b
  | .utf16be, b => decodeUtf16 .big .ignore b
  | .utf16le, b => decodeUtf16 .little .ignore b
  | .utf16bem, b => decodeUtf16 .big .expect b
  | .utf16lem, b => decodeUtf16 .little .expect b

def codec (e : Encoding) : Codec := ⟨fun s => some (encode e s), decode e⟩

/-- go-text `RuneByteSize`, the `wd` of Csvq.Model.Fixed -/
def runeByteSize (e : Encoding) (c : Char) : Nat :=
  match e with
  | .utf8 | .utf8m => (utf8Bytes c).length
  | _ => 2 * (utf16Units c).length

end Csvq.Enc
